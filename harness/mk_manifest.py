#!/venv/bin/python
"""Writes /verif/MANIFEST.json from the table below (kept in one place so it stays valid)."""
import json, os, collections

VERIF = os.path.dirname(os.path.dirname(os.path.abspath(__file__)))

COMMON_NOTE = ('Trusted base: Lean 4.33 kernel (thorough tier also leanchecker); axioms as printed by `#print axioms` '
               'for every property theorem this run (accepted: propext, Classical.choice, Quot.sound; no native_decide, '
               'no own axioms, no sorry); harness/gen_tables.py (tables regenerated from /repo each run); the '
               'correspondence harness that runs the executable model (xldriver) and the implementation on the same '
               'cases; CPython/numpy/schedula/regex are modelled, not verified. ')

CHECKS = collections.OrderedDict()

CHECKS['C05'] = dict(
    text=('Lean 4 theorems (XL.Props.C05): stretch (a scalar, a single row, a single column stretch; a full array is read in '
          'place), compatible_shapes / dim_rule (numpy broadcasting of shapes), elementwise (for ANY element function of ANY '
          'number of arguments over compatible shapes, element (i,j) of the result is the function of the picked elements), '
          'operator_elementwise (every binary operator), incompatible_iff (the broadcast error exactly on incompatible '
          'shapes), arity_irrelevant (appending any number of ignored scalar arguments gives the same array), '
          'fit_spec_partial + fit_spec_same_shape (a scalar fills, a single row/column repeats, surplus is dropped, unreached '
          'cells get #N/A — for every value whose element count differs from the destination\'s or whose shape equals it), '
          'fit_sizeeq_counterexample (the excluded class: the code refills row-major; known finding fit-sizeeq). The check '
          'evaluates array formulas (operators, IF, IFS, IFERROR, IFNA, ABS, NOT, ISERROR, unary) over all shape classes and '
          'destination shapes through ExcelModel against the Lean model; ~70 element-wise library functions on arrays against '
          'their own scalar results position by position; CONCATENATE / IFS / SWITCH with 1..40 arguments; and '
          'Ranges().push(ref, value).value on ALL source x destination shapes <= 4x4 (ndarray and Array) against the Lean fit '
          'and the stated rule.'),
    design='DESIGN.md §3 C05, §9',
    note=COMMON_NOTE + 'numpy is external (np.vectorize, reshape, broadcasting): mapN/fit model its observable rule. ISERROR at '
         'the top of a formula fills unreached cells with TRUE (TrueArray, Excel pads the argument with #N/A first): modelled '
         '(fillOf). Incompatible shapes raise BroadcastError out of calculate(): outside this property. Fixed by this check: '
         'f30699a (>= 32 arguments), the element-exception repair. Known finding: fit-sizeeq.',
    technique='Lean 4 proof (broadcast map is pointwise for any arity; fit rule) + correspondence on array formulas and on all shape pairs + position-by-position oracle on the implementation')

CHECKS['C06'] = dict(
    text=('Lean 4 theorems over unbounded coordinates and arbitrary area lists for the model of _intersect, _split, '
          'Ranges & : | - simplify/_merge (XL.Props.C06: inter_cells, inter_null, interAreas_cells, range_bounding, '
          'range_error, union_multiplicity, split_inside, split_cells, split_nodup, split_no_phantom, sub_cells, sub_inside, sub_nodup, simplify_cells, '
          'simplify_adds_nothing, simplify_nodup). The model is tied to formulas/ranges.py by running both on all '
          'ordered rectangle pairs of a 4x4 (thorough 5x5) grid plus random multi-area/whole-row/column/multi-sheet '
          'operands; cell sets and the values seen through combined references (also those supplied by whole rows and columns) are checked on the '
          'implementation by brute-force coordinate enumeration. Cells are the positions with row, column >= 1: index 0 is the first index of a whole row / column in the code\'s encoding and the code compares sides after `or 1` (split_cells / sub_cells are stated for those cells, split_inside / sub_inside for all positions).'),
    design='DESIGN.md §3 C06',
    note=COMMON_NOTE + 'Modelled, not proved: value assembly of Ranges.value (checked on the implementation only); '
         'the regular expressions that turn reference text into rectangles (C04).',
    technique='Lean 4 proof of a hand-written model + differential correspondence check against the implementation')

CHECKS['C04'] = dict(
    text=('Lean 4 theorems (XL.Props.C04): column letters <-> numbers are mutually inverse for every natural number '
          'and every upper-case string (col_number_roundtrip, col_letters_roundtrip, col_letters_injective); the '
          'canonical name built from a rectangle reads back to that rectangle and is injective, also with the sheet '
          'id (readBack_name_partial, name_injective_partial, id_injective_partial) for every rectangle that does not '
          'touch the last row/column or is a whole row/column; X:X collapses (single_cell_name); the single-cell fast '
          'path equals the general builder (fast_eq_general); boundary_counterexample proves the collisions of the '
          'excluded class on the model and is replayed on the code as a known finding. The resolution of spellings '
          '($, case, R1C1, relative offsets, sheet prefixes) to numbers is regular-expression matching in the code: '
          'it is tied by running every spelling of every generated rectangle (all 16384 columns, rows at the '
          'boundaries and random) through Range(...).name and Ranges().push and comparing with the model name.'),
    design='DESIGN.md §3 C04',
    note=COMMON_NOTE + 'Grid limits are generated from the source. Modelled, not proved: the reference regular '
         'expressions and schedula DispatchPipe of _range2parts (spelling -> numbers); non-ASCII upper-casing.',
    technique='Lean 4 proof of a hand-written model + differential correspondence check against the implementation')

CHECKS['C19'] = dict(
    text=('Lean 4 theorems (XL.Props.C19) about the scans of MATCH over an abstract key type with the order laws as '
          'hypotheses: match_asc + asc_positions (strictly ascending keys: the position returned is that of the LAST key not '
          'greater than the value, none when there is none — including the code\'s early exits and its "never stop at position '
          '1" rule), match_desc (strictly descending keys), match_exact (the FIRST key passing the equality / wildcard test, any '
          'order), wildcard_rules (* ? and literals), lookup_is_index_of_match, vlookup_beyond (#REF!), index_spec, '
          'countif_is_filter, sumif_selected, sat_same_type; matchPos_exact / matchPos_exact_first / matchPos_exact_none (exact match on the whole key vector: the position holds the first key of the value\'s type that passes the test, #N/A iff none), selected_eq_filter, selected_self, averageIf_none. The model XL.Model.Look follows xmatch, _index, xlookup, '
          'args_parser_hlookup and _xfilter (criterion parsing: operator prefix, wildcards with ~ escapes, number / logical / '
          'error operands; typed comparison; numeric text). The check evaluates MATCH (3 modes, wildcards), INDEX, LOOKUP, '
          'VLOOKUP, HLOOKUP, COUNTIF, SUMIF, AVERAGEIF through compiled formulas on generated vectors/tables (sorted for the '
          'approximate modes, mixed with duplicates for exact) and compares every result with the Lean model and with '
          'brute-force search definitions written independently.'),
    design='DESIGN.md §3 C19, §9',
    note=COMMON_NOTE + 'The order laws (KeyLaws) are hypotheses, shown satisfiable for Int; that finite doubles, Python strings and '
         'logicals satisfy them is assumed. Not generated: date texts as criterion operands, error values inside tested ranges, '
         'INDEX on references with areas / row 0 / column 0, non-ASCII text (String.toUpper is ASCII). Fixed by this check: '
         '4720e73 (wildcards, letter case, cached comparison of TRUE and 1).',
    technique='Lean 4 proof (what the three MATCH scans return on sorted / arbitrary keys; criteria as filters) + correspondence with the executable model + brute-force search oracle on the implementation')

CHECKS['C20'] = dict(
    text=('Lean 4 theorems (XL.Props.C20) for every input, not by enumeration: date_roundtrip — DATE(YEAR,MONTH,DAY) '
          'of every serial 0..2958465 is the serial (civil-from-days/days-from-civil proved inverse for all day '
          'numbers by omega, the Excel layer with the fictitious 1900-02-29 and day 0 unfolded on top); '
          'date_special, date_out_of_range; weekday_succ / weekday_succ_mode3 / weekday_bad_mode for all serials and '
          'all 10 modes; x2dec_dec2x for every integer of the two\'s-complement range of each base, with the masks '
          'generated from the source (masks); x2dec_dec2xP / dec2xP_negative — whatever places adds is read back as the same number, a negative number keeps its ten digits; dec2x_out_of_range; roman_arabic for all 4000 x 5 arguments by kernel '
          'evaluation (decide +kernel) over the numeral tables generated from the source. The model is compared with '
          'the implementation on boundary and random serials (thorough: every serial on 16 workers), overflowing DATE '
          'arguments, all binary values, sampled octal/hex values (with places -1..11, as numbers and as the 1x1 arrays a cell reference delivers), malformed digit strings and all ROMAN arguments; '
          'dates are additionally compared with CPython datetime. TIME/HOUR/MINUTE/SECOND: time_roundtrip_exact / time_roundtrip_overflow / time_wraps '
          'prove the inversion for every second of the day (and for overflowing components) of the exact-rational model of xtime/_n2time (hmsOfTime, common denominator 864e8, omega); '
          'the floating-point code is enumerated (every 7th second quick, all 86400 thorough, plus random overflowing components) and compared with that model (command hms) - the enumeration is a test, not a proof.'),
    design='DESIGN.md §3 C20',
    note=COMMON_NOTE + 'datetime/calendar are external: modelled by a concrete proleptic-Gregorian pair and tied by '
         'correspondence. The TIME sub-claim is proved for exact rationals only; IEEE rounding of the real code is enumerated, not proved. Python recursion depth of _date is '
         'modelled by a fuel constant (overflowing days beyond ~900 months are #VALUE! in both).',
    technique='Lean 4 proof (omega, induction, decide +kernel over generated tables) + differential correspondence check')

CHECKS['C02'] = dict(
    text=('Lean 4 theorems (XL.Props.C02) for every number type F with the operations of the model (the double of the '
          'implementation is one instance; Int instantiates the laws with proofs): left-most error wins for all 15 '
          'operators (arith/cmp/concat/unary_error_*), coercion of numbers, logicals, blanks and numeric text '
          '(arith_coercion, coercion_table), other text gives #VALUE! (arith_text_value), division by zero #DIV/0! '
          '(div_by_zero), 0^0 and 0^negative (pow_zero), non-finite/non-real results #NUM! (nonfinite_is_num), every '
          'result is one well-formed value (result_wellformed, unary/cmp/concat_wellformed), & joins the display forms '
          '(concat_spec, display_table), numbers < text < logicals and the six comparisons are the six relations of one '
          'total order (cmp_rank, cmp_trichotomy, cmp_six, cmp_le_not_gt, cmp_lt_irrefl, cmp_lt_trans, cmp_blank), '
          'unary_spec. The model with F := Float is compared bit-exactly with OPERATORS[op] on the complete '
          'cross-product of a 66-value operand pool x 15 operators, on random finite doubles and through compiled '
          'formulas with cell inputs and with literals; the rules are also evaluated directly on the implementation.'),
    design='DESIGN.md §3 C02',
    note=COMMON_NOTE + 'IEEE-754 arithmetic is not modelled in the kernel: theorems are parametric in the number type '
         'and the order laws (LawfulNum) are hypotheses; "finite doubles satisfy LawfulNum" and "Lean Float = CPython '
         'float on + - * / pow" are trusted and exercised bit-exactly by the correspondence. Text upper-casing is ASCII '
         'in the model.',
    technique='Lean 4 proof parametric in the number type + bit-exact differential correspondence check')

CHECKS['C01'] = dict(
    text=('Lean 4 theorems (XL.Props.C01) about the model of the tokeniser and shunting-yard instantiated with the '
          'precedence/arity tables generated from the source: prec_chain and arities (the binding strengths are the '
          'ones the property lists); pairs_grouping (all 144 ordered operator pairs in both parenthesisations, on the '
          'text) and triples_grouping (all 1728 ordered triples, on the token stream) by kernel evaluation — the '
          'exhaustive part of the property\'s own quantifier; sign_and_percent, empty_arguments_keep_position, '
          'array_rows, ragged_rejected, spelling_instances (instances, labelled as such); signrun_counterexample '
          '(the pinned code folds sign runs: known finding). Unbounded size and depth, token level: '
          'any_spelling_parses — EVERY token spelling of EVERY tree over binary operators, signs, %, calls (any '
          'number of arguments, empty ones included) with parentheses at least where precedence and left-to-right '
          'grouping need them, and any redundant ones, is read back as that tree (induction on the spelling, '
          'XL.Proofs.ParseMin.parse_spelling); minimal_spelling_parses (fewest parentheses), spelling_unambiguous, '
          'groups_left_to_right, stronger_binds_first, sign_binds_strongest, empty_argument_positions, '
          'parse_fully_parenthesised, extra_parentheses_transparent/_inside. Character level: compact_text_parses — '
          'for EVERY well-formed compact tree (unsigned integers, cell names, plain string literals, the twelve binary '
          'operators, signs, %, calls) the parser model — tokeniser loop with its ten filters and the shunting-yard '
          'they drive — reads the text without blanks and with the necessary parentheses back as the tree '
          '(XL.Proofs.LexText/LexTree: each filter cuts off exactly the next token); tokens_to_text; blanks_between_tokens — the same with any numbers of blanks wherever the tokeniser admits them (XL.Proofs.LexBlanks: GapsOK, safeG_of, lexLoop_textG). Other '
          'literal forms, names, arrays and range operators are not covered by a theorem (DESIGN '
          '§9.2): pairs/triples cover the operator vocabulary on the text and the correspondence the rest. The model is '
          'compared with Parser().ast on every generated spelling (exhaustive pairs/triples, random trees to depth 5 '
          'in minimal and decorated spellings); the rendering of the parsed tree is compared with the rendering of the '
          'generating tree (independent oracle) and compiled formulas are evaluated against their trees; random compact '
          'trees are printed by the model (driver command ctext) and the implementation must read the text as the tree.'),
    design='DESIGN.md §3 C01',
    note=COMMON_NOTE + 'The regular expressions of the tokeniser are modelled for the lexeme alphabet of DESIGN §3 '
         'C18 only (inputs outside it are answered out-of-domain by the model and reach the direct oracle only). '
         'Letter case of TRUE/FALSE in the rendering is ignored by the oracle.',
    technique='Lean 4 proof (induction over trees for the parenthesised spelling; kernel-checked exhaustive operator theorems over generated tables) + differential correspondence check')

CHECKS['C18'] = dict(
    text=('Lean 4 theorems (XL.Props.C18): no_escape — for EVERY string, the model of Parser.ast never produces an '
          'exception other than the formula-syntax error (every KeyError/IndexError/endless-loop possibility of the '
          'Python path is an explicit escape result, shown unreachable by a stack invariant); dichotomy; lex_progress '
          '(each tokeniser iteration consumes a character: the termination argument); operator_table_complete and '
          'filter_order on the generated tables; missing_left_operand_rejected (in EVERY state that expects an operand an '
          'operator that can only be binary, or %, ends parsing with the syntax error whatever follows); '
          'malformed_rejected and numeric_literals (instances). The model is '
          'compared with Parser().ast (accept/reject and tree) on token soups, random printable strings, single-edit '
          'mutations and constructed malformed classes; on ALL of these strings (also outside the model alphabet) the '
          'implementation itself must return or raise FormulaError within 10 s, reject the malformed classes and '
          'accept numeric literals with their value; an oracle that does not use the parser model rejects every text '
          'in which a binary-only operator or % stands where no operand has ended.'),
    design='DESIGN.md §3 C18',
    note=COMMON_NOTE + 'The `regex` engine and the reference regular expressions are modelled for the lexeme alphabet '
         'only; termination of the Python loop is observed by time-out, the theorem is about the model.',
    technique='Lean 4 invariant proof over all inputs + differential correspondence check + direct totality oracle')

CHECKS['C03'] = dict(
    text=('Lean 4 theorems (XL.Props.C03) about the workbook model XL.Model.Book (constants, formulas, array formulas with '
          'spill, defined names, blanks; formulas evaluated by XL.Model.Eval over the operator model of C02 and the array '
          'model of C05): value_fixpoint (every cell satisfies its own equation), value_unique (the fixed point is '
          'unique), value_fuel_irrelevant, value_order_independent (any permutation of an unambiguous cell list gives '
          'the same values), formula_reads_only_its_references (locality of evaluation), blank_and_constant; a concrete '
          'acyclic workbook meets the hypotheses (exBook_acyclic). The model is compared cell by cell with '
          'ExcelModel.from_dict(...).calculate() on random acyclic multi-sheet/multi-book workbooks; the '
          'implementation is additionally run in permuted insertion orders, through .xlsx files (all books loaded, and '
          'each book loaded alone with finish() bringing in the others) and under several PYTHONHASHSEED values, and '
          'all results must coincide; array formulas whose result has another shape than their range (every pair of small shapes) and constants of extreme magnitude are part of the workbooks. Known finding: cross-book-name.'),
    design='DESIGN.md §3 C03',
    note=COMMON_NOTE + 'schedula (dispatch order, shrink), numpy and openpyxl are external: the model evaluates a workbook '
         'by recursion on its references. Hash-seed independence and the equivalence of the file and dictionary paths '
         'have no counterpart in a pure model and are observed on the implementation only. The function vocabulary of '
         'the generated workbooks is the one XL.Model.Eval covers.',
    technique='Lean 4 proof of a hand-written workbook model + differential correspondence check')

CHECKS['C07'] = dict(
    text=('Lean 4 theorems (XL.Props.C07) on the workbook model: override_is_constant (an overridden cell holds the '
          'supplied value, its formula is not evaluated), dependents_recomputed (with an override the calculated values '
          'satisfy the equations in which the overridden address is that constant; overriding preserves acyclicity), '
          'independent_unchanged (cells that do not reach the overridden address keep their values), '
          'range_override_cell (a value supplied through a range is distributed to its cells). The model is a pure '
          'function of (workbook, inputs), so history independence holds of it by construction; the check supplies '
          'override sets over constants, formula cells, blanks, multi-cell ranges and reference-valued names to a live '
          'ExcelModel after random histories of calculate/compile/to_dict/write/deepcopy, to a freshly built model and '
          'to the Lean model, and compares every cell; restricted output lists must return the same values; values supplied through a range or name must give what the same values supplied cell by cell give (ranges over formula cells and over cells supplied on their own included).'),
    design='DESIGN.md §3 C07',
    note=COMMON_NOTE + 'The history-independence half of the property is about mutable state of the Python objects: it is '
         'observed (live vs fresh model), not proved; so is the last solution of the model after compile / to_dict / deepcopy. Known findings range-override-all-blank-range and outputs-restricted-unlisted-blanks (from_dict models whose ranges consist of unlisted blank cells).',
    technique='Lean 4 proof on the workbook model + differential correspondence (live model after history vs fresh model vs Lean model)')

CHECKS['C08'] = dict(
    text=('Lean 4 theorems (XL.Props.C08): compile_sound — evaluating with a table of frozen pre-evaluated values, whose '
          'entries are cells independent of the inputs, equals the full calculation with the arguments as inputs, for '
          'EVERY argument tuple (no hypothesis on the arguments: branch, error and shape changes included); '
          'independent_of_arguments; compileFormula_sound — a compiled formula equals the same formula with the argument '
          'values written in as literals (substitution lemma over the whole expression type); compileFormula_inputs. '
          'The check compares ExcelModel.compile(ins, outs)(*args) with calculate(inputs=...) and with the Lean model on '
          'random workbooks, node lists and argument tuples of every kind, and compiled single formulas with their '
          'literal-substituted form.'),
    design='DESIGN.md §3 C08',
    note=COMMON_NOTE + 'schedula shrink_dsp / get_sub_dsp_from_workflow / DispatchPipe are external: the model states what '
         'freezing must satisfy (entries independent of the inputs) and the correspondence checks the implementation '
         'against calculate() and the model. Volatile cells are the subject of C13; C08 only checks relations between the '
         'outputs of one call when a volatile cell is among the precedents. Known findings: compile-unlisted-blank-input, compile-range-over-unlisted-blanks.',
    technique='Lean 4 proof (freezing lemma, substitution lemma) + differential correspondence')

CHECKS['C09'] = dict(
    text=('Lean 4 theorems (XL.Props.C09): quote_roundtrip (doubling then un-doubling quotes is the identity on every '
          'text), strBody_doubleQ / escaped_text_token (for EVERY text, the escaped export ="..." is read by the '
          'tokeniser as exactly one string literal whose body is the doubled text) — the part of the export that had '
          'the defects repaired by a fix: commit; export_reparse_instances (kernel-checked instances of "exported '
          'text parses back to itself"); export_reparses — for EVERY canonical tree the exported (fully parenthesised) '
          'token list parses back to the tree, any depth; export_text_reparses / export_text_fixed_point — the same ON THE CHARACTERS: for every render-stable tree the parser model (tokeniser loop with blanks, ten filters, shunting-yard) reads "=" followed by the exported text back as the tree (XL.Proofs.LexBlanks; driver command rtext: the implementation must re-export exactly that text); export_text_any_blanks — the same for every placement of blanks the tokeniser admits (GapsOK), of which the one render writes is an instance; signrun_export_counterexample (known finding); '
          'blank_listing_schedule_independent / _order_independent / _fixed_point — the cells exported as #EMPTY are '
          'the least stable listing of range assembly whatever the schedule, and a second export lists nothing new '
          '(XL.Proofs.Blanks; the model closure is compared with _assemble_ranges on random range sets). The check runs json.dumps(to_dict()) -> from_dict -> calculate -> to_dict '
          'on random workbooks and on hand-built .xlsx workbooks with tricky constants, sheet names that need '
          'quoting, array formulas, names and unresolved items (values of every node equal, second export equal to '
          'the first) and re-parses the exported text of every generated formula tree.'),
    design='DESIGN.md §3 C09',
    note=COMMON_NOTE + 'to_dict/from_dict are the identity on the workbook model apart from the textual encodings; json, '
         'openpyxl and the dispatcher are external. Known findings: sign-run, double-percent, newline-join (export-blank-listing was repaired, its witness stays as a regression input).',
    technique='Lean 4 proof of the escape encoding for all texts + round-trip oracle on the implementation + correspondence of re-parsing')

CHECKS['C10'] = dict(
    text=('Lean 4 theorems (XL.Props.C10). Cycle analysis: cycles_sound, cycles_complete, cycles_nodup — the specification '
          'enumerator lists exactly the elementary cycles of EVERY finite digraph, each once; formulas.excel.cycle.simple_cycles '
          '(Johnson/Tarjan, blocking sets not modelled) is compared with it and with a brute-force enumeration on all digraphs '
          'with <= 3 (quick) / <= 4 (thorough) vertices and random ones up to 9, under several labelings and dictionary orders. '
          'Workbooks: XL.solved is the workbook solve_circular leaves behind for given cuts and marks; marked_is_circ, '
          'circ_propagates, circ_interceptable; isolated_unchanged / isolated_without_cyclic_cells (a cell that cannot reach a '
          'mark or a cut formula has the value of the original workbook and of the workbook without the cyclic cells, at '
          'every evaluation depth); if_unselected_else/then, cut_invisible, resolved_value_is_original (a cut inside branches '
          'of IF/IFERROR/IFNA that are not selected is invisible: the reported ordinary value is the value of the ORIGINAL '
          'formula on the reported values). The decision procedure choosing cuts and marks is not modelled: the check reads '
          'them off the dispatcher, compares every value with XL.solved, and applies oracles on random cyclic workbooks '
          '(cells, ranges, names, guarded/unguarded back edges, every kind of guard value): termination (time-out), isolation '
          'against the implementation on the workbook without the cyclic cells, cells on a cycle through selected branches '
          'are errors, cells that close no such cycle have the Lean value of the selected-branch workbook, every ordinary '
          'value satisfies its original formula (Lean), independence of cell order and PYTHONHASHSEED.'),
    design='DESIGN.md §3 C10, §9',
    note=COMMON_NOTE + 'Trusted/unmodelled: the dispatcher (distances of default values decide whether a marked node takes #CIRC! '
         'or its own formula fires first: the check treats marked nodes that report #CIRC! as marked), the choice of cuts and '
         'marks, the pruning of unselected branches done by the harness from condition values the Lean model computes. '
         'IFS is modelled and checked by correspondence; the unselected-branch theorems cover IF, IFERROR, IFNA. '
         'Known finding: range-on-other-cycle. Fixed by this check: d5be84e (cell-order dependence), 04f07a2.',
    technique='Lean 4 proof (cycle enumeration: sound, complete, duplicate-free; solved workbook: marking, isolation, unselected-branch invariance) + correspondence with XL.solved + graph oracles on the implementation')

CHECKS['C14'] = dict(
    text=('Lean 4 theorems (XL.Props.C14): unknown_function / unknown_function_cell (a formula with an unimplemented '
          'function evaluates to #NAME? in every cell it fills, whatever the arguments), undefined_name (#REF!), '
          'fault_local (changing how one address is defined leaves every cell that does not depend on it unchanged — '
          'an instance of the locality theorem of the workbook model), fault_interceptable (IFERROR/ISERROR see an '
          'ordinary error value). The check injects faults (unknown function, _xlfn. function, absent sheet, absent or '
          'unreadable workbook file, undefined name, #REF! literal, reference to a deleted sheet #REF!A1) at random formula cells of random workbooks, '
          'loads them from .xlsx files and from a dictionary (finish() included), requires that nothing raises, '
          'compares every cell with the Lean model and every unaffected cell with the fault-free twin workbook, and '
          'probes the faulty cells with IFERROR/ISERROR.'),
    design='DESIGN.md §3 C14',
    note=COMMON_NOTE + 'File-system faults (deleted/corrupt files) and openpyxl are external: exercised by the harness, '
         'not modelled; in the model a missing sheet/book reference is a #REF! value.',
    technique='Lean 4 proof (locality on the workbook model) + fault injection with differential correspondence')

CHECKS['C15'] = dict(
    text=('Lean 4 theorems (XL.Props.C15): sub_model_equals_full — a model that keeps every definition relevant to an '
          'address reachable from an output (the cell there or an array formula spilling over it) gives the output the '
          'same value as the full model, for every workbook, keep-set and depth; closed_mono, sub_models_agree, union_of_outputs (every choice of outputs gives the same values); restrict_all and restrict_idempotent '
          '(completing a complete model changes nothing). The check writes random multi-sheet workbooks with names, '
          'array formulas and whole-column references to .xlsx, compares from_ranges(*outs).finish().calculate() with '
          'loads(file).finish().calculate() on every requested output (cells and rectangles), the full model with the '
          'Lean model, and re-finishes every partial model (same nodes, same values).'),
    design='DESIGN.md §3 C15',
    note=COMMON_NOTE + 'The work-list of complete() (openpyxl sheet scans, file lookup and caching) is external: the theorem '
         'states what the closure must contain, the check observes that the implementation achieves it. Cross-workbook '
         'external links in .xlsx are not generated.',
    technique='Lean 4 proof (evaluation locality on the workbook model) + partial-vs-full differential check')

CHECKS['C11'] = dict(
    text=('Lean 4 theorems (XL.Props.C11): table_classified / no_stale_names / classes_disjoint — every name of the '
          'implementation\'s function table (regenerated from /repo on every run) is in exactly one of the hand-written classes '
          'modelled / structural / swept, so a function added to the library breaks the build of the property until it is '
          'classified; lift_only_broadcast (the element-wise combinator can only fail with the broadcast error); num1_error, '
          'num2_error_left/right, num1_text, agg_error, agg_error_result, text_error, concat_error, textjoin_error, xor_error, '
          'switch_error (the first error of the consumed arguments is the result); is_answers_logical, count_answers_number, '
          'iferror_replaces (the documented exemptions). In the model a value is an Excel value by typing. For the swept class '
          '(about 100 functions: financial, distributions, date parts, formats, matrices) only the enumeration below applies '
          '(partial). The check calls EVERY name of the table with 0..4 arguments over values of every kind (numbers, text, '
          'logicals, blank references, #N/A, #DIV/0!, row/column/matrix arrays with mixed content), directly and through '
          'compiled formulas: nothing may be raised, results must consist of Excel values (finite numbers), an error in a '
          'consumed argument must give a result containing an error unless the function is in the exemption table.'),
    design='DESIGN.md §3 C11, §9',
    note=COMMON_NOTE + 'Trusted: the hand-written exemption table (harness/checks/c11.py EXEMPT, with reasons) and class lists '
         '(lean/XL/Model/FnClass.lean); admissible argument counts are probed with plain numbers. Known finding: '
         'broadcast-error (incompatible array shapes raise, asserted by the pinned suite). Fixed by this check: non-finite '
         'elements of array results, TRANSPOSE of a scalar error; earlier: 881e95b, f30699a.',
    technique='Lean 4 proof (classification of the regenerated function table; error propagation of the model combinators) + exhaustive-over-names enumeration on the implementation')

CHECKS['C12'] = dict(
    text=('Lean 4 reference definitions (XL.Model.Fn) of the listed functions written from the Excel documentation: logical (IF, IFS, '
          'SWITCH, AND, OR, XOR, NOT, IFERROR, IFNA), information (IS... family, ISODD, ISEVEN), aggregation (SUM, PRODUCT, SUMSQ, '
          'SUMPRODUCT (referenced arrays and typed numbers; directly typed text / logicals are outside the generated domain), AVERAGE, MIN, MAX, COUNT, COUNTA, COUNTBLANK, MEDIAN, VAR/STDEV families, LARGE, SMALL), element-wise mathematics (ABS, '
          'INT, SIGN, SQRT, EXP, LN, LOG, LOG10, POWER, MOD, ROUND, ROUNDUP, ROUNDDOWN, TRUNC, CEILING, FLOOR, EVEN, ODD, '
          'trigonometry; rounding on the exact decimal of the shortest text of the double) and text (LEN, LEFT, RIGHT, MID, UPPER, '
          'LOWER, TRIM, CONCAT, CONCATENATE, FIND, SEARCH, REPLACE, SUBSTITUTE, TEXTJOIN, VALUE). Theorems (XL.Props.C12): '
          'is_partition / is_relations; agg_direct / agg_in_range / agg_error (referenced vs typed arguments); sum_perm, '
          'product_perm, count_perm (order invariance for commutative associative arithmetic); round_nearest, roundup_away, '
          'rounddown_toward, round_neg, round_1005 (decimal rounding); ceiling_multiple, floor_multiple, even_spec, odd_spec; '
          'switch_first, xor_parity; left_mid_split, len_concat, replace_all, replace_nothing, find_sound. The check evaluates '
          'every function through compiled formulas on generated argument tuples (typed directly / ranges of every shape, '
          'numbers incl. 1.15 2.675 1.005 0.3, numeric text, text, logicals, blanks, errors) and compares with the model; '
          'numbers exactly, except transcendental kernels and the variance family (1e-12 relative).'),
    design='DESIGN.md §3 C12, §9',
    note=COMMON_NOTE + 'The reference definitions are the property\'s own subject (the Excel definitions): a disagreement is reported '
         'as a violation with the call as failing input. Trusted: my reading of the documentation; libm vs numpy kernels to '
         '1e-12; the decimal idealisation of rounding. Restricted domains: MOD on integers / halves / quarters (binary '
         'quotients of decimals), ASCII text, LARGE/SMALL with integer k, TEXTJOIN with one delimiter. Fixed by this check: '
         'rounding family, ISNUMBER, SWITCH, numeric text in AVERAGE/MIN/MAX/MEDIAN/VAR/STDEV, SEARCH wildcards, PRODUCT with '
         'FALSE. Known findings: value-formatted-text, logical-text-literal, count-literals.',
    technique='Lean 4 reference definitions with proved laws + differential check of the implementation against the executable definitions')

CHECKS['C13'] = dict(
    text=('Lean 4 theorems (XL.Props.C13): volatile_registered (NOW, TODAY, RAND, RANDBETWEEN carry the COMPILING extra '
          'input in the function table generated from the source), compile_time_value (the model of the compile-time '
          'pre-evaluation never assigns a value to an expression that contains a volatile call, at any depth and argument '
          'position — structural induction over the whole expression type), randbetween_in_range (the integer draw lies '
          'within its bounds for every u in [0,1)). PARTIAL: the wall clock and numpy\'s generator cannot be exhibited in '
          'Lean; "evaluated afresh on every call" and "every dependent sees one value" are observed with the clock and '
          'numpy.random.rand replaced by counters, on formulas with a volatile call at every depth/argument position '
          'and on workbooks obtained by from_dict, .xlsx load, ExcelModel.compile, deepcopy, dill and JSON import.'),
    design='DESIGN.md §3 C13',
    note=COMMON_NOTE + 'Partial: the runtime part (clock, RNG, pickling) is decided on the implementation only.',
    technique='Lean 4 proof on generated tables and the compile-time evaluation model + counter-clock observation of the implementation')

CHECKS['C16'] = dict(
    text=('Lean 4 theorems (XL.Props.C16): write_placement — pairing the row-major enumeration of a rectangle\'s cells with the '
          'row-major enumeration of a value matrix of the same shape puts v[i][j] at (r1+i, c1+j), for every rectangle and '
          'matrix (zip/flatten induction); written_cell, untouched_outside (nothing outside the rectangle is paired); writeCells_untouched / writeCells_solved (all nodes written in sequence, overlapping nodes that agree); '
          'conv_spec (EMPTY and empty text -> empty cell, error -> its text). PARTIAL: openpyxl serialisation, the file '
          'system and case-insensitive book/sheet lookup cannot be reached by Lean; the check writes solutions of random '
          'workbooks (all value kinds, several sheets, array-formula ranges, overridden inputs) into fresh books, into the '
          'loaded books (with extra untouched cells) and to disk, re-reads them with openpyxl and runs compare().'),
    design='DESIGN.md §3 C16',
    note=COMMON_NOTE + 'Partial: files, openpyxl and compare() are exercised on the implementation only; a double written '
         'to disk is compared within 1e-12 relative (openpyxl serialises 16 significant digits).',
    technique='Lean 4 proof of the placement pairing + write/read-back oracle on the implementation')

CHECKS['C17'] = dict(
    text=('Lean 4 theorems (XL.Props.C17) fix the abstract contract only: copy_equivalent and copies_independent (in a '
          'two-handle state machine over the workbook model every observation, after any interleaving of operations on '
          'the two handles, equals the observation on a never-copied twin — induction over the operation list). PARTIAL: '
          'the substance of the property is shared mutable state in CPython (Ranges._value, dispatcher defaults, '
          'lru_caches, the module-level memo of eng.py, dill), which no pure model exhibits; it is decided by the check: '
          'deepcopy and dill copies of models (also circular, also warm) and of compiled functions, random interleavings '
          'of up to 6 operations on original and copy, every observation compared with a never-copied twin.'),
    design='DESIGN.md §3 C17',
    note=COMMON_NOTE + 'Partial claim. Known finding copy-refinish.',
    technique='Lean 4 contract theorem (two-handle state machine) + interleaving test against never-copied twins')

NOT_YET = {
}


def main():
    props = [json.loads(l) for l in open(os.path.join(VERIF, 'properties.jsonl'))]
    checks, na = [], []
    for p in props:
        pid = p['id']
        if pid in CHECKS:
            c = CHECKS[pid]
            checks.append(collections.OrderedDict(
                property_id=pid,
                quick_cmd='bin/check %s --tier quick' % pid,
                thorough_cmd='bin/check %s --tier thorough' % pid,
                evidence_file='evidence/%s.json' % pid,
                replay_cmd_template='bin/check %s --replay {path}' % pid,
                engine='lean4-model-correspondence',
                level_claimed=collections.OrderedDict(category='proof', text=c['text'], design_ref=c['design']),
                level_note=c['note'],
                technique=c['technique']))
        else:
            na.append(collections.OrderedDict(
                property_id=pid,
                reason=NOT_YET.get(pid, 'not claimed yet: the Lean model and correspondence check for this property '
                                        'are not built in the committed state (see DESIGN.md §9 for status); the '
                                        'technique itself applies')))
    m = collections.OrderedDict(
        version=1,
        setup_cmd='bin/setup.sh',
        hooks=collections.OrderedDict(
            guard='FORMULAS_VERIF',
            enable='no hooks are needed: checks import /repo in-process and replace clocks/RNG from the harness',
            baseline_off_cmd='cd /repo && /venv/bin/python -m pytest -ra -q -p no:cacheprovider --timeout=900 '
                             '--continue-on-collection-errors',
            source_commits=[],
            add_only=True),
        engines=[collections.OrderedDict(
            name='lean4-model-correspondence', path='lean/ + harness/',
            serves_properties=[c['property_id'] for c in checks],
            kind_free_text='Lean 4 model (lean/XL/Model), theorems (lean/XL/Props), tables regenerated from /repo '
                           '(harness/gen_tables.py), executable model driver (xldriver) compared with the '
                           'implementation by harness/vcheck.py')],
        checks=checks,
        notes='See DESIGN.md. Repaired defects and known findings: known_findings.json.',
        not_applicable=na)
    json.dump(m, open(os.path.join(VERIF, 'MANIFEST.json'), 'w'), indent=1)
    print('MANIFEST.json: %d checks, %d not claimed' % (len(checks), len(na)))


if __name__ == '__main__':
    main()
