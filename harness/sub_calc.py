"""subprocess helper: read {"dict": {...}, "keys": [...]} (or {"batch": [such requests]}) from stdin, build the model with from_dict under the
PYTHONHASHSEED of the environment, calculate, print {key: [[wire, ...], ...]} as JSON."""
import sys, os, json, warnings
warnings.simplefilter('ignore')
sys.path.insert(0, os.path.dirname(os.path.abspath(__file__)))
import common
common.import_repo()
import numpy as np
import bookrun
bookrun.setup()
def one(req):
    m = bookrun.ExcelModel().from_dict(req['dict'])
    if req.get('circular'):
        m.finish(complete=False, circular=True)
    sol = m.calculate()
    out = {}
    for k in req['keys']:
        v = sol.get(k)
        try:
            a = np.asarray(getattr(v, 'value', v), object)
            a = a.reshape(1, 1) if a.ndim == 0 else a
            out[k] = [[bookrun.wire_impl(x) for x in row] for row in a.tolist()]
        except Exception as ex:
            out[k] = 'missing:' + type(ex).__name__
    return out


req = json.load(sys.stdin)
if 'batch' in req:
    # {"batch": [request, ...]} -> [answer or {"raised": name}, ...]
    res = []
    for r in req['batch']:
        try:
            res.append(one(r))
        except Exception as ex:
            res.append({'raised': type(ex).__name__})
    json.dump(res, sys.stdout)
else:
    json.dump(one(req), sys.stdout)
