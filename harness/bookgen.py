"""Random acyclic workbooks for the workbook-level checks (C03, C07, C08, C09, C13-C17).

A workbook is kept abstractly (cells -> constant | formula tree | array formula; names -> tree) and
rendered three ways: the dictionary `ExcelModel.from_dict` takes (fully qualified references), .xlsx
files written with openpyxl, and the prefix wire form the Lean model (`XL.Model.BookProto`) reads.

Expression trees:
  ('lit', v)  ('empty',)  ('ref', (sheet, r1, r2, c1, c2))  ('name', NAME)
  ('bin', op, l, r)  ('un', op, x)  ('call', FUNC, [args])  ('arr', [[v, ...], ...])
`sheet` is a global index into `wb.sheets` = [(book, sheetname), ...]; whole columns use r1=0, r2=MAXROW.
"""
import math, struct, collections

MAXROW, MAXCOL = 1048576, 16384
BIN = {'+': 'add', '-': 'sub', '*': 'mul', '/': 'div', '^': 'pow', '&': 'cat', '=': 'eq', '<>': 'ne', '<': 'lt', '>': 'gt',
       '<=': 'le', '>=': 'ge'}
UN = {'-': 'minus', '+': 'plus', '%': 'percent'}


def col_letters(n):
    s = ''
    while n > 0:
        n, r = divmod(n - 1, 26)
        s = chr(65 + r) + s
    return s


def enc(s):
    return 'u' + '.'.join(str(ord(c)) for c in s)


def dec(s):
    return ''.join(chr(int(x)) for x in s[1:].split('.')) if len(s) > 1 else ''


class Err(str):
    """an Excel error literal in an abstract workbook (the harness maps it to the library's XlError)"""


class Blank:
    def __repr__(self):
        return 'BLANK'


BLANK = Blank()


def wire_val(v):
    if v is BLANK or v is None:
        return '_'
    if isinstance(v, Err):
        return 'x' + str(v)
    if isinstance(v, bool):
        return 'b1' if v else 'b0'
    if isinstance(v, str):
        return 't' + enc(v)
    return 'n%x' % struct.unpack('<Q', struct.pack('<d', float(v)))[0]


class WB:
    def __init__(self):
        self.sheets = []            # [(book, sheet)]
        self.cells = collections.OrderedDict()   # (sheet, row, col) -> ('v', val) | ('f', expr) | ('a', R, C, expr)
        self.names = collections.OrderedDict()   # NAME -> (book, expr)

    # ---- identifiers -------------------------------------------------------------------------------
    def sheet_id(self, s):
        book, name = self.sheets[s]
        return "'[%s]%s'" % (book, name.upper())

    def ref_text(self, ref):
        s, r1, r2, c1, c2 = ref
        if r1 == 0 and r2 == MAXROW:
            body = '%s:%s' % (col_letters(c1), col_letters(c2))
        elif (r1, c1) == (r2, c2):
            body = '%s%d' % (col_letters(c1), r1)
        else:
            body = '%s%d:%s%d' % (col_letters(c1), r1, col_letters(c2), r2)
        return body

    def key(self, s, r, c, R=1, C=1):
        return '%s!%s' % (self.sheet_id(s), self.ref_text((s, r, r + R - 1, c, c + C - 1)))

    def name_key(self, name):
        book = self.names[name][0]
        return "'[%s]'!%s" % (book, name.upper())

    # ---- spelling ------------------------------------------------------------------------------------
    def lit_text(self, v):
        if isinstance(v, Err):
            return str(v)
        if isinstance(v, bool):
            return 'TRUE' if v else 'FALSE'
        if isinstance(v, str):
            return '"%s"' % v.replace('"', '""')
        f = float(v)
        if f < 0:
            return '(-%s)' % self.lit_text(-f)
        r = repr(f)
        if 'e' in r:
            m, e = r.split('e')
            return '%sE%+d' % (m, int(e))
        return r[:-2] if r.endswith('.0') else r

    def spell(self, e, qualify, cur_sheet=None, xlsx=False):
        """formula text of a tree; qualify='full' writes '[book]SHEET'!A1 (dictionary path), 'sheet' writes
        Sheet!A1 only where the sheet differs (xlsx path, single book)"""
        k = e[0]
        if k == 'lit':
            return self.lit_text(e[1])
        if k == 'empty':
            return ''
        if k == 'ref':
            body = self.ref_text(e[1])
            if qualify == 'full':
                return '%s!%s' % (self.sheet_id(e[1][0]), body)
            if e[1][0] != cur_sheet:
                book = getattr(self, '_cur_book', None)
                if book is not None and self.sheets[e[1][0]][0] != book:
                    return "'[%s]%s'!%s" % (self.sheets[e[1][0]][0], self.sheets[e[1][0]][1], body)   # another workbook
                return '%s!%s' % (self.sheets[e[1][0]][1], body)
            return body
        if k == 'name':
            book = getattr(self, '_cur_book', None)
            if qualify != 'full' and book is not None and self.names[e[1]][0] != book:
                return "'[%s]'!%s" % (self.names[e[1]][0], e[1])
            return "'[%s]'!%s" % (self.names[e[1]][0], e[1]) if qualify == 'full' else e[1]
        if k == 'bin':
            return '(%s%s%s)' % (self.spell(e[2], qualify, cur_sheet), e[1], self.spell(e[3], qualify, cur_sheet))
        if k == 'un':
            inner = self.spell(e[2], qualify, cur_sheet)
            return '(%s%%)' % inner if e[1] == '%' else '(%s%s)' % (e[1], inner)
        if k == 'call':
            return '%s(%s)' % (e[1], ','.join(self.spell(a, qualify, cur_sheet) for a in e[2]))
        if k == 'raw':
            return e[1] if qualify == 'full' else e[2]
        if k == 'arr':
            return '{' + ';'.join(','.join(self.lit_text(v).strip('()') if not (isinstance(v, (int, float)) and not isinstance(v, bool) and v < 0)
                                           else '-' + self.lit_text(-v) for v in row) for row in e[1]) + '}'
        raise ValueError(e)

    # ---- renderings -------------------------------------------------------------------------------------
    def referenced_blanks(self):
        """unpopulated cells inside any rectangle that some formula or name refers to"""
        pop = set(self.addresses())
        out = []
        exprs = [c[-1] for c in self.cells.values() if c[0] != 'v'] + [e for _, e in self.names.values()]
        for e in exprs:
            for kind, r in self.deps(e):
                if kind == 'ref' and r[1] != 0:
                    for i in range(r[1], r[2] + 1):
                        for j in range(r[3], r[4] + 1):
                            if (r[0], i, j) not in pop and (r[0], i, j) not in out:
                                out.append((r[0], i, j))
        return out

    def to_dict(self, order=None, explicit_blanks=False):
        """input of ExcelModel.from_dict; `order` permutes the insertion order of the entries;
        `explicit_blanks` lists referenced unpopulated cells as '#EMPTY' (as an exported model does)"""
        items = []
        if explicit_blanks:
            for (s, r, c) in self.referenced_blanks():
                items.append((self.key(s, r, c), '#EMPTY'))
        for (s, r, c), cont in self.cells.items():
            if cont[0] == 'v':
                v = cont[1]
                items.append((self.key(s, r, c), str(v) if isinstance(v, Err) else v))
            elif cont[0] == 'f':
                items.append((self.key(s, r, c), '=' + self.spell(cont[1], 'full')))
            else:
                items.append((self.key(s, r, c, cont[1], cont[2]), '=' + self.spell(cont[3], 'full')))
        for n, (book, e) in self.names.items():
            items.append((self.name_key(n), '=' + self.spell(e, 'full')))
        if order is not None:
            items = [items[i] for i in order]
        return collections.OrderedDict(items)

    def to_xlsx(self, dirpath):
        """one .xlsx per book; a reference into another book is written as '[book]Sheet'!A1"""
        import openpyxl, os
        from openpyxl.workbook.defined_name import DefinedName
        from openpyxl.worksheet.formula import ArrayFormula
        books = collections.OrderedDict()
        for i, (b, sh) in enumerate(self.sheets):
            books.setdefault(b, []).append((i, sh))
        paths = []
        for b, shs in books.items():
            self._cur_book = b
            wb = openpyxl.Workbook()
            wb.remove(wb.active)
            wss = {i: wb.create_sheet(sh) for i, sh in shs}
            for (s, r, c), cont in self.cells.items():
                if s not in wss:
                    continue
                cell = wss[s].cell(row=r, column=c)
                if cont[0] == 'v':
                    v = cont[1]
                    cell.value = str(v) if isinstance(v, Err) else v
                    if isinstance(v, Err):
                        cell.data_type = 'e'
                elif cont[0] == 'f':
                    cell.value = '=' + self.spell(cont[1], 'sheet', s)
                else:
                    ref = self.ref_text((s, r, r + cont[1] - 1, c, c + cont[2] - 1))
                    wss[s][col_letters(c) + str(r)] = ArrayFormula(ref, '=' + self.spell(cont[3], 'sheet', s))
            for n, (book, e) in self.names.items():
                if book == b:
                    dn = DefinedName(n, attr_text=self.spell(e, 'sheet', None))
                    try:
                        wb.defined_names[n] = dn
                    except TypeError:
                        wb.defined_names.append(dn)
            p = os.path.join(dirpath, b)
            wb.save(p)
            paths.append(p)
        self._cur_book = None
        return paths

    def wire_expr(self, e):
        k = e[0]
        if k == 'lit':
            return ['L', wire_val(e[1])]
        if k == 'empty':
            return ['E']
        if k == 'ref':
            return ['R'] + [str(x) for x in e[1]]
        if k == 'name':
            return ['N', enc(e[1].upper())]
        if k == 'bin':
            return ['B', BIN[e[1]]] + self.wire_expr(e[2]) + self.wire_expr(e[3])
        if k == 'un':
            return ['U', UN[e[1]]] + self.wire_expr(e[2])
        if k == 'call':
            out = ['C', e[1], str(len(e[2]))]
            for a in e[2]:
                out += self.wire_expr(a)
            return out
        if k == 'raw':
            return list(e[3])
        if k == 'arr':
            return ['A', str(len(e[1])), str(len(e[1][0]))] + [wire_val(v) for row in e[1] for v in row]
        raise ValueError(e)

    def to_wire(self, queries, overrides=(), drop=()):
        """`book ...` request: cells, names, overrides [(s,r,c,val)], then the queried addresses"""
        t = ['book']
        for (s, r, c), cont in self.cells.items():
            if (s, r, c) in drop:
                continue
            t += ['c', str(s), str(r), str(c)]
            if cont[0] == 'v':
                t += ['v', wire_val(cont[1])]
            elif cont[0] == 'f':
                t += ['f'] + self.wire_expr(cont[1])
            else:
                t += ['a', str(cont[1]), str(cont[2])] + self.wire_expr(cont[3])
        for n, (book, e) in self.names.items():
            t += ['n', enc(n.upper())] + self.wire_expr(e)
        for (s, r, c, v) in overrides:
            t += ['o', str(s), str(r), str(c), wire_val(v)]
        t.append('q')
        for (s, r, c) in queries:
            t += [str(s), str(r), str(c)]
        return ' '.join(t)

    def addresses(self):
        """every populated address (array formulas expanded)"""
        out = []
        for (s, r, c), cont in self.cells.items():
            if cont[0] == 'a':
                out += [(s, r + i, c + j) for i in range(cont[1]) for j in range(cont[2])]
            else:
                out.append((s, r, c))
        return out

    def deps(self, e):
        k = e[0]
        if k == 'ref':
            s, r1, r2, c1, c2 = e[1]
            return {('ref', e[1])}
        if k == 'name':
            return {('name', e[1])}
        if k == 'bin':
            return self.deps(e[2]) | self.deps(e[3])
        if k == 'un':
            return self.deps(e[2])
        if k == 'call':
            out = set()
            for a in e[2]:
                out |= self.deps(a)
            return out
        return set()

    def stats(self):
        nf = sum(1 for c in self.cells.values() if c[0] != 'v')
        refs = set()
        for c in self.cells.values():
            if c[0] != 'v':
                refs |= self.deps(c[-1])
        return {'cells': len(self.cells), 'formulas': nf, 'names': len(self.names), 'sheets': len(self.sheets),
                'range_refs': sum(1 for k, r in refs if k == 'ref' and (r[1], r[3]) != (r[2], r[4])),
                'name_refs': sum(1 for k, r in refs if k == 'name'),
                'array_formulas': sum(1 for c in self.cells.values() if c[0] == 'a')}


# ---- generator --------------------------------------------------------------------------------------------------
def gen_value(rnd, kinds='nnnnnntbe'):
    k = rnd.choice(kinds)
    if k == 'n':
        return rnd.choice([0, 1, 2, 3, 4, 5, 7, 10, -1, -3, 0.5, 1.5, 2.5, -0.5, 100, 12])
    if k == 't':
        return rnd.choice(['a', 'bc', 'X', 'abc', '', 'z y'])
    if k == 'b':
        return rnd.choice([True, False])
    return Err(rnd.choice(['#N/A', '#DIV/0!', '#VALUE!']))


def generate(rnd, n_books=1, n_sheets=2, n_const=14, n_formula=12, rows=6, cols=4, names=True, arrays=True,
             whole_col=False, funcs=('SUM', 'MAX', 'MIN', 'IF', 'IFERROR', 'ABS', 'ISERROR', 'AND', 'OR', 'NOT', 'COUNT'),
             value_kinds='nnnnnnnntbe'):
    wb = WB()
    for b in range(n_books):
        for s in range(n_sheets if b == 0 else 1):
            wb.sheets.append(('b%d.xlsx' % (b + 1), 'S%d' % (s + 1)))
    ns = len(wb.sheets)
    free = [(s, r, c) for s in range(ns) for r in range(1, rows + 1) for c in range(1, cols + 1)]
    rnd.shuffle(free)
    # keep one column of sheet 0 free of formulas so that a whole-column reference stays acyclic
    col_reserved = (0, 1)
    for _ in range(n_const):
        a = free.pop()
        v = gen_value(rnd, value_kinds)
        if v == '' and not isinstance(v, Err):
            v = 'q'          # an empty-text constant cannot be stored in a worksheet cell
        wb.cells[a] = ('v', v)
    defined = list(wb.cells)           # addresses a formula may refer to (constants and earlier formulas)
    never = set()                      # addresses referred to as blanks: never populated later
    spill_cells = set()

    def pick_cell():
        if defined and rnd.random() < 0.85:
            return rnd.choice(defined)
        # a blank cell
        cand = [a for a in free if a not in spill_cells]
        if not cand:
            return rnd.choice(defined)
        a = rnd.choice(cand)
        never.add(a)
        return a

    def pick_range(max_cells=6):
        s, r, c = pick_cell()
        for _ in range(20):
            h, w = rnd.choice([(1, 2), (2, 1), (3, 1), (1, 3), (2, 2), (4, 1), (1, 1)])
            r1 = max(1, r - rnd.randint(0, h - 1)); c1 = max(1, c - rnd.randint(0, w - 1))
            r2, c2 = min(rows, r1 + h - 1), min(cols, c1 + w - 1)
            cellset = [(s, i, j) for i in range(r1, r2 + 1) for j in range(c1, c2 + 1)]
            if all((a in wb.cells and a in defined_set()) or (a not in wb.cells and a not in spill_cells) for a in cellset):
                for a in cellset:
                    if a not in wb.cells:
                        never.add(a)
                return (s, r1, r2, c1, c2)
        return (s, r, r, c, c)

    def defined_set():
        return set(defined)

    def scalar(depth):
        k = rnd.random()
        if depth <= 0 or k < 0.25:
            if rnd.random() < 0.45:
                return ('lit', gen_value(rnd, 'nnnnnnntb'))
            s, r, c = pick_cell()
            return ('ref', (s, r, r, c, c))
        if k < 0.45:
            return ('bin', rnd.choice(['+', '-', '*', '/', '+', '-', '*']), scalar(depth - 1), scalar(depth - 1))
        if k < 0.52:
            return ('bin', rnd.choice(['=', '<>', '<', '>', '<=', '>=']), scalar(depth - 1), scalar(depth - 1))
        if k < 0.56:
            return ('bin', '&', scalar(depth - 1), scalar(depth - 1))
        if k < 0.60:
            return ('un', rnd.choice(['-', '-', '%', '+']), scalar(depth - 1))
        if k < 0.64 and wb.names:
            return ('name', rnd.choice(list(wb.names)))
        f = rnd.choice(funcs)
        if f in ('SUM', 'MAX', 'MIN', 'COUNT'):
            args = []
            for _ in range(rnd.randint(1, 3)):
                if rnd.random() < 0.7:
                    args.append(('ref', pick_range()))
                else:
                    args.append(scalar(depth - 1) if rnd.random() < 0.5 else ('lit', gen_value(rnd, 'nnnnb')))
            if f == 'SUM':
                # (AND/OR return a numpy logical, which SUM counts or skips depending on the dtype the other arguments
                #  happen to have - an accident of np.concatenate the model does not reproduce; MAX/MIN/COUNT skip it always)
                args = [('lit', gen_value(rnd, 'nn')) if a_[0] == 'call' and a_[1] in ('AND', 'OR') else a_ for a_ in args]
            return ('call', f, args)
        if f == 'IF':
            cond = ('bin', rnd.choice(['=', '<>', '<', '>', '<=', '>=']), scalar(depth - 1), scalar(depth - 1)) \
                if rnd.random() < 0.8 else scalar(depth - 1)
            return ('call', 'IF', [cond, scalar(depth - 1), scalar(depth - 1)])
        if f == 'IFERROR':
            return ('call', 'IFERROR', [scalar(depth - 1), ('lit', gen_value(rnd, 'nnt'))])
        if f in ('AND', 'OR'):
            return ('call', f, [('bin', rnd.choice(['=', '<', '>']), scalar(depth - 1), scalar(depth - 1))
                                for _ in range(rnd.randint(1, 3))])
        return ('call', f, [scalar(depth - 1)])

    if names:
        for i in range(rnd.randint(1, 2)):
            nm = rnd.choice(['RATE', 'TOTAL_X', 'K.V', 'MYNAME']) + ('' if i == 0 else '2')
            if nm in wb.names:
                continue
            kind = rnd.random()
            if kind < 0.4:
                e = ('ref', pick_range()) if rnd.random() < 0.6 else ('ref', (lambda a: (a[0], a[1], a[1], a[2], a[2]))(pick_cell()))
            elif kind < 0.7:
                e = ('lit', rnd.choice([2, 5, 0.5, 10]))
            else:
                a = pick_cell()
                e = ('bin', rnd.choice('+*'), ('ref', (a[0], a[1], a[1], a[2], a[2])), ('lit', rnd.choice([1, 2, 3])))
            wb.names[nm] = (wb.sheets[0][0], e)
    n_arr = 0
    for i in range(n_formula):
        cand = [a for a in free if a not in never and a not in spill_cells and (a[0], a[2]) != col_reserved]
        if not cand:
            break
        if arrays and n_arr < 3 and rnd.random() < 0.3:
            # an array formula over a free rectangle
            a = rnd.choice(cand)
            R, C = rnd.choice([(2, 1), (3, 1), (1, 2), (2, 2), (1, 3), (2, 2), (2, 3), (1, 2), (3, 1), (1, 3), (3, 2)])
            rect = [(a[0], a[1] + i_, a[2] + j_) for i_ in range(R) for j_ in range(C)]
            if all(x in cand for x in rect) and a[1] + R - 1 <= rows and a[2] + C - 1 <= cols:
                src = None
                for _ in range(20):
                    rg = pick_range()
                    h, w = rg[2] - rg[1] + 1, rg[4] - rg[3] + 1
                    if (h, w) in ((R, C), (R, 1), (1, C), (1, 1)) and not any((rg[0], i_, j_) in rect for i_ in range(rg[1], rg[2] + 1) for j_ in range(rg[3], rg[4] + 1)):
                        src = rg
                        break
                if (src is None and rnd.random() < 0.7) or rnd.random() < 0.35:
                    src = 'const'
                if src == 'const':
                    # a constant array smaller than (or equal to) the destination: folded when the cell is compiled,
                    # the cells it does not reach are filled by the fit rule
                    r0 = 2 if R == 3 and rnd.random() < 0.7 else rnd.randint(1, R)
                    c0 = 2 if C == 3 and rnd.random() < 0.7 else rnd.randint(1, C)
                    rows_ = [[rnd.choice([1, 2, 3, 5, 0.5, 7]) for _ in range(c0)] for _ in range(r0)]
                    e = ('arr', rows_) if rnd.random() < 0.5 else ('call', 'ISERROR', [('bin', '/', ('arr', rows_), ('lit', rnd.choice([0, 1])))])
                    for x in rect:
                        free.remove(x); spill_cells.add(x)
                    wb.cells[a] = ('a', R, C, e)
                    defined.extend(rect)
                    n_arr += 1
                    continue
                if src is not None and rnd.random() < 0.3:
                    # the result is a plain reference (a Ranges value, fitted by Ranges.set_value, not by Array.reshape), of any
                    # shape with another number of cells than the destination (equal sizes: known finding fit-sizeeq)
                    for _ in range(20):
                        rg = pick_range()
                        h, w = rg[2] - rg[1] + 1, rg[4] - rg[3] + 1
                        if h * w != R * C and not any((rg[0], i_, j_) in rect for i_ in range(rg[1], rg[2] + 1) for j_ in range(rg[3], rg[4] + 1)):
                            src = rg
                            break
                    e = ('ref', src)
                    for x in rect:
                        free.remove(x); spill_cells.add(x)
                    wb.cells[a] = ('a', R, C, e)
                    defined.extend(rect)
                    n_arr += 1
                    continue
                if src is not None:
                    e = ('bin', rnd.choice(['+', '*', '-', '>', '&']), ('ref', src), ('lit', rnd.choice([1, 2, 10, 0.5])))
                    if rnd.random() < 0.3:
                        e = ('call', 'IF', [('bin', '>', ('ref', src), ('lit', 1)), ('ref', src), ('lit', 0)])
                    for x in rect:
                        free.remove(x); spill_cells.add(x)
                    wb.cells[a] = ('a', R, C, e)
                    defined.extend(rect)
                    n_arr += 1
                    # a probe reading a part of the spill that does not start at its first row / column
                    hosts = [x for x in free if x not in never and x not in spill_cells and (x[0], x[2]) != col_reserved]
                    if hosts and rnd.random() < 0.8:
                        h = rnd.choice(hosts)
                        i0 = rnd.randint(0, R - 1); j0 = rnd.randint(1 if C > 1 else 0, C - 1)
                        i1 = rnd.randint(i0, R - 1); j1 = rnd.randint(j0, C - 1)
                        sub = (a[0], a[1] + i0, a[1] + i1, a[2] + j0, a[2] + j1)
                        pe = ('ref', sub) if (i0, j0) == (i1, j1) and rnd.random() < 0.5 else ('call', 'SUM', [('ref', sub)])
                        free.remove(h)
                        wb.cells[h] = ('f', ('bin', '+', pe, ('lit', 0)) if pe[0] == 'ref' else pe)
                        defined.append(h)
                    # a probe reading a rectangle that lies partly over the spill (not over its first cell) and partly beyond it
                    hosts = [x for x in free if x not in never and x not in spill_cells and (x[0], x[2]) != col_reserved]
                    if hosts and rnd.random() < 0.6:
                        ext = rnd.randint(1, 2)
                        if R > 1 and (C == 1 or rnd.random() < 0.5):
                            i0 = rnd.randint(1, R - 1); j0 = rnd.randint(0, C - 1)
                            sub = (a[0], a[1] + i0, min(rows, a[1] + R - 1 + ext), a[2] + j0, a[2] + rnd.randint(j0, C - 1))
                        elif C > 1:
                            j0 = rnd.randint(1, C - 1); i0 = rnd.randint(0, R - 1)
                            sub = (a[0], a[1] + i0, a[1] + rnd.randint(i0, R - 1), a[2] + j0, min(cols, a[2] + C - 1 + ext))
                        else:
                            sub = None
                        if sub is not None:
                            h = rnd.choice(hosts)
                            cs = [(sub[0], i, j) for i in range(sub[1], sub[2] + 1) for j in range(sub[3], sub[4] + 1)]
                            ok = h not in cs and all((x in wb.cells and x in defined_set()) or x in rect or (x not in wb.cells and x not in spill_cells) for x in cs)
                            ok = ok and any(x not in rect for x in cs) and (sub[0], sub[3]) != col_reserved and not (sub[3] <= col_reserved[1] <= sub[4] and sub[0] == col_reserved[0])
                            if ok:
                                for x in cs:
                                    if x not in wb.cells and x not in rect:
                                        never.add(x)
                                free.remove(h)
                                wb.cells[h] = ('f', ('call', rnd.choice(['SUM', 'COUNT', 'MAX']), [('ref', sub)]))
                                defined.append(h)
                    continue
        a = rnd.choice(cand)
        free.remove(a)
        spill_cells.add(a)            # the cell being defined must not be referred to (not even as a blank)
        e = scalar(rnd.randint(1, 3))
        spill_cells.discard(a)
        if whole_col and i == n_formula - 1:
            # SUM over the reserved whole column of sheet 0 (all its populated cells are constants)
            e = ('bin', '+', ('call', 'SUM', [('ref', (0, 0, MAXROW, col_reserved[1], col_reserved[1]))]), e)
        wb.cells[a] = ('f', e)
        defined.append(a)
    return wb


def range_template(rnd, solution_reads=True):
    """a small workbook around one range A1:A3 of sheet 0 with 0..3 populated cells, read as single cells, as the
    whole range, as a sub-range and through a defined name: (wb, range, name or None, formula cells)"""
    wb = WB()
    wb.sheets.append(('b1.xlsx', 'S1'))
    wb.has_array = rnd.random() < 0.3
    if wb.has_array:
        # A1:A2 is an array formula lying wholly inside the range
        wb.cells[(0, 1, 5)] = ('v', 3); wb.cells[(0, 2, 5)] = ('v', 4)                 # E1:E2
        wb.cells[(0, 1, 1)] = ('a', 2, 1, ('bin', '*', ('ref', (0, 1, 2, 5, 5)), ('lit', 2)))
        pop = [1, 2] + ([3] if rnd.random() < 0.6 else [])
        if 3 in pop:
            wb.cells[(0, 3, 1)] = ('v', rnd.choice([1, 5, 10]))
    else:
        pop = [i for i in (1, 2, 3) if rnd.random() < 0.6]
        for i in pop:
            wb.cells[(0, i, 1)] = ('v', rnd.choice([1, 2, 3, 5, 10, 0.5, -1]))
    wb.cells[(0, 1, 4)] = ('v', rnd.choice([1, 7]))                                     # D1
    R = (0, 1, 3, 1, 1)
    cell = lambda r: ('ref', (0, r, r, 1, 1))
    outs = []

    def put(r, e):
        wb.cells[(0, r, 2)] = ('f', e); outs.append((0, r, 2))
    put(1, ('bin', '*', cell(2), ('lit', 10)))
    put(2, ('call', 'SUM', [('ref', R)]))
    put(3, ('call', 'SUM', [('ref', (0, 2, 3, 1, 1))]))
    put(4, ('call', 'IF', [('bin', '>', cell(1), ('lit', 5)), ('lit', 'big'), ('lit', 'small')]))
    put(5, ('bin', '+', cell(3), ('ref', (0, 1, 1, 4, 4))))
    name = None
    if rnd.random() < 0.5:
        name = 'RNG'
        wb.names[name] = ('b1.xlsx', ('ref', R))
        put(6, ('call', 'SUM', [('name', name)]))
        if rnd.random() < 0.6:
            # one formula that reads the name and the very range it stands for
            put(7, ('bin', '-', ('call', 'SUM', [('name', name)]), ('call', 'SUM', [('ref', R)])))
    wb.cellname = None
    if 3 in pop and rnd.random() < 0.5:
        # a name for the single cell A3, and a formula reading both the name and the cell
        wb.cellname = 'THIRD'
        wb.names['THIRD'] = ('b1.xlsx', ('ref', (0, 3, 3, 1, 1)))
        put(8, ('bin', '+', ('name', 'THIRD'), cell(3)))
        put(9, ('bin', '*', ('name', 'THIRD'), ('lit', 10)))
    wb.explicit = wb.has_array or rnd.random() < 0.5
    listed = {1, 2, 3}
    if not wb.explicit:
        # blanks stay unlisted.  A formula reading an unpopulated cell on its own makes range assembly list that cell as a
        # blank node, which INV(A1:A3) reaches.  The sub-range A2:A3: one unpopulated cell is listed by range assembly; two
        # are read from the running solution, where INV(A1:A3) puts the supplied values - which exists only when the range
        # has a cell node (known finding range-override-all-blank-range); a compiled function freezes such a sub-range
        # (solution_reads=False: known finding compile-range-over-unlisted-blanks)
        listed = set(pop)
        for r, x in ((1, 2), (4, 1), (5, 3)):
            if x not in pop:
                if rnd.random() < 0.6:
                    wb.cells.pop((0, r, 2), None)
                    outs.remove((0, r, 2))
                else:
                    listed.add(x)
        if (not listed) or (2 not in listed and 3 not in listed and not solution_reads):
            wb.cells.pop((0, 3, 2), None)
            outs.remove((0, 3, 2))
    # B3 reads cells that are no nodes from the running solution: a dependence the graph does not show
    wb.solution_read = [(0, 3, 2)] if (not wb.explicit and (0, 3, 2) in wb.cells and 2 not in listed and 3 not in listed) else []
    return wb, R, name, outs
