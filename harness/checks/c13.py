"""C13 — volatile functions are never frozen and are seen consistently.

The clock of formulas.functions.date and numpy.random.rand are replaced by counters; every way of
obtaining an executable model (from_dict, .xlsx load, ExcelModel.compile, formula compile, deepcopy,
dill, JSON import) is called repeatedly: every call must see new counter values, all dependents of a
volatile cell the same one, RAND in [0,1), RANDBETWEEN an integer within its bounds.
"""
import copy, json, os, shutil, tempfile, datetime, math
import numpy as np
import common
from common import Run
import bookrun

RULE = ('formulas with a volatile call (NOW, TODAY, RAND, RANDBETWEEN) at every depth 0-4 and argument position of random '
        'wrappers (operators, IF, SUM, IFERROR, ABS, nested calls); workbooks with volatile cells and 2-5 dependents obtained by '
        'from_dict, .xlsx load, ExcelModel.compile, deepcopy, dill and JSON import; 3 consecutive calls each with the fake '
        'clock advanced. Non-trivial = the volatile call is nested at depth >= 1 or has dependents; distinct = distinct '
        '(formula or workbook, way of obtaining the model).')


def new_run():
    return Run('C13', RULE)


class FakeClock:
    t = datetime.datetime(2024, 3, 1, 8, 0, 0)
    n = 0


def install_fakes():
    import formulas.functions.date as fdate
    real_dt = datetime.datetime

    class FakeDT(real_dt):
        @classmethod
        def now(cls, tz=None):
            FakeClock.n += 1
            FakeClock.t += datetime.timedelta(days=1, seconds=61)
            return FakeClock.t

        @classmethod
        def today(cls):
            return cls.now()

    _dtmod = datetime

    class FakeModule:
        def __getattr__(self, k):
            return FakeDT if k == 'datetime' else getattr(_dtmod, k)
    fdate.datetime = FakeModule()
    fdate.DATE_ZERO = real_dt(1899, 12, 31)
    cnt = {'n': 0}

    def fake_rand(*a):
        cnt['n'] += 1
        return (cnt['n'] * 0.6180339887) % 1.0
    np.random.rand = fake_rand
    return cnt


def sc(x):
    x = getattr(x, 'value', x)
    if isinstance(x, np.ndarray):
        x = x.ravel()[0]
    if isinstance(x, np.generic):
        x = x.item()
    return x


VOL = {'RAND()': 'rand', 'NOW()': 'now', 'TODAY()': 'today', 'RANDBETWEEN(3,9)': 'rb'}


def wrap(rnd, core, depth, injective=False):
    """nest `core` at the given depth inside random wrappers, at a random argument position"""
    e = core
    for _ in range(depth):
        k = rnd.choice(['+', '*', 'IF1', 'SUM', 'IFERROR', 'ABS', 'MAX', 'paren', 'neg'] + ([] if injective else ['IF2', 'cmp']))
        if k == '+':
            e = rnd.choice(['(1+%s)', '(%s+1)']) % e
        elif k == '*':
            e = rnd.choice(['(2*%s)', '(%s*1)']) % e
        elif k == 'IF1':
            e = 'IF(TRUE,%s,0)' % e
        elif k == 'IF2':
            e = 'IF(%s>-1,%s,0)' % (e, '1')      # volatile in the condition
        elif k == 'SUM':
            e = rnd.choice(['SUM(0,%s)', 'SUM(%s,0,0)', 'SUM(0,0,%s)']) % e
        elif k == 'IFERROR':
            e = rnd.choice(['IFERROR(%s,0)', 'IFERROR(1/0,%s)']) % e
        elif k == 'ABS':
            e = 'ABS(%s)' % e
        elif k == 'MAX':
            e = 'MAX(%s,-5)' % e
        elif k == 'paren':
            e = '(%s)' % e
        elif k == 'neg':
            e = '-(-(%s))' % e if False else '(0-(0-%s))' % e
        else:
            e = '((%s)>=0)*1' % e
    return e


def check(run):
    bookrun.setup()
    from formulas import Parser, ExcelModel
    import dill
    cnt = install_fakes()
    rnd = run.rng
    quick = run.tier == 'quick'

    def fresh_values(vals, what, case):
        """consecutive calls must see new counter values"""
        if len(set(map(repr, vals))) != len(vals):
            run.violation('%s returns the same value on consecutive calls: %r (frozen)' % (what, vals), case)
            return False
        return True

    # ---- 1. formulas with a volatile call at any depth -----------------------------------------------------
    for i in range(300 if quick else 6000):
        core = rnd.choice(list(VOL))
        depth = rnd.randint(0, 4)
        f = '=' + wrap(rnd, core, depth)
        case = {'formula': f, 'volatile': core, 'depth': depth}
        run.count(1, ('formula', f), depth >= 1, 'formula/%s/depth%d' % (VOL[core], depth))
        try:
            fn = Parser().ast(f)[1].compile()
            vals = [sc(fn()) for _ in range(3)]
        except Exception as ex:
            run.violation('compiling/calling the formula raised %s' % type(ex).__name__, case)
            continue
        if core != 'TODAY()' and 'cmp' not in f and '>=0' not in f and '>-1' not in f:
            fresh_values(vals, 'the compiled formula %s' % f, case)
        if f == '=RAND()':
            for v in vals:
                if not (isinstance(v, float) and 0 <= v < 1):
                    run.violation('RAND() returned %r, not a number in [0, 1)' % (v,), case)
        if f == '=RANDBETWEEN(3,9)':
            for v in vals:
                if not (float(v).is_integer() and 3 <= v <= 9):
                    run.violation('RANDBETWEEN(3,9) returned %r' % (v,), case)
        if i < 3:
            run.sample(dict(case, values=[repr(v) for v in vals]))
    # RANDBETWEEN bounds over many draws and bound pairs
    fnrb = {}
    for i in range(400 if quick else 5000):
        lo = rnd.randint(-20, 20); hi = lo + rnd.randint(0, 15)
        a, b = rnd.choice([(lo, hi), (lo + 0.5, hi + 0.5), (lo, hi + 0.9)])
        run.count(1, ('rb', a, b, i % 7), True, 'randbetween-bounds')
        f = '=RANDBETWEEN(%r,%r)' % (a, b) if a >= 0 else '=RANDBETWEEN(0-%r,%s)' % (-a, ('0-%r' % -b) if b < 0 else repr(b))
        try:
            v = sc(Parser().ast(f)[1].compile()())
        except Exception as ex:
            run.violation('RANDBETWEEN raised %s' % type(ex).__name__, {'formula': f})
            continue
        if math.ceil(a) > math.floor(b):
            continue
        if not (isinstance(v, (int, float)) and float(v).is_integer() and a <= v <= b):
            run.violation('RANDBETWEEN(%r,%r) returned %r' % (a, b, v), {'formula': f})

    # ---- 2. workbooks with volatile cells and dependents, every way of obtaining a model ----------------------
    P = "'[b.xlsx]S'!"
    tmp = tempfile.mkdtemp(prefix='verif_c13_')
    try:
        for i in range(12 if quick else 200):
            core = rnd.choice(['RAND()', 'NOW()', 'RANDBETWEEN(1,1000000)'])
            vf = wrap(rnd, core, rnd.randint(0, 2), injective=True)
            d = {P + 'A1': '=' + vf, P + 'C1': 5, P + 'C2': 7,
                 P + 'B1': '=%sA1*2' % P, P + 'B2': '=%sA1+%sA1' % (P, P), P + 'B3': '=SUM(%sA1,%sC1)' % (P, P),
                 P + 'B4': '=IF(%sC1>0,%sA1,0)+%sB1' % (P, P, P), P + 'D1': '=%sC1*%sC2' % (P, P),
                 # dependents that mix the volatile cell with a stored constant, directly and through a range
                 P + 'A2': 3, P + 'B5': '=%sA1+%sC2' % (P, P), P + 'B6': '=SUM(%sA1:A2)' % P}
            case = {'workbook': d}

            def consistent(v, what):
                a1 = v['A1']
                ok = (abs(v['B1'] - 2 * a1) < 1e-9 and abs(v['B2'] - 2 * a1) < 1e-9 and abs(v['B3'] - (a1 + v.get('C1', 5))) < 1e-9
                      and abs(v['B4'] - 3 * a1) < 1e-9 and abs(v['B5'] - (a1 + 7)) < 1e-9 and abs(v['B6'] - (a1 + 3)) < 1e-9)
                if not ok:
                    run.violation('%s: dependents of the volatile cell do not see one single value: %r' % (what, v), dict(case, via=what))

            def vals_of(sol):
                return {k.split('!')[-1]: float(sc(v)) for k, v in sol.items() if isinstance(k, str) and ':' not in k}
            ways = {}
            try:
                m = ExcelModel().from_dict(d)
                ways['from_dict'] = lambda m=m: vals_of(m.calculate())
                # xlsx
                import openpyxl
                book = openpyxl.Workbook(); ws = book.active; ws.title = 'S'
                for k_, v_ in d.items():
                    ws[k_.split('!')[-1]] = v_.replace(P, '') if isinstance(v_, str) else v_
                path = os.path.join(tmp, 'b.xlsx')
                book.save(path)
                cwd = os.getcwd(); os.chdir(tmp)
                try:
                    mx = ExcelModel().loads('b.xlsx').finish()
                finally:
                    os.chdir(cwd)
                ways['xlsx'] = lambda mx=mx: vals_of(mx.calculate())
                mc = copy.deepcopy(m)
                ways['deepcopy'] = lambda mc=mc: vals_of(mc.calculate())
                md = dill.loads(dill.dumps(m))
                ways['dill'] = lambda md=md: vals_of(md.calculate())
                mj = ExcelModel().from_dict(json.loads(json.dumps(m.to_dict())))
                ways['json'] = lambda mj=mj: vals_of(mj.calculate())
                outs = [P + 'A1', P + 'B1', P + 'B2', P + 'B3', P + 'B4', P + 'B5', P + 'B6']
                fc = m.compile(inputs=[P + 'C1'], outputs=outs)
                ways['compile'] = lambda fc=fc: dict(zip(['A1', 'B1', 'B2', 'B3', 'B4', 'B5', 'B6'], [float(sc(x)) for x in fc(5)]), C1=5)
                # ... and composed: a function compiled from a copied / unpickled / re-imported model
                for nm_, mm_ in (('deepcopy+compile', mc), ('dill+compile', md), ('json+compile', mj)):
                    fcc = mm_.compile(inputs=[P + 'C1'], outputs=outs)
                    ways[nm_] = lambda fcc=fcc: dict(zip(['A1', 'B1', 'B2', 'B3', 'B4', 'B5', 'B6'], [float(sc(x)) for x in fcc(5)]), C1=5)
                fc2 = dill.loads(dill.dumps(fc))
                ways['compile+dill'] = lambda fc2=fc2: dict(zip(['A1', 'B1', 'B2', 'B3', 'B4', 'B5', 'B6'], [float(sc(x)) for x in fc2(5)]), C1=5)
            except Exception as ex:
                run.violation('obtaining a model raised %s: %s' % (type(ex).__name__, str(ex)[:100]), case)
            for way, call in ways.items():
                run.count(1, ('book', json.dumps(d, sort_keys=True), way), True, 'workbook/' + way)
                try:
                    seq = [call() for _ in range(3)]
                except Exception as ex:
                    run.violation('%s: calculation raised %s: %s' % (way, type(ex).__name__, str(ex)[:100]), dict(case, via=way))
                    continue
                for v in seq:
                    consistent(v, way)
                fresh_values([v['A1'] for v in seq], 'the volatile cell (model obtained by %s)' % way, dict(case, via=way))
            if i < 2:
                run.sample({'workbook': d, 'ways': list(ways)})
    finally:
        shutil.rmtree(tmp, ignore_errors=True)
    run.extra['fake_rand_calls'] = cnt['n']
    run.extra['fake_clock_reads'] = FakeClock.n
    run.extra['trusted_base'] = ['the wall clock and numpy.random are replaced by counters in the harness: "evaluated afresh" is observed, not proved']
    return None


def replay(payload):
    case = payload.get('case') or (payload.get('correspondence') or [None])[0]
    print(json.dumps(case, indent=1, default=str)[:3000])
    print('failed predicate:', case.get('what') if case else payload.get('broken_theorems_or_audit'))
    return 0
