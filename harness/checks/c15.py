"""C15 — a model loaded from chosen outputs equals the full model on them.

Workbook fixtures (several sheets, names, array formulas, whole-column references) are written as
.xlsx; `from_ranges(*outputs).finish().calculate()` must give, for every requested output, the value
`loads(file).finish().calculate()` gives (and the Lean model gives); finishing a finished model must
change neither its nodes nor its values.
"""
import os, json, shutil, tempfile
import numpy as np
import common
from common import Run, model
import bookgen, bookrun
from checks import c03

RULE = ('random workbooks of one or two books (the second book has a sheet of the same name as the first, with a different used area) with 2-3 sheets, names, array formulas and (some) a whole-column reference, written to '
        '.xlsx; output sets = random non-empty sets of 1-3 cells / rectangles (thorough: also every single populated cell). '
        'Non-trivial = an output is a formula cell depending on another sheet, a name or a range; distinct = distinct '
        '(workbook, output set).')


def cross_book_name(case):
    """a formula refers to a defined name of another workbook (resolved to #REF! when its own book is compiled first)"""
    return bool(case.get('cross_book_name')) and ('#REF!' in case.get('what', '') or bool(case.get('depends_on_cross_book_name')))


SIGNATURES = {'cross_book_name': cross_book_name}


def new_run():
    return Run('C15', RULE, SIGNATURES)


def arr_wires(v):
    a = np.asarray(getattr(v, 'value', v), object)
    if a.ndim == 0:
        a = a.reshape(1, 1)
    return [[bookrun.wire_impl(x) for x in row] for row in a.tolist()]


def check(run):
    bookrun.setup()
    rnd = run.rng
    quick = run.tier == 'quick'
    n = 25 if quick else 500
    tmp = tempfile.mkdtemp(prefix='verif_c15_')
    cwd = os.getcwd()
    req, pend = [], []
    try:
        for k in range(n):
            rows_, cols_ = rnd.choice([(6, 4), (6, 4), (3, 7), (2, 8)])      # also sheets wider than tall
            wb = bookgen.generate(rnd, n_books=rnd.choice([1, 2]), n_sheets=rnd.choice([2, 3]), whole_col=(k % 12 == 5 and rows_ == 6),
                                  rows=rows_, cols=cols_, n_const=min(14, rows_ * cols_), n_formula=min(12, rows_ * cols_))
            dd = os.path.join(tmp, 'w%d' % k)
            os.makedirs(dd)
            os.chdir(dd)
            try:
                paths = wb.to_xlsx(dd)
                full = bookrun.ExcelModel().loads(*[os.path.basename(p) for p in paths]).finish()
                fsol = full.calculate()
            except Exception as ex:
                run.violation('loading the full workbook raised %s' % type(ex).__name__, {'workbook': {k_: str(v) for k_, v in wb.to_dict().items()}})
                os.chdir(cwd)
                continue
            base = bookrun.solution_values(wb, fsol)
            case0 = {'workbook': {k_: (str(v) if isinstance(v, bookgen.Err) else v) for k_, v in wb.to_dict().items()}}
            case0['cross_book_name'] = any(kk == 'name' and wb.names[x][0] != wb.sheets[a_[0]][0]
                                           for a_, ct in wb.cells.items() if ct[0] != 'v' for kk, x in wb.deps(ct[-1]))
            taint = c03.tainted_cells(wb) if case0['cross_book_name'] else set()
            addrs = [a for a in wb.addresses()]
            spill = {}
            for (s, r, c), cont in wb.cells.items():
                if cont[0] == 'a':
                    for i in range(cont[1]):
                        for j in range(cont[2]):
                            spill[(s, r + i, c + j)] = (s, r, c)
            sets = []
            for _ in range(4 if quick else 6):
                outs = []
                for _ in range(rnd.randint(1, 3)):
                    a = rnd.choice(addrs)
                    if rnd.random() < 0.25:
                        # a rectangle around it, inside the grid
                        r2, c2 = min(rows_, a[1] + rnd.randint(0, 2)), min(cols_, a[2] + rnd.randint(0, 1))
                        outs.append((a[0], a[1], r2, a[2], c2))
                    else:
                        outs.append((a[0], a[1], a[1], a[2], a[2]))
                sets.append(outs)
            if not quick:
                sets += [[(a[0], a[1], a[1], a[2], a[2])] for a in addrs]
            for outs in sets:
                keys = ['%s!%s' % (wb.sheet_id(o[0]), wb.ref_text(o)) for o in outs]
                inside = [o for o in outs for i in range(o[1], o[2] + 1) for j in range(o[3], o[4] + 1)
                          if (o[0], i, j) in spill and spill[(o[0], i, j)] != (o[0], o[1], o[3]) and not
                          all((o[0], spill[(o[0], i, j)][1] + di, spill[(o[0], i, j)][2] + dj) in
                              {(o[0], x, y) for x in range(o[1], o[2] + 1) for y in range(o[3], o[4] + 1)}
                              for di in range(wb.cells[spill[(o[0], i, j)]][1]) for dj in range(wb.cells[spill[(o[0], i, j)]][2]))]
                case = dict(case0, outputs=keys, inside_spill=bool(inside))
                forms = sum(1 for o in outs if wb.cells.get((o[0], o[1], o[3]), ('v',))[0] != 'v')
                run.count(1, (json.dumps(case0['workbook'], sort_keys=True, default=str), tuple(keys)), forms > 0, 'outputs=%d' % len(outs))
                try:
                    sub = bookrun.ExcelModel().from_ranges(*keys).finish()
                    ssol = sub.calculate()
                except Exception as ex:
                    run.violation('from_ranges(%s).finish().calculate() raised %s: %s' % (keys, type(ex).__name__, str(ex)[:100]), case)
                    continue
                for o, key in zip(outs, keys):
                    exp = [[base.get((o[0], i, j), '_') for j in range(o[3], o[4] + 1)] for i in range(o[1], o[2] + 1)]
                    got = None
                    if key in ssol:
                        got = arr_wires(ssol[key])
                    else:
                        # a rectangle that is not a node: read it cell by cell from the sub-model's solution
                        got = []
                        for i in range(o[1], o[2] + 1):
                            row = []
                            for j in range(o[3], o[4] + 1):
                                kk = wb.key(o[0], i, j)
                                vv = None
                                if kk in ssol:
                                    vv = arr_wires(ssol[kk])[0][0]
                                else:
                                    for (s, r, c), cont in wb.cells.items():
                                        if cont[0] == 'a' and s == o[0] and r <= i < r + cont[1] and c <= j < c + cont[2]:
                                            kr = wb.key(s, r, c, cont[1], cont[2])
                                            if kr in ssol:
                                                vv = arr_wires(ssol[kr])[i - r][j - c]
                                    if vv is None and (o[0], i, j) not in base:
                                        vv = '_'
                                row.append(vv if vv is not None else 'absent')
                            got.append(row)
                    if got != exp:
                        case = dict(case, depends_on_cross_book_name=any((o[0], i, j) in taint for i in range(o[1], o[2] + 1) for j in range(o[3], o[4] + 1)))
                        run.violation('output %s is %s in the model loaded from the outputs and %s in the full model' % (
                            key, [[bookrun.show(x) if x not in ('absent',) else x for x in r] for r in got],
                            [[bookrun.show(x) for x in r] for r in exp]), dict(case, output=key))
                # finishing again changes nothing
                try:
                    n1 = len(sub.dsp.nodes)
                    sub.finish()
                    n2 = len(sub.dsp.nodes)
                    s2 = sub.calculate()
                    same = all(arr_wires(s2[kk]) == arr_wires(ssol[kk]) for kk in ssol if isinstance(kk, str) and kk in s2)
                    if n1 != n2 or not same or set(k_ for k_ in ssol if isinstance(k_, str)) != set(k_ for k_ in s2 if isinstance(k_, str)):
                        run.violation('finishing an already finished model changed it (nodes %d -> %d, values equal: %s)' % (n1, n2, same), case)
                except Exception as ex:
                    run.violation('a second finish() raised %s' % type(ex).__name__, case)
            # model correspondence on the full workbook (ties the fixture to the Lean model)
            q = list(base)
            req.append(wb.to_wire(q)); pend.append((wb, q, base, case0))
            if k < 2:
                run.sample({'outputs': keys, 'cells': len(wb.cells)})
            os.chdir(cwd)
            shutil.rmtree(dd, ignore_errors=True)
        # finish idempotence on a fully loaded model
    finally:
        os.chdir(cwd)
        shutil.rmtree(tmp, ignore_errors=True)
    # known finding: a defined name of another workbook
    wd = tempfile.mkdtemp(prefix='verif_c15w_')
    try:
        import openpyxl
        from openpyxl.workbook.defined_name import DefinedName
        os.chdir(wd)
        b1 = openpyxl.Workbook(); w1 = b1.active; w1.title = 'S1'; w1['A1'] = 5
        dn = DefinedName('MYNAME', attr_text='S1!$A$1')
        try:
            b1.defined_names['MYNAME'] = dn
        except TypeError:
            b1.defined_names.append(dn)
        b1.save('b1.xlsx')
        b2 = openpyxl.Workbook(); w2 = b2.active; w2.title = 'S1'; w2['B4'] = "='[b1.xlsx]'!MYNAME*2"
        b2.save('b2.xlsx')
        sol = bookrun.ExcelModel().from_ranges("'[b2.xlsx]S1'!B4").finish().calculate()
        v = bookrun.wire_impl(np.asarray(sol["'[b2.xlsx]S1'!B4"].value, object)[0, 0])
    except Exception as ex:
        v = 'raised ' + type(ex).__name__
    finally:
        os.chdir(cwd)
        shutil.rmtree(wd, ignore_errors=True)
    run.replay_witness('cross-book-name', v == 'x#REF!', {'witness': "b2.xlsx S1!B4 = '[b1.xlsx]'!MYNAME*2, from_ranges(B4)", 'B4': v})
    answers = model(req)
    for ans, (wb, q, base, case) in zip(answers, pend):
        for a, mv in zip(q, ans.split(' ')):
            if base[a] != mv:
                run.disagree('cell %s: model %s, full model of the implementation %s' % (wb.key(*a), bookrun.show(mv), bookrun.show(base[a])),
                             dict(case, cell=wb.key(*a)))
                break
    run.extra['model_requests'] = len(req)
    return None


def replay(payload):
    common.import_repo(); bookrun.setup()
    case = payload.get('case') or (payload.get('correspondence') or [None])[0]
    print(json.dumps(case, indent=1, default=str)[:4000])
    print('failed predicate:', case.get('what') if case else payload.get('broken_theorems_or_audit'))
    return 0
