"""C11 — worksheet functions are total and never lose an error value.

Every name of the function table (`formulas.get_functions()`) is called with 0..4 arguments drawn
from Excel values of every kind (numbers, text, logicals, blank references, error values, row /
column / matrix arrays with mixed content), directly and, for a sample, through a compiled formula.
  O1 nothing is raised (an arity mismatch of the Python signature = inadmissible count, skipped);
  O2 the result consists of Excel values only (finite numbers, text, logicals, errors, blanks);
  O3 an error value in a consumed argument gives a result containing an error, unless the function is
     a documented error-handling / inspection / selection function (EXEMPT below, with the reason).
The Lean side (XL.Props.C11) classifies every name of the table and proves error propagation of the
model's combinators.
"""
import json, math, itertools, signal
import numpy as np
import common
from common import Run, model
import bookgen, bookrun

RULE = ('every name of the function table x argument counts 0..4 x tuples over {numbers, numeric text, text, empty text, '
        'logicals, blank reference, #N/A, #DIV/0!, 1x3 / 3x1 / 2x2 arrays with mixed content}; arrays in one call have '
        'compatible shapes (incompatible shapes are a separate stream); a further stream calls every function with 1-3 arguments of extreme magnitude (1e200, 1e308, 1e-300, 710, 171, ...; scalars and numeric arrays) and requires finite numbers or error values. Non-trivial = at least one argument is not a plain '
        'number; distinct = distinct (name, arguments).')

# functions that legitimately return a non-error for an error argument, and why
EXEMPT = {
    'IFERROR': 'error handling', 'IFNA': 'error handling', '_XLFN.IFNA': 'error handling',
    'ISERROR': 'inspection', 'ISERR': 'inspection', 'ISNA': 'inspection', 'ISNUMBER': 'inspection', 'ISTEXT': 'inspection',
    'ISNONTEXT': 'inspection', 'ISLOGICAL': 'inspection', 'ISBLANK': 'inspection', 'ERROR.TYPE': 'inspection', 'TYPE': 'inspection',
    'ISFORMULA': 'inspection', '_XLFN.ISFORMULA': 'inspection', 'ISREF': 'inspection', 'N': 'inspection', 'T': 'inspection',
    'COUNT': 'counts values, errors are not numbers', 'COUNTA': 'counts values', 'COUNTBLANK': 'counts blanks',
    'COUNTIF': 'criterion test', 'SUMIF': 'criterion test', 'AVERAGEIF': 'criterion test', 'COUNTIFS': 'criterion test',
    'SUMIFS': 'criterion test', 'AVERAGEIFS': 'criterion test',
    'IF': 'unselected branch', 'IFS': 'unselected branch', '_XLFN.IFS': 'unselected branch', 'SWITCH': 'unselected case',
    '_XLFN.SWITCH': 'unselected case', 'CHOOSE': 'unselected value',
    'INDEX': 'selects one element', 'LOOKUP': 'selects one element', 'VLOOKUP': 'selects one element', 'HLOOKUP': 'selects one element',
    'MATCH': 'keys of other types are not compared', 'XLOOKUP': 'selects one element', '_XLFN.XLOOKUP': 'selects one element',
    'FILTER': 'selects elements', '_XLFN._XLWS.FILTER': 'selects elements', 'SINGLE': 'selects one element', '_XLFN.SINGLE': 'selects one element',
    'ROW': 'looks at the reference only', 'COLUMN': 'looks at the reference only', 'ROWS': 'shape only', 'COLUMNS': 'shape only',
    'AGGREGATE': 'can ignore errors', 'LARGE': 'second argument per element', 'SMALL': 'second argument per element',
    'TRUE': 'no argument is consumed', 'FALSE': 'no argument is consumed', 'NA': 'returns an error anyway', 'PI': 'no argument',
    'NOW': 'no argument', 'TODAY': 'no argument', 'RAND': 'no argument',
}


# arguments of the functions above that are *not* "the values one is selected from": an error value given there must show
STRICT_ARGS = {'VLOOKUP': {2, 3}, 'HLOOKUP': {2, 3}, 'INDEX': {1, 2}, 'MATCH': {2}, 'LARGE': {1}, 'SMALL': {1}}


def broadcast_error(case):
    return case.get('class') == 'incompatible-shapes' and 'BroadcastError' in case.get('what', '')


SIGNATURES = {'broadcast_error': broadcast_error}


def new_run():
    return Run('C11', RULE, SIGNATURES)


def setup():
    global F, XlError, Error, BaseError, EMPTY, NA, DIV, sh
    import schedula as sh
    from formulas.functions import get_functions
    from formulas.tokens.operand import XlError, Error
    from formulas.errors import BaseError
    F = get_functions()
    EMPTY = sh.EMPTY
    NA, DIV = Error.errors['#N/A'], Error.errors['#DIV/0!']


INTERNAL = {'ARRAY', 'ARRAYROW'}          # builders of array literals, not worksheet functions
MAX_ARGS = {'BIN2DEC': 1, 'HEX2DEC': 1, 'OCT2DEC': 1, 'ISEVEN': 1, 'ISODD': 1}     # the Python signature accepts more than Excel's


def fn_of(name):
    """the callable; functions with extra inputs (the COMPILING flag of volatile functions, the calling cell) get them bound"""
    f = F[name]
    if isinstance(f, dict):
        g = f['function']
        extra = list((f.get('extra_inputs') or {}).values())
        if extra:
            return lambda *a, _g=g, _e=extra: _g(*(_e + list(a)))
        return g
    return f


def ok_value(v):
    if isinstance(v, np.ndarray):
        return all(ok_value(x) for x in v.ravel().tolist())
    if isinstance(v, (list, tuple)):
        return all(ok_value(x) for x in v)
    if v is EMPTY or isinstance(v, (XlError, str, bool, np.bool_)):
        return True
    if isinstance(v, (int, float, np.integer, np.floating)):
        return math.isfinite(float(v))
    return False


def has_err(v):
    if isinstance(v, np.ndarray):
        return any(isinstance(x, XlError) for x in v.ravel().tolist())
    if isinstance(v, (list, tuple)):
        return any(has_err(x) for x in v)
    return isinstance(v, XlError)


def show(a):
    if isinstance(a, np.ndarray):
        if a.ndim != 2:
            return [show(x) for x in a.ravel().tolist()]
        return [[show(x) for x in r] for r in a.tolist()]
    if a is EMPTY:
        return 'BLANK'
    if isinstance(a, XlError):
        return str.__str__(a)
    return a if isinstance(a, (int, float, str, bool)) else repr(a)


def arity_ok(f, k):
    """is `k` an admissible number of arguments? (probe with plain numbers)"""
    try:
        f(*([1] * k))
        return True
    except BaseError:
        return True
    except (TypeError, ValueError):
        return False
    except Exception:
        return True


class Timeout(Exception):
    pass


def _alarm(*a):
    raise Timeout()


def timed(f, args, seconds=20):
    signal.signal(signal.SIGALRM, _alarm)
    signal.alarm(seconds)
    try:
        return f(*args)
    finally:
        signal.alarm(0)


def check(run):
    bookrun.setup(); setup()
    rnd = run.rng
    quick = run.tier == 'quick'
    scalars = [1, 2.5, 0, -3, 1e10, 'abc', '5', '', True, False, EMPTY, NA, DIV, '1e999', 'inf', '-1E400']

    def arr(shape, err=None):
        a = np.empty(shape, object)
        for i in range(shape[0]):
            for j in range(shape[1]):
                a[i, j] = rnd.choice([1, 2, 0.5, -1, 'a', '7', True, EMPTY, 3, 10])
        if err is not None:
            a[rnd.randrange(shape[0]), rnd.randrange(shape[1])] = err
        return a
    names = sorted(n for n in F if n not in INTERNAL)
    per = 14 if quick else 220
    admissible = {}
    n_exempt_hits = 0
    for name in names:
        f = fn_of(name)
        for k in range(0, 5):
            adm = arity_ok(f, k) and k <= MAX_ARGS.get(name, 99)
            admissible[(name, k)] = adm
            if not adm:
                continue
            for rep in range(per if k else 1):
                shape = rnd.choice([(1, 3), (3, 1), (2, 2)])
                args = []
                for i in range(k):
                    r = rnd.random()
                    if r < 0.62:
                        args.append(rnd.choice(scalars))
                    elif r < 0.9:
                        args.append(arr(rnd.choice([shape, (1, 1)])))
                    else:
                        args.append(arr(shape, err=rnd.choice([NA, DIV])))
                case = {'function': name, 'args': [show(a) for a in args], 'class': 'compatible'}
                run.count(1, (name, json.dumps(case['args'], default=str)), any(not isinstance(a, (int, float)) or isinstance(a, bool) for a in args),
                          'args=%d' % k)
                try:
                    r = timed(f, args)
                except Timeout:
                    run.violation('%s does not return within 20 s' % name, case)
                    continue
                except Exception as ex:
                    run.violation('%s raised %s: %s' % (name, type(ex).__name__, str(ex)[:80]), case)
                    continue
                r = getattr(r, 'value', r)
                if r is sh.NONE or (isinstance(r, tuple) and all(x is sh.NONE for x in r)):
                    continue                      # a volatile function outside a calculation
                if not ok_value(r):
                    run.violation('%s returns something that is not an Excel value: %r' % (name, r if not isinstance(r, np.ndarray) else r.tolist()), case)
                if any(has_err(a) for a in args) and not has_err(r):
                    strict = any(has_err(a) for i, a in enumerate(args) if i in STRICT_ARGS.get(name, ()))
                    if name in EXEMPT and not strict:
                        n_exempt_hits += 1
                    else:
                        run.violation('%s loses the error value of an argument: result %s' % (name, show(r) if not isinstance(r, np.ndarray) else show(r)), case)
    # ---- extreme magnitudes: results stay finite numbers or become error values ------------------------------------------------
    big = [1e200, -1e200, 1e308, -1e308, 1e-300, 1e154, 709.0, 710.0, 171.0, 1e5, 2.0, 0.5, -1.0, 0.0]

    def big_arr(shape):
        a = np.empty(shape, object)
        for i in range(shape[0]):
            for j in range(shape[1]):
                a[i, j] = rnd.choice(big)
        return a
    per_big = 6 if quick else 60
    for name in names:
        f = fn_of(name)
        for k in range(1, 4):
            if not admissible.get((name, k)):
                continue
            for rep in range(per_big):
                shape = rnd.choice([(1, 1), (2, 2), (1, 2), (2, 1)])
                args = [rnd.choice(big) if rnd.random() < 0.5 else big_arr(rnd.choice([shape, (1, 1)])) for _ in range(k)]
                case = {'function': name, 'args': [show(a) for a in args], 'class': 'extreme-magnitudes'}
                run.count(1, (name, json.dumps(case['args'], default=str)), True, 'extreme-magnitudes')
                try:
                    r = timed(f, args)
                except Timeout:
                    run.violation('%s does not return within 20 s' % name, case)
                    continue
                except Exception as ex:
                    run.violation('%s raised %s: %s' % (name, type(ex).__name__, str(ex)[:80]), case)
                    continue
                r = getattr(r, 'value', r)
                if r is sh.NONE or (isinstance(r, tuple) and all(x is sh.NONE for x in r)):
                    continue
                if not ok_value(r):
                    run.violation('%s returns something that is not an Excel value: %r' % (name, r if not isinstance(r, np.ndarray) else r.tolist()), case)
    # ---- many arguments: the separate path for 32 and more arguments must treat values and errors alike ---------------------------
    many = [nm for nm in names if arity_ok(fn_of(nm), 34) and nm not in MAX_ARGS]
    for name in many:
        f = fn_of(name)
        for rep in range(3 if quick else 30):
            k = rnd.randint(32, 40)
            args = [rnd.choice([1, 2.5, 0, 'abc', '5', True, False]) for _ in range(k)]
            where = rnd.randrange(k)
            args[where] = rnd.choice([NA, DIV]) if rnd.random() < 0.7 else arr((1, 2), err=rnd.choice([NA, DIV]))
            case = {'function': name, 'args': [show(a) for a in args], 'class': 'many-arguments', 'error_at': where}
            run.count(1, (name, json.dumps(case['args'], default=str)), True, 'many-arguments')
            try:
                r = timed(f, args)
            except Timeout:
                run.violation('%s does not return within 20 s' % name, case)
                continue
            except Exception as ex:
                run.violation('%s raised %s: %s' % (name, type(ex).__name__, str(ex)[:80]), case)
                continue
            r = getattr(r, 'value', r)
            if r is sh.NONE:
                continue
            if not ok_value(r):
                run.violation('%s returns something that is not an Excel value: %r' % (name, r if not isinstance(r, np.ndarray) else r.tolist()), case)
            elif not has_err(r) and name not in EXEMPT:
                run.violation('%s with %d arguments loses the error value of argument %d: result %s' % (name, k, where + 1, show(r) if not isinstance(r, np.ndarray) else show(r)), case)
            elif name in ('SWITCH', '_XLFN.SWITCH', 'IFS', '_XLFN.IFS') and where == 0 and not has_err(r):
                run.violation('%s with %d arguments loses the error value of its first argument: result %s' % (name, k, show(r) if not isinstance(r, np.ndarray) else show(r)), case)
    run.extra['functions_taking_34_arguments'] = len(many)
    # ---- incompatible shapes ---------------------------------------------------------------------------------------------
    for name in rnd.sample(names, 40 if quick else len(names)):
        f = fn_of(name)
        if not admissible.get((name, 2)):
            continue
        args = [arr((2, 2)), arr((1, 3))]
        case = {'function': name, 'args': [show(a) for a in args], 'class': 'incompatible-shapes'}
        run.count(1, (name, 'incompatible'), True, 'incompatible-shapes')
        try:
            r = f(*args)
            if not ok_value(getattr(r, 'value', r)):
                run.violation('%s returns something that is not an Excel value' % name, case)
        except Exception as ex:
            run.violation('%s raised %s for arrays of incompatible shapes' % (name, type(ex).__name__), case)
    # ---- through compiled formulas -----------------------------------------------------------------------------------------
    from formulas import Parser
    lits = ['1', '2.5', '"abc"', '"5"', 'TRUE', '#N/A', '#DIV/0!', '{1,2,3}', '{1;"a";TRUE}', '""', '0', '-3']
    for name in rnd.sample(names, 60 if quick else len(names)):
        for k in range(0, 4):
            if not admissible.get((name, k)):
                continue
            for rep in range(3 if quick else 20):
                parts = [rnd.choice(lits) for _ in range(k)]
                formula = '=%s(%s)' % (name.replace('_XLFN._XLWS.', '').replace('_XLFN.', ''), ','.join(parts))
                case = {'formula': formula, 'class': 'formula', 'function': name}
                run.count(1, formula, True, 'formula')
                try:
                    fn = Parser().ast(formula)[1].compile()
                except Exception as ex:
                    if type(ex).__name__ != 'FormulaError':
                        run.violation('compiling %s raised %s' % (formula, type(ex).__name__), case)
                    continue
                try:
                    r = fn()
                except Exception as ex:
                    if 'BroadcastError' in repr(ex):
                        run.violation('%s raised BroadcastError' % formula, dict(case, **{'class': 'incompatible-shapes'}))
                    else:
                        run.violation('%s raised %s: %s' % (formula, type(ex).__name__, str(ex)[:80]), case)
                    continue
                r = getattr(r, 'value', r)
                if r is sh.NONE:
                    continue
                if not ok_value(r):
                    run.violation('%s returns something that is not an Excel value: %r' % (formula, r), case)
                if any(p.startswith('#') for p in parts) and not has_err(r) and name not in EXEMPT:
                    run.violation('%s loses the error value of an argument: result %s' % (formula, show(np.asarray(r, object))), case)
    run.extra['function_names'] = len(names)
    run.extra['admissible_counts'] = sum(1 for v in admissible.values() if v)
    run.extra['exempt_functions'] = len(EXEMPT)
    run.extra['error_in_non_error_out_on_exempt_functions'] = n_exempt_hits
    run.extra['trusted_base'] = ['the EXEMPT table (documented error-handling, inspection, criterion and selection functions) is hand written',
                                 'admissible argument counts are probed with plain numbers: a count whose probe raises TypeError/ValueError is skipped']
    f = fn_of('SUM')
    try:
        fn_of('CONCATENATE')(np.asarray([[1, 2], [3, 4]], object), np.asarray([[1, 2, 3]], object))
        w = False
    except Exception as ex:
        w = type(ex).__name__ == 'BroadcastError'
    run.replay_witness('broadcast-error', w, {'witness': 'CONCATENATE({1,2;3,4},{1,2,3})'})
    return None


def replay(payload):
    common.import_repo(); bookrun.setup(); setup()
    case = payload.get('case') or (payload.get('correspondence') or [None])[0]
    print(json.dumps(case, indent=1, default=str)[:3000])
    print('failed predicate:', case.get('what') if case else payload.get('broken_theorems_or_audit'))
    return 0
