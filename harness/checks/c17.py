"""C17 — copies and serialised models are equivalent and independent.

`copy.deepcopy` and `dill.loads(dill.dumps(.))` of models (also circular ones, also after a first
calculation) and of compiled functions; random interleavings of up to 6 operations (calculate with
overrides, finish, compile, to_dict, write, hex/bin conversions that use the module-level memo) on
original and copy; every observation is compared with a never-copied twin built from the same
dictionary.
"""
import copy, json
import numpy as np
import common
from common import Run
import bookgen, bookrun

RULE = ('random workbooks (some with a reference cycle solved with circular=True, some with base-conversion functions that '
        'share a module-level memo) x {deepcopy, dill} x {before / after a first calculation} x interleavings of <= 6 operations '
        'on original and copy (calculate with overrides, re-finish, compile, to_dict, write); compiled functions copied the same '
        'way. Non-trivial = the interleaving mutates one handle between two observations of the other; distinct = distinct '
        '(workbook, copy method, interleaving).')


def copy_refinish(case):
    """the copy handle was re-finished before the failing observation on the copy handle"""
    ops = [tuple(o) for o in case.get('ops', [])]
    return ('copy', 'finish') in ops and bool(ops) and ops[-1][0] == 'copy'


SIGNATURES = {'copy_refinish': copy_refinish}


def book_cells(books):
    """{(book, sheet, cell): value} of what ExcelModel.write returned"""
    from formulas.excel import BOOK
    out = {}
    for bk, dd in books.items():
        for ws in dd[BOOK].worksheets:
            for row in ws.iter_rows():
                for c in row:
                    if c.value is not None:
                        out[(bk, ws.title, c.coordinate)] = repr(c.value)
    return out


def new_run():
    return Run('C17', RULE, SIGNATURES)


def vals_of(sol):
    out = {}
    for k, v in sol.items():
        if isinstance(k, str):
            try:
                a = np.asarray(getattr(v, 'value', v), object)
                out[k] = [bookrun.wire_impl(x) for x in a.ravel().tolist()]
            except Exception as ex:
                out[k] = 'unreadable'
    return out


def check(run):
    bookrun.setup()
    import dill
    rnd = run.rng
    quick = run.tier == 'quick'
    n = 30 if quick else 500
    for k in range(n):
        wb = bookgen.generate(rnd, n_books=rnd.choice([1, 2]))
        d = wb.to_dict(explicit_blanks=True)
        P = wb.sheet_id(0) + '!'
        circular = rnd.random() < 0.3
        if circular:
            d[P + 'H1'] = '=%sH2+1' % P
            d[P + 'H2'] = '=IF(%sH3>0,%sH1,5)' % (P, P)
            d[P + 'H3'] = 0
        if rnd.random() < 0.4:
            d[P + 'H5'] = '=DEC2HEX(%sH6)' % P
            d[P + 'H6'] = rnd.randint(1, 500)
            d[P + 'H7'] = '=HEX2DEC(%sH5)+BIN2DEC("101")' % P
        case = {'workbook': {k_: (str(v) if isinstance(v, bookgen.Err) else v) for k_, v in d.items()}, 'circular': circular}

        def build():
            m = bookrun.ExcelModel().from_dict(d)
            if circular:
                m.finish(circular=True)
            return m
        method = rnd.choice(['deepcopy', 'dill'])
        warm = rnd.random() < 0.5
        try:
            orig = build()
            if warm:
                orig.calculate()
            cp = copy.deepcopy(orig) if method == 'deepcopy' else dill.loads(dill.dumps(orig))
            twin_o, twin_c = build(), build()
            if warm:
                twin_o.calculate(); twin_c.calculate()
        except Exception as ex:
            run.violation('building / copying (%s) raised %s: %s' % (method, type(ex).__name__, str(ex)[:100]), case)
            continue
        consts = [k_ for k_, v in d.items() if not (isinstance(v, str) and v.startswith('=')) and v != '#EMPTY' and ':' not in k_.split('!')[-1] and "]'!" not in k_]
        forms = [k_ for k_, v in d.items() if isinstance(v, str) and v.startswith('=') and ':' not in k_.split('!')[-1] and "]'!" not in k_]
        ops = []
        written = []
        handles = {'orig': (orig, twin_o), 'copy': (cp, twin_c)}
        mutated_between = False
        last = None
        for step in range(rnd.randint(2, 6)):
            h = rnd.choice(['orig', 'copy'])
            op = rnd.choice(['calc', 'calc', 'calc-ov', 'calc-ov', 'finish', 'assemble', 'assemble', 'compile', 'to_dict', 'write'])
            live, twin = handles[h]
            ops.append((h, op))
            if last is not None and last != h:
                mutated_between = True
            last = h
            c2 = dict(case, method=method, warm=warm, ops=list(ops))
            try:
                if op in ('calc', 'calc-ov'):
                    ov = {}
                    if op == 'calc-ov' and consts:
                        for kk in rnd.sample(consts, min(2, len(consts))):
                            ov[kk] = rnd.choice([1, 2, 7, 0.5, 'zz', True])
                    a = vals_of(live.calculate(inputs=ov) if ov else live.calculate())
                    b = vals_of(twin.calculate(inputs=ov) if ov else twin.calculate())
                    if a != b:
                        kk = [x for x in b if a.get(x) != b[x]][0]
                        run.violation('%s handle after %s: node %s is %s, a never-copied twin gives %s' % (
                            h, ops, kk, a.get(kk), b[kk]), dict(c2, node=kk))
                        break
                elif op == 'finish':
                    live.finish(circular=circular); twin.finish(circular=circular)
                elif op == 'assemble':
                    # re-finishing without completion: ranges are assembled again, nothing is loaded
                    live.finish(complete=False, circular=circular); twin.finish(complete=False, circular=circular)
                elif op == 'compile' and consts and forms:
                    ins, outs = [consts[0]], [forms[0]]
                    fa, fb = live.compile(inputs=ins, outputs=outs), twin.compile(inputs=ins, outputs=outs)
                    fc = copy.deepcopy(fa) if method == 'deepcopy' else dill.loads(dill.dumps(fa))
                    for arg in (3, 'q', 11):
                        aslist = lambda r: r if isinstance(r, (list, tuple)) else [r]
                        ra = [bookrun.wire_impl(np.asarray(x.value, object).ravel()[0]) for x in aslist(fa(arg))]
                        rb = [bookrun.wire_impl(np.asarray(x.value, object).ravel()[0]) for x in aslist(fb(arg))]
                        rc = [bookrun.wire_impl(np.asarray(x.value, object).ravel()[0]) for x in aslist(fc(arg))]
                        if not (ra == rb == rc):
                            run.violation('compiled function: %s on the handle, %s on the twin, %s on its %s copy' % (ra, rb, rc, method), c2)
                            break
                elif op == 'to_dict':
                    a, b = live.to_dict(), twin.to_dict()
                    if json.dumps(a, sort_keys=True, default=str) != json.dumps(b, sort_keys=True, default=str):
                        run.violation('to_dict of the %s handle differs from the twin after %s' % (h, ops), c2)
                        break
                elif op == 'write':
                    ov = {kk: rnd.choice([1, 2, 7, 0.5]) for kk in rnd.sample(consts, min(1, len(consts)))} if rnd.random() < 0.6 else {}
                    ba = live.write(solution=live.calculate(inputs=ov) if ov else live.calculate())
                    bb = twin.write(solution=twin.calculate(inputs=ov) if ov else twin.calculate())
                    sa, sb = book_cells(ba), book_cells(bb)
                    if sa != sb:
                        kk = [x for x in sb if sa.get(x) != sb[x]] or [x for x in sa if x not in sb]
                        run.violation('write() on the %s handle after %s: cell %s holds %r, a never-copied twin writes %r' % (
                            h, ops, kk[0], sa.get(kk[0]), sb.get(kk[0])), dict(c2, node=str(kk[0])))
                        break
                    if any(ba is w_[0] for w_ in written):
                        run.violation('write() on the %s handle returns the very books an earlier write() returned' % h, c2)
                        break
                    written.append((ba, sa, h, len(ops)))
                # what earlier write() calls returned must not change afterwards
                stale = [(w_[2], w_[3]) for w_ in written if book_cells(w_[0]) != w_[1]]
                if stale:
                    run.violation('the books returned by write() on the %s handle (operation %d) were changed by later operations %s' % (
                        stale[0][0], stale[0][1], ops[stale[0][1]:]), c2)
                    break
            except Exception as ex:
                run.violation('%s on the %s handle raised %s: %s' % (op, h, type(ex).__name__, str(ex)[:100]), c2)
                break
        run.count(1, (json.dumps(case['workbook'], sort_keys=True, default=str), method, warm, tuple(ops)), mutated_between,
                  '%s/%s/%s' % (method, 'warm' if warm else 'cold', 'circular' if circular else 'acyclic'))
        if k < 2:
            run.sample({'method': method, 'warm': warm, 'ops': ops, 'circular': circular})
    # ---- constant-folded formulas: their value objects live inside the model and are copied with it ----------------------------
    P = "'[b1.xlsx]S1'!"
    for k in range(16 if quick else 300):
        r0, c0 = rnd.choice([(1, 2), (2, 1), (2, 2), (1, 3), (3, 1)])
        R, C = r0 + rnd.randint(0, 2), c0 + rnd.randint(0, 2)
        lit = '{' + ';'.join(','.join(str(rnd.choice([1, 2, 3, 5, 7])) for _ in range(c0)) for _ in range(r0)) + '}'
        f = rnd.choice(['=%s', '=ISERR(%s/0)', '=ISERROR(%s/1)', '=%s*2', '=ISNUMBER(%s)', '=IF(%s>2,"big","small")', '=ISNA(%s)']) % lit
        ref = 'A1:%s%d' % (bookgen.col_letters(C), R)
        d = {P + ref: f, P + 'F1': "=SUM(%sA1:%s%d)" % (P, bookgen.col_letters(C), R), P + 'F2': '=ISERROR(%s%s%d)' % (P, bookgen.col_letters(C), R)}
        case = {'workbook': d, 'stream': 'constant-folded'}
        for method in ('deepcopy', 'dill'):
            run.count(1, (json.dumps(d, sort_keys=True), method), True, 'constant-folded/' + method)
            try:
                orig = bookrun.ExcelModel().from_dict(d)
                if rnd.random() < 0.5:
                    orig.calculate()
                cp = copy.deepcopy(orig) if method == 'deepcopy' else dill.loads(dill.dumps(orig))
                a, b, c = vals_of(orig.calculate()), vals_of(cp.calculate()), vals_of(bookrun.ExcelModel().from_dict(d).calculate())
            except Exception as ex:
                run.violation('constant-folded formula: %s raised %s: %s' % (method, type(ex).__name__, str(ex)[:100]), dict(case, method=method))
                continue
            if not (a == b == c):
                kk = [x for x in c if not (a.get(x) == b.get(x) == c[x])][0]
                run.violation('node %s is %s on the original, %s on its %s copy, %s on a never-copied twin' % (kk, a.get(kk), b.get(kk), method, c[kk]),
                              dict(case, method=method, node=kk))
    # ---- function sweep: a model stays copyable whatever functions the process has evaluated before --------------------------------
    # (module-level caches filled at the first call of a function are shared by all models of the process)
    from formulas.functions import get_functions
    P = "'[b.xlsx]S'!"
    forms = ['=%s(1)', '=%s(1,2)', '=%s({A}A1:A2)', '=%s(1,{A}A1:A2,0)', '=%s({A}A1:A2,1)', '=%s("a")', '=%s(1,2,3)', '=%s()',
             '=%s({A}A1:A2,{A}A1:A2)', '=%s(2,{A}A1:A2,{A}A1:A2)', '=%s("a","b")', '=%s({A}A1:A2,">1")']
    volatile = {'NOW', 'TODAY', 'RAND', 'RANDBETWEEN'}
    names = sorted(k for k in get_functions() if isinstance(k, str) and '.' not in k and k not in volatile)
    rnd.shuffle(names)
    small_d = {P + 'A1': 1, P + 'A2': 2, P + 'B1': '=%sA1+%sA2' % (P, P)}
    small = bookrun.ExcelModel().from_dict(small_d)
    small_vals = vals_of(small.calculate())
    swept = 0
    logging_off = __import__('logging').disable
    corpus = ['MATCH', 'LOOKUP', 'VLOOKUP', 'HLOOKUP', 'FILTER']      # past failures first (fixed 74f9eac)
    for name in ((corpus + [x for x in names if x not in corpus][:25]) if quick else names):
        built = []
        for f in forms:
            d = {P + 'A1': 1, P + 'A2': 2, P + 'C1': (f % name).replace('{A}', P)}
            try:
                logging_off(50)
                try:
                    m = bookrun.ExcelModel().from_dict(d)
                    a = vals_of(m.calculate())
                finally:
                    logging_off(0)
            except Exception:
                continue                                    # not a call this function accepts
            built.append((d, m, a))
            swept += 1
        # quick: one round trip per function, after all its calls (a cache filled by any of them is still there)
        # thorough: a round trip after each of up to three calls per function (all 12 templates took an hour)
        for d, m, a in (built[-1:] if quick else built[:2] + built[-1:]):
            case = {'workbook': d, 'stream': 'function-sweep', 'evaluated_before': [x[0][P + 'C1'] for x in built]}
            run.count(1, ('sweep', d[P + 'C1']), True, 'function-sweep')
            for method in (('dill',) if quick else ('dill', 'deepcopy')):
                try:
                    cp = dill.loads(dill.dumps(m)) if method == 'dill' else copy.deepcopy(m)
                    b = vals_of(cp.calculate())
                    sm = small_vals if (quick or d is not built[-1][0]) else vals_of((dill.loads(dill.dumps(small)) if method == 'dill' else copy.deepcopy(small)).calculate())
                except Exception as ex:
                    run.violation('after evaluating %s, %s of a model raises %s: %s' % (case['evaluated_before'] if quick else d[P + 'C1'], method, type(ex).__name__, str(ex)[:100]),
                                  dict(case, method=method))
                    break
                if a != b or sm != small_vals:
                    run.violation('after evaluating %s, the %s copy gives %s, the original %s' % (d[P + 'C1'], method, b.get(P + 'C1'), a.get(P + 'C1')),
                                  dict(case, method=method))
                    break
    run.extra['function_sweep_calls'] = swept
    # known-finding witness
    try:
        dd = {"'[nofile9.xlsx]S'!A1": 2, "'[nofile9.xlsx]S'!B1": "='[nofile9.xlsx]S'!A1*2"}
        m0 = bookrun.ExcelModel().from_dict(dd)
        c0 = copy.deepcopy(m0)
        c0.finish()
        v = vals_of(c0.calculate()).get("'[nofile9.xlsx]S'!A1")
        run.replay_witness('copy-refinish', v == ['x#REF!'], {'witness': 'deepcopy(from_dict model).finish()', 'A1': v})
    except Exception as ex:
        run.replay_witness('copy-refinish', True, {'witness': 'raised ' + type(ex).__name__})
    run.extra['trusted_base'] = ['CPython object identity, copy, dill, lru_cache and module-level memos: exercised, not modelled (partial claim)']
    return None


def replay(payload):
    case = payload.get('case') or (payload.get('correspondence') or [None])[0]
    print(json.dumps(case, indent=1, default=str)[:3000])
    print('failed predicate:', case.get('what') if case else payload.get('broken_theorems_or_audit'))
    return 0
