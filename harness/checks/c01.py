"""C01 — formulas are parsed according to Excel's operator grammar.

Build a tree, spell it (minimal or redundant parentheses, blanks, letter case), parse the text with
the real parser, compare the fully parenthesised rendering with the rendering of the tree
(independent oracle in parsegen.py), with the Lean model (XL.Model.Lex/Syntax via xldriver) and,
for value-level trees, evaluate the compiled formula against the tree evaluated with the
implementation's scalar operators.
"""
import itertools, json
import numpy as np
import common
from common import Run, model
import parsegen as G

RULE = ('exhaustive: every ordered pair and triple of the 12 binary operators + prefix sign + postfix % over number '
        'atoms, in every parenthesisation; random trees to depth 5 over numbers, strings, logicals, errors, references, '
        'names, functions with 0-5 arguments incl. empty ones, array literals, reference operators; each tree in its '
        'minimal spelling and in decorated spellings (redundant parentheses, blanks, letter case, $ markers); a separate '
        'stream of sign runs. Non-trivial = the tree has >= 2 operator/function nodes; distinct = distinct spelling text.')


def enc(s):
    return 'u' + '.'.join(str(ord(c)) for c in s)


def dec(s):
    return ''.join(chr(int(x)) for x in s[1:].split('.')) if len(s) > 1 else ''


def sign_run(case):
    return G.has_adjacent_signs(case.get('text', '').split('"')[0] if '"' not in case.get('text', '') else
                                ''.join(case['text'].split('"')[::2]))


SIGNATURES = {'sign_run': sign_run}


def new_run():
    return Run('C01', RULE, SIGNATURES)


def setup():
    global Parser, FormulaError, OPERATORS, XlError
    from formulas import Parser
    from formulas.errors import FormulaError
    from formulas.functions.operators import OPERATORS
    from formulas.tokens.operand import XlError


def canon(expr):
    """letter case outside string literals does not belong to the tree (`true` / `TRUE`)"""
    parts = expr.split('"')
    return '"'.join(p.upper() if i % 2 == 0 else p for i, p in enumerate(parts))


def impl_expr(text):
    try:
        toks, b = Parser().ast(text)
        return 'ok ' + b[-1].get_expr
    except FormulaError:
        return 'error'
    except Exception as ex:
        return 'escape:' + type(ex).__name__


def tree_value(t):
    """evaluate a value-level tree with the implementation's own scalar operators"""
    k = t[0]
    if k == 'num':
        return float(t[1])
    if k == 'bool':
        return t[1].upper() == 'TRUE'
    if k == 'str':
        return t[1].replace('""', '"')
    if k == 'un':
        return sc(OPERATORS['U' + t[1]](tree_value(t[2])))
    if k == 'post':
        return sc(OPERATORS['%'](tree_value(t[1])))
    if k == 'bin':
        return sc(OPERATORS[t[1]](tree_value(t[2]), tree_value(t[3])))
    raise KeyError(k)


def sc(x):
    if isinstance(x, np.ndarray):
        x = x.ravel()[0]
    if isinstance(x, np.generic):
        x = x.item()
    return x


def value_level(t):
    k = t[0]
    if k in ('num', 'bool', 'str'):
        return True
    if k == 'un':
        return value_level(t[2])
    if k == 'post':
        return value_level(t[1])
    if k == 'bin':
        return value_level(t[2]) and value_level(t[3])
    return False


def same_value(a, b):
    if isinstance(a, XlError) or isinstance(b, XlError):
        return str(a) == str(b) and isinstance(a, XlError) and isinstance(b, XlError)
    if isinstance(a, bool) or isinstance(b, bool) or isinstance(a, str) or isinstance(b, str):
        return type(a) == type(b) and a == b
    return float(a) == float(b)


def check(run):
    setup()
    rnd = run.rng
    quick = run.tier == 'quick'
    req, pend = [], []
    seen = set()
    stats = {'evaluated': 0}

    def one(tree, text, stream, evaluate=False):
        if text in seen:
            return
        seen.add(text)
        formula = '=' + text
        exp = 'ok ' + G.render(tree)
        got = impl_expr(formula)
        case = {'text': formula, 'stream': stream, 'expected': exp, 'impl': got}
        run.count(1, text, G.count_ops(tree) >= 2, stream)
        if canon(got) != canon(exp):
            run.violation('the parser reads %s as %s, the grammar assigns %s' % (formula, got, exp), case)
        req.append('parse ' + enc(formula))
        pend.append(lambda m, got=got, case=case: (m == 'ood') or (('ok ' + dec(m[3:])) if m.startswith('ok ') else m) == got
                    or run.disagree('model %s, implementation %s' % (('ok ' + dec(m[3:])) if m.startswith('ok ') else m, got), case))
        if evaluate and got.startswith('ok') and value_level(tree):
            stats['evaluated'] += 1
            try:
                v1 = sc(Parser().ast(formula)[1].compile()())
                v2 = tree_value(tree)
                if not same_value(v1, v2):
                    run.violation('the formula evaluates to %r, its tree to %r' % (v1, v2), dict(case, values=[repr(v1), repr(v2)]))
            except Exception as ex:
                run.violation('evaluation raised %s' % type(ex).__name__, case)

    # ---- 1. exhaustive pairs and triples over number atoms ----------------------------------------------
    ops = G.BINOPS
    atoms = [('num', '2'), ('num', '3'), ('num', '4'), ('num', '5')]
    a, b, c, d = atoms

    def shapes2(o1, o2):
        yield ('bin', o2, ('bin', o1, a, b), c)
        yield ('bin', o1, a, ('bin', o2, b, c))

    def shapes3(o1, o2, o3):
        yield ('bin', o3, ('bin', o2, ('bin', o1, a, b), c), d)
        yield ('bin', o3, ('bin', o1, a, ('bin', o2, b, c)), d)
        yield ('bin', o2, ('bin', o1, a, b), ('bin', o3, c, d))
        yield ('bin', o1, a, ('bin', o3, ('bin', o2, b, c), d))
        yield ('bin', o1, a, ('bin', o2, b, ('bin', o3, c, d)))
    for o1 in ops:
        for o2 in ops:
            for t in shapes2(o1, o2):
                one(t, G.spell(t), 'pairs', evaluate=True)
    # unary / postfix against every binary operator, on either side
    for o in ops:
        for t in (('bin', o, ('un', '-', a), b), ('bin', o, a, ('un', '-', b)), ('un', '-', ('bin', o, a, b)),
                  ('bin', o, ('post', a), b), ('bin', o, a, ('post', b)), ('post', ('bin', o, a, b)),
                  ('bin', o, ('un', '-', ('post', a)), b), ('post', ('un', '-', a)), ('un', '+', ('bin', o, a, ('post', b)))):
            one(t, G.spell(t), 'unary-pairs', evaluate=True)
    triples = list(itertools.product(ops, repeat=3))
    if quick:
        triples = rnd.sample(triples, 250)
    for o1, o2, o3 in triples:
        for t in shapes3(o1, o2, o3):
            one(t, G.spell(t), 'triples', evaluate=not quick or rnd.random() < 0.2)
    run.exhaustive = not quick
    run.extra['exhaustive_domains'] = ['all ordered operator pairs in both parenthesisations'] + (
        ['all ordered operator triples in the five parenthesisations'] if not quick else [])

    # ---- 2. random trees, minimal and decorated spellings -----------------------------------------------
    n = 1200 if quick else 25000
    for i in range(n):
        t = G.gen_tree(rnd, rnd.randint(1, 5))
        one(t, G.spell(t), 'random-minimal', evaluate=(i % 4 == 0))
        dcr = G.Decor(rnd, extra_parens=rnd.choice([0, 0.2, 0.5]), blanks=rnd.choice([0, 0.3, 0.8]),
                      case=rnd.choice([0, 0.5, 1.0]), dollars=rnd.choice([0, 0.5]))
        one(t, G.spell(t, dcr), 'random-decorated')
        if i % 3 == 0:
            # blanks before and behind the whole formula mean nothing
            one(t, rnd.choice(['', ' ']) + G.spell(t, dcr if i % 2 else G.MINIMAL) + rnd.choice([' ', '  ']), 'outer-blanks')
        if i < 3:
            run.sample({'tree': G.render(t), 'minimal': '=' + G.spell(t), 'decorated': '=' + G.spell(t, dcr)})

    # ---- 2b. compact trees of the text-level theorem (XL.LexText.compact_text_parses): the text is printed by the MODEL --------
    # random trees over integers, cell names, plain strings, all binary operators, signs, %, calls; the Lean printer CT.text
    # gives the compact text; the implementation must read that text as the tree (and the model too: that is the theorem)
    creq, cpend = [], []

    def gen_ct(depth):
        k = rnd.random()
        if depth <= 0 or k < 0.25:
            kind = rnd.choice('ncs')
            if kind == 'n':
                return 'N' + rnd.choice(['0', '1', '7', '42', '007', '1000', '9'])
            if kind == 'c':
                return 'C' + rnd.choice(['A', 'B', 'Z', 'AB', 'XFC', 'T', 'F', 'E', 'TRU', 'FAL', 'R', 'C', 'RC']) + '.' + rnd.choice(['1', '2', '10', '99', '1048575'])   # not the last column / row: known finding of C04
            return 'S' + enc(rnd.choice(['', 'x', 'a b', 'x+1', '#N/A', 'TRUE', '1,2', 'A1:B2', '(', 'é'.encode('ascii', 'ignore').decode() or 'e']))
        if k < 0.65:
            return 'B' + rnd.choice(G.BINOPS) + ' ' + gen_ct(depth - 1) + ' ' + gen_ct(depth - 1)
        if k < 0.8:
            return rnd.choice(['M', 'P']) + ' ' + gen_ct(depth - 1)
        if k < 0.9:
            return '% ' + gen_ct(depth - 1)
        n_ = rnd.randint(0, 3)
        return 'F' + rnd.choice(['SUM', 'MAX', 'IF', 'AND', 'CONCATENATE', 'ABS', 'G', 'ROUND']) + ' %d' % n_ + ''.join(' ' + gen_ct(depth - 1) for _ in range(n_))
    for i in range(400 if quick else 12000):
        code = gen_ct(rnd.randint(1, 5))
        creq.append('ctext ' + code)
        cpend.append(code)
    for code, ans in zip(cpend, model(creq)):
        parts = ans.split(' ')
        text = dec(parts[0])
        mres = ' '.join(parts[1:-1])
        exp = 'ok ' + dec(parts[-1])
        mres = ('ok ' + dec(mres[3:])) if mres.startswith('ok ') else mres
        got = impl_expr(text)
        case = {'text': text, 'stream': 'compact-tree', 'tree_code': code, 'expected': exp, 'impl': got, 'model': mres}
        run.count(1, text, code.count('B') + code.count('M') + code.count('P') + code.count('%') >= 2, 'compact-tree')
        if mres != exp:
            run.disagree('the model reads its own compact text %s as %s, not as the tree %s (theorem compact_text_parses)' % (text, mres, exp), case)
        if canon(got) != canon(exp):
            if canon(got) == canon(mres):
                run.violation('the parser reads %s as %s, the grammar assigns %s' % (text, got, exp), case)
            else:
                run.disagree('compact text %s: implementation %s, model and tree %s' % (text, got, exp), case)
    run.extra['compact_tree_requests'] = len(creq)

    # ---- 3. sign runs (known finding: the pinned code folds them) -----------------------------------------
    sr = G.Decor(rnd)
    sr.sign_runs = True
    for i in range(150 if quick else 2000):
        t = G.gen_tree(rnd, rnd.randint(1, 3), allow_sign_nest=True)
        wrap = rnd.choice([lambda x: ('un', '-', ('un', '-', x)), lambda x: ('bin', '+', ('num', '1'), ('un', '-', x)),
                           lambda x: ('bin', '-', ('num', '1'), ('un', '-', ('bin', '^', x, ('num', '2')))),
                           lambda x: ('un', '-', ('un', '+', ('un', '-', x)))])
        t = wrap(t)
        one(t, G.spell(t, sr), 'sign-runs')
    # exact witnesses, replayed every run
    w1, w2 = impl_expr('=1+-2^2'), impl_expr('=--"3"')
    run.replay_witness('sign-run', w1 == 'ok (1 - (2 ^ 2))' and w2 == 'ok +"3"', {'witness': ['=1+-2^2', '=--"3"'], 'impl': [w1, w2]})

    answers = model(req)
    ood = 0
    for m, h in zip(answers, pend):
        if m == 'ood':
            ood += 1
        h(m)
    run.extra['model_requests'] = len(req)
    run.extra['model_out_of_domain'] = ood
    run.extra['evaluated_formulas'] = stats['evaluated']
    return None


def replay(payload):
    common.import_repo(); setup()
    case = payload.get('case') or (payload.get('correspondence') or [None])[0]
    print(json.dumps(case, indent=1, default=str))
    if not case:
        print('nothing to replay: broken theorems:', payload.get('broken_theorems_or_audit')); return 0
    f = case['text']
    print('implementation:', impl_expr(f))
    m = model(['parse ' + enc(f)])[0]
    print('model         :', ('ok ' + dec(m[3:])) if m.startswith('ok ') else m)
    print('grammar       :', case.get('expected'))
    print('failed predicate:', case.get('what'))
    return 0
