"""C08 — compiled functions agree with interpretation for every argument.

(1) ExcelModel.compile(inputs, outputs)(*args) vs ExcelModel.calculate(inputs=dict(zip(inputs, args)))
    on random workbooks, input/output node lists (cells, formula cells, ranges, names) and argument
    tuples of every kind (numbers, text, logicals, errors, blanks) — no model needed — and vs the Lean
    workbook model with the arguments as overrides.
(2) Parser().ast(f)[1].compile(): arguments in the order of `func.inputs`; the result equals the same
    formula with the arguments written in as literals.
"""
import json
import numpy as np
import common
from common import Run, model
import bookgen, bookrun
import parsegen as G

RULE = ('random acyclic workbooks x random input node lists (constant cells, formula cells, referenced unpopulated cells - listed as #EMPTY in three dictionaries of four, unlisted in the fourth -, a range, a reference-valued '
        'name) x output lists x 3 argument tuples each over numbers/text/logicals/errors/blank; compiled single formulas '
        'over 1-4 references x argument tuples, compared with the formula with literals written in. Non-trivial = an '
        'output depends on an input; distinct = distinct (workbook, inputs, outputs, arguments).')


def unlisted_blank_input(case):
    """known finding compile-unlisted-blank-input: one of the inputs is an unpopulated cell that is not a node of the
    model (ranges read it from the solution), and the compiled function differs from the full calculation"""
    return bool(case.get('inputs_that_are_no_nodes')) and bool(case.get('equals_calculation_without_those_inputs')) and \
        'a full calculation with the same inputs gives' in case.get('what', '')


SIGNATURES = {'unlisted_blank_input': unlisted_blank_input}


def new_run():
    return Run('C08', RULE, SIGNATURES)


def cells_of_ref(ref):
    s, r1, r2, c1, c2 = ref
    return [(s, r, c) for r in range(r1, r2 + 1) for c in range(c1, c2 + 1)]


def wires(x):
    a = np.asarray(getattr(x, 'value', x), object)
    if a.ndim == 0:
        a = a.reshape(1, 1)
    return [[bookrun.wire_impl(v) for v in row] for row in a.tolist()]


def check(run):
    bookrun.setup()
    from formulas import Parser
    from formulas.ranges import Ranges
    rnd = run.rng
    quick = run.tier == 'quick'
    n = 100 if quick else 2500
    req, pend = [], []
    for k in range(n):
        wb = bookgen.generate(rnd, n_books=rnd.choice([1, 1, 2]))
        listed = k % 4 != 3            # every fourth dictionary does not list the referenced unpopulated cells
        d = wb.to_dict(explicit_blanks=listed)
        case = {'workbook': {k_: (str(v) if isinstance(v, bookgen.Err) else v) for k_, v in d.items()}}
        try:
            m = bookrun.ExcelModel().from_dict(d)
            m.calculate()
        except Exception as ex:
            run.violation('building the workbook raised %s' % type(ex).__name__, case)
            continue
        consts = [a for a, c in wb.cells.items() if c[0] == 'v']
        forms = [a for a, c in wb.cells.items() if c[0] == 'f']
        if not consts or not forms:
            continue
        ins = [('cell', a) for a in rnd.sample(consts, min(len(consts), rnd.randint(1, 3)))]
        if rnd.random() < 0.3:
            ins.append(('cell', rnd.choice(forms)))
        blanks = sorted(wb.referenced_blanks())
        if blanks and (not listed or rnd.random() < 0.4):
            ins.append(('cell', rnd.choice(blanks)))           # an unpopulated cell that formulas refer to
        outs = [a for a in rnd.sample(forms, min(len(forms), rnd.randint(1, 3))) if ('cell', a) not in ins]
        if not outs:
            continue
        in_keys = [wb.key(*a) for _, a in ins]
        out_keys = [wb.key(*a) for a in outs]
        case.update(inputs=in_keys, outputs=out_keys, inputs_that_are_no_nodes=[x for x in in_keys if x not in m.dsp.nodes])
        try:
            f = m.compile(inputs=in_keys, outputs=out_keys)
        except Exception as ex:
            run.violation('ExcelModel.compile raised %s: %s' % (type(ex).__name__, str(ex)[:100]), case)
            continue
        reach = set()
        for t in range(3):
            # (a blank cannot be supplied: `sh.EMPTY` as an input value means "no input")
            args = [bookgen.gen_value(rnd, 'nnnnnntbe') for _ in ins]
            iargs = [bookrun.to_impl_value(a) for a in args]
            c2 = dict(case, args=[repr(a) for a in args])
            run.count(1, (json.dumps(case['workbook'], sort_keys=True, default=str), tuple(in_keys), tuple(out_keys), repr(args)),
                      True, 'model-compile/inputs=%d/outputs=%d' % (len(ins), len(outs)))
            try:
                res = f(*iargs)
                res = res if isinstance(res, (list, tuple)) else [res]
                got = [wires(x) for x in res]
            except Exception as ex:
                run.violation('the compiled function raised %s: %s' % (type(ex).__name__, str(ex)[:100]), c2)
                continue
            try:
                sol = m.calculate(inputs=dict(zip(in_keys, iargs)), outputs=out_keys)
                exp = [wires(sol[o]) for o in out_keys]
            except Exception as ex:
                run.violation('calculate(inputs=...) raised %s' % type(ex).__name__, c2)
                continue
            if got != exp:
                j = [i for i in range(len(exp)) if got[i] != exp[i]][0]
                if case.get('inputs_that_are_no_nodes'):
                    # is the difference exactly that the compiled function ignores the inputs that are no nodes of the model?
                    try:
                        sol2 = m.calculate(inputs={k_: v_ for k_, v_ in zip(in_keys, iargs) if k_ in m.dsp.nodes}, outputs=out_keys)
                        c2['equals_calculation_without_those_inputs'] = [wires(sol2[o]) for o in out_keys] == got
                    except Exception:
                        c2['equals_calculation_without_those_inputs'] = False
                run.violation('compiled function returns %s for %s, a full calculation with the same inputs gives %s' % (
                    [[bookrun.show(v) for v in r] for r in got[j]], out_keys[j], [[bookrun.show(v) for v in r] for r in exp[j]]), c2)
            ov = [a + (v,) for (_, a), v in zip(ins, args)]
            req.append(wb.to_wire(outs, overrides=ov))
            pend.append((wb, outs, [e[0][0] for e in exp], c2))
        if k < 2:
            run.sample({'inputs': in_keys, 'outputs': out_keys, 'cells': len(wb.cells)})

    # ---- (1b) template stream: a multi-cell range (or a name for it) among the inputs --------------------------------------
    for k in range(40 if quick else 1500):
        wb, R, name, outs = bookgen.range_template(rnd, solution_reads=False)
        d = wb.to_dict(explicit_blanks=wb.explicit)
        case = {'workbook': {k_: (str(v) if isinstance(v, bookgen.Err) else v) for k_, v in d.items()}, 'stream': 'range-template'}
        how = rnd.choice((['range', 'sub-range', 'name'] if name else ['range', 'sub-range']) if (wb.explicit and not wb.has_array) else (['range', 'name'] if name else ['range']))
        rr = R if how != 'sub-range' else (0, 2, 3, 1, 1)
        key = wb.name_key(name) if how == 'name' else '%s!%s' % (wb.sheet_id(0), wb.ref_text(rr))
        in_keys = [key] + ([wb.key(0, 1, 4)] if rnd.random() < 0.5 else [])
        out_keys = [wb.key(*a) for a in outs]
        case.update(inputs=in_keys, outputs=out_keys)
        try:
            m = bookrun.ExcelModel().from_dict(d)
            m.calculate()
            f = m.compile(inputs=in_keys, outputs=out_keys)
        except Exception as ex:
            run.violation('ExcelModel.compile raised %s: %s' % (type(ex).__name__, str(ex)[:100]), case)
            continue
        for t in range(2):
            vals = [[rnd.choice([4, 6, 20, 30, 0, 8.5])] for _ in range(rr[2] - rr[1] + 1)]
            iargs = [np.asarray(vals, object)] + ([rnd.choice([2, 9])] if len(in_keys) > 1 else [])
            c2 = dict(case, args=[str(vals)] + [repr(x) for x in iargs[1:]])
            run.count(1, (json.dumps(case['workbook'], sort_keys=True, default=str), tuple(in_keys), repr(c2['args'])), True, 'template/' + how)
            try:
                res = f(*iargs)
                res = res if isinstance(res, (list, tuple)) else [res]
                got = [wires(x) for x in res]
                sol = bookrun.ExcelModel().from_dict(d).calculate(inputs=dict(zip(in_keys, iargs)), outputs=out_keys)
                exp = [wires(sol[o]) for o in out_keys]
            except Exception as ex:
                run.violation('compiled function / calculate raised %s: %s' % (type(ex).__name__, str(ex)[:100]), c2)
                continue
            if got != exp:
                j = [i for i in range(len(exp)) if got[i] != exp[i]][0]
                if case.get('inputs_that_are_no_nodes'):
                    # is the difference exactly that the compiled function ignores the inputs that are no nodes of the model?
                    try:
                        sol2 = m.calculate(inputs={k_: v_ for k_, v_ in zip(in_keys, iargs) if k_ in m.dsp.nodes}, outputs=out_keys)
                        c2['equals_calculation_without_those_inputs'] = [wires(sol2[o]) for o in out_keys] == got
                    except Exception:
                        c2['equals_calculation_without_those_inputs'] = False
                run.violation('compiled function returns %s for %s, a full calculation with the same inputs gives %s' % (
                    [[bookrun.show(v) for v in r] for r in got[j]], out_keys[j], [[bookrun.show(v) for v in r] for r in exp[j]]), c2)
            ov = [(0, rr[1] + i, 1, vals[i][0]) for i in range(len(vals))] + ([(0, 1, 4, iargs[1])] if len(in_keys) > 1 else [])
            req.append(wb.to_wire(outs, overrides=ov))
            pend.append((wb, outs, [e[0][0] for e in exp], c2))
    # ---- (1c) a volatile cell among the precedents: what is frozen at compile time must not be observable --------------------
    # In every full calculation the dependents of a volatile cell are functions of the one value that cell shows; the compiled
    # function must return tuples with the same relation, for every argument (relations only: the random value itself is free).
    P = "'[v.xlsx]S'!"
    for k in range(12 if quick else 300):
        a, b = rnd.choice([1, 2, 3, 10]), rnd.choice([0, 1, 5, -2])
        vol = rnd.choice(['RAND()', 'RAND()*1', 'IF(RAND()<2,RAND(),0)'])
        d = {P + 'A1': '=' + vol, P + 'C1': 3,
             P + 'B1': '=%sA1*%d+%d' % (P, a, b),                      # depends on the volatile cell only
             P + 'B2': '=%sB1+%sC1' % (P, P),                           # ... and on the input
             P + 'B3': '=IF(%sC1>100,%sA1,%sB1)' % (P, P, P),           # which branch depends on the argument
             P + 'B4': '=%sC1*2' % P,                                    # independent of the volatile cell
             P + 'A2': 4, P + 'D1': 7,
             P + 'B5': '=%sA1+%sD1' % (P, P),                            # the volatile cell and a stored constant
             P + 'B6': '=SUM(%sA1:A2)' % P}                              # ... through a range
        case = {'workbook': d, 'stream': 'volatile-precedent', 'inputs': [P + 'C1'], 'outputs': [P + x for x in ('A1', 'B1', 'B2', 'B3', 'B4', 'B5', 'B6')]}
        try:
            m = bookrun.ExcelModel().from_dict(d)
            m.calculate()
            f = m.compile(inputs=case['inputs'], outputs=case['outputs'])
        except Exception as ex:
            run.violation('ExcelModel.compile raised %s: %s' % (type(ex).__name__, str(ex)[:100]), case)
            continue
        seen = set()
        for t in range(4):
            c = rnd.choice([0, 1, 7, 150, 2.5, 1000])
            run.count(1, (json.dumps(d, sort_keys=True), c, t), True, 'volatile-precedent')
            try:
                v = [float(np.asarray(getattr(x, 'value', x), object).ravel()[0]) for x in f(c)]
            except Exception as ex:
                run.violation('the compiled function raised %s: %s' % (type(ex).__name__, str(ex)[:100]), dict(case, args=[c]))
                continue
            A1, B1, B2, B3, B4, B5, B6 = v
            exp = [A1, A1 * a + b, (A1 * a + b) + c, A1 if c > 100 else A1 * a + b, c * 2.0, A1 + 7, A1 + 4]
            if v != exp:
                j = [i for i in range(len(exp)) if v[i] != exp[i]][0]
                run.violation('compiled function returns %r for %s although it returns %r for the volatile cell A1 in the same call: '
                              'a full calculation with the same inputs gives %r there' % (v[j], case['outputs'][j], A1, exp[j]), dict(case, args=[c], returned=v))
            seen.add(A1)
        if len(seen) == 1 and 'RAND' in vol:
            run.violation('the volatile cell shows the same value %r in 4 calls of the compiled function (frozen at compile time)' % A1, case)
    # ---- (1d) the compiled function does not depend on what the model calculated before or after compiling -----------------------
    # ranges with several unpopulated, unlisted cells read them from "the running solution": it must be the solution of the call,
    # not the last solution of the model the function was compiled from
    P = "'[h.xlsx]S'!"
    for k in range(25 if quick else 500):
        n = rnd.randint(4, 9)
        pop = sorted(rnd.sample(range(1, n + 1), rnd.randint(1, n - 2)))
        blanks = [i for i in range(1, n + 1) if i not in pop]
        d = {P + 'A%d' % i: rnd.choice([1, 2, 3, 5, 10]) for i in pop}
        d[P + 'B1'] = '=SUM(%sA1:A%d)' % (P, n)
        d[P + 'B2'] = '=%sB1*2+%sC1' % (P, P)
        d[P + 'B3'] = '=COUNT(%sA1:A%d)+%sC1' % (P, n, P)
        d[P + 'C1'] = 1
        case = {'workbook': d, 'stream': 'history-independence'}
        inp_cell = rnd.choice([P + 'A%d' % pop[0], P + 'C1'])
        outs = [P + 'B2', P + 'B3']
        hist = []
        try:
            m = bookrun.ExcelModel().from_dict(d)
            if rnd.random() < 0.7:
                hb = {P + 'A%d' % rnd.choice(blanks): rnd.choice([100, 1000])}
                m.calculate(inputs=hb); hist.append(('calculate-before', hb))
            f = m.compile(inputs=[inp_cell], outputs=outs)
            if rnd.random() < 0.7:
                hb = {P + 'A%d' % rnd.choice(blanks): rnd.choice([100, 1000])}
                m.calculate(inputs=hb); hist.append(('calculate-after', hb))
            arg = rnd.choice([4, 7, 0.5])
            got = [wires(x) for x in f(arg)]
            exp_sol = bookrun.ExcelModel().from_dict(d).calculate(inputs={inp_cell: arg}, outputs=outs)
            exp = [wires(exp_sol[o]) for o in outs]
        except Exception as ex:
            run.violation('history stream raised %s: %s' % (type(ex).__name__, str(ex)[:100]), case)
            continue
        run.count(1, (json.dumps(d, sort_keys=True), inp_cell, str(hist)), bool(hist), 'history-independence/ops=%d' % len(hist))
        if got != exp:
            run.violation('compiled function returns %s for %s after the model history %s, a full calculation of a fresh model with the same inputs gives %s' % (
                got, outs, hist, exp), dict(case, inputs=[inp_cell], outputs=outs, args=[arg], history=str(hist)))
    # ---- (2) single formulas ------------------------------------------------------------------------------------------
    nf = 250 if quick else 6000
    refs_pool = ['A1', 'B2', 'C3', 'A1:A3', 'B1:B3', 'D4']     # broadcast-compatible shapes only
    for k in range(nf):
        nref = rnd.randint(1, 4)
        rs = rnd.sample(refs_pool, nref)
        # an expression over these references
        def ex(depth):
            if depth == 0 or rnd.random() < 0.3:
                return rnd.choice(rs) if rnd.random() < 0.7 else rnd.choice(['1', '2.5', '"t"', 'TRUE'])
            kind = rnd.random()
            if kind < 0.5:
                return '(%s%s%s)' % (ex(depth - 1), rnd.choice(['+', '-', '*', '/', '&', '=', '<', '>=']), ex(depth - 1))
            if kind < 0.7:
                return 'SUM(%s,%s)' % (ex(depth - 1), ex(depth - 1))
            if kind < 0.85:
                return 'IF(%s>1,%s,%s)' % (ex(depth - 1), ex(depth - 1), ex(depth - 1))
            return 'IFERROR(%s,%s)' % (ex(depth - 1), ex(depth - 1))
        text = '=' + ex(rnd.randint(1, 3))
        case = {'formula': text}
        try:
            fn = Parser().ast(text)[1].compile()
        except Exception as ex_:
            run.violation('compiling the formula raised %s' % type(ex_).__name__, case)
            continue
        inputs = list(fn.inputs)
        used = sorted({r for r in rs if r in text.upper().replace('$', '')})
        run.count(1, text, len(inputs) >= 1, 'formula-compile/inputs=%d' % len(inputs))
        if inputs != sorted(inputs):
            run.violation('the inputs mapping %r is not in sorted order' % inputs, case)
        for t in range(2):
            vals, lits = {}, {}
            for name in inputs:
                rg = Ranges().push(name).ranges[0]
                h, w = int(rg['r2']) - int(rg['r1']) + 1, rg['n2'] - rg['n1'] + 1
                arr = [[bookgen.gen_value(rnd, 'nnnnnntbe') for _ in range(w)] for _ in range(h)]
                vals[name] = arr
            try:
                r1 = fn(*[Ranges().push(nm, np.asarray([[bookrun.to_impl_value(v) for v in row] for row in vals[nm]], object)) for nm in inputs])
                w1 = wires(r1)
            except Exception as ex_:
                run.violation('the compiled formula raised %s' % type(ex_).__name__, dict(case, args=repr(vals)))
                continue
            # the same formula with the arguments written in as literals
            wbk = bookgen.WB()

            def lit(v):
                return wbk.lit_text(v).strip('()') if not (isinstance(v, (int, float)) and not isinstance(v, bool) and v < 0) else '-' + wbk.lit_text(-v)
            t2 = text.upper() if False else text
            import re
            def repl(mo):
                nm = mo.group(0).upper()
                if nm in vals:
                    arr = vals[nm]
                    if len(arr) == 1 and len(arr[0]) == 1 and nm.find(':') < 0:
                        return '{' + lit(arr[0][0]) + '}'
                    return '{' + ';'.join(','.join(lit(v) for v in row) for row in arr) + '}'
                return mo.group(0)
            t2 = re.sub(r'[A-D][1-4](?::[A-D][1-4])?', repl, text)
            try:
                r2 = Parser().ast(t2)[1].compile()()
                w2 = wires(r2)
            except Exception as ex_:
                continue        # a literal form the parser rejects (e.g. an error inside an array literal): not comparable
            if w1 != w2:
                run.violation('compiled formula gives %s, the formula with the arguments written in (%s) gives %s' % (
                    [[bookrun.show(v) for v in r] for r in w1], t2, [[bookrun.show(v) for v in r] for r in w2]), dict(case, args=repr(vals), literal=t2))
        if k < 2:
            run.sample({'formula': text, 'inputs': inputs})

    answers = model(req)
    for ans, (wb, outs, exp, case) in zip(answers, pend):
        for a, mv, iv in zip(outs, ans.split(' '), exp):
            if mv != iv:
                run.disagree('output %s: model %s, compiled/calculated %s' % (wb.key(*a), bookrun.show(mv), bookrun.show(iv)), case)
                break
    # the exact witness of known finding compile-unlisted-blank-input
    P = "'[b.xlsx]S'!"
    try:
        mw = bookrun.ExcelModel().from_dict({P + 'A1': 1, P + 'A2': 2, P + 'A3': 3, P + 'B1': '=SUM(%sA1:A10)' % P})
        full = wires(mw.calculate(inputs={P + 'A7': 5}, outputs=[P + 'B1'])[P + 'B1'])
        comp = wires(mw.compile(inputs=[P + 'A7'], outputs=[P + 'B1'])(5))
    except Exception as ex:
        full, comp = 'raised', type(ex).__name__
    run.replay_witness('compile-unlisted-blank-input', full != comp, {'witness': 'from_dict({A1:1,A2:2,A3:3,B1:=SUM(A1:A10)}): compile([A7],[B1])(5) vs calculate({A7:5})',
                                                                       'compiled': comp, 'calculated': full})
    # the exact witness of known finding compile-range-over-unlisted-blanks
    try:
        dw = {P + 'A1': 1, P + 'B2': '=SUM(%sA1:A3)' % P, P + 'B3': '=SUM(%sA2:A3)' % P}
        full = wires(bookrun.ExcelModel().from_dict(dw).calculate(inputs={P + 'A1:A3': [[10], [20], [30]]})[P + 'B3'])
        comp = wires(bookrun.ExcelModel().from_dict(dw).compile(inputs=[P + 'A1:A3'], outputs=[P + 'B3'])([[10], [20], [30]]))
    except Exception as ex:
        full, comp = 'raised', type(ex).__name__
    run.replay_witness('compile-range-over-unlisted-blanks', full != comp, {'witness': 'from_dict({A1:1,B2:=SUM(A1:A3),B3:=SUM(A2:A3)}): compile([A1:A3],[B3])([[10],[20],[30]]) vs calculate',
                                                                             'compiled': comp, 'calculated': full})
    run.extra['model_requests'] = len(req)
    return None


def replay(payload):
    common.import_repo(); bookrun.setup()
    case = payload.get('case') or (payload.get('correspondence') or [None])[0]
    print(json.dumps(case, indent=1, default=str)[:3000])
    if case and 'workbook' in case and 'inputs' in case:
        m = bookrun.ExcelModel().from_dict(case['workbook'])
        f = m.compile(inputs=case['inputs'], outputs=case['outputs'])
        print('compiled function built; inputs', case['inputs'], 'outputs', case['outputs'])
    print('failed predicate:', case.get('what') if case else payload.get('broken_theorems_or_audit'))
    return 0
