"""C03 — a calculated workbook is a consistent fixed point, whatever the order.

Random acyclic workbooks (several sheets/books, constants of every kind, single-cell / range /
cross-sheet / cross-book / defined-name / array-formula references, blanks) are calculated by the
implementation through the dictionary path in several insertion orders, through .xlsx files, and
under several PYTHONHASHSEED values; every cell of every solution is compared with the Lean model
`XL.Model.Book.value` and with each other.
"""
import os, sys, json, shutil, tempfile, subprocess
import numpy as np
import common
from common import Run, model
import bookgen, bookrun

RULE = ('random acyclic workbooks (2-3 sheets, 1-2 books, ~14 constants of every kind, ~12 formulas over operators and '
        'SUM/MAX/MIN/COUNT/IF/IFERROR/ABS/ISERROR/AND/OR/NOT, defined names, array formulas, blanks, one whole-column '
        'reference in some; sheets 6x4, 3x7 or 2x8). Each is calculated via from_dict in 3 insertion orders, via .xlsx (all books loaded, and - for several books - each book loaded alone with finish() bringing in the others) and, for a '
        'sample, under 2 further PYTHONHASHSEED values. Non-trivial = at least 3 formulas with a range or name reference; '
        'distinct = distinct workbook dictionaries.')


def cross_book_name(case):
    """known finding cross-book-name: only one of the books was loaded explicitly and the differing cell is a formula
    using a defined name of another workbook, or depends on such a cell"""
    return len(case.get('loaded', [])) == 1 and bool(case.get('depends_on_cross_book_name'))


SIGNATURES = {'cross_book_name': cross_book_name}


def new_run():
    return Run('C03', RULE, SIGNATURES)


def tainted_cells(wb):
    """addresses whose value depends on a formula that uses a defined name of another workbook"""
    occ = {}
    for (s, r, c), cont in wb.cells.items():
        R, C = (cont[1], cont[2]) if cont[0] == 'a' else (1, 1)
        for i in range(R):
            for j in range(C):
                occ[(s, r + i, c + j)] = (s, r, c)
    direct = set()
    dep = {}
    def cells_of(e, seen=()):
        out = set()
        for kk, x in wb.deps(e):
            if kk == 'ref':
                s, r1, r2, c1, c2 = x
                out |= {occ[a] for a in occ if a[0] == s and r1 <= a[1] <= r2 and c1 <= a[2] <= c2}
            elif x not in seen:
                out |= cells_of(wb.names[x][1], seen + (x,))
        return out
    for a, cont in wb.cells.items():
        if cont[0] == 'v':
            continue
        if any(kk == 'name' and wb.names[x][0] != wb.sheets[a[0]][0] for kk, x in wb.deps(cont[-1])):
            direct.add(a)
        dep[a] = cells_of(cont[-1])
    t = set(direct)
    grew = True
    while grew:
        grew = False
        for a, ds in dep.items():
            if a not in t and ds & t:
                t.add(a); grew = True
    return {a for a, o in occ.items() if o in t}


def lone_constant(wb, rnd, rows, cols):
    """a constant of very small or very large magnitude (at most 15 significant digits) in a cell that nothing reads:
    every constant cell holds its stored value, whichever loading path"""
    if rnd.random() < 0.5:
        return
    refd = set()
    exprs = [c[-1] for c in wb.cells.values() if c[0] != 'v'] + [e for _, e in wb.names.values()]
    for e in exprs:
        for k, r in wb.deps(e):
            if k == 'ref':
                s_, r1, r2, c1, c2 = r
                refd |= {(s_, i, j) for i in range(max(r1, 1), min(r2, rows) + 1) for j in range(max(c1, 1), min(c2, cols) + 1)}
    spill = {(s_, r_ + i, c_ + j) for (s_, r_, c_), ct in wb.cells.items() if ct[0] == 'a' for i in range(ct[1]) for j in range(ct[2])}
    free = [(0, i, j) for i in range(1, rows + 1) for j in range(1, cols + 1) if (0, i, j) not in wb.cells and (0, i, j) not in refd and (0, i, j) not in spill]
    if free:
        wb.cells[rnd.choice(free)] = ('v', rnd.choice([1.23456789e-12, 2.5e-16, 1e-20, -3.75e-13, 1.5e-300, 123456789012.125, 9.87654321e+20, 1e-15, 4.4e-16]))


def check(run):
    bookrun.setup()
    rnd = run.rng
    quick = run.tier == 'quick'
    n = 45 if quick else 450            # (1500 took 56 minutes)
    tmp = tempfile.mkdtemp(prefix='verif_c03_')
    req, pend = [], []
    nseed = 0
    try:
        for k in range(n):
            rows_, cols_ = rnd.choice([(6, 4), (6, 4), (6, 4), (3, 7), (2, 8)])      # also sheets wider than tall
            wb = bookgen.generate(rnd, n_books=rnd.choice([1, 1, 2]), whole_col=(k % (40 if quick else 25) == 7 and rows_ == 6),
                                  rows=rows_, cols=cols_, n_const=min(14, rows_ * cols_), n_formula=min(12, rows_ * cols_))
            lone_constant(wb, rnd, rows_, cols_)
            st = wb.stats()
            d = wb.to_dict()
            nontrivial = st['formulas'] >= 3 and (st['range_refs'] + st['name_refs']) >= 1
            run.count(1, json.dumps(d, sort_keys=True, default=str), nontrivial,
                      'books=%d/arrays=%d/names=%d' % (len({b for b, _ in wb.sheets}), st['array_formulas'], st['names']))
            case = {'workbook': {k_: (str(v) if isinstance(v, bookgen.Err) else v) for k_, v in d.items()}}
            try:
                m, sol = bookrun.calc_dict(wb)
            except Exception as ex:
                run.violation('loading/calculating the workbook raised %s: %s' % (type(ex).__name__, str(ex)[:100]), case)
                continue
            base = bookrun.solution_values(wb, sol)
            if k < 2:
                run.sample({'workbook': case['workbook'], 'values': {wb.key(*a): bookrun.show(v) for a, v in list(base.items())[:8]}})
            for a, v in base.items():
                if v is None or v == 'missing':
                    run.violation('cell %s has no well-formed value after calculation (%s)' % (wb.key(*a), v), dict(case, cell=wb.key(*a)))
            # (1) the Lean model
            q = list(base)
            req.append(wb.to_wire(q))
            pend.append((wb, q, base, case))
            # (2) other insertion orders
            items = list(range(len(d)))
            for rep in range(2):
                order = items[:]
                rnd.shuffle(order)
                run.count(1, None, False, 'order-permutation')
                try:
                    m2, sol2 = bookrun.calc_dict(wb, order)
                    v2 = bookrun.solution_values(wb, sol2)
                except Exception as ex:
                    run.violation('a permuted insertion order raised %s' % type(ex).__name__, dict(case, order=order))
                    continue
                diff = [a for a in base if base[a] != v2[a]]
                if diff:
                    a = diff[0]
                    run.violation('cell %s is %s in one insertion order and %s in another' % (
                        wb.key(*a), bookrun.show(base[a]), bookrun.show(v2[a])), dict(case, order=order, cell=wb.key(*a)))
            # (3) the file path (single-book workbooks)
            if len({b for b, _ in wb.sheets}) == 1:
                run.count(1, None, False, 'xlsx-path')
                dd = os.path.join(tmp, 'w%d' % k)
                os.makedirs(dd)
                try:
                    m3, sol3 = bookrun.calc_xlsx(wb, dd)
                    v3 = bookrun.solution_values(wb, sol3)
                    diff = [a for a in base if base[a] != v3[a]]
                    if diff:
                        a = diff[0]
                        run.violation('cell %s is %s through the dictionary and %s through the .xlsx file' % (
                            wb.key(*a), bookrun.show(base[a]), bookrun.show(v3[a])), dict(case, cell=wb.key(*a)))
                except Exception as ex:
                    run.violation('the .xlsx loading path raised %s: %s' % (type(ex).__name__, str(ex)[:100]), case)
                shutil.rmtree(dd, ignore_errors=True)
            # (3b) several books: all files at once, and one file at a time (the others are brought in by finish())
            else:
                dd = os.path.join(tmp, 'w%d' % k)
                os.makedirs(dd)
                cwd = os.getcwd()
                os.chdir(dd)
                try:
                    paths = [os.path.basename(p) for p in wb.to_xlsx(dd)]
                    taint = tainted_cells(wb)
                    for sel in [paths] + [[p] for p in paths]:
                        run.count(1, None, False, 'xlsx-path-%s' % ('all-books' if len(sel) > 1 else 'one-book-then-finish'))
                        case3 = dict(case, loaded=sel)
                        try:
                            m3 = bookrun.ExcelModel().loads(*sel).finish()
                            v3 = bookrun.solution_values(wb, m3.calculate())
                        except Exception as ex:
                            run.violation('loads(%s).finish().calculate() raised %s: %s' % (sel, type(ex).__name__, str(ex)[:100]), case3)
                            continue
                        own = {i for i, (b, _) in enumerate(wb.sheets) if b in sel}
                        diff = [a for a in base if base[a] != v3[a] and (a[0] in own or v3[a] != 'missing')]
                        if diff:
                            a = ([x for x in diff if x not in taint] or diff)[0]
                            run.violation('cell %s is %s through the dictionary and %s after loads(%s).finish()' % (
                                wb.key(*a), bookrun.show(base[a]), bookrun.show(v3[a]), ', '.join(sel)),
                                dict(case3, cell=wb.key(*a), depends_on_cross_book_name=a in taint))
                finally:
                    os.chdir(cwd)
                    shutil.rmtree(dd, ignore_errors=True)
            # (4) hash seeds (subprocess; a sample)
            if k % (15 if quick else 50) == 0:
                keys = [wb.key(s, r, c) if cont[0] != 'a' else wb.key(s, r, c, cont[1], cont[2]) for (s, r, c), cont in wb.cells.items()]
                payload = json.dumps({'dict': case['workbook'], 'keys': keys})
                outs = []
                for hs in ('1', '4242'):
                    nseed += 1
                    run.count(1, None, False, 'hash-seed')
                    env = dict(os.environ, PYTHONHASHSEED=hs, VERIF_REPO=common.REPO)
                    p = subprocess.run(['/venv/bin/python', os.path.join(common.VERIF, 'harness', 'sub_calc.py')], input=payload,
                                       capture_output=True, text=True, env=env, timeout=300)
                    if p.returncode != 0:
                        run.violation('calculation under PYTHONHASHSEED=%s failed: %s' % (hs, p.stderr[-200:]), case)
                        continue
                    outs.append(json.loads(p.stdout))
                if len(outs) == 2 and outs[0] != outs[1]:
                    kk = [x for x in outs[0] if outs[0][x] != outs[1][x]][0]
                    run.violation('cell %s differs between hash seeds: %s vs %s' % (kk, outs[0][kk], outs[1][kk]), dict(case, cell=kk))
                if outs:
                    mine = {}
                    for (s, r, c), cont in wb.cells.items():
                        R, C = (cont[1], cont[2]) if cont[0] == 'a' else (1, 1)
                        mine[wb.key(s, r, c, R, C)] = [[base[(s, r + i, c + j)] for j in range(C)] for i in range(R)]
                    if outs[0] != mine:
                        kk = [x for x in mine if outs[0].get(x) != mine[x]][0]
                        run.violation('cell %s differs between this process and PYTHONHASHSEED=1: %s vs %s' % (kk, mine[kk], outs[0].get(kk)), dict(case, cell=kk))
        # ---- array-fit templates: an array formula whose result has another shape than its range, every pair of small shapes --------
        # (a plain reference is fitted by Ranges.set_value, a computed result by Array.reshape; equal element counts with
        #  different shapes are known finding fit-sizeeq of C05 and left out)
        shapes = [(1, 1), (1, 2), (2, 1), (1, 3), (3, 1), (2, 2), (2, 3), (3, 2)]
        combos = [(d_, s_) for d_ in shapes for s_ in shapes if d_ != (1, 1) and not (d_[0] * d_[1] == s_[0] * s_[1] and d_ != s_)]
        if quick:
            combos = rnd.sample(combos, 24)
        for (R, C), (h, w) in combos:
            for form in (('ref', 'name', 'times1') if not quick else (rnd.choice(['ref', 'name']), 'times1')):
                wb = bookgen.WB()
                wb.sheets.append(('b1.xlsx', 'S1'))
                for i in range(h):
                    for j in range(w):
                        wb.cells[(0, 1 + i, 1 + j)] = ('v', rnd.choice([1, 2, 3, 5, 7, 0.5, 'ab', True]) if rnd.random() < 0.9 else bookgen.Err('#DIV/0!'))
                src = ('ref', (0, 1, h, 1, w))
                if form == 'name':
                    wb.names['SRC'] = ('b1.xlsx', src)
                e = {'ref': src, 'name': ('name', 'SRC'), 'times1': ('bin', '&', src, ('lit', ''))}[form]
                wb.cells[(0, 1, 5)] = ('a', R, C, e)                                                 # E1 ...
                wb.cells[(0, 5, 1)] = ('f', ('call', 'SUM', [('ref', (0, 1, R, 5, 4 + C))]))        # a reader of the whole spill
                try:
                    d = wb.to_dict()
                except Exception:
                    continue
                case = {'workbook': {k_: (str(v) if isinstance(v, bookgen.Err) else v) for k_, v in d.items()}, 'stream': 'array-fit',
                        'destination': [R, C], 'result': [h, w], 'form': form}
                run.count(1, json.dumps(d, sort_keys=True, default=str), True, 'array-fit/%s' % form)
                try:
                    m, sol = bookrun.calc_dict(wb)
                    base = bookrun.solution_values(wb, sol)
                except Exception as ex:
                    run.violation('array-fit template raised %s: %s' % (type(ex).__name__, str(ex)[:100]), case)
                    continue
                q = list(base)
                req.append(wb.to_wire(q))
                pend.append((wb, q, base, case))
                dd = os.path.join(tmp, 'fit')
                os.makedirs(dd, exist_ok=True)
                try:
                    m3, sol3 = bookrun.calc_xlsx(wb, dd)
                    v3 = bookrun.solution_values(wb, sol3)
                    diff = [a for a in base if base[a] != v3[a]]
                    if diff:
                        a = diff[0]
                        run.violation('cell %s is %s through the dictionary and %s through the .xlsx file' % (
                            wb.key(*a), bookrun.show(base[a]), bookrun.show(v3[a])), dict(case, cell=wb.key(*a)))
                except Exception as ex:
                    run.violation('the .xlsx loading path raised %s: %s' % (type(ex).__name__, str(ex)[:100]), case)
                shutil.rmtree(dd, ignore_errors=True)
        # the exact witness of known finding cross-book-name, on the one-book-then-finish path
        wd = os.path.join(tmp, 'witness')
        os.makedirs(wd)
        cwd = os.getcwd()
        os.chdir(wd)
        try:
            import openpyxl
            from openpyxl.workbook.defined_name import DefinedName
            b1 = openpyxl.Workbook(); s1 = b1.active; s1.title = 'S1'; s1['A1'] = 5
            dn = DefinedName('MYNAME', attr_text='S1!$A$1')
            try:
                b1.defined_names['MYNAME'] = dn
            except TypeError:
                b1.defined_names.append(dn)
            b1.save('b1.xlsx')
            b2 = openpyxl.Workbook(); s2 = b2.active; s2.title = 'S1'; s2['B4'] = "='[b1.xlsx]'!MYNAME*2"
            b2.save('b2.xlsx')
            both = bookrun.ExcelModel().loads('b1.xlsx', 'b2.xlsx').finish().calculate()
            one = bookrun.ExcelModel().loads('b2.xlsx').finish().calculate()
            w = [bookrun.wire_impl(np.asarray(x["'[b2.xlsx]S1'!B4"].value, object)[0, 0]) for x in (both, one)]
        except Exception as ex:
            w = ['raised', type(ex).__name__]
        finally:
            os.chdir(cwd)
        run.replay_witness('cross-book-name', w[0] != w[1], {'witness': "b2.xlsx S1!B4 = '[b1.xlsx]'!MYNAME*2: loads(b1, b2) vs loads(b2), finish, calculate", 'B4': w})
    finally:
        shutil.rmtree(tmp, ignore_errors=True)
    answers = model(req)
    for ans, (wb, q, base, case) in zip(answers, pend):
        vals = ans.split(' ')
        for a, mv in zip(q, vals):
            if base[a] != mv:
                run.disagree('cell %s: model %s, implementation %s' % (wb.key(*a), bookrun.show(mv), bookrun.show(base[a])),
                             dict(case, cell=wb.key(*a), wire=wb.to_wire([a])))
                break
    run.extra['model_requests'] = len(req)
    run.extra['hash_seed_runs'] = nseed
    run.extra['trusted_base'] = ['schedula dispatcher, numpy, openpyxl: external, modelled abstractly (a workbook is evaluated by recursion on its references)',
                                 'hash-seed independence and file/dictionary path equivalence: observed on the implementation only']
    return None


def replay(payload):
    common.import_repo(); bookrun.setup()
    case = payload.get('case') or (payload.get('correspondence') or [None])[0]
    print(json.dumps(case, indent=1, default=str)[:3000])
    if not case:
        print('nothing to replay: broken theorems:', payload.get('broken_theorems_or_audit')); return 0
    d = case['workbook']
    m = bookrun.ExcelModel().from_dict(d)
    sol = m.calculate()
    cell = case.get('cell')
    for k in ([cell] if cell else list(d)[:10]):
        v = sol.get(k)
        print('implementation', k, '=', getattr(v, 'value', v))
    if case.get('wire'):
        print('model:', [bookrun.show(x) for x in model([case['wire']])[0].split(' ')])
    print('failed predicate:', case.get('what'))
    return 0
