"""C03 — a calculated workbook is a consistent fixed point, whatever the order.

Random acyclic workbooks (several sheets/books, constants of every kind, single-cell / range /
cross-sheet / cross-book / defined-name / array-formula references, blanks) are calculated by the
implementation through the dictionary path in several insertion orders, through .xlsx files, and
under several PYTHONHASHSEED values; every cell of every solution is compared with the Lean model
`XL.Model.Book.value` and with each other.
"""
import os, sys, json, shutil, tempfile, subprocess
import common
from common import Run, model
import bookgen, bookrun

RULE = ('random acyclic workbooks (2-3 sheets, 1-2 books, ~14 constants of every kind, ~12 formulas over operators and '
        'SUM/MAX/MIN/COUNT/IF/IFERROR/ABS/ISERROR/AND/OR/NOT, defined names, array formulas, blanks, one whole-column '
        'reference in some). Each is calculated via from_dict in 3 insertion orders, via .xlsx (single-book ones) and, for a '
        'sample, under 2 further PYTHONHASHSEED values. Non-trivial = at least 3 formulas with a range or name reference; '
        'distinct = distinct workbook dictionaries.')


def new_run():
    return Run('C03', RULE)


def check(run):
    bookrun.setup()
    rnd = run.rng
    quick = run.tier == 'quick'
    n = 45 if quick else 1500
    tmp = tempfile.mkdtemp(prefix='verif_c03_')
    req, pend = [], []
    nseed = 0
    try:
        for k in range(n):
            wb = bookgen.generate(rnd, n_books=rnd.choice([1, 1, 2]), whole_col=(k % (40 if quick else 25) == 7))
            st = wb.stats()
            d = wb.to_dict()
            nontrivial = st['formulas'] >= 3 and (st['range_refs'] + st['name_refs']) >= 1
            run.count(1, json.dumps(d, sort_keys=True, default=str), nontrivial,
                      'books=%d/arrays=%d/names=%d' % (len({b for b, _ in wb.sheets}), st['array_formulas'], st['names']))
            case = {'workbook': {k_: (str(v) if isinstance(v, bookgen.Err) else v) for k_, v in d.items()}}
            try:
                m, sol = bookrun.calc_dict(wb)
            except Exception as ex:
                run.violation('loading/calculating the workbook raised %s: %s' % (type(ex).__name__, str(ex)[:100]), case)
                continue
            base = bookrun.solution_values(wb, sol)
            if k < 2:
                run.sample({'workbook': case['workbook'], 'values': {wb.key(*a): bookrun.show(v) for a, v in list(base.items())[:8]}})
            for a, v in base.items():
                if v is None or v == 'missing':
                    run.violation('cell %s has no well-formed value after calculation (%s)' % (wb.key(*a), v), dict(case, cell=wb.key(*a)))
            # (1) the Lean model
            q = list(base)
            req.append(wb.to_wire(q))
            pend.append((wb, q, base, case))
            # (2) other insertion orders
            items = list(range(len(d)))
            for rep in range(2):
                order = items[:]
                rnd.shuffle(order)
                run.count(1, None, False, 'order-permutation')
                try:
                    m2, sol2 = bookrun.calc_dict(wb, order)
                    v2 = bookrun.solution_values(wb, sol2)
                except Exception as ex:
                    run.violation('a permuted insertion order raised %s' % type(ex).__name__, dict(case, order=order))
                    continue
                diff = [a for a in base if base[a] != v2[a]]
                if diff:
                    a = diff[0]
                    run.violation('cell %s is %s in one insertion order and %s in another' % (
                        wb.key(*a), bookrun.show(base[a]), bookrun.show(v2[a])), dict(case, order=order, cell=wb.key(*a)))
            # (3) the file path (single-book workbooks)
            if len({b for b, _ in wb.sheets}) == 1:
                run.count(1, None, False, 'xlsx-path')
                dd = os.path.join(tmp, 'w%d' % k)
                os.makedirs(dd)
                try:
                    m3, sol3 = bookrun.calc_xlsx(wb, dd)
                    v3 = bookrun.solution_values(wb, sol3)
                    diff = [a for a in base if base[a] != v3[a]]
                    if diff:
                        a = diff[0]
                        run.violation('cell %s is %s through the dictionary and %s through the .xlsx file' % (
                            wb.key(*a), bookrun.show(base[a]), bookrun.show(v3[a])), dict(case, cell=wb.key(*a)))
                except Exception as ex:
                    run.violation('the .xlsx loading path raised %s: %s' % (type(ex).__name__, str(ex)[:100]), case)
                shutil.rmtree(dd, ignore_errors=True)
            # (4) hash seeds (subprocess; a sample)
            if k % (15 if quick else 50) == 0:
                keys = [wb.key(s, r, c) if cont[0] != 'a' else wb.key(s, r, c, cont[1], cont[2]) for (s, r, c), cont in wb.cells.items()]
                payload = json.dumps({'dict': case['workbook'], 'keys': keys})
                outs = []
                for hs in ('1', '4242'):
                    nseed += 1
                    run.count(1, None, False, 'hash-seed')
                    env = dict(os.environ, PYTHONHASHSEED=hs, VERIF_REPO=common.REPO)
                    p = subprocess.run(['/venv/bin/python', os.path.join(common.VERIF, 'harness', 'sub_calc.py')], input=payload,
                                       capture_output=True, text=True, env=env, timeout=300)
                    if p.returncode != 0:
                        run.violation('calculation under PYTHONHASHSEED=%s failed: %s' % (hs, p.stderr[-200:]), case)
                        continue
                    outs.append(json.loads(p.stdout))
                if len(outs) == 2 and outs[0] != outs[1]:
                    kk = [x for x in outs[0] if outs[0][x] != outs[1][x]][0]
                    run.violation('cell %s differs between hash seeds: %s vs %s' % (kk, outs[0][kk], outs[1][kk]), dict(case, cell=kk))
                if outs:
                    mine = {}
                    for (s, r, c), cont in wb.cells.items():
                        R, C = (cont[1], cont[2]) if cont[0] == 'a' else (1, 1)
                        mine[wb.key(s, r, c, R, C)] = [[base[(s, r + i, c + j)] for j in range(C)] for i in range(R)]
                    if outs[0] != mine:
                        kk = [x for x in mine if outs[0].get(x) != mine[x]][0]
                        run.violation('cell %s differs between this process and PYTHONHASHSEED=1: %s vs %s' % (kk, mine[kk], outs[0].get(kk)), dict(case, cell=kk))
    finally:
        shutil.rmtree(tmp, ignore_errors=True)
    answers = model(req)
    for ans, (wb, q, base, case) in zip(answers, pend):
        vals = ans.split(' ')
        for a, mv in zip(q, vals):
            if base[a] != mv:
                run.disagree('cell %s: model %s, implementation %s' % (wb.key(*a), bookrun.show(mv), bookrun.show(base[a])),
                             dict(case, cell=wb.key(*a), wire=wb.to_wire([a])))
                break
    run.extra['model_requests'] = len(req)
    run.extra['hash_seed_runs'] = nseed
    run.extra['trusted_base'] = ['schedula dispatcher, numpy, openpyxl: external, modelled abstractly (a workbook is evaluated by recursion on its references)',
                                 'hash-seed independence and file/dictionary path equivalence: observed on the implementation only']
    return None


def replay(payload):
    common.import_repo(); bookrun.setup()
    case = payload.get('case') or (payload.get('correspondence') or [None])[0]
    print(json.dumps(case, indent=1, default=str)[:3000])
    if not case:
        print('nothing to replay: broken theorems:', payload.get('broken_theorems_or_audit')); return 0
    d = case['workbook']
    m = bookrun.ExcelModel().from_dict(d)
    sol = m.calculate()
    cell = case.get('cell')
    for k in ([cell] if cell else list(d)[:10]):
        v = sol.get(k)
        print('implementation', k, '=', getattr(v, 'value', v))
    if case.get('wire'):
        print('model:', [bookrun.show(x) for x in model([case['wire']])[0].split(' ')])
    print('failed predicate:', case.get('what'))
    return 0
