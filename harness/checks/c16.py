"""C16 — writing a solution reproduces it cell for cell.

Solutions of random workbooks (all value kinds, several sheets, array-formula ranges, overridden
inputs) are written (a) into fresh books, (b) into the loaded books, (c) to disk and read back with
openpyxl: every solved cell must hold the solved value at its own sheet and coordinates (errors as
text, blanks and '' as empty cells), cells outside the solution stay untouched, and
`compare(model, own files)` must report no difference.
"""
import os, json, shutil, tempfile
import numpy as np
import common
from common import Run
import bookgen, bookrun

RULE = ('random single-book multi-sheet workbooks (constants of every kind incl. empty-text results, array formulas, names) '
        'x {plain solution, solution with overridden inputs} x {write to fresh books, write into the loaded books with extra '
        'untouched cells, write to disk and re-read}; plus compare() against the written files. Non-trivial = the solution has '
        'an array-formula range or an error/blank/empty-text value; distinct = distinct (workbook, inputs, target).')


def new_run():
    return Run('C16', RULE)


def expected_cell(w):
    """what a solved wire value must look like in a worksheet cell (None = empty cell)"""
    if w == '_' or w == 't' + bookgen.enc(''):
        return None
    if w.startswith('x'):
        return w[1:]
    if w.startswith('b'):
        return w == 'b1'
    if w.startswith('t'):
        return bookgen.dec(w[1:])
    import struct
    return struct.unpack('<d', struct.pack('<Q', int(w[1:], 16)))[0]


def same(a, b, disk=False):
    if disk and isinstance(a, (int, float)) and isinstance(b, (int, float)) and not isinstance(a, bool) and not isinstance(b, bool):
        # openpyxl serialises doubles with 16 significant digits: the file round trip is exact to ~1 ulp only
        return abs(float(a) - float(b)) <= 1e-12 * max(1.0, abs(float(a)), abs(float(b)))
    if a is None or b is None:
        return a is None and b is None
    if isinstance(a, bool) or isinstance(b, bool) or isinstance(a, str) or isinstance(b, str):
        return type(a) == type(b) and a == b
    return float(a) == float(b)


def check(run):
    bookrun.setup()
    import openpyxl
    rnd = run.rng
    quick = run.tier == 'quick'
    n = 60 if quick else 900
    tmp = tempfile.mkdtemp(prefix='verif_c16_')
    cwd = os.getcwd()
    try:
        for k in range(n):
            wb = bookgen.generate(rnd, n_books=1, n_sheets=rnd.choice([2, 3]))
            # results that are empty text / blank
            free = [(0, 7, j) for j in range(1, 4)]
            wb.cells[free[0]] = ('f', ('bin', '&', ('lit', ''), ('lit', '')))
            wb.cells[free[1]] = ('f', ('call', 'IF', [('lit', False), ('lit', 1), ('lit', '')]))
            # a text result that looks like a formula, and one that looks like an error value: both must be written as text
            wb.cells[free[2]] = ('f', ('bin', '&', ('lit', rnd.choice(['=', '=1+', '#N/A', '+', '=SUM(A1)'])), ('lit', rnd.choice(['1+2', 'A1', '', '2']))))
            dd = os.path.join(tmp, 'w%d' % k)
            os.makedirs(dd)
            os.chdir(dd)
            case = {'workbook': {k_: (str(v) if isinstance(v, bookgen.Err) else v) for k_, v in wb.to_dict().items()}}
            try:
                paths = wb.to_xlsx(dd)
                fname = os.path.basename(paths[0])
                # extra cells that are not part of any formula: they are loaded as constants, so use a sheet row far away
                m = bookrun.ExcelModel().loads(fname).finish()
                ov = {}
                if rnd.random() < 0.5:
                    consts = [a for a, c in wb.cells.items() if c[0] == 'v']
                    for a in rnd.sample(consts, min(2, len(consts))):
                        ov[wb.key(*a).replace(wb.sheets[0][0], fname)] = bookrun.to_impl_value(bookgen.gen_value(rnd, 'nnnt')) if rnd.random() < 0.8 else rnd.choice(['=A1', '=1+2'])
                sol = m.calculate(inputs=ov) if ov else m.calculate()
            except Exception as ex:
                run.violation('loading/calculating raised %s: %s' % (type(ex).__name__, str(ex)[:100]), case)
                os.chdir(cwd)
                continue
            vals = bookrun.solution_values(wb, sol)
            st = wb.stats()
            nontriv = st['array_formulas'] > 0 or any(v == '_' or v.startswith('x') or v == 't' + bookgen.enc('') for v in vals.values())
            case['inputs'] = {k_: repr(v) for k_, v in ov.items()}
            for target in ('fresh', 'loaded', 'disk'):
                run.count(1, (json.dumps(case['workbook'], sort_keys=True, default=str), str(sorted(case['inputs'].items())), target), nontriv, 'target=' + target)
                c2 = dict(case, target=target)
                try:
                    if target == 'fresh':
                        books = m.write(solution=sol)
                        book = list(books.values())[0][list(list(books.values())[0])[0]] if False else None
                        key = list(books)[0]
                        from formulas.excel import BOOK
                        book = books[key][BOOK]
                    elif target == 'loaded':
                        from formulas.excel import BOOK
                        src = openpyxl.load_workbook(fname)
                        src[src.sheetnames[0]]['H20'] = 'outside'
                        src[src.sheetnames[-1]]['J15'] = 12345
                        books = m.write(books={fname.upper(): {BOOK: src}}, solution=sol)
                        book = src
                    else:
                        out = os.path.join(dd, 'out')
                        books = m.write(solution=sol, dirpath=out)
                        files = os.listdir(out)
                        book = openpyxl.load_workbook(os.path.join(out, files[0]))
                except Exception as ex:
                    run.violation('write (%s) raised %s: %s' % (target, type(ex).__name__, str(ex)[:100]), c2)
                    continue
                sheets = {ws.title.upper(): ws for ws in book.worksheets}
                for (s, r, c), w in vals.items():
                    ws = sheets.get(wb.sheets[s][1].upper())
                    got = ws.cell(row=r, column=c).value if ws is not None else 'no-sheet'
                    exp = expected_cell(w)
                    if isinstance(exp, str) and not w.startswith('x') and ws is not None and ws.cell(row=r, column=c).data_type in ('f', 'e'):
                        run.violation('written cell %s holds the text %r as %s, not as text' % (
                            wb.key(s, r, c), exp, {'f': 'a formula', 'e': 'an error value'}[ws.cell(row=r, column=c).data_type]), dict(c2, cell=wb.key(s, r, c)))
                        break
                    if not same(got, exp, disk=(target == 'disk')):
                        run.violation('written cell %s holds %r, the solution has %r' % (wb.key(s, r, c), got, exp), dict(c2, cell=wb.key(s, r, c)))
                        break
                if target in ('fresh', 'disk'):
                    # a book made by write() holds the solution and nothing else (nothing left over from an earlier write)
                    known = {(wb.sheets[s][1].upper(), r, c) for (s, r, c) in vals}
                    extra = [(ws.title, cl.coordinate, cl.value) for ws in book.worksheets for row in ws.iter_rows() for cl in row
                             if cl.value is not None and (ws.title.upper(), cl.row, cl.column) not in known]
                    if extra:
                        run.violation('the written book holds %r in %s!%s, which is no cell of the solution' % (extra[0][2], extra[0][0], extra[0][1]),
                                      dict(c2, extra=[list(map(str, e)) for e in extra[:5]]))
                    if len(books) != 1:
                        run.violation('write() returned the books %s for a single-book solution' % sorted(books), c2)
                if target == 'loaded':
                    a, b = book[book.sheetnames[0]]['H20'].value, book[book.sheetnames[-1]]['J15'].value
                    if a != 'outside' or b != 12345:
                        run.violation('cells outside the solution were modified by write(): %r, %r' % (a, b), c2)
                if target == 'disk':
                    try:
                        diff = m.compare(os.path.join(out, files[0]), solution=sol)
                        if diff:
                            run.violation('compare() of the model with its own written file reports %r' % (diff[:3],), c2)
                    except Exception as ex:
                        run.violation('compare() raised %s: %s' % (type(ex).__name__, str(ex)[:100]), c2)
            if k < 2:
                run.sample({'cells': len(vals), 'inputs': case['inputs'], 'sheets': [s for _, s in wb.sheets]})
            os.chdir(cwd)
            shutil.rmtree(dd, ignore_errors=True)
        # ---- array results whose memory layout is not row-major (TRANSPOSE of a rectangle, arithmetic on it):
        # expected cells are computed here from the constants, independently of the solution object
        from openpyxl.worksheet.formula import ArrayFormula
        for k in range(12 if quick else 150):
            R, C = rnd.choice([(2, 3), (3, 2), (2, 2), (3, 4), (1, 3), (4, 1), (2, 5)])
            data = [[rnd.choice([rnd.randint(-9, 99), round(rnd.uniform(-5, 5), 2), 'tx%d' % rnd.randint(0, 9)]) for _ in range(C)] for _ in range(R)]
            fac = rnd.choice([2, 10, 0.5])
            dd = os.path.join(tmp, 't%d' % k)
            os.makedirs(dd)
            os.chdir(dd)
            src = openpyxl.Workbook()
            ws1 = src.active
            ws1.title = 'S1'
            ws2 = src.create_sheet('Other')
            for i in range(R):
                for j in range(C):
                    ws1.cell(row=1 + i, column=1 + j).value = data[i][j]
            from openpyxl.utils import get_column_letter as L
            src_ref = 'A1:%s%d' % (L(C), R)
            r0, c0 = rnd.randint(1, 4), C + 2 + rnd.randint(0, 2)
            d1 = '%s%d:%s%d' % (L(c0), r0, L(c0 + R - 1), r0 + C - 1)
            ws1['%s%d' % (L(c0), r0)] = ArrayFormula(d1, '=TRANSPOSE(%s)' % src_ref)
            r1, c1 = rnd.randint(1, 5), rnd.randint(1, 5)
            d2 = '%s%d:%s%d' % (L(c1), r1, L(c1 + R - 1), r1 + C - 1)
            ws2['%s%d' % (L(c1), r1)] = ArrayFormula(d2, '=TRANSPOSE(S1!%s)*%s' % (src_ref, fac))
            fname = 'tr%d.xlsx' % k
            src.save(fname)
            case = {'workbook': {'S1!' + src_ref: data, 'S1!' + d1: '{=TRANSPOSE(%s)}' % src_ref,
                                 'Other!' + d2: '{=TRANSPOSE(S1!%s)*%s}' % (src_ref, fac)}, 'stage': 'transpose'}
            exp = {}
            for i in range(R):
                for j in range(C):
                    exp[('S1', 1 + i, 1 + j)] = data[i][j]
                    exp[('S1', r0 + j, c0 + i)] = data[i][j]
                    exp[('OTHER', r1 + j, c1 + i)] = '#VALUE!' if isinstance(data[i][j], str) else data[i][j] * fac
            try:
                m = bookrun.ExcelModel().loads(fname).finish()
                sol = m.calculate()
                out = os.path.join(dd, 'out')
                m.write(solution=sol, dirpath=out)
                book = openpyxl.load_workbook(os.path.join(out, os.listdir(out)[0]))
            except Exception as ex:
                run.violation('write of TRANSPOSE results raised %s: %s' % (type(ex).__name__, str(ex)[:100]), case)
                os.chdir(cwd)
                continue
            run.count(1, (json.dumps(case['workbook'], sort_keys=True, default=str), 'transpose'), True, 'target=disk/transpose')
            sheets = {ws.title.upper(): ws for ws in book.worksheets}
            for (sh, r, c), e in sorted(exp.items()):
                got = sheets[sh].cell(row=r, column=c).value if sh in sheets else 'no-sheet'
                ok = (got == e) or (isinstance(e, (int, float)) and isinstance(got, (int, float)) and abs(got - e) <= 1e-9 * max(1, abs(e)))
                if not ok:
                    run.violation('written cell %s!%s%d holds %r, the solved value is %r' % (sh, L(c), r, got, e), dict(case, cell='%s!%s%d' % (sh, L(c), r)))
                    break
            os.chdir(cwd)
            shutil.rmtree(dd, ignore_errors=True)
    finally:
        os.chdir(cwd)
        shutil.rmtree(tmp, ignore_errors=True)
    run.extra['trusted_base'] = ['openpyxl serialisation, the file system and case-insensitive book/sheet lookup are exercised, not modelled']
    return None


def replay(payload):
    case = payload.get('case') or (payload.get('correspondence') or [None])[0]
    print(json.dumps(case, indent=1, default=str)[:3000])
    print('failed predicate:', case.get('what') if case else payload.get('broken_theorems_or_audit'))
    return 0
