"""C14 — unresolvable functions and references degrade locally to error values.

Random workbooks get faults injected at random formula cells: an unimplemented function (also with
the _xlfn. prefix), a reference to an absent sheet, to an absent workbook file, an undefined name, a
#REF! literal.  The faulty workbook is loaded from .xlsx files and from a dictionary; loading,
finish() and calculate() must not raise; every cell is compared with the Lean model (where the
fault is the error value it must degrade to); every cell that does not depend on a fault must
equal its value in the fault-free twin; IFERROR / ISERROR probes on the faulty cells must intercept.
"""
import os, json, shutil, tempfile
import numpy as np
import common
from common import Run, model
import bookgen, bookrun
from bookgen import Err

RULE = ('random single-book workbooks x all non-empty subsets (quick: random subsets) of fault kinds {unknown function, '
        '_xlfn. function, absent sheet, absent workbook, undefined name, #REF! literal} injected at random formula cells, '
        'through .xlsx (loads().finish()) and through from_dict(...).finish(); probes =IFERROR(cell,"d") and =ISERROR(cell). '
        'Non-trivial = some other formula depends on a faulty cell; distinct = distinct (workbook, fault set).')

KINDS = ['nofunc', 'xlfn', 'nosheet', 'nobook', 'noname', 'reflit', 'deadsheet']


def new_run():
    return Run('C14', RULE)


rnd_dead = [__import__('random').Random(0)]


def fault_node(kind, wb, xlsx):
    """('raw', dict_text, xlsx_text, wire tokens) and the error the fault must degrade to"""
    e_name, e_ref = ['L', 'x#NAME?'], ['L', 'x#REF!']
    if kind == 'nofunc':
        return ('raw', 'NOFUNC(1)', 'NOFUNC(1)', ['C', 'NOFUNC', '1', 'L', bookgen.wire_val(1)]), '#NAME?'
    if kind == 'xlfn':
        return ('raw', '_xlfn.FOOBAR(1,2)', '_xlfn.FOOBAR(1,2)', ['C', '_XLFN.FOOBAR', '2', 'L', bookgen.wire_val(1), 'L', bookgen.wire_val(2)]), '#NAME?'
    if kind == 'nosheet':
        return ('raw', "'[%s]NOSHEET'!A1" % wb.sheets[0][0], 'NoSheet!A1', e_ref), '#REF!'
    if kind == 'nobook':
        return ('raw', "'[nofile.xlsx]S1'!A1", "#REF!", e_ref), '#REF!'
    if kind == 'noname':
        return ('raw', "'[%s]'!NONAME" % wb.sheets[0][0], 'NONAME', e_ref), '#REF!'
    if kind == 'deadsheet':
        # a reference to a deleted sheet, as Excel rewrites it
        t = rnd_dead[0].choice(['#REF!A1', '#REF!$B$2', '#REF!A1:B2', '#REF!$A:$A', '#REF!2:3'])
        return ('raw', t, t, e_ref), '#REF!'
    return ('raw', '#REF!', '#REF!', e_ref), '#REF!'


def downstream(wb, sites):
    """addresses that depend (transitively) on one of the sites"""
    dep = set(sites)
    changed = True
    name_deps = {n: {a for k, r in wb.deps(e) if k == 'ref' for a in cells_of(r)} for n, (b, e) in wb.names.items()}
    while changed:
        changed = False
        for a, cont in wb.cells.items():
            if cont[0] == 'v':
                continue
            tgt = [a] if cont[0] == 'f' else [(a[0], a[1] + i, a[2] + j) for i in range(cont[1]) for j in range(cont[2])]
            if all(t in dep for t in tgt):
                continue
            reads = set()
            for k, r in wb.deps(cont[-1]):
                if k == 'ref':
                    reads |= set(cells_of(r)) if r[1] != 0 else {x for x in wb.addresses() if x[0] == r[0] and r[3] <= x[2] <= r[4]}
                else:
                    reads |= name_deps.get(r, set())
            if reads & dep:
                dep |= set(tgt)
                changed = True
    return dep


def cells_of(r):
    s, r1, r2, c1, c2 = r
    return [(s, i, j) for i in range(r1, r2 + 1) for j in range(c1, c2 + 1)]


def check(run):
    bookrun.setup()
    rnd = run.rng
    rnd_dead[0] = rnd
    quick = run.tier == 'quick'
    n = 50 if quick else 900
    tmp = tempfile.mkdtemp(prefix='verif_c14_')
    req, pend = [], []
    try:
        for k in range(n):
            wb = bookgen.generate(rnd, n_books=1, n_sheets=2, rows=6)
            forms = [a for a, c in wb.cells.items() if c[0] == 'f']
            if len(forms) < 3:
                continue
            kinds = rnd.sample(KINDS, rnd.randint(1, 3))
            sites = rnd.sample(forms, len(kinds))
            clean = {a: wb.cells[a] for a in sites}
            expect = {}
            for a, kind in zip(sites, kinds):
                node, err = fault_node(kind, wb, True)
                e = wb.cells[a][1]
                wb.cells[a] = ('f', ('bin', rnd.choice('+*'), e, node) if rnd.random() < 0.6 else node)
                expect[a] = err
            # probes on fresh rows
            probes = {}
            for i, a in enumerate(sites):
                p1, p2 = (a[0], 8, 1 + 2 * i), (a[0], 8, 2 + 2 * i)
                wb.cells[p1] = ('f', ('call', 'IFERROR', [('ref', (a[0], a[1], a[1], a[2], a[2])), ('lit', 'd')]))
                wb.cells[p2] = ('f', ('call', 'ISERROR', [('ref', (a[0], a[1], a[1], a[2], a[2]))]))
                probes[a] = (p1, p2)
            dep = downstream(wb, sites)
            case = {'faults': {wb.key(*a): kd for a, kd in zip(sites, kinds)}}
            run.count(1, (json.dumps(wb.to_dict(), sort_keys=True, default=str)), len(dep) > 3 * len(sites),
                      'faults=' + '+'.join(sorted(kinds)))
            # ---- faulty workbook through files and through the dictionary ---------------------------------------
            results = {}
            for via in ('xlsx', 'dict'):
                dd = os.path.join(tmp, 'w%d_%s' % (k, via))
                os.makedirs(dd)
                cwd = os.getcwd()
                try:
                    if via == 'xlsx':
                        paths = wb.to_xlsx(dd)
                        m = bookrun.ExcelModel().loads(*paths).finish()
                    else:
                        wb.to_xlsx(dd)          # the book of the dictionary exists on disk, 'nofile.xlsx' does not …
                        if k % 2:               # … or is unreadable
                            open(os.path.join(dd, 'nofile.xlsx'), 'wb').write(b'this is not a workbook')
                        os.chdir(dd)
                        m = bookrun.ExcelModel().from_dict(wb.to_dict(explicit_blanks=True)).finish()
                    sol = m.calculate()
                    results[via] = bookrun.solution_values(wb, sol)
                except Exception as ex:
                    run.violation('%s path: loading/finish/calculate raised %s: %s' % (via, type(ex).__name__, str(ex)[:120]),
                                  dict(case, via=via, workbook={k_: str(v) for k_, v in wb.to_dict().items()}))
                finally:
                    os.chdir(cwd)
                    shutil.rmtree(dd, ignore_errors=True)
            case['workbook'] = {k_: (str(v) if isinstance(v, Err) else v) for k_, v in wb.to_dict().items()}
            if 'xlsx' not in results:
                continue
            vals = results['xlsx']
            if 'dict' in results:
                diff = [a for a in vals if vals[a] != results['dict'][a]]
                if diff:
                    a = diff[0]
                    run.violation('cell %s is %s through the file and %s through the dictionary' % (
                        wb.key(*a), bookrun.show(vals[a]), bookrun.show(results['dict'][a])), dict(case, cell=wb.key(*a)))
            # (b) the faulty cell is an error value; (d) probes intercept
            for a in sites:
                if not (vals[a] or '').startswith('x'):
                    run.violation('the cell with the unresolvable item evaluates to %s, not to an error value' % bookrun.show(vals[a]), dict(case, cell=wb.key(*a)))
                p1, p2 = probes[a]
                if vals[p1] != 't' + bookgen.enc('d') or vals[p2] != 'b1':
                    run.violation('IFERROR/ISERROR on the faulty cell give %s / %s' % (bookrun.show(vals[p1]), bookrun.show(vals[p2])), dict(case, cell=wb.key(*a)))
            for a, kd in zip(sites, kinds):
                if wb.cells[a][1][0] == 'raw' and vals[a] != 'x' + expect[a]:
                    run.violation('%s fault evaluates to %s, expected %s' % (kd, bookrun.show(vals[a]), expect[a]), dict(case, cell=wb.key(*a)))
            # (c) locality against the fault-free twin
            twin = bookgen.WB()
            twin.sheets, twin.names = wb.sheets, wb.names
            twin.cells = type(wb.cells)((a, clean.get(a, c)) for a, c in wb.cells.items())
            try:
                mt, st = bookrun.calc_dict(twin)
                tv = bookrun.solution_values(twin, st)
                for a in vals:
                    if a not in dep and vals[a] != tv[a]:
                        run.violation('cell %s does not depend on a fault but is %s with the faults and %s without' % (
                            wb.key(*a), bookrun.show(vals[a]), bookrun.show(tv[a])), dict(case, cell=wb.key(*a)))
                        break
            except Exception as ex:
                run.notes.append('twin workbook raised %s' % type(ex).__name__)
            if k < 2:
                run.sample({'faults': case['faults'], 'values': {wb.key(*a): bookrun.show(vals[a]) for a in sites}})
            q = list(vals)
            req.append(wb.to_wire(q))
            pend.append((wb, q, vals, case))
        # ---- several unresolvable items in ONE formula, each intercepted on its own -----------------------------------------
        for k in range(20 if quick else 400):
            wb = bookgen.WB()
            wb.sheets.append(('b1.xlsx', 'S1'))
            wb.cells[(0, 1, 1)] = ('v', 2)
            kinds = [rnd.choice(['noname', 'nosheet', 'nobook', 'nofunc']) for _ in range(rnd.randint(2, 3))]
            if rnd.random() < 0.6:
                kinds = [kinds[0]] * len(kinds)          # several items of one kind
            terms, i = [], 0
            for kd in kinds:
                i += 1
                if kd == 'noname':
                    node = ('raw', "'[b1.xlsx]'!NONAME%d" % i, 'NONAME%d' % i, ['L', 'x#REF!'])
                elif kd == 'nosheet':
                    node = ('raw', "'[b1.xlsx]NOSHEET%d'!A1" % i, 'NoSheet%d!A1' % i, ['L', 'x#REF!'])
                elif kd == 'nobook':
                    node = ('raw', "'[nofile%d.xlsx]S1'!A1" % i, '#REF!', ['L', 'x#REF!'])
                else:
                    node = ('raw', 'NOFUNC%d(1)' % i, 'NOFUNC%d(1)' % i, ['L', 'x#NAME?'])
                wrap = rnd.choice(['ISERROR', 'IFERROR'])
                terms.append(('call', 'ISERROR', [node]) if wrap == 'ISERROR' else ('call', 'IFERROR', [node, ('lit', 10 * i)]))
            if 'nofunc' in kinds:
                continue        # an unknown function makes the whole cell #NAME? (C14 statement: the cell, not the operand)
            e = terms[0]
            for t in terms[1:]:
                e = ('bin', '+', e, t)
            wb.cells[(0, 1, 2)] = ('f', ('bin', '+', e, ('ref', (0, 1, 1, 1, 1))))
            case = {'faults': kinds, 'stream': 'several-in-one-formula', 'workbook': {k_: str(v) for k_, v in wb.to_dict().items()}}
            run.count(1, json.dumps(case['workbook'], sort_keys=True), True, 'several-faults-one-formula')
            dd = os.path.join(tmp, 'm%d' % k)
            os.makedirs(dd)
            cwd = os.getcwd()
            try:
                os.chdir(dd)
                m = bookrun.ExcelModel().from_dict(wb.to_dict(explicit_blanks=True)).finish()
                vals = bookrun.solution_values(wb, m.calculate())
            except Exception as ex:
                run.violation('several unresolvable items in one formula: raised %s: %s' % (type(ex).__name__, str(ex)[:100]), case)
                continue
            finally:
                os.chdir(cwd)
                shutil.rmtree(dd, ignore_errors=True)
            q = list(vals)
            req.append(wb.to_wire(q))
            pend.append((wb, q, vals, case))
        # ---- a missing sheet of an EXISTING linked workbook: the rest of that workbook (its names, its other sheets) stays intact ----
        import openpyxl
        from openpyxl.workbook.defined_name import DefinedName
        for k in range(10 if quick else 200):
            linked = rnd.choice(['linked.xlsx', 'L.XLSX', 'Data2.xlsx', 'LINK.xlsx'])
            missing = rnd.choice(['Zzz', 'Aaa', 'Nope', 'ZZ_TOP', 'a1'])
            b1, b2 = rnd.choice([3, 5, 10]), rnd.choice([4, 7])
            second_fault = rnd.random() < 0.5
            case = {'stream': 'missing-sheet-of-linked-book', 'linked': linked, 'missing_sheet': missing, 'values': [b1, b2], 'second_missing_book': second_fault}
            run.count(1, json.dumps(case, sort_keys=True), True, 'missing-sheet-of-linked-book')
            dd = os.path.join(tmp, 'l%d' % k)
            os.makedirs(dd)
            cwd = os.getcwd()
            try:
                os.chdir(dd)
                lb = openpyxl.Workbook(); ws = lb.active; ws.title = 'Data'
                ws['B1'], ws['B2'], ws['A1'] = b1, b2, '=FACTOR*2'
                dn = DefinedName('FACTOR', attr_text='Data!$B$1+Data!$B$2')
                try:
                    lb.defined_names['FACTOR'] = dn
                except TypeError:
                    lb.defined_names.append(dn)
                lb.save(linked)
                mb = openpyxl.Workbook(); ws = mb.active; ws.title = 'S'
                ws['A1'] = "='[%s]%s'!A1" % (linked, missing)
                ws['A2'] = "='[%s]Data'!A1" % linked
                ws['A3'] = '=IFERROR(A1,"caught")'
                ws['A4'] = '=ISERROR(A1)'
                if second_fault:
                    ws['A5'] = "='[nofile7.xlsx]S'!A1"
                mb.save('main.xlsx')
                m = bookrun.ExcelModel().loads('main.xlsx').finish()
                sol = m.calculate()
                def g(key):
                    v = sol.get(key)
                    return bookrun.wire_impl(np.asarray(v.value, object)[0, 0]) if v is not None else 'missing'
                got = {c: g("'[main.xlsx]S'!%s" % c) for c in ('A1', 'A2', 'A3', 'A4')}
                exp = {'A1': 'x#REF!', 'A2': bookgen.wire_val(float((b1 + b2) * 2)), 'A3': 't' + bookgen.enc('caught'), 'A4': 'b1'}
                if got != exp:
                    bad = [c for c in exp if got[c] != exp[c]][0]
                    run.violation('missing sheet %r of the existing workbook %s: cell %s is %s, expected %s' % (
                        missing, linked, bad, bookrun.show(got[bad]) if got[bad] != 'missing' else 'missing', bookrun.show(exp[bad])), dict(case, got=got))
            except Exception as ex:
                run.violation('missing sheet of a linked workbook: raised %s: %s' % (type(ex).__name__, str(ex)[:100]), case)
            finally:
                os.chdir(cwd)
                shutil.rmtree(dd, ignore_errors=True)
    finally:
        shutil.rmtree(tmp, ignore_errors=True)
    answers = model(req)
    for ans, (wb, q, base, case) in zip(answers, pend):
        for a, mv in zip(q, ans.split(' ')):
            if base[a] != mv:
                run.disagree('cell %s: model %s, implementation %s' % (wb.key(*a), bookrun.show(mv), bookrun.show(base[a])),
                             dict(case, cell=wb.key(*a)))
                break
    run.extra['model_requests'] = len(req)
    return None


def replay(payload):
    common.import_repo(); bookrun.setup()
    case = payload.get('case') or (payload.get('correspondence') or [None])[0]
    print(json.dumps(case, indent=1, default=str)[:4000])
    print('failed predicate:', case.get('what') if case else payload.get('broken_theorems_or_audit'))
    return 0
