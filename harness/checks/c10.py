"""C10 — circular references: termination, isolation and exact marking.

(A) cycle analysis: `formulas.excel.cycle.simple_cycles` against the Lean specification enumerator
    `XL.cycles` (theorems cycles_sound / cycles_complete / cycles_nodup) and against a brute-force
    enumeration, as sets of canonical rotations, on ALL digraphs with <= 3 (quick) / <= 4 (thorough)
    nodes, random digraphs to 9 nodes, under several node labelings and dictionary orders.
(B) workbooks on random cyclic dependency graphs (cells, ranges, names; guarded and unguarded back
    edges; every kind of guard value): `finish(circular=True).calculate()` must terminate and
      O2  every cell not downstream of a cycle has the value it has in the workbook without the cyclic cells,
      O3  every cell on a cycle of the *selected-branch* workbook P (unselected branches of
          IF/IFS/IFERROR/IFNA removed) is #CIRC!,
      O2' every cell not downstream of a cycle of P has exactly the value the Lean model gives it in P,
      O4  every ordinary value satisfies its own (original) formula on the reported values (Lean model),
      T   the implementation's values equal the Lean model `solved` of the workbook with the cuts and
          marks read off the implementation's dispatcher,
      O6  the values do not depend on the order of the cells nor on PYTHONHASHSEED.
"""
import json, os, sys, signal, subprocess, itertools, collections
import numpy as np
import common
from common import Run, model
import bookgen, bookrun
from bookgen import WB, Err, BLANK, wire_val, enc

RULE = ('(A) all digraphs (self-loops included) on <= 3 nodes (quick) / <= 4 nodes (thorough) and random digraphs on 5..9 '
        'nodes, each under 2 labelings/insertion orders; (B) workbooks of 3..8 formula cells on random cyclic dependency '
        'graphs; an edge is a single cell, a SUM over a range, or a defined name, plain or inside a branch of '
        'IF/IFS/IFERROR/IFNA guarded by a constant cell whose value is drawn from numbers, logicals, blank, text and '
        'errors; observer cells (strict, IFERROR, ISERROR) and isolated cells are added; each workbook is calculated in '
        '2 cell orders, a sample under 2 further hash seeds and through .xlsx. Non-trivial = the dependency graph has a '
        'cycle; distinct = distinct graphs / workbook dictionaries.')

CIRC = 'x#CIRC!'
ZERO = ('lit', 0)


def range_touches_other_cycle(case):
    """a lazily resolvable cell is reported #CIRC! in a workbook where some multi-cell range contains a cyclic cell"""
    return bool(case.get('range_over_cyclic_cell')) and case.get('kind') == 'lazy-but-circ'


def absorbed_circ(case):
    """a cell on an unavoidable cycle is not an error in a workbook where IFERROR / IFNA tests a cyclic cell"""
    return bool(case.get('absorbing_on_cycle')) and case.get('kind') == 'pcycle-not-error'


SIGNATURES = {'range_touches_other_cycle': range_touches_other_cycle, 'absorbed_circ': absorbed_circ}


def new_run():
    return Run('C10', RULE, SIGNATURES)


class Timeout(Exception):
    pass


def _alarm(*a):
    raise Timeout()


# ------------------------------------------------------------------------------------------------------------------
# (A) cycle analysis
# ------------------------------------------------------------------------------------------------------------------
def canon(c):
    i = c.index(min(c))
    return tuple(c[i:] + c[:i])


def brute_cycles(n, edges):
    adj = collections.defaultdict(list)
    for u, v in edges:
        adj[u].append(v)
    out = set()

    def go(s, path):
        for w in adj[path[-1]]:
            if w == s:
                out.add(tuple(path))
            elif w > s and w not in path:
                go(s, path + [w])
    for s in range(n):
        go(s, [s])
    return out


def check_graph(run, n, edges, rnd, label_modes, req, pend):
    from formulas.excel.cycle import simple_cycles
    want = brute_cycles(n, edges)
    case = {'nodes': n, 'edges': sorted(edges)}
    run.count(1, ('g', n, tuple(sorted(edges))), bool(want), 'graph-n%d' % n)
    for mode in label_modes:
        order = list(range(n))
        if mode == 'int':
            lab = {i: i for i in range(n)}
        elif mode == 'str':
            lab = {i: 'n%d' % i for i in range(n)}
            rnd.shuffle(order)
        else:
            lab = {i: ("'[b]S'!%s%d" % (bookgen.col_letters(1 + i % 3), 1 + i // 3)) for i in range(n)}
            rnd.shuffle(order)
        inv = {v: k for k, v in lab.items()}
        g = collections.OrderedDict()
        for i in order:
            succ = [v for (u, v) in edges if u == i]
            rnd.shuffle(succ)
            g[lab[i]] = [lab[v] for v in succ]
        try:
            signal.signal(signal.SIGALRM, _alarm); signal.alarm(20)
            got = [[inv[x] for x in c] for c in simple_cycles(g)]
        except Timeout:
            run.violation('simple_cycles does not terminate within 20 s', dict(case, labels=mode)); continue
        except Exception as ex:
            run.violation('simple_cycles raised %s: %s' % (type(ex).__name__, str(ex)[:80]), dict(case, labels=mode)); continue
        finally:
            signal.alarm(0)
        cg = [canon(c) for c in got]
        if len(set(cg)) != len(cg):
            run.violation('an elementary cycle is reported more than once: %s' % sorted(cg), dict(case, labels=mode))
        elif set(cg) != want:
            miss, extra = sorted(want - set(cg)), sorted(set(cg) - want)
            run.violation('elementary cycles missing %s / not cycles %s' % (miss, extra), dict(case, labels=mode))
        bad = [c for c in got if len(set(c)) != len(c)]
        if bad:
            run.violation('a reported cycle repeats a vertex: %s' % bad, dict(case, labels=mode))
    req.append('cycles %d %s' % (n, ' '.join('%d %d' % e for e in sorted(edges))))
    pend.append((want, case))


def part_a(run):
    rnd = run.rng
    quick = run.tier == 'quick'
    req, pend = [], []
    top = 3 if quick else 4
    for n in range(1, top + 1):
        pairs = [(u, v) for u in range(n) for v in range(n)]
        for mask in range(1 << len(pairs)):
            edges = [p for k, p in enumerate(pairs) if mask >> k & 1]
            modes = ['int', 'str'] if (n < 4 or mask % 16 == 0) else ['int']
            check_graph(run, n, edges, rnd, modes, req, pend)
    for k in range(1500 if quick else 30000):
        n = rnd.randint(4 if quick else 5, 9)
        p = rnd.choice([0.12, 0.2, 0.3, 0.45])
        edges = [(u, v) for u in range(n) for v in range(n) if rnd.random() < p]
        if len(edges) > 26:
            edges = rnd.sample(edges, 26)      # keep the number of cycles moderate
        check_graph(run, n, edges, rnd, ['str', 'cell'], req, pend)
    answers = model(req)
    for a, (want, case) in zip(answers, pend):
        got = set() if a == '-' else {tuple(int(x) for x in c.split('.')) for c in a.split(';')}
        n_listed = 0 if a == '-' else len(a.split(';'))
        if got != want or n_listed != len(want):
            run.disagree('model enumerator lists %s, brute force %s' % (sorted(got), sorted(want)), case)
    run.extra['graph_model_requests'] = len(req)


# ------------------------------------------------------------------------------------------------------------------
# (B) circular workbooks
# ------------------------------------------------------------------------------------------------------------------
GUARD_VALUES = [0, 1, -2, 0.5, True, False, BLANK, 'abc', 'x y', Err('#N/A'), Err('#DIV/0!'), Err('#VALUE!')]
LAZY = ('IF', 'IFS', 'IFERROR', 'IFNA')


def cell_ref(a):
    return ('ref', (a[0], a[1], a[1], a[2], a[2]))


class CBook:
    """an abstract circular workbook: `wb` plus what the generator knows about it"""

    def __init__(self):
        self.wb = WB()
        self.wb.sheets.append(('b1.xlsx', 'S1'))
        self.nodes = []        # addresses of the graph cells
        self.guards = []       # addresses of guard constants
        self.consts = []
        self.observers = []
        self.isolated = []


def gen_book(rnd, xlsx_safe=False):
    cb = CBook()
    wb = cb.wb
    n = rnd.randint(2, 8)
    # nodes on the odd rows of column A; the even rows hold fillers (a constant or nothing), so that a two-cell range
    # contains one node only and a three-cell range two
    cb.nodes = [(0, 1 + 2 * i, 1) for i in range(n)]
    for i in range(n):
        if rnd.random() < 0.5:
            wb.cells[(0, 2 + 2 * i, 1)] = ('v', rnd.choice([1, 2, 5, 0.5]))
    # guard constants in column C, plain constants in column D
    ng = rnd.randint(1, 4)
    for k in range(ng):
        v = rnd.choice(GUARD_VALUES)
        if xlsx_safe and (v == '' and isinstance(v, str)):
            v = 'abc'
        a = (0, 1 + k, 3)
        cb.guards.append(a)
        if v is not BLANK:
            wb.cells[a] = ('v', v)
    for k in range(3):
        a = (0, 1 + k, 4)
        cb.consts.append(a)
        wb.cells[a] = ('v', rnd.choice([1, 2, 3, 5, 10, 0.5, -1]))
    names = {}

    def target(j):
        """an expression that reads node j: the cell, a SUM over a range containing it, or a name"""
        a = cb.nodes[j]
        k = rnd.random()
        if k < 0.6 or (no_ranges and k < 0.8):
            return cell_ref(a)
        if k < 0.8:
            if rnd.random() < 0.7:
                lo, hi = a[1], a[1] + 1                      # the node and the filler below it
            else:
                lo, hi = a[1], min(2 * n - 1, a[1] + 2)      # two nodes
                if lo == hi:
                    lo = max(1, lo - 2)
            return ('call', 'SUM', [('ref', (0, lo, hi, 1, 1))])
        nm = 'NODE%d' % j
        if nm not in names:
            names[nm] = cell_ref(a) if rnd.random() < 0.7 else ('bin', '*', cell_ref(a), ('lit', 2))
        return ('name', nm)

    def strict(e):
        k = rnd.random()
        if k < 0.5:
            return e
        if k < 0.8:
            return ('bin', rnd.choice('+-*'), e, ('lit', rnd.choice([1, 2, 3])))
        return ('un', '-', e)

    def guard_cond():
        g = rnd.choice(cb.guards)
        k = rnd.random()
        if k < 0.45:
            return cell_ref(g)
        if k < 0.9:
            return ('bin', rnd.choice(['>', '=', '<>', '<']), cell_ref(g), ('lit', 0))
        return ('lit', rnd.choice([True, False, 0, 1]))

    def alt():
        k = rnd.random()
        if k < 0.6:
            return ('lit', rnd.choice([7, 8, 9, 0, -1, 'alt']))
        return cell_ref(rnd.choice(cb.consts))

    def guarded(e):
        f = rnd.choice(['IF', 'IF', 'IF', 'IFS', 'IFERROR', 'IFNA', 'IF2'])
        if f == 'IF':
            return ('call', 'IF', [guard_cond(), e, alt()] if rnd.random() < 0.5 else [guard_cond(), alt(), e])
        if f == 'IF2':
            return ('call', 'IF', [guard_cond(), e])
        if f == 'IFS':
            k = rnd.random()
            if k < 0.4:
                return ('call', 'IFS', [guard_cond(), e, ('lit', True), alt()])
            if k < 0.8:
                return ('call', 'IFS', [guard_cond(), alt(), ('lit', True), e])
            return ('call', 'IFS', [guard_cond(), alt(), guard_cond(), e])
        return ('call', f, [cell_ref(rnd.choice(cb.guards)), e])

    def condpos(e):
        """the reference sits in a condition / tested position: not a place where a cycle may be cut"""
        k = rnd.choice(['IFERROR', 'IFNA', 'IF', 'IFS'])
        if k in ('IFERROR', 'IFNA'):
            return ('call', k, [e, alt()])
        c = ('bin', rnd.choice(['>', '=', '<>']), e, ('lit', 0))
        return ('call', 'IF', [c, alt(), alt()]) if k == 'IF' else ('call', 'IFS', [c, alt(), ('lit', True), alt()])

    p = rnd.choice([0.2, 0.3, 0.45])
    no_ranges = rnd.random() < 0.5
    style = rnd.choice(['mixed', 'mixed', 'guarded', 'plain'])
    for i, a in enumerate(cb.nodes):
        succ = [j for j in range(n) if rnd.random() < p]
        if i + 1 < n and rnd.random() < 0.5 and (i + 1) not in succ:
            succ.append(i + 1)
        if i == n - 1 and rnd.random() < 0.8 and 0 not in succ:
            succ.append(rnd.randrange(n))
        terms = []
        for j in succ:
            t = strict(target(j))
            gp = {'mixed': 0.5, 'guarded': 0.9, 'plain': 0.1}[style]
            if rnd.random() < 0.12:
                t = condpos(t)
            elif rnd.random() < gp:
                t = guarded(t)
                if rnd.random() < 0.3:
                    t = strict(t)
            terms.append(t)
        if not terms:
            terms = [('lit', rnd.choice([1, 2, 3])) if rnd.random() < 0.5 else ('bin', '+', cell_ref(rnd.choice(cb.consts)), ('lit', 1))]
        e = terms[0]
        for t in terms[1:]:
            e = ('bin', rnd.choice('+-+'), e, t)
        wb.cells[a] = ('f', e)
    for nm, e in names.items():
        wb.names[nm] = ('b1.xlsx', e)
    # observers in column F, isolated cells in column G
    k = 0
    for j in rnd.sample(range(n), min(n, 3)):
        a = (0, 1 + k, 6); k += 1
        kind = rnd.choice(['strict', 'iferror', 'iserror', 'ifguard'])
        x = cell_ref(cb.nodes[j])
        e = {'strict': ('bin', '+', x, ('lit', 1)), 'iferror': ('call', 'IFERROR', [x, ('lit', -1)]),
             'iserror': ('call', 'ISERROR', [x]), 'ifguard': ('call', 'IF', [guard_cond(), x, ('lit', 5)])}[kind]
        wb.cells[a] = ('f', e)
        cb.observers.append(a)
    for k in range(2):
        a = (0, 1 + k, 7)
        e = rnd.choice([('call', 'SUM', [('ref', (0, 1, 3, 4, 4))]), ('bin', '*', cell_ref(cb.consts[k]), ('lit', 3)),
                        ('call', 'IF', [guard_cond(), cell_ref(cb.consts[0]), cell_ref(cb.consts[1])])])
        wb.cells[a] = ('f', e)
        cb.isolated.append(a)
    return cb


def gen_two_cycles(rnd):
    """structured: two cycles, each closed through a guarded back edge, and a cell of the first cycle that also reads,
    outside its guard, a range over a cell of the second; positions and guard values vary"""
    cb = CBook()
    wb = cb.wb
    g1, g2 = (0, 1, 3), (0, 2, 3)
    cb.guards = [g1, g2]
    for g in cb.guards:
        v = rnd.choice([0, 1, True, False, BLANK, 'abc', Err('#N/A')])
        if v is not BLANK:
            wb.cells[g] = ('v', v)
    cb.consts = [(0, 1, 4), (0, 2, 4), (0, 3, 4)]
    for a in cb.consts:
        wb.cells[a] = ('v', rnd.choice([1, 2, 3, 5]))
    rows = [1, 3, 5, 7, 9]
    rnd.shuffle(rows)
    col1, col2 = rnd.sample([1, 2, 5, 8], 2)
    A, B = (0, rows[0], col1), (0, rows[1], col1)
    E, F, G = (0, rows[2], col2), (0, rows[3], col2), (0, rows[4], col2)
    E2 = (0, E[1] + 1, col2)
    wb.cells[E2] = ('v', 2)
    cb.nodes = [A, B, E, F, G]

    def guard(gcell, back, alt):
        f = rnd.choice(['IF', 'IF2', 'IFS', 'IFERROR', 'IFNA'])
        if f == 'IF':
            return ('call', 'IF', [cell_ref(gcell), back, alt])
        if f == 'IF2':
            return ('call', 'IF', [('bin', '>', cell_ref(gcell), ('lit', 0)), alt, back])
        if f == 'IFS':
            return ('call', 'IFS', [cell_ref(gcell), back, ('lit', True), alt])
        return ('call', f, [cell_ref(gcell), back])
    extra = rnd.choice([('call', 'SUM', [('ref', (0, E[1], E[1] + 1, col2, col2))]), cell_ref(E), ('lit', 1), cell_ref(cb.consts[0])])
    wb.cells[A] = ('f', ('bin', '+', guard(g1, cell_ref(B), ('lit', 3)), extra))
    wb.cells[B] = ('f', ('bin', '+', cell_ref(A), ('lit', 1)))
    wb.cells[E] = ('f', guard(rnd.choice([g1, g2]), cell_ref(F), ('lit', 1)))
    wb.cells[F] = ('f', ('bin', '+', cell_ref(G), ('lit', 1)))
    wb.cells[G] = ('f', ('bin', '+', cell_ref(E), ('lit', 1)) if rnd.random() < 0.7 else ('bin', '+', cell_ref(E), cell_ref(A)))
    cb.observers = [(0, 11, 6)]
    wb.cells[(0, 11, 6)] = ('f', ('bin', '+', cell_ref(A), ('lit', 1)))
    return cb


def reads(wb, e):
    """addresses an expression reads (names expanded)"""
    out = set()
    for kind, x in wb.deps(e):
        if kind == 'ref':
            s, r1, r2, c1, c2 = x
            out |= {(s, i, j) for i in range(r1, r2 + 1) for j in range(c1, c2 + 1)}
        else:
            out |= reads(wb, wb.names[x][1])
    return out


def graph_of(wb, cells=None):
    g = {}
    for a, cont in (cells or wb.cells).items():
        g[a] = {d for d in reads(wb, cont[1]) if d in wb.cells} if cont[0] == 'f' else set()
    return g


def cyclic_nodes(g):
    """nodes on some cycle"""
    out = set()
    for s in g:
        seen, stack = set(), list(g[s])
        while stack:
            x = stack.pop()
            if x == s:
                out.add(s); break
            if x in seen:
                continue
            seen.add(x)
            stack.extend(g.get(x, ()))
    return out


def downstream(g, srcs):
    """nodes that reach a node of `srcs` (srcs included)"""
    rev = collections.defaultdict(set)
    for a, ds in g.items():
        for d in ds:
            rev[d].add(a)
    out, stack = set(srcs), list(srcs)
    while stack:
        x = stack.pop()
        for y in rev[x]:
            if y not in out:
                out.add(y); stack.append(y)
    return out


def occurrences(wb, e, guarded, out):
    """(address, guarded?) for every address an expression reads; guarded = the occurrence sits in a value
    position of IF / IFS / IFERROR / IFNA (the positions `solve_cycle` accepts a back edge through)"""
    k = e[0]
    if k == 'ref':
        s, r1, r2, c1, c2 = e[1]
        for i in range(r1, r2 + 1):
            for j in range(c1, c2 + 1):
                out.append(((s, i, j), guarded))
    elif k == 'name':
        for a in reads(wb, wb.names[e[1]][1]):
            out.append((a, guarded))
    elif k == 'bin':
        occurrences(wb, e[2], guarded, out); occurrences(wb, e[3], guarded, out)
    elif k == 'un':
        occurrences(wb, e[2], guarded, out)
    elif k == 'call':
        for i, a in enumerate(e[2]):
            lazy_pos = (e[1] == 'IF' and i > 0) or (e[1] in ('IFERROR', 'IFNA') and i == 1) or (e[1] == 'IFS' and i % 2 == 1)
            occurrences(wb, a, guarded or lazy_pos, out)
    return out


def reach(g, src):
    seen, stack = set(), list(g.get(src, ()))
    while stack:
        x = stack.pop()
        if x in seen:
            continue
        seen.add(x)
        stack.extend(g.get(x, ()))
    return seen


def need_not_resolve(wb, g, pg):
    """cells on a cycle of the full graph that contains a back edge through a *selected* lazy branch, or that
    closes through selected branches / plain references only (the cycles of P)"""
    bad = set(cyclic_nodes(pg))
    for u, cont in wb.cells.items():
        if cont[0] != 'f':
            continue
        occ = occurrences(wb, cont[1], False, [])
        for v in pg.get(u, ()):
            if all(gd for a, gd in occ if a == v):          # a selected, guarded edge u -> v
                rv = reach(g, v) | {v}
                if u in rv:
                    bad |= {x for x in rv if u in (reach(g, x) | {x})}
    return bad


def absorbs(wb, e, cyc):
    """IFERROR / IFNA somewhere in e whose tested argument reads a cell of `cyc`"""
    k = e[0]
    if k == 'bin':
        return absorbs(wb, e[2], cyc) or absorbs(wb, e[3], cyc)
    if k == 'un':
        return absorbs(wb, e[2], cyc)
    if k == 'call':
        if e[1] in ('IFERROR', 'IFNA') and reads(wb, e[2][0]) & cyc:
            return True
        return any(absorbs(wb, a, cyc) for a in e[2])
    return False


def is_static(cb, e):
    return all(a in cb.guards or a in cb.consts for a in reads(cb.wb, e))


def lazy_conds(cb, e, out):
    """static condition / tested-value expressions of the lazy calls inside e"""
    k = e[0]
    if k == 'bin':
        lazy_conds(cb, e[2], out); lazy_conds(cb, e[3], out)
    elif k == 'un':
        lazy_conds(cb, e[2], out)
    elif k == 'call':
        args = e[2]
        if e[1] in LAZY:
            idx = [0] if e[1] != 'IFS' else list(range(0, len(args), 2))
            for i in idx:
                if is_static(cb, args[i]) and json.dumps(args[i], default=str) not in [json.dumps(o, default=str) for o in out]:
                    out.append(args[i])       # (compared as text: ('lit', 1) == ('lit', True) in Python)
        for a in args:
            lazy_conds(cb, a, out)


def truth(w):
    """how IF / IFS read a condition value: 'T', 'F' or 'E' (an error or text: no branch is selected)"""
    if w.startswith('x') or w.startswith('t'):
        return 'E'
    if w == '_' or w == 'b0':
        return 'F'
    if w == 'b1':
        return 'T'
    return 'F' if w in ('n0', 'n8000000000000000') else 'T'


def prune(cb, e, cv):
    """the selected-branch expression: unselected branches of lazy calls with a static condition become 0"""
    k = e[0]
    if k == 'bin':
        return ('bin', e[1], prune(cb, e[2], cv), prune(cb, e[3], cv))
    if k == 'un':
        return ('un', e[1], prune(cb, e[2], cv))
    if k != 'call':
        return e
    f, args = e[1], e[2]
    P = lambda x: prune(cb, x, cv)
    key = lambda x: json.dumps(x, default=str)
    if f == 'IF' and key(args[0]) in cv:
        t = truth(cv[key(args[0])])
        new = [args[0], P(args[1]) if t == 'T' else ZERO]
        if len(args) == 3:
            new.append(P(args[2]) if t == 'F' else ZERO)
        return ('call', f, new)
    if f in ('IFERROR', 'IFNA') and key(args[0]) in cv:
        w = cv[key(args[0])]
        sel = w.startswith('x') if f == 'IFERROR' else w == 'x#N/A'
        return ('call', f, [args[0], P(args[1]) if sel else ZERO])
    if f == 'IFS':
        new, live = [], True
        for i in range(0, len(args), 2):
            c = args[i]
            v = args[i + 1] if i + 1 < len(args) else None
            if not live:
                new += [ZERO] + ([ZERO] if v is not None else [])
                continue
            if key(c) not in cv:
                # a condition that is not static: everything from here on stays
                new += [P(x) for x in args[i:]]
                live = None
                break
            t = truth(cv[key(c)])
            new.append(c)
            if v is not None:
                new.append(P(v) if t == 'T' else ZERO)
            if t in ('T', 'E'):
                live = False
        return ('call', f, new)
    return ('call', f, [P(a) for a in args])


def read_values(wb, sol):
    out = {}
    for a in wb.cells:
        v = sol.get(wb.key(*a))
        if v is None:
            out[a] = 'missing'
            continue
        try:
            x = np.asarray(getattr(v, 'value', v), object)
            out[a] = bookrun.wire_impl(x.ravel()[0] if x.size == 1 else x[0, 0])
        except Exception:
            out[a] = 'missing'
    return out


def observe(wb, m, sol):
    """cuts and marks the implementation chose, read off its dispatcher after solve_circular.  A mark is a
    default value with a large initial distance: the node takes it only when its own function cannot fire
    earlier (then it may still receive #CIRC! through the inverse link of a marked name or range), so the
    *effective* marks are the marked nodes whose reported value is #CIRC!."""
    from formulas.excel import CIRCULAR, ERR_CIRCULAR
    from formulas.cell import CellWrapper
    import schedula as sh
    keys = {wb.key(*a): a for a in wb.cells}
    marks, nmarks, rmarks, cuts = [], [], [], []
    for k, d in m.dsp.default_values.items():
        if d['value'] is ERR_CIRCULAR and k is not CIRCULAR:
            v = sol.get(k)
            x = np.asarray(getattr(v, 'value', v), object).ravel()
            if not all(y is ERR_CIRCULAR for y in x):
                continue            # its own function fired before the default's distance was reached
            if k in keys:
                marks.append(keys[k])
            elif k.startswith("'[b1.xlsx]'!"):
                nmarks.append(k.split('!')[1])
            else:
                rmarks.append(k)
    for fid, nd in m.dsp.function_nodes.items():
        f = nd['function']
        if isinstance(f, CellWrapper) and any(i is CIRCULAR for i in nd['inputs']):
            orig = list(f.inputs)
            lost = [orig[i] for i, x in enumerate(nd['inputs']) if x is CIRCULAR]
            for o in nd['outputs']:
                if o in keys:
                    cuts.append((keys[o], lost))
    return marks, nmarks, rmarks, cuts


def parse_range_key(wb, k):
    """'[b1.xlsx]S1'!A1:A3 -> (s, r1, r2, c1, c2)"""
    import re
    body = k.split('!')[1]
    m = re.match(r'^([A-Z]+)(\d+)(?::([A-Z]+)(\d+))?$', body)
    c1 = sum((ord(ch) - 64) * 26 ** i for i, ch in enumerate(reversed(m.group(1))))
    r1 = int(m.group(2))
    c2 = sum((ord(ch) - 64) * 26 ** i for i, ch in enumerate(reversed(m.group(3)))) if m.group(3) else c1
    r2 = int(m.group(4)) if m.group(4) else r1
    return (0, r1, r2, c1, c2)


def cbook_wire(wb, marks, nmarks, rmarks, cuts, queries):
    t = ['cbook', str(len(cuts))]
    for a, lost in cuts:
        refs = [parse_range_key(wb, k) for k in lost if not k.startswith("'[b1.xlsx]'!")]
        nms = [k.split('!')[1] for k in lost if k.startswith("'[b1.xlsx]'!")]
        t += [str(x) for x in a] + [str(len(refs))]
        for r in refs:
            t += [str(x) for x in r]
        t += [str(len(nms))] + [enc(x.upper()) for x in nms]
    t.append(str(len(marks)))
    for a in marks:
        t += [str(x) for x in a]
    t += [str(len(nmarks))] + [enc(x.upper()) for x in nmarks]
    t.append(str(len(rmarks)))
    for k in rmarks:
        t += [str(x) for x in parse_range_key(wb, k)]
    return ' '.join(t) + ' ' + wb.to_wire(queries)[len('book '):]


def impl_calc(d, circular=True):
    m = bookrun.ExcelModel().from_dict(d)
    m.finish(complete=False, circular=circular)
    signal.signal(signal.SIGALRM, _alarm); signal.alarm(60)
    try:
        sol = m.calculate()
    finally:
        signal.alarm(0)
    return m, sol


def show_case(cb):
    d = cb.wb.to_dict()
    return {k: (str(v) if isinstance(v, Err) else v) for k, v in d.items()}


def part_b(run):
    rnd = run.rng
    quick = run.tier == 'quick'
    n_books = int(os.environ.get("C10_BOOKS", 0)) or (120 if quick else 4000)
    books = []
    # ---- phase 1: generate, ask the model for the static conditions --------------------------------------------------
    req1 = []
    for k in range(n_books):
        cb = gen_two_cycles(rnd) if k % 3 == 1 else gen_book(rnd, xlsx_safe=(k % 10 == 3))
        conds = []
        for a, cont in cb.wb.cells.items():
            if cont[0] == 'f':
                lazy_conds(cb, cont[1], conds)
        cb.conds = conds
        h = WB(); h.sheets = list(cb.wb.sheets)
        for a in cb.guards + cb.consts:
            if a in cb.wb.cells:
                h.cells[a] = cb.wb.cells[a]
        q = []
        for i, c in enumerate(conds):
            h.cells[(0, 200 + i, 1)] = ('f', c)
            q.append((0, 200 + i, 1))
        req1.append(h.to_wire(q))
        books.append(cb)
    ans1 = model(req1)
    # ---- phase 2: run the implementation, build the model requests ------------------------------------------------------
    req2, pend2 = [], []
    tmpdir = None
    nseed = 0
    for k, (cb, a1) in enumerate(zip(books, ans1)):
        wb = cb.wb
        vals = a1.split(' ') if cb.conds else []
        cv = {json.dumps(c, default=str): v for c, v in zip(cb.conds, vals)}
        case = {'workbook': show_case(cb)}
        g = graph_of(wb)
        cyc = cyclic_nodes(g)
        down = downstream(g, cyc)
        # the selected-branch workbook
        pw = WB(); pw.sheets = list(wb.sheets); pw.names = wb.names
        for a, cont in wb.cells.items():
            pw.cells[a] = ('f', prune(cb, cont[1], cv)) if cont[0] == 'f' else cont
        pg = graph_of(pw)
        pcyc = cyclic_nodes(pg)
        pdown = downstream(pg, need_not_resolve(wb, g, pg))
        d = wb.to_dict()
        run.count(1, json.dumps(case, sort_keys=True, default=str), bool(cyc),
                  'cyclic=%s/lazy-resolvable=%s' % (bool(cyc), bool(cyc) and not pcyc))
        # a range that is read only in unselected branches and contains a cell of a selected-branch cycle
        # known finding `range-on-other-cycle`, narrowly: a reference that sits only in unselected branches (it disappears in
        # the selected-branch workbook) is (i) a multi-cell range containing a cyclic cell, or (ii) a cell that belongs to
        # some multi-cell range of the workbook which contains another cyclic cell (reached through the range's inverse link)
        def refs_of(w, e):
            out = set()
            for kk, x in w.deps(e):
                if kk == 'ref':
                    out.add(x)
                else:
                    out |= refs_of(w, w.names[x][1])
            return out
        all_multi = set()
        for a, cont in wb.cells.items():
            if cont[0] == 'f':
                all_multi |= {x for x in refs_of(wb, cont[1]) if (x[1], x[3]) != (x[2], x[4])}
        cells_in = lambda x: {(x[0], i, j) for i in range(x[1], x[2] + 1) for j in range(x[3], x[4] + 1)}
        flag = False
        for a, cont in wb.cells.items():
            if cont[0] != 'f':
                continue
            for x in refs_of(wb, cont[1]) - refs_of(pw, pw.cells[a][1]):
                cx = cells_in(x)
                if len(cx) > 1 and cx & cyc:
                    flag = True
                elif len(cx) == 1:
                    v = next(iter(cx))
                    if any(v in cells_in(R) and (cells_in(R) - {v}) & cyc for R in all_multi):
                        flag = True
        case['range_over_cyclic_cell'] = flag
        case['absorbing_on_cycle'] = any(cont[0] == 'f' and absorbs(wb, cont[1], cyc) for a, cont in wb.cells.items() if a in cyc)
        try:
            m, sol = impl_calc(d)
        except Timeout:
            run.violation('calculation with circular references does not terminate within 60 s', case); continue
        except Exception as ex:
            run.violation('finish(circular=True).calculate() raised %s: %s' % (type(ex).__name__, str(ex)[:120]), case); continue
        V = read_values(wb, sol)
        if k < 3:
            run.sample({'workbook': case['workbook'], 'values': {wb.key(*a): bookrun.show(v) for a, v in V.items()}})
        # O6 order independence (in process) ---------------------------------------------------------------------------------
        order = list(range(len(d))); rnd.shuffle(order)
        try:
            _, sol2 = impl_calc(wb.to_dict(order))
            V2 = read_values(wb, sol2)
            if V2 != V:
                a = [x for x in V if V[x] != V2[x]][0]
                run.violation('cell %s is %s with the cells in one order and %s in another' % (
                    wb.key(*a), bookrun.show(V[a]), bookrun.show(V2[a])), dict(case, order=order, cell=wb.key(*a)))
        except Timeout:
            run.violation('calculation does not terminate within 60 s (permuted cell order)', dict(case, order=order))
        except Exception as ex:
            run.violation('permuted cell order: raised %s' % type(ex).__name__, dict(case, order=order))
        # O6 hash seeds (subprocess) -----------------------------------------------------------------------------------------------
        if k % (12 if quick else 40) == 0:
            payload = json.dumps({'dict': case['workbook'], 'keys': [wb.key(*a) for a in wb.cells], 'circular': True})
            for hs in ('1', '777'):
                nseed += 1
                env = dict(os.environ, PYTHONHASHSEED=hs, VERIF_REPO=common.REPO)
                try:
                    p = subprocess.run(['/venv/bin/python', os.path.join(common.VERIF, 'harness', 'sub_calc.py')], input=payload,
                                       capture_output=True, text=True, env=env, timeout=120)
                except subprocess.TimeoutExpired:
                    run.violation('calculation under PYTHONHASHSEED=%s does not terminate within 120 s' % hs, case); continue
                if p.returncode != 0:
                    run.violation('calculation under PYTHONHASHSEED=%s failed: %s' % (hs, p.stderr[-200:]), case); continue
                out = json.loads(p.stdout)
                for a in wb.cells:
                    o = out.get(wb.key(*a))
                    o = o[0][0] if isinstance(o, list) else o
                    if o != V[a]:
                        run.violation('cell %s is %s under PYTHONHASHSEED=%s and %s in this process' % (
                            wb.key(*a), bookrun.show(o) if isinstance(o, str) and not o.startswith('missing') else o, hs, bookrun.show(V[a])),
                            dict(case, cell=wb.key(*a), hashseed=hs))
                        break
        # O2 isolation, literally: the workbook without the cyclic cells -----------------------------------------------------------
        if cyc:
            w2 = WB(); w2.sheets = list(wb.sheets)
            for a, cont in wb.cells.items():
                if a not in down:
                    w2.cells[a] = cont
            used = set()
            for cont in w2.cells.values():
                if cont[0] == 'f':
                    used |= {x for kk, x in wb.deps(cont[1]) if kk == 'name'}
            for nm in used:
                w2.names[nm] = wb.names[nm]
            try:
                _, sol3 = impl_calc(w2.to_dict(), circular=False)
                V3 = read_values(w2, sol3)
                for a in w2.cells:
                    if V3[a] != V[a]:
                        run.violation('cell %s is not downstream of a cycle; it is %s, and %s in the workbook without the cyclic cells' % (
                            wb.key(*a), bookrun.show(V[a]), bookrun.show(V3[a])), dict(case, cell=wb.key(*a)))
                        break
            except Exception as ex:
                run.violation('the workbook without the cyclic cells raised %s' % type(ex).__name__, case)
        # O3 unavoidable cycles -----------------------------------------------------------------------------------------------------------------
        for a in sorted(pcyc):
            # (an error that comes earlier in the formula than the circular input wins: O4 checks those)
            if not (V[a] or '').startswith('x'):
                run.violation('cell %s lies on a cycle through selected branches only and is %s, not an error' % (
                    wb.key(*a), bookrun.show(V[a])), dict(case, cell=wb.key(*a), kind='pcycle-not-error'))
                break
        # O2' lazily resolvable cells have the value of the selected-branch workbook (Lean model) ------------------------------------------
        q = [a for a in wb.cells if a not in pdown]
        if q:
            req2.append(pw.to_wire(q))
            pend2.append(('lazy', cb, q, V, case))
        # T: the model of the solved workbook ---------------------------------------------------------------------------------------------------
        try:
            marks, nmarks, rmarks, cuts = observe(wb, m, sol)
            # a marked range pushes #CIRC! into its cells through its inverse assembler when that fires before the
            # cell's own formula: such cells are marked in effect
            for k_ in rmarks:
                s_, r1_, r2_, c1_, c2_ = parse_range_key(wb, k_)
                for a_ in wb.cells:
                    if a_[0] == s_ and r1_ <= a_[1] <= r2_ and c1_ <= a_[2] <= c2_ and V[a_] == CIRC and a_ not in marks:
                        marks.append(a_)
            q = list(wb.cells)
            # the solved workbook must be acyclic (otherwise the model would only run out of fuel)
            sg = {}
            cutmap = collections.defaultdict(set)
            for a, lost in cuts:
                cutmap[a] |= set(lost)
            for a, cont in wb.cells.items():
                sg[a] = set()
                if cont[0] != 'f' or a in marks:
                    continue
                for kk, x in wb.deps(cont[1]):
                    if kk == 'ref':
                        key = "%s!%s" % (wb.sheet_id(x[0]), wb.ref_text(x))
                        if key in cutmap[a] or key in rmarks:
                            continue
                        sg[a] |= {(x[0], i, j) for i in range(x[1], x[2] + 1) for j in range(x[3], x[4] + 1)} & set(wb.cells)
                    else:
                        if wb.name_key(x) in cutmap[a] or x in nmarks:
                            continue
                        sg[a] |= reads(wb, wb.names[x][1]) & set(wb.cells)
            left = cyclic_nodes(sg)
            if left:
                run.violation('after solve_circular the cells %s still depend on themselves (no cut, no mark)' % sorted(wb.key(*a) for a in left),
                              dict(case, marks=[wb.key(*a) for a in marks] + nmarks + rmarks, cuts=[(wb.key(*a), lost) for a, lost in cuts]))
                continue
            req2.append(cbook_wire(wb, marks, nmarks, rmarks, cuts, q))
            pend2.append(('solved', cb, q, V, dict(case, marks=[wb.key(*a) for a in marks] + nmarks + rmarks,
                                                   cuts=[(wb.key(*a), lost) for a, lost in cuts])))
        except Exception as ex:
            run.disagree('cuts and marks cannot be read off the dispatcher: %s %s' % (type(ex).__name__, ex), case)
        # O4: every ordinary value satisfies its own formula ------------------------------------------------------------------------------------
        for a, cont in wb.cells.items():
            if cont[0] != 'f' or V[a] == CIRC or V[a] == 'missing' or V[a] is None:
                continue
            if any(V[x] in ('missing', None) for x in wb.cells):
                continue
            # the formula is evaluated in a helper cell; every cell of the workbook (the cell itself too) is a constant
            t = ['book']
            for x, c2 in wb.cells.items():
                t += ['c'] + [str(i) for i in x] + ['v', V[x]]
            t += ['c', '0', '300', '1', 'f'] + wb.wire_expr(cont[1])
            for nmn, (bk, e) in wb.names.items():
                t += ['n', enc(nmn.upper())] + wb.wire_expr(e)
            t += ['q', '0', '300', '1']
            req2.append(' '.join(t))
            pend2.append(('equation', cb, [a], V, dict(case, cell=wb.key(*a))))
    answers = model(req2)
    stats = collections.Counter()
    for ans, (kind, cb, q, V, case) in zip(answers, pend2):
        wb = cb.wb
        vals = ans.split(' ')
        stats[kind] += 1
        for a, mv in zip(q, vals):
            if V[a] == mv:
                continue
            if kind == 'lazy':
                run.violation('cell %s closes no cycle through selected branches: lazily it is %s, reported %s' % (
                    wb.key(*a), bookrun.show(mv), bookrun.show(V[a])),
                    dict(case, cell=wb.key(*a), kind='lazy-but-circ' if V[a] == CIRC else 'lazy-differs'))
            elif kind == 'equation':
                run.violation('cell %s reports the ordinary value %s but its formula gives %s on the reported values' % (
                    wb.key(*a), bookrun.show(V[a]), bookrun.show(mv)), case)
            else:
                if run.matching_finding(case) is None:
                    run.disagree('solved workbook, cell %s: model %s, implementation %s' % (wb.key(*a), bookrun.show(mv), bookrun.show(V[a])),
                                 dict(case, cell=wb.key(*a)))
            break
    run.extra['workbook_model_requests'] = dict(stats)
    run.extra['hash_seed_runs'] = nseed


def part_c(run):
    """O6 on cycles with several break points: one cycle of 2-4 cells, each of which may break it (its back edge stands in a
    lazy branch), with guard values that select the back edge in some cells and not in others.  Which cell is cut must not
    depend on PYTHONHASHSEED (nor on the order of the cells): the same batch of workbooks is calculated in 6 sub-processes
    with different hash seeds and in this process in a permuted cell order, and all answers must coincide."""
    rnd = run.rng
    quick = run.tier == 'quick'
    P = "'[b1.xlsx]S1'!"
    batch, cases = [], []
    for k in range(40 if quick else 600):
        n = rnd.randint(2, 4)
        names = ['A%d' % (i + 1) for i in range(n)]
        gv = [rnd.choice([True, False]) for _ in range(n)]
        if all(gv) or not any(gv):
            gv[rnd.randrange(n)] = not gv[0]
        d = {}
        for i, a in enumerate(names):
            nxt = names[(i + 1) % n]
            g = 'B%d' % (i + 1)
            d[P + g] = gv[i]
            form = rnd.choice(['IF(%s,%s,%d)', 'IF(%s,%s+0,%d)', 'IFERROR(IF(%s,%s,%d),0)'])
            d[P + a] = '=' + form % (P + g, P + nxt, i + 1)
        d[P + 'D1'] = '=%sA1+10' % P
        d[P + 'D2'] = '=SUM(%sA1:A%d)' % (P, n) if rnd.random() < 0.3 else '=%sA%d*2' % (P, n)
        keys = [x for x in d if not x.endswith(tuple('B%d' % (i + 1) for i in range(n)))]
        batch.append({'dict': d, 'keys': keys, 'circular': True})
        cases.append({'workbook': d, 'stream': 'multi-guard-cycle'})
        run.count(1, json.dumps(d, sort_keys=True), True, 'multi-guard-cycle/cells=%d' % n)
    answers = {}
    for hs in ('0', '1', '4', '5', '7', '777'):
        env = dict(os.environ, PYTHONHASHSEED=hs, VERIF_REPO=common.REPO)
        try:
            p = subprocess.run(['/venv/bin/python', os.path.join(common.VERIF, 'harness', 'sub_calc.py')], input=json.dumps({'batch': batch}),
                               capture_output=True, text=True, env=env, timeout=900)
        except subprocess.TimeoutExpired:
            run.violation('calculation of the multi-guard batch under PYTHONHASHSEED=%s does not terminate' % hs, cases[0]); continue
        if p.returncode != 0:
            run.violation('calculation under PYTHONHASHSEED=%s failed: %s' % (hs, p.stderr[-200:]), cases[0]); continue
        answers[hs] = json.loads(p.stdout)
    # this process, cells in a permuted order
    perm = []
    for b in batch:
        items = list(b['dict'].items()); rnd.shuffle(items)
        try:
            m = bookrun.ExcelModel().from_dict(dict(items)); m.finish(complete=False, circular=True)
            sol = m.calculate()
            perm.append({k_: [[bookrun.wire_impl(x) for x in row] for row in np.asarray(sol[k_].value, object).tolist()] for k_ in b['keys']})
        except Exception as ex:
            perm.append({'raised': type(ex).__name__})
    answers['this process, permuted cell order'] = perm
    ref = sorted(answers)[0] if answers else None
    for i, case in enumerate(cases):
        base = answers[ref][i]
        if 'raised' in base:
            run.violation('calculation raised %s' % base['raised'], case); continue
        for hs, res in answers.items():
            if res[i] != base:
                kk = [x for x in base if res[i].get(x) != base[x]] or ['?']
                run.violation('cell %s is %s under PYTHONHASHSEED=%s and %s under %s' % (
                    kk[0], res[i].get(kk[0]), ref, base.get(kk[0]), hs), dict(case, cell=kk[0], hashseed=hs))
                break
    run.extra['multi_guard_hash_seeds'] = sorted(answers)


def witness(run):
    """known finding: a guarded range that contains a cell of another cycle"""
    P = "'[b1.xlsx]S1'!"
    d = {P + 'A1': "=IF(%sD1>0,SUM(%sB1:B2),7)" % (P, P), P + 'B1': '=%sA1+1' % P, P + 'B2': '=%sB2+1' % P, P + 'D1': 0}
    try:
        m, sol = impl_calc(d)
        v = bookrun.wire_impl(np.asarray(getattr(sol[P + 'A1'], 'value', sol[P + 'A1']), object).ravel()[0])
    except Exception as ex:
        v = 'raised ' + type(ex).__name__
    run.replay_witness('range-on-other-cycle', v == CIRC, {'witness': d, 'A1': v})
    d = {P + 'C1': 1, P + 'A2': "=IFERROR(%sA3+3,-1)" % P, P + 'A3': '=IF(%sC1,%sA2-3,-1)' % (P, P)}
    try:
        m, sol = impl_calc(d)
        v = bookrun.wire_impl(np.asarray(getattr(sol[P + 'A2'], 'value', sol[P + 'A2']), object).ravel()[0])
    except Exception as ex:
        v = 'raised ' + type(ex).__name__
    run.replay_witness('absorbed-circ', isinstance(v, str) and v.startswith('n'), {'witness': d, 'A2': v})


def check(run):
    bookrun.setup()
    part_a(run)
    part_b(run)
    part_c(run)
    witness(run)
    run.extra['trusted_base'] = [
        'the decision procedure of solve_circular (which cycle is cut where) is not modelled: the cuts and marks are read off the '
        'implementation and constrained by the oracles O2, O3, O2\', O4',
        'the selected-branch workbook P is built by the harness (prune) from condition values the Lean model computes',
        'Johnson\'s blocking optimisation is not modelled: simple_cycles is compared with the proved specification enumerator',
        'order / hash-seed independence: observed on the implementation only']
    return None


def replay(payload):
    common.import_repo(); bookrun.setup()
    case = payload.get('case') or (payload.get('correspondence') or [None])[0]
    print(json.dumps(case, indent=1, default=str)[:4000])
    if not case:
        print('nothing to replay: broken theorems:', payload.get('broken_theorems_or_audit')); return 0
    if 'workbook' in case:
        d = dict(case['workbook'])
        if case.get('order'):
            items = list(d.items()); d = dict(items[i] for i in case['order'])
        m, sol = impl_calc(d)
        for k in case['workbook']:
            v = sol.get(k)
            print('  %-28s %s' % (k, np.asarray(getattr(v, 'value', v), object).tolist() if v is not None else 'missing'))
    elif 'edges' in case:
        from formulas.excel.cycle import simple_cycles
        g = {i: [v for (u, v) in map(tuple, case['edges']) if u == i] for i in range(case['nodes'])}
        print('simple_cycles:', sorted(canon(c) for c in simple_cycles(g)))
        print('brute force  :', sorted(brute_cycles(case['nodes'], [tuple(e) for e in case['edges']])))
    print('failed predicate:', case.get('what'))
    return 0
