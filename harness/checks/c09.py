"""C09 — JSON export and import preserve every value and are a fixed point.

(1) random workbooks (bookgen) built with from_dict, and hand-built .xlsx workbooks with tricky
    constants (text that looks like a formula, quotes, '#EMPTY', error-looking text, blanks, errors),
    sheet names that need quoting, array formulas, names, unresolved items:
    json.dumps(m.to_dict()) -> from_dict -> same value for every node; second export == first export.
(2) every formula tree of C01: the exported text of the parsed formula parses back to the same
    formula (fixed point of rendering), compared with the Lean model's render/parse as well.
"""
import json, os, shutil, tempfile
import numpy as np
import common
from common import Run, model
import bookgen, bookrun
import parsegen as G

RULE = ('random workbooks through from_dict; hand-built .xlsx workbooks whose constants are drawn from a pool of tricky '
        'texts (leading =, quotes, #EMPTY, error spellings, {=..}, leading blanks), all value kinds, sheet names with '
        'blanks/dots/non-ASCII, array formulas, names, unknown functions and missing references; formula trees of C01 '
        '(exported text re-parsed). Non-trivial = the workbook has at least 3 formulas or a tricky constant; distinct = '
        'distinct exported dictionaries / formula texts.')

TRICKY = ['=x', '="q"', '=1+1', '==', '=', '#EMPTY', '#empty', '#N/A', '#REF!', '#DIV/0!', '#Value!', '{=1}', '{ = 2 }', ' =lead',
          ' #N/A', 'say "hi"', '"', '""', "it's", 'TRUE', 'false', '12', '007', ' padded ', '1E+3', 'a=b', "'quoted'", 'A1', 'SUM(1)',
          '-', '+1', '@x', 'é=ü', '%', '#', '#NAME', 'N/A']


def newline_text(case):
    return any('\n' in str(v) for v in case.get('tricky', []))


def _signs(text):
    return isinstance(text, str) and G.has_adjacent_signs(''.join(text.split('"')[::2]))


def sign_run(case):
    """the spelling or the exported text has a sign directly after another sign / a binary +/-;
    '%%' in an exported text arises from the same folding of `(x%)%`-free trees is NOT covered"""
    return any(_signs(case.get(k)) for k in ('text', 'export_text', 'reexport_text')) or (
        isinstance(case.get('export'), str) and _signs(case['export']))


def double_percent(case):
    # (also when a whole exported workbook is imported again: the rejected formula is the exported text of a `(x%)%`)
    return any(isinstance(case.get(k), str) and '%%' in ''.join(case[k].split('"')[::2])
               for k in ('text', 'export', 'export_text', 'rejected_formula'))


SIGNATURES = {'newline_join': newline_text, 'sign_run': sign_run, 'double_percent': double_percent}


def new_run():
    return Run('C09', RULE, SIGNATURES)


def enc(s):
    return 'u' + '.'.join(str(ord(c)) for c in s)


def dec(s):
    return ''.join(chr(int(x)) for x in s[1:].split('.')) if len(s) > 1 else ''


def node_values(sol):
    out = {}
    for k, v in sol.items():
        if not isinstance(k, str):
            continue
        try:
            a = np.asarray(getattr(v, 'value', v), object)
            if a.ndim == 0:
                a = a.reshape(1, 1)
            out[k] = [[bookrun.wire_impl(x) for x in row] for row in a.tolist()]
        except Exception as ex:
            out[k] = 'unreadable:' + type(ex).__name__
    return out


def roundtrip(run, m, case, nontrivial, dist):
    """export -> json -> import -> values and second export"""
    from formulas import ExcelModel
    try:
        sol = m.calculate()
        d1 = m.to_dict()
        s1 = json.dumps(d1, sort_keys=True, default=str)
    except Exception as ex:
        run.violation('calculate/to_dict/json.dumps raised %s: %s' % (type(ex).__name__, str(ex)[:100]), case)
        return
    run.count(1, s1, nontrivial, dist)
    case = dict(case, export=json.loads(s1))
    try:
        m2 = ExcelModel().from_dict(json.loads(s1))
        sol2 = m2.calculate()
        d2 = m2.to_dict()
        s2 = json.dumps(d2, sort_keys=True, default=str)
    except Exception as ex:
        bad = ex.args[1] if type(ex).__name__ == 'FormulaError' and len(ex.args) > 1 and isinstance(ex.args[1], str) else None
        run.violation('importing the exported dictionary raised %s: %s' % (type(ex).__name__, str(ex)[:120]),
                      dict(case, rejected_formula=bad) if bad else case)
        return
    v1, v2 = node_values(sol), node_values(sol2)
    for k in v1:
        if k in d1 and v1[k] != v2.get(k):
            run.violation('node %s has value %s before and %s after the JSON round trip' % (
                k, [[bookrun.show(x) for x in r] for r in v1[k]] if isinstance(v1[k], list) else v1[k],
                [[bookrun.show(x) for x in r] for r in v2[k]] if isinstance(v2.get(k), list) else v2.get(k)),
                dict(case, node=k, export_text=d1.get(k)))
            break
    if s1 != s2:
        dd1, dd2 = json.loads(s1), json.loads(s2)
        diff = [k for k in set(dd1) | set(dd2) if dd1.get(k) != dd2.get(k)]
        k = sorted(diff)[0]
        only_blank = all({dd1.get(x), dd2.get(x)} == {None, '#EMPTY'} for x in diff)
        run.violation('second export differs from the first at %s: %r vs %r' % (k, dd1.get(k), dd2.get(k)),
                      dict(case, node=k, export_text=dd1.get(k), reexport_text=dd2.get(k), kind='exports-differ', only_blank_listings=only_blank))


def check(run):
    bookrun.setup()
    from formulas import ExcelModel, Parser
    from formulas.errors import FormulaError
    import openpyxl
    from openpyxl.worksheet.formula import ArrayFormula
    from openpyxl.workbook.defined_name import DefinedName
    rnd = run.rng
    quick = run.tier == 'quick'
    # ---- 1a. random workbooks through from_dict ----------------------------------------------------------
    for k in range(40 if quick else 1000):
        wb = bookgen.generate(rnd, n_books=rnd.choice([1, 1, 2]))
        d = wb.to_dict(explicit_blanks=rnd.random() < 0.5)
        st = wb.stats()
        case = {'workbook': {k_: (str(v) if isinstance(v, bookgen.Err) else v) for k_, v in d.items()}, 'via': 'from_dict'}
        try:
            m = ExcelModel().from_dict(d)
        except Exception as ex:
            run.violation('from_dict raised %s' % type(ex).__name__, case)
            continue
        roundtrip(run, m, case, st['formulas'] >= 3, 'from_dict')
        if k < 1:
            run.sample({'via': 'from_dict', 'entries': len(d)})
    # ---- 1b. hand-built .xlsx workbooks with tricky constants ----------------------------------------------
    tmp = tempfile.mkdtemp(prefix='verif_c09_')
    try:
        for k in range(25 if quick else 600):
            book = openpyxl.Workbook()
            names = rnd.sample(['Data', 'My Sheet', 'S.1', 'Été', 'A B C', 'x_y', 'Sheet-2', 'Q1 (new)'], 2)
            ws = book.active
            ws.title = names[0]
            ws2 = book.create_sheet(names[1])
            tricky = rnd.sample(TRICKY, 6)
            for i, t in enumerate(tricky, 1):
                ws.cell(row=i, column=1, value=t).data_type = 's'
            ws['B1'] = rnd.choice([1, 2.5, -3, 0]); ws['B2'] = rnd.choice([True, False]); ws['B3'] = 7
            ws['B4'] = '#DIV/0!'; ws['B4'].data_type = 'e'
            q = lambda nm: "'%s'" % nm.replace("'", "''")
            ws['C1'] = '=A1&"|"&A2'
            ws['C2'] = '=LEN(A3)+B1'
            ws['C3'] = '=IF(ISTEXT(A4),1,2)+IF(ISERROR(A5),10,20)'
            ws['C4'] = '=SUM(B1:B3)*%s!A1' % q(names[1])
            ws['C5'] = '=IFERROR(B4,"e")&A6'
            ws['C6'] = rnd.choice(['=UNKNOWNFUNC(1)+1', '=NoSuchName*2', '=_xlfn.FOO(B1)', "='Missing Sheet'!A1+1", '=#REF!+1', '=B1'])
            ws['D1'] = ArrayFormula('D1:D3', '=B1:B3*2')
            ws['C7'] = rnd.choice(['=IF(B1>100,1,)', '=IF(B1>100,,2)+COUNTA(1,)', '=COUNTA(B1,,)', '=IF(B3>100,1,)&"x"'])   # empty arguments keep their position
            ws2['A1'] = rnd.choice([10, 0.5])
            ws2['A2'] = "=%s!B1+RATE" % q(names[0])
            ws2['A3'] = '=SUM(%s!A:A)' % q(names[1]) if False else '=A1&%s!A1' % q(names[0])
            dn = DefinedName('RATE', attr_text="%s!$B$3" % q(names[0]))
            try:
                book.defined_names['RATE'] = dn
            except TypeError:
                book.defined_names.append(dn)
            path = os.path.join(tmp, 'w%d.xlsx' % k)
            book.save(path)
            case = {'via': 'xlsx', 'tricky': tricky, 'sheets': names, 'C6': ws['C6'].value}
            try:
                m = ExcelModel().loads(path).finish()
            except Exception as ex:
                run.violation('loading the workbook raised %s: %s' % (type(ex).__name__, str(ex)[:100]), case)
                continue
            roundtrip(run, m, case, True, 'xlsx-tricky')
            if k < 2:
                run.sample(case)
            os.remove(path)
    finally:
        shutil.rmtree(tmp, ignore_errors=True)

    # ---- 2. exported formula text parses back to the same formula -------------------------------------------------
    req, pend = [], []

    def expr_of(text):
        try:
            return Parser().ast(text)[1][-1].get_expr
        except FormulaError:
            return None

    n = 1500 if quick else 40000
    for i in range(n):
        stream = 'random'
        t = G.gen_tree(rnd, rnd.randint(1, 5))
        d = G.Decor(rnd, extra_parens=rnd.choice([0, 0.3]), blanks=rnd.choice([0, 0.4]), case=rnd.choice([0, 0.5]))
        if i % 12 == 0:
            stream = 'sign-runs'
            d.sign_runs = True
            t = ('un', '-', ('un', '-', t)) if i % 24 == 0 else ('bin', '-', ('num', '1'), ('un', '-', t))
        text = '=' + G.spell(t, d)
        e1 = expr_of(text)
        if e1 is None:
            continue
        e2 = expr_of('=' + e1)
        case = {'text': text, 'export': '=' + e1, 'reexport': ('=' + e2) if e2 is not None else None, 'stream': stream}
        run.count(1, text, G.count_ops(t) >= 2, 'formula-' + stream)
        if e2 != e1:
            run.violation('the exported text %r parses back to %r' % ('=' + e1, e2), case)
        req.append('parse ' + enc('=' + e1))
        pend.append((e1, case))
        req.append('parse ' + enc(text))           # the model's rendering of the original text is the export
        pend.append((e1, dict(case, compared='model rendering of the original text')))
    # ---- 4. which blank cells range assembly lists (the '#EMPTY' entries of the export) vs XL.Blanks.closure ----------------
    # a 5x4 grid sheet G: some constants, some blanks listed beforehand, formulas on sheet F over random rectangles of G
    import schedula as sh_
    breq, bpend = [], []
    for k in range(60 if quick else 3000):
        rows_, cols_ = 5, 4
        cid = lambda r, c: (r - 1) * cols_ + c
        cells_ = [(r, c) for r in range(1, rows_ + 1) for c in range(1, cols_ + 1)]
        consts = set(rnd.sample(cells_, rnd.randint(2, 9)))
        pre = set(rnd.sample([x for x in cells_ if x not in consts], rnd.randint(0, 3)))
        rects = []
        for _ in range(rnd.randint(1, 7)):
            r1 = rnd.randint(1, rows_); c1 = rnd.randint(1, cols_)
            h, w = rnd.choice([(1, 1), (1, 1), (2, 1), (3, 1), (1, 2), (1, 3), (2, 2), (4, 1), (1, 4), (3, 2)])
            rects.append((r1, min(rows_, r1 + h - 1), c1, min(cols_, c1 + w - 1)))
        GS, FS = "'[g.xlsx]G'!", "'[g.xlsx]F'!"
        col = lambda c: 'ABCD'[c - 1]
        items = [(GS + '%s%d' % (col(c), r), rnd.choice([1, 2.5, 'x', True])) for (r, c) in sorted(consts)]
        items += [(GS + '%s%d' % (col(c), r), '#EMPTY') for (r, c) in sorted(pre)]
        for i, (r1, r2, c1, c2) in enumerate(rects):
            ref = '%s%d' % (col(c1), r1) if (r1, c1) == (r2, c2) else '%s%d:%s%d' % (col(c1), r1, col(c2), r2)
            items.append((FS + 'A%d' % (i + 1), '=%s(%s%s)' % (rnd.choice(['SUM', 'COUNT', 'MAX']), GS, ref)))
        listed_by_order = []
        for rep in range(2):
            order = items[:]
            if rep:
                rnd.shuffle(order)
            try:
                mm = ExcelModel().from_dict(dict(order))
                listed = sorted(cid(*divmod_rc) for divmod_rc in
                                [(int(''.join(ch for ch in kk.split('!')[1] if ch.isdigit())), 'ABCD'.index(kk.split('!')[1][0]) + 1)
                                 for kk, dv in mm.dsp.default_values.items()
                                 if isinstance(kk, str) and kk.upper().startswith(GS.upper()) and ':' not in kk.split('!')[1]
                                 and np.asarray(dv['value'], object).shape == (1, 1) and np.asarray(dv['value'], object)[0, 0] is sh_.EMPTY])
            except Exception as ex:
                run.violation('from_dict raised %s: %s' % (type(ex).__name__, str(ex)[:80]), {'workbook': dict(order), 'stream': 'blank-listing'})
                listed = None
            listed_by_order.append(listed)
        case = {'workbook': dict(items), 'stream': 'blank-listing', 'listed': listed_by_order[0]}
        run.count(1, json.dumps(dict(items), sort_keys=True, default=str), len(rects) >= 2, 'blank-listing/ranges=%d' % len(rects))
        if None in listed_by_order:
            continue
        if listed_by_order[0] != listed_by_order[1]:
            run.violation('the blank cells listed as nodes depend on the insertion order: %s vs %s' % (listed_by_order[0], listed_by_order[1]), case)
        rs = [[cid(r, c) for r in range(r1, r2 + 1) for c in range(c1, c2 + 1) if (r, c) not in consts] for (r1, r2, c1, c2) in rects]
        L0 = sorted(cid(*x) for x in pre)
        breq.append('blanks 1 %d %s %s' % (len(L0), ' '.join(map(str, L0)), ' '.join('%d %s' % (len(r_), ' '.join(map(str, r_))) for r_ in rs)))
        bpend.append((listed_by_order[0], case))
    for ans, (listed, case) in zip(model([' '.join(q.split()) for q in breq]), bpend):
        ml = sorted(int(x) for x in ans.split()) if ans != '-' else []
        if ml != listed:
            run.disagree('blank cells listed as nodes: implementation %s, closure of the model %s (cell ids row-major on a 5x4 grid)' % (listed, ml), case)
    run.extra['blank_listing_requests'] = len(breq)
    # regression input of the repaired defect export-blank-listing (fixed entry in known_findings.json)
    try:
        wd = json.load(open(os.path.join(common.VERIF, 'known_witnesses', 'c09_blank_listing.json')))
        m1 = ExcelModel().from_dict(wd); m1.calculate(); x1 = m1.to_dict()
        m2 = ExcelModel().from_dict(json.loads(json.dumps(x1, default=str))); m2.calculate(); x2 = m2.to_dict()
        run.count(1, 'regression:c09_blank_listing', True, 'regression-corpus')
        if set(x1) != set(x2):
            run.violation('second export lists other nodes than the first: %s' % sorted(set(x1) ^ set(x2))[:4],
                          {'workbook': wd, 'kind': 'exports-differ', 'nodes': sorted(set(x1) ^ set(x2))})
    except Exception as ex:
        run.violation('export/import of the regression workbook raised %s' % type(ex).__name__, {'witness': 'known_witnesses/c09_blank_listing.json'})
    # ---- (5) the exported text of random trees, on the characters (theorem XL.C09.export_text_reparses) ---------------------------
    # trees over integers, cell names, plain strings, the binary operators, signs, %, calls; the MODEL prints `render` of the
    # tree; for the shapes of the theorem (class rwf) the model reads that text back as the tree - that is the theorem, checked
    # here on the executable - and the implementation re-exports exactly that text
    def gen_ct(depth):
        k = rnd.random()
        if depth <= 0 or k < 0.25:
            kind = rnd.choice('ncs')
            if kind == 'n':
                return 'N' + rnd.choice(['0', '1', '7', '42', '007', '1000', '9'])
            if kind == 'c':
                return 'C' + rnd.choice(['A', 'B', 'Z', 'AB', 'XFC', 'T', 'F', 'E', 'TRU', 'FAL', 'R', 'C', 'RC']) + '.' + rnd.choice(['1', '2', '10', '99', '1048575'])
            return 'S' + enc(rnd.choice(['', 'x', 'a b', 'x+1', '#N/A', 'TRUE', '1,2', 'A1:B2', '(', '  ']))
        if k < 0.65:
            return 'B' + rnd.choice(G.BINOPS) + ' ' + gen_ct(depth - 1) + ' ' + gen_ct(depth - 1)
        if k < 0.8:
            return rnd.choice(['M', 'P']) + ' ' + gen_ct(depth - 1)
        if k < 0.9:
            return '% ' + gen_ct(depth - 1)
        n_ = rnd.randint(0, 3)
        return 'F' + rnd.choice(['SUM', 'MAX', 'IF', 'AND', 'CONCATENATE', 'ABS', 'G', 'ROUND']) + ' %d' % n_ + ''.join(' ' + gen_ct(depth - 1) for _ in range(n_))
    rreq, rcodes = [], []
    for i in range(300 if quick else 10000):
        code = gen_ct(rnd.randint(1, 5))
        rreq.append('rtext ' + code); rcodes.append(code)
    n_rwf = 0
    for code, ans in zip(rcodes, model(rreq)):
        parts = ans.split(' ')
        cls, text, mres = parts[0], dec(parts[1]), ' '.join(parts[2:])
        mres = ('ok ' + dec(mres[3:])) if mres.startswith('ok ') else mres
        case = {'text': text, 'stream': 'render-text', 'tree_code': code, 'class': cls, 'model': mres}
        run.count(1, text, code.count('B') + code.count('M') + code.count('P') + code.count('%') >= 2, 'render-text/' + cls)
        if cls != 'rwf':
            continue          # sign runs, %% and -x%: known findings sign-run / double-percent, replayed on their witnesses below
        n_rwf += 1
        if mres != 'ok ' + text[1:]:
            run.disagree('the model reads the exported text %s as %s (theorem export_text_reparses)' % (text, mres), case)
        e2 = expr_of(text)
        if e2 != text[1:]:
            run.violation('the exported text %s is exported again as %s: export -> import -> export is not a fixed point' % (text, e2),
                          dict(case, reexport=e2))
    run.extra['render_text_requests'] = {'all': len(rreq), 'of_the_theorem_class': n_rwf}
    # known-finding witnesses
    e1 = expr_of('=(A1%)%')
    run.replay_witness('double-percent', e1 == 'A1%%' and expr_of('=' + e1) is None, {'witness': '=(A1%)%', 'export': e1})
    e1 = expr_of('=-(-A1)')
    run.replay_witness('sign-run', e1 is not None and expr_of('=' + e1) != e1, {'witness': '=-(-A1)', 'export': e1, 'reexport': expr_of('=' + e1) if e1 else None})
    answers = model(req)
    ood = 0
    for a, (e1, case) in zip(answers, pend):
        if a == 'ood':
            ood += 1
            continue
        got = ('ok ' + dec(a[3:])) if a.startswith('ok ') else a
        if got != 'ok ' + e1:
            f = run.matching_finding(case)
            if f is None:
                run.disagree('model parses the exported text to %s, the export is %s' % (got, e1), case)
    run.extra['model_requests'] = len(req)
    run.extra['model_out_of_domain'] = ood
    return None


def replay(payload):
    common.import_repo(); bookrun.setup()
    case = payload.get('case') or (payload.get('correspondence') or [None])[0]
    print(json.dumps(case, indent=1, default=str)[:4000])
    print('failed predicate:', case.get('what') if case else payload.get('broken_theorems_or_audit'))
    return 0
