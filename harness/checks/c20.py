"""C20 — calendar and number-system conversions are exact inverses.

Implementation: get_functions()['DATE'|'YEAR'|'MONTH'|'DAY'|'WEEKDAY'|'TIME'|'HOUR'|'MINUTE'|'SECOND'|
'DEC2BIN'...|'ROMAN'|'ARABIC'].  Model: XL.Model.Cal / XL.Model.Eng through xldriver.
Independent oracle for dates: Python's own datetime (serial > 60 is 1899-12-30 + serial).
"""
import datetime, math, json, os, multiprocessing
import numpy as np
import common
from common import Run, model

RULE = ('dates: boundary serials (0..430, leap/century/epoch edges, end of range) + random serials (quick) / every '
        'serial 0..2958465 (thorough); DATE with overflowing month/day; WEEKDAY in all 10 modes + invalid modes; '
        'TIME/HOUR/MINUTE/SECOND on a stride of seconds (quick) / all 86400 (thorough); DEC2BIN all 1024 values, '
        'OCT/HEX boundaries + random; malformed digit strings; ROMAN/ARABIC all 4000 for form 0 + random other forms '
        '(quick) / all 20000 (thorough). Non-trivial = argument away from 0; distinct = distinct (function, argument).')

MAXS = 2958465


def enc(s):
    return 'u' + '.'.join(str(ord(c)) for c in s)


def dec(s):
    return ''.join(chr(int(x)) for x in s[1:].split('.')) if len(s) > 1 else ''


def new_run():
    return Run('C20', RULE)


def sc(x):
    """canonical scalar of a function result"""
    if isinstance(x, np.ndarray):
        x = x.ravel()[0] if x.size == 1 else x
    if isinstance(x, np.generic):
        x = x.item()
    return x


def is_err(x, name=None):
    from formulas.tokens.operand import XlError
    return isinstance(x, XlError) and (name is None or str(x) == name)


def show(x):
    return str(x) if is_err(x) else x


def _date_worker(args):
    lo, hi = args
    common.import_repo()
    from formulas import get_functions
    F = get_functions()
    bad = []
    base = datetime.date(1899, 12, 30)
    for n in range(lo, hi):
        y, m, d = sc(F['YEAR'](n)), sc(F['MONTH'](n)), sc(F['DAY'](n))
        back = sc(F['DATE'](y, m, d))
        ok = back == n
        if n > 60:
            t = base + datetime.timedelta(days=n)
            ok = ok and (y, m, d) == (t.year, t.month, t.day)
        if not ok:
            bad.append((n, show(y), show(m), show(d), show(back)))
            if len(bad) > 20:
                break
    return hi - lo, bad


def check(run):
    from formulas import get_functions
    F = get_functions()
    rnd = run.rng
    quick = run.tier == 'quick'
    req, pend = [], []

    def ask(line, h):
        req.append(line); pend.append(h)

    def call(name, *args):
        try:
            return sc(F[name](*args))
        except Exception as ex:
            run.violation('%s%r raised %s' % (name, args, type(ex).__name__), {'op': name, 'args': [repr(a) for a in args]})
            return 'EXC'

    # ---- dates --------------------------------------------------------------------------------
    serials = set(range(0, 431)) | {MAXS - k for k in range(0, 400)}
    for y in (1900, 1901, 1904, 1999, 2000, 2001, 2024, 2100, 2400, 9999):
        for (m, d) in ((1, 1), (2, 28), (3, 1), (12, 31)):
            try:
                serials.add((datetime.date(y, m, d) - datetime.date(1899, 12, 30)).days)
            except ValueError:
                pass
    serials |= {rnd.randint(61, MAXS) for _ in range(6000 if quick else 20000)}
    base = datetime.date(1899, 12, 30)
    for n in sorted(serials):
        if not 0 <= n <= MAXS:
            continue
        y, m, d = call('YEAR', n), call('MONTH', n), call('DAY', n)
        back = call('DATE', y, m, d) if 'EXC' not in (y, m, d) else 'EXC'
        run.count(4, ('date', n), n > 0, 'date-roundtrip')
        case = {'op': 'date', 'serial': n, 'ymd': [show(y), show(m), show(d)], 'back': show(back)}
        if back != n:
            run.violation('DATE(YEAR,MONTH,DAY) of a serial is not the serial', case)
        if n > 60:
            t = base + datetime.timedelta(days=n)
            if (y, m, d) != (t.year, t.month, t.day):
                run.violation('serial does not convert to the calendar date', dict(case, expected=[t.year, t.month, t.day]))
        ask('int2date %d' % n, lambda a, case=case, y=y, m=m, d=d: a == '%s,%s,%s' % (y, m, d) or run.disagree(
            'int2date: model %s' % a, case))
    for n, exp in ((60, (1900, 2, 29)), (0, (1900, 1, 0)), (59, (1900, 2, 28)), (61, (1900, 3, 1))):
        got = (call('YEAR', n), call('MONTH', n), call('DAY', n))
        if got != exp:
            run.violation('special serial %d shows %r, expected %r' % (n, got, exp), {'op': 'date', 'serial': n})
    # a serial with a time of day shows the date of its whole day (the fictitious 29 Feb 1900 and day 0 included)
    fr_serials = [0, 1, 2, 58, 59, 60, 61, 62, 366, 367, 36585, MAXS - 1, MAXS] + [rnd.randint(0, MAXS) for _ in range(300 if quick else 3000)]
    for n in fr_serials:
        for fr in (0.5, 0.25, 0.999988426, 1 / 86400, rnd.random()):
            x = n + fr
            if math.floor(x) != n:
                continue
            got = (call('YEAR', x), call('MONTH', x), call('DAY', x))
            whole = (call('YEAR', n), call('MONTH', n), call('DAY', n))
            run.count(3, ('date-frac', n, fr), True, 'date-with-time-of-day')
            case = {'op': 'date', 'serial': repr(x), 'ymd': [show(v) for v in got], 'whole_day': [show(v) for v in whole]}
            if got != whole:
                run.violation('YEAR/MONTH/DAY of a serial with a time of day is not the date of its day', case)
            ask('int2date %d' % n, lambda a, case=case, got=got: a == '%s,%s,%s' % got or run.disagree(
                'int2date (floor of the serial): model %s' % a, case))
    for n in (-1, -5, MAXS + 1, MAXS + 1000, -10 ** 6):
        for f in ('YEAR', 'MONTH', 'DAY'):
            r = call(f, n)
            run.count(1, ('date-out', f, n), True, 'date-out-of-range')
            if not is_err(r, '#NUM!'):
                run.violation('%s(%d) outside the supported range is %r, expected #NUM!' % (f, n, show(r)),
                              {'op': 'date', 'serial': n, 'func': f})
    run.sample({'op': 'date', 'serial': 45000, 'ymd': [call('YEAR', 45000), call('MONTH', 45000), call('DAY', 45000)]})
    # DATE with overflowing parts: implementation vs model
    for _ in range(1500 if quick else 15000):
        y = rnd.choice([1900, 1901, 1999, 2000, 2023, 2024, 2100, 9998, 9999, rnd.randint(0, 10050), rnd.randint(1850, 2100)])
        m = rnd.choice([1, 2, 3, 12, 13, 0, -1, rnd.randint(-60, 80)])
        d = rnd.choice([1, 28, 29, 30, 31, 32, 0, -1, rnd.randint(-800, 1200)])
        r = call('DATE', y, m, d)
        run.count(1, ('DATE', y, m, d), True, 'DATE-overflow')
        ask('xdate %d %d %d' % (y, m, d), lambda a, r=r, y=y, m=m, d=d: a == str(show(r)) or run.disagree(
            'DATE(%d,%d,%d): model %s, implementation %s' % (y, m, d, a, show(r)), {'op': 'DATE', 'args': [y, m, d]}))
        if not is_err(r) and r != 'EXC':
            # independent oracle: proleptic arithmetic with datetime where the result is past the leap-day quirk
            yy = y + 1900 if y < 1900 else y
            if r > 60 and (yy, m, d) >= (1900, 3, 1):
                mm = yy * 12 + (m - 1)
                try:
                    t = datetime.date(mm // 12, mm % 12 + 1, 1) + datetime.timedelta(days=d - 1)
                    exp = (t - base).days
                    if exp != r and exp > 60:
                        run.violation('DATE(%d,%d,%d) = %s, calendar arithmetic gives %d' % (y, m, d, r, exp),
                                      {'op': 'DATE', 'args': [y, m, d]})
                except (ValueError, OverflowError):
                    pass

    # ---- weekday ---------------------------------------------------------------------------------
    modes = [1, 2, 3, 11, 12, 13, 14, 15, 16, 17]
    for _ in range(600 if quick else 6000):
        n = rnd.choice([0, 1, 59, 60, 61, MAXS - 1, rnd.randint(0, MAXS - 1)])
        for mode in modes:
            a, b = call('WEEKDAY', n, mode), call('WEEKDAY', n + 1, mode)
            run.count(2, ('weekday', n, mode), True, 'weekday')
            lo = 0 if mode == 3 else 1
            ok = isinstance(a, int) and isinstance(b, int) and lo <= a <= lo + 6 and b == (a - lo + 1) % 7 + lo
            if not ok:
                run.violation('WEEKDAY does not advance by one per day', {'op': 'weekday', 'serial': n, 'mode': mode,
                                                                          'values': [show(a), show(b)]})
            ask('weekday %d %d' % (n, mode), lambda x, a=a, n=n, mode=mode: x == str(show(a)) or run.disagree(
                'WEEKDAY(%d,%d): model %s, implementation %s' % (n, mode, x, show(a)), {'op': 'weekday', 'serial': n, 'mode': mode}))
    for mode in (0, 4, 5, 10, 18, 21, -1):
        r = call('WEEKDAY', 45000, mode)
        run.count(1, ('weekday-bad', mode), True, 'weekday-bad-mode')
        if not is_err(r, '#NUM!'):
            run.violation('WEEKDAY with mode %d is %r, expected #NUM!' % (mode, show(r)), {'op': 'weekday', 'mode': mode})

    # ---- time (floating point: enumerated on the implementation, not modelled) -------------------------
    step = 7 if quick else 1
    secs = list(range(0, 86400, step)) + [86399, 43200, 3599, 3600, 3601]
    nbad = 0
    for s in secs:
        h, mi, se = s // 3600, s % 3600 // 60, s % 60
        t = call('TIME', h, mi, se)
        got = (call('HOUR', t), call('MINUTE', t), call('SECOND', t))
        run.count(4, ('time', s), s > 0, 'time')
        if got != (h, mi, se):
            nbad += 1
            run.violation('HOUR/MINUTE/SECOND do not invert TIME', {'op': 'time', 'hms': [h, mi, se], 'serial': repr(t),
                                                                   'got': [show(x) for x in got]})
        # exact-rational model of xtime/_n2time (theorem time_roundtrip_exact) against the floating-point code
        ask('hms %d %d %d' % (h, mi, se), lambda x, got=got, h=h, mi=mi, se=se: x == ','.join(str(show(v)) for v in got) or run.disagree(
            'HOUR/MINUTE/SECOND(TIME(%d,%d,%d)): model %s, implementation %s' % (h, mi, se, x, [show(v) for v in got]),
            {'op': 'time', 'hms': [h, mi, se]}))
    # overflowing components (TIME carries them): model `hmsOfTime` / theorem time_roundtrip_overflow
    for _ in range(200 if quick else 3000):
        h, mi, se = run.rng.randrange(0, 200), run.rng.randrange(0, 2000), run.rng.randrange(0, 32768)
        t = call('TIME', h, mi, se)
        got = (call('HOUR', t), call('MINUTE', t), call('SECOND', t))
        tot = (3600 * h + 60 * mi + se) % 86400
        run.count(4, ('time-overflow', h, mi, se), True, 'time-overflow')
        if got != (tot // 3600, tot % 3600 // 60, tot % 60):
            run.violation('HOUR/MINUTE/SECOND of TIME with overflowing components', {
                'op': 'time', 'hms': [h, mi, se], 'serial': repr(t), 'got': [show(x) for x in got]})
        ask('hms %d %d %d' % (h, mi, se), lambda x, got=got, h=h, mi=mi, se=se: x == ','.join(str(show(v)) for v in got) or run.disagree(
            'HOUR/MINUTE/SECOND(TIME(%d,%d,%d)): model %s, implementation %s' % (h, mi, se, x, [show(v) for v in got]),
            {'op': 'time', 'hms': [h, mi, se]}))
    run.extra['time_enumeration'] = {'seconds_checked': len(secs), 'exhaustive': step == 1,
                                     'note': 'floating-point instance: enumerated on the implementation and compared with the exact-rational model (theorems time_roundtrip_exact / _overflow); the enumeration is not a proof'}

    # ---- base conversion ---------------------------------------------------------------------------------
    names = {2: ('DEC2BIN', 'BIN2DEC'), 8: ('DEC2OCT', 'OCT2DEC'), 16: ('DEC2HEX', 'HEX2DEC')}
    masks = {2: 1 << 9, 8: 1 << 29, 16: 1 << 39}
    for base_, (d2x, x2d) in names.items():
        y = masks[base_]
        vals = set(range(-512, 512)) if base_ == 2 else set()
        vals |= {-y, -y + 1, -1, 0, 1, y - 1, y - 2, y // 2, -y // 2}
        if base_ != 2:
            vals |= {rnd.randint(-y, y - 1) for _ in range(2500 if quick else 100000)}
        for n in sorted(vals):
            s = call(d2x, n)
            back = call(x2d, s) if isinstance(s, str) else 'n/a'
            run.count(2, (d2x, n), n != 0, d2x)
            if not isinstance(s, str) or back != n:
                run.violation('%s/%s are not inverse at %d' % (d2x, x2d, n), {'op': d2x, 'n': n, 'text': show(s), 'back': show(back)})
            else:
                again = call(d2x, back)
                if again != s:
                    run.violation('%s(%s(s)) differs from the canonical digit string' % (d2x, x2d), {'op': x2d, 'text': s, 'again': show(again)})
            ask('dec2x %d %d' % (base_, n), lambda a, s=s, n=n, d2x=d2x: (dec(a) if a.startswith('u') else a) == show(s) or run.disagree(
                '%s(%d): model %s, implementation %s' % (d2x, n, a, show(s)), {'op': d2x, 'n': n}))
            if isinstance(s, str):
                ask('x2dec %d %s' % (base_, enc(s)), lambda a, back=back, s=s, x2d=x2d: a == str(show(back)) or run.disagree(
                    '%s(%s): model %s, implementation %s' % (x2d, s, a, show(back)), {'op': x2d, 'text': s}))
        for n in (-y - 1, y, y + 1, -2 * y, 10 * y):
            r = call(d2x, n)
            run.count(1, (d2x, 'out', n), True, d2x + '-out-of-range')
            if not is_err(r, '#NUM!'):
                run.violation('%s(%d) outside the range is %r, expected #NUM!' % (d2x, n, show(r)), {'op': d2x, 'n': n})
        # places: as a number and as the 1x1 array a cell reference delivers; the padded text reads back as the same number,
        # a negative number keeps its ten digits
        import numpy as np
        pl_vals = sorted({-y, -1, 0, 1, 2, 5, y - 1, y // 3, -y // 3} | {rnd.randint(-y, y - 1) for _ in range(40 if quick else 2000)})
        for n in pl_vals:
            for p_ in (-1, 0, 1, 3, 9, 10, 11):
                s1 = call(d2x, n, p_)
                s2 = call(d2x, np.array([[n]], object), np.array([[p_]], object))
                run.count(1, (d2x, n, 'places', p_), True, d2x + '-places')
                if show(s1) != show(s2):
                    run.violation('%s(%d, %d) is %r with numbers and %r with the same values taken from cells' % (d2x, n, p_, show(s1), show(s2)),
                                  {'op': d2x, 'n': n, 'places': p_})
                if isinstance(s1, str) and not is_err(s1):
                    back = call(x2d, s1)
                    if back != n or (n < 0 and s1 != call(d2x, n)):
                        run.violation('%s(%d, %d) = %r does not read back as %d' % (d2x, n, p_, s1, n), {'op': d2x, 'n': n, 'places': p_, 'back': show(back)})
                elif not is_err(s1, '#NUM!'):
                    run.violation('%s(%d, %d) is %r, neither a text nor #NUM!' % (d2x, n, p_, show(s1)), {'op': d2x, 'n': n, 'places': p_})
                ask('dec2xp %d %d %d' % (base_, n, p_), lambda a, s1=s1, n=n, p_=p_, d2x=d2x: (dec(a) if a.startswith('u') else a) == show(s1) or run.disagree(
                    '%s(%d, %d): model %s, implementation %s' % (d2x, n, p_, a, show(s1)), {'op': d2x, 'n': n, 'places': p_}))
        digits = '0123456789ABCDEF'[:base_]
        bad = ['-1', '+1', ' 1', '1 ', '1_0', '0b1', '0x1', '0o7', 'G', 'Z1', '1.0', digits[-1] * 11,
               '1' + digits[0] * 10, {2: '2', 8: '8', 16: 'g'}[base_]]
        bad = [b for b in bad if not (set(b.upper()) <= set(digits) and len(b) <= 10)]
        for s in bad:
            r = call(x2d, s)
            run.count(1, (x2d, 'bad', s), True, x2d + '-malformed')
            if not is_err(r, '#NUM!'):
                run.violation('%s(%r) is %r, expected #NUM!' % (x2d, s, show(r)), {'op': x2d, 'text': s})
            ask('x2dec %d %s' % (base_, enc(s)), lambda a, r=r, s=s, x2d=x2d: a == str(show(r)) or run.disagree(
                '%s(%r): model %s, implementation %s' % (x2d, s, a, show(r)), {'op': x2d, 'text': s}))
        # lower-case and padded spellings read the same number
        for _ in range(200):
            n = rnd.randint(0, y - 1)
            s = call(d2x, n)
            if isinstance(s, str):
                for v in (s.lower(), s.zfill(10)):
                    r = call(x2d, v)
                    run.count(1, (x2d, v), True, x2d + '-spelling')
                    if r != n:
                        run.violation('%s(%r) is %r, expected %d' % (x2d, v, show(r), n), {'op': x2d, 'text': v})

    # ---- roman -----------------------------------------------------------------------------------------------
    pairs = [(n, 0) for n in range(0, 4000)]
    if quick:
        pairs += [(rnd.randint(0, 3999), rnd.randint(1, 4)) for _ in range(3000)]
        pairs += [(n, f) for f in range(1, 5) for n in (1, 4, 9, 45, 49, 95, 99, 450, 490, 495, 499, 950, 990, 995, 999, 1999, 3999)]
    else:
        pairs += [(n, f) for f in range(1, 5) for n in range(0, 4000)]
    for n, f in pairs:
        s = call('ROMAN', n, f)
        back = call('ARABIC', s) if isinstance(s, str) else 'n/a'
        run.count(2, ('roman', n, f), n > 0, 'roman/form%d' % f)
        if not isinstance(s, str) or back != n:
            run.violation('ARABIC(ROMAN(%d,%d)) is %r' % (n, f, show(back)), {'op': 'roman', 'n': n, 'form': f, 'text': show(s)})
        ask('roman %d %d' % (n, f), lambda a, s=s, n=n, f=f: dec(a) == s or run.disagree(
            'ROMAN(%d,%d): model %r, implementation %r' % (n, f, dec(a), show(s)), {'op': 'roman', 'n': n, 'form': f}))
        if isinstance(s, str):
            ask('arabic %s' % enc(s), lambda a, back=back, s=s: a == str(show(back)) or run.disagree(
                'ARABIC(%s): model %s, implementation %s' % (s, a, show(back)), {'op': 'arabic', 'text': s}))
    for n, f in ((4000, 0), (-1, 0), (5, 5), (5, -1), (10 ** 6, 2)):
        r = call('ROMAN', n, f)
        run.count(1, ('roman-out', n, f), True, 'roman-out-of-range')
        if not is_err(r):
            run.violation('ROMAN(%d,%d) outside the domain is %r, expected an error value' % (n, f, show(r)), {'op': 'roman', 'n': n, 'form': f})
    run.sample({'op': 'roman', 'n': 1999, 'forms': [call('ROMAN', 1999, f) for f in range(5)]})

    # ---- thorough: every serial, 16 workers ------------------------------------------------------------------------
    if not quick:
        chunks = [(lo, min(lo + 20000, MAXS + 1)) for lo in range(0, MAXS + 1, 20000)]
        with multiprocessing.Pool(int(os.environ.get('VERIF_JOBS', '16'))) as pool:
            for cnt, bad in pool.imap_unordered(_date_worker, chunks):
                run.count(cnt * 4, None, False, 'date-exhaustive')
                for b in bad:
                    run.violation('serial %d: YEAR/MONTH/DAY/DATE do not round-trip or differ from the calendar' % b[0],
                                  {'op': 'date', 'serial': b[0], 'ymd': list(b[1:4]), 'back': b[4]})
        run.exhaustive = True
        run.extra['exhaustive_domains'] = ['all serials 0..2958465', 'all 86400 seconds', 'all 1024 binary values', 'all 4000x5 ROMAN arguments']
    else:
        run.exhaustive = False
        run.extra['exhaustive_domains'] = ['all 1024 binary values', 'all 4000 ROMAN arguments of form 0']

    answers = model(req)
    for a, h in zip(answers, pend):
        h(a)
    run.extra['model_requests'] = len(req)
    run.extra['trusted_base'] = ['datetime/calendar of CPython (external; modelled by the civil-from-days pair and compared through YEAR/MONTH/DAY/DATE)',
                                 'TIME/HOUR/MINUTE/SECOND: IEEE-754 arithmetic, enumerated on the implementation only']
    return None


def replay(payload):
    common.import_repo()
    from formulas import get_functions
    F = get_functions()
    case = payload.get('case') or (payload.get('correspondence') or [None])[0]
    print(json.dumps(case, indent=1, default=str))
    if not case:
        print('nothing to replay: broken theorems:', payload.get('broken_theorems_or_audit')); return 0
    op = case.get('op')
    if op == 'date' and 'serial' in case:
        n = case['serial']
        print('implementation: YEAR/MONTH/DAY =', [sc(F[f](n)) for f in ('YEAR', 'MONTH', 'DAY')])
        print('model int2date:', model(['int2date %d' % n])[0])
    elif op == 'DATE':
        print('implementation:', sc(F['DATE'](*case['args'])), ' model:', model(['xdate %d %d %d' % tuple(case['args'])])[0])
    elif op == 'weekday':
        print('implementation:', sc(F['WEEKDAY'](case.get('serial', 45000), case['mode'])),
              ' model:', model(['weekday %d %d' % (case.get('serial', 45000), case['mode'])])[0])
    elif op == 'roman':
        print('implementation:', sc(F['ROMAN'](case['n'], case['form'])), ' model:', dec(model(['roman %d %d' % (case['n'], case['form'])])[0]))
    elif op in F:
        arg = case.get('n', case.get('text'))
        print('implementation:', sc(F[op](arg)))
    print('failed predicate:', case.get('what'))
    return 0
