"""C04 — every spelling of a reference denotes the same node; distinct ones differ.

Implementation: formulas.tokens.operand (Range, _index2col, _col2index, range2parts) and
Ranges.push / get_range.  Model: XL.Model.Ref (colLetters, colIndex, refName, cellName,
buildSheetId, buildId, readBack).
"""
import collections, json
import common
from common import Run, model

RULE = ('all 16384 columns (letters<->numbers, and one cell per column through every spelling); rectangles '
        'stratified by kind (cell, rectangle, whole columns, whole rows, touching the last row/column), each '
        'through all its spellings ($ markers, case, A1/R1C1, relative offsets against a host, X:X, sheet '
        'prefix quoted/unquoted/case/book/directory, implicit qualification by context). A case is non-trivial '
        'when the rectangle is not A1; distinct = distinct (spelling form, boundary class, sheet-prefix class, rectangle).')


def enc(s):
    return 'u' + '.'.join(str(ord(c)) for c in s)


def dec(s):
    assert s[0] == 'u', s
    return ''.join(chr(int(x)) for x in s[1:].split('.')) if len(s) > 1 else ''


def _touches(r):
    r1, r2, c1, c2 = r[-4:]
    whole_col = r1 == 0 and r2 == MAXROW
    whole_row = c1 == 0 and c2 == MAXCOL
    return (c2 == MAXCOL and not whole_row) or (r2 == MAXROW and not whole_col)


def touches_max(case):
    """the failing case involves a rectangle that touches the last row/column without being a
    whole row/column (for a collision: either of the two rectangles)"""
    return any(_touches(case[k]) for k in ('rect', 'rect2') if case.get(k))


SIGNATURES = {
    'last_row_or_column_name': touches_max,
    'sheet_name_with_quote': lambda case: "'" in case.get('sheet', '') and case.get('what', '').startswith('read back'),
}


def new_run():
    return Run('C04', RULE, SIGNATURES)


def setup():
    global Range, Ranges, _index2col, _col2index, MAXROW, MAXCOL, Parser
    from formulas.tokens.operand import Range, _index2col, _col2index, maxrow as MAXROW, maxcol as MAXCOL
    from formulas.ranges import Ranges
    from formulas import Parser


def spellings(rect, host, rnd):
    """(form, text-without-sheet-prefix, needs_host)"""
    s, r1, r2, c1, c2 = rect
    L = _index2col
    out = []
    whole_col = r1 == 0 and r2 == MAXROW
    whole_row = c1 == 0 and c2 == MAXCOL
    hr, hc = host
    if whole_col:
        a, b = L(c1), L(c2)
        out += [('A:A', '%s:%s' % (a, b)), ('$A:$A', '$%s:$%s' % (a, b)), ('a:a', '%s:%s' % (a.lower(), b.lower())),
                ('$a:A', '$%s:%s' % (a.lower(), b))]
        if c1 != hc and c2 != hc:
            out.append(('C[]:C[]', 'C[%+d]:C[%d]' % (c1 - hc, c2 - hc)))
    elif whole_row:
        out += [('1:1', '%d:%d' % (r1, r2)), ('$1:$1', '$%d:$%d' % (r1, r2)), ('$1:1', '$%d:%d' % (r1, r2))]
        if r1 != hr and r2 != hr:
            out.append(('R[]:R[]', 'R[%d]:R[%+d]' % (r1 - hr, r2 - hr)))
    else:
        a, b = L(c1), L(c2)
        if (r1, c1) == (r2, c2):
            out += [('A1', '%s%d' % (a, r1)), ('$A$1', '$%s$%d' % (a, r1)), ('a1', '%s%d' % (a.lower(), r1)),
                    ('A$1', '%s$%d' % (a, r1)), ('$A1', '$%s%d' % (a, r1)),
                    ('A1:A1', '%s%d:%s%d' % (a, r1, a, r1)), ('a1:A1', '%s%d:%s%d' % (a.lower(), r1, a, r1)),
                    ('$A$1:A1', '$%s$%d:%s%d' % (a, r1, a, r1)),
                    ('R1C1', 'R%dC%d' % (r1, c1)), ('r1c1', 'r%dc%d' % (r1, c1)),
                    ('R1C1:R1C1', 'R%dC%d:R%dC%d' % (r1, c1, r1, c1))]
            if r1 != hr and c1 != hc:
                out.append(('R[]C[]', 'R[%d]C[%+d]' % (r1 - hr, c1 - hc)))
                out.append(('r[]c[]', 'r[%+d]c[%d]' % (r1 - hr, c1 - hc)))
        else:
            out += [('A1:B2', '%s%d:%s%d' % (a, r1, b, r2)), ('$A$1:$B$2', '$%s$%d:$%s$%d' % (a, r1, b, r2)),
                    ('a1:b2', '%s%d:%s%d' % (a.lower(), r1, b.lower(), r2)),
                    ('A$1:$B2', '%s$%d:$%s%d' % (a, r1, b, r2)),
                    ('R1C1:R2C2', 'R%dC%d:R%dC%d' % (r1, c1, r2, c2)), ('r1c1:r2c2', 'r%dc%d:r%dc%d' % (r1, c1, r2, c2))]
            if r1 != hr and c1 != hc and r2 != hr and c2 != hc:
                out.append(('R[]C[]:R[]C[]', 'R[%d]C[%d]:R[%+d]C[%+d]' % (r1 - hr, c1 - hc, r2 - hr, c2 - hc)))
    return out


def sheet_prefixes(book, sheet, directory, rnd):
    """(class, prefix text, context) — every one denotes (directory, book, sheet)"""
    q = sheet.replace("'", "''")
    plain_ok = sheet.replace('_', 'a').replace('.', 'a').isalnum() and not sheet[0].isdigit() and sheet.isascii()
    if not book:
        # no workbook in the context: the identifier is the sheet name alone, quoted when it is not a plain word
        out = [('implicit', '', {'sheet': sheet}), ("'quoted'", "'%s'!" % q, {'sheet': 'OTHER'}), ("'quoted-case'", "'%s'!" % q.swapcase(), {})]
        if plain_ok:
            out.append(('plain', '%s!' % sheet, {'sheet': 'OTHER'}))
        return out
    ctx_full = {'directory': directory, 'filename': book, 'sheet': sheet}
    out = [('implicit', '', ctx_full)]
    out.append(("'quoted'", "'%s'!" % q, {'directory': directory, 'filename': book, 'sheet': 'OTHER'}))
    out.append(("'quoted-case'", "'%s'!" % q.swapcase(), {'directory': directory, 'filename': book, 'sheet': 'OTHER'}))
    if plain_ok:
        out.append(('plain', '%s!' % sheet, {'directory': directory, 'filename': book, 'sheet': 'OTHER'}))
        out.append(('plain-case', '%s!' % sheet.swapcase(), {'directory': directory, 'filename': book}))
    d = directory + '/' if directory and not directory.endswith('/') else directory
    out.append(("'[book]sheet'", "'%s[%s]%s'!" % (d, book, q), {'directory': directory, 'filename': 'x.xlsx', 'sheet': 'OTHER'}))
    out.append(("'[book]sheet-case'", "'%s[%s]%s'!" % (d, book, q.swapcase()), {'directory': directory}))
    return out


def check(run):
    setup()
    rnd = run.rng
    quick = run.tier == 'quick'
    req, pend = [], []

    def ask(line, h):
        req.append(line); pend.append(h)

    # ---- A. letters <-> numbers, all columns -------------------------------------------------
    for n in list(range(1, MAXCOL + 1)) + [rnd.randint(MAXCOL + 1, 10 ** 7) for _ in range(200)]:
        s = _index2col(n)
        back = _col2index(s)
        lower = _col2index(s.lower())
        run.count(1, ('col', n), n > 1, 'column')
        if back != n or lower != n:
            run.violation('column letters do not convert back to the column number',
                          {'op': 'col', 'n': n, 'letters': s, 'back': back, 'lower': lower})
        ask('col %d' % n, lambda m, n=n, s=s: dec(m) == s or run.disagree(
            'index2col: model %r, implementation %r' % (dec(m), s), {'op': 'col', 'n': n}))
        ask('colidx %s' % enc(s.lower()), lambda m, n=n, s=s, lower=lower: int(m) == lower or run.disagree(
            'col2index: model %s, implementation %r' % (m, lower), {'op': 'colidx', 's': s}))
    seen_letters = {}
    for n in range(1, MAXCOL + 1):
        s = _index2col(n)
        if s in seen_letters:
            run.violation('two column numbers share letters', {'op': 'col', 'n': n, 'other': seen_letters[s], 'letters': s})
        seen_letters[s] = n

    # ---- B. rectangles x spellings x sheets ------------------------------------------------------
    sheets_pool = [('book.xlsx', 'Sheet1', ''), ('book.xlsx', 'Sheet2', ''), ('Other Book.xlsx', 'Sheet1', ''),
                   ('book.xlsx', 'My Sheet', ''), ('book.xlsx', 'data_2.x', ''), ('b.xlsx', 'S', 'sub/dir'),
                   ('book.xlsx', 'Été', ''), ('book.xlsx', "It's", ''), ('book.xlsx', 'a-b (c)', ''),
                   # workbook names that begin with digits (a bare number is a link index, these are file names)
                   ('2024.xlsx', 'Sheet1', 'dirA'), ('2024.xlsx', 'Sheet1', 'dirB'), ('1q.xlsx', 'S', ''), ('3 d.xlsx', 'Sheet1', ''),
                   # no workbook at all: only the sheet name stands in the identifier
                   ('', 'Sheet1', ''), ('', 'A-B', ''), ('', '1st', ''), ('', 'A(1)', ''), ('', 'data_2.x', ''), ('', 'My Sheet', ''), ('', 'A+B', '')]
    rects = []
    rows_pool = [1, 2, 9, 10, 99, 100, 1000, 65536, MAXROW - 1]

    def rr():
        r1 = rnd.choice(rows_pool + [rnd.randint(1, MAXROW - 1)]); r2 = rnd.choice([r1, r1, min(MAXROW - 1, r1 + rnd.randint(1, 50))])
        return r1, r2

    def cc():
        c1 = rnd.choice([1, 2, 26, 27, 52, 53, 702, 703, MAXCOL - 1, rnd.randint(1, MAXCOL - 1)])
        c2 = rnd.choice([c1, c1, min(MAXCOL - 1, c1 + rnd.randint(1, 30))])
        return c1, c2
    # one cell per column (all columns)
    step = 1
    for c in range(1, MAXCOL, step):
        rects.append(('cell', (0, rnd.choice(rows_pool), None, c, c)))
    rects = [(k, (s, r1, r1, c1, c2)) for k, (s, r1, _, c1, c2) in rects]
    n_rand = 1500 if quick else 20000
    for _ in range(n_rand):
        kind = rnd.choice(['cell', 'rect', 'rect', 'cols', 'rows', 'edge'])
        if kind == 'cell':
            r1, _ = rr(); c1, _ = cc(); rects.append((kind, (0, r1, r1, c1, c1)))
        elif kind == 'rect':
            r1, r2 = rr(); c1, c2 = cc()
            if (r1, c1) != (r2, c2):
                rects.append((kind, (0, r1, r2, c1, c2)))
        elif kind == 'cols':
            c1, c2 = cc(); rects.append((kind, (0, 0, MAXROW, c1, c2)))
        elif kind == 'rows':
            r1, r2 = rr(); rects.append((kind, (0, r1, r2, 0, MAXCOL)))
        else:   # touching the last row / column: known-finding class
            r1, r2 = rr(); c1, c2 = cc()
            rects.append((kind, rnd.choice([(0, r1, r2, c1, MAXCOL), (0, r1, MAXROW, c1, c2), (0, MAXROW, MAXROW, c1, c1),
                                            (0, r1, r1, MAXCOL, MAXCOL), (0, MAXROW, MAXROW, MAXCOL, MAXCOL)])))
    ids = {}        # canonical name -> (dir, book.upper?, sheet.upper, rect)
    n_formula = 0
    for idx, (kind, rect) in enumerate(rects):
        s_, r1, r2, c1, c2 = rect
        book, sheet, directory = sheets_pool[0] if idx % 3 else rnd.choice(sheets_pool)
        host = (rnd.randint(1, 50), rnd.randint(1, 50))
        key = (directory, book, sheet.upper(), rect[1:])
        names = collections.OrderedDict()
        prefixes = sheet_prefixes(book, sheet, directory, rnd)
        sp = spellings(rect, host, rnd)
        if idx % 3:   # most rectangles: every spelling with one or two prefixes
            prefixes = [prefixes[0], rnd.choice(prefixes)]
        for form, text in sp:
            for pclass, prefix, ctx in prefixes:
                if form.startswith(('R[', 'r[', 'C[')) and prefix:
                    continue        # relative forms carry no sheet prefix in the grammar
                ctx = dict(ctx, cr=str(host[0]), cc=host[1])
                full = prefix + text
                case = {'op': 'name', 'rect': list(rect), 'kind': kind, 'form': form, 'prefix': pclass, 'text': full,
                        'sheet': sheet, 'book': book, 'dir': directory, 'host': list(host)}
                run.count(1, (form, pclass, kind, rect), rect[1:] != (1, 1, 1, 1), kind + '/' + form.replace(':', '..'))
                try:
                    n1 = Range(full, ctx).name
                    n2 = Ranges().push(full, context=ctx).ranges[0]['name']
                except Exception as ex:
                    run.violation('spelling not resolved: %s' % type(ex).__name__, case)
                    continue
                if n1 != n2:
                    run.violation('Range(...).name %r differs from Ranges().push(...) %r' % (n1, n2), case)
                names.setdefault(n1, case)
                if idx < 2 and len(run.samples) < 8:
                    run.sample(dict(case, name=n1))
        if len(names) > 1:
            (na, ca), (nb, cb) = list(names.items())[:2]
            run.violation('two spellings of one rectangle get different identifiers: %r (%s) vs %r (%s)'
                          % (na, ca['text'], nb, cb['text']), dict(ca, other=cb['text'], names=[na, nb]))
        for name, case in names.items():
            other = ids.get(name)
            if other is not None and other != key:
                run.violation('two different rectangles/sheets share the identifier %r' % name,
                              dict(case, other_key=repr(other), rect2=list(other[3])))
            ids.setdefault(name, key)
            # read back
            try:
                back = Ranges().push(name).ranges[0]
                bn = back['name']
                parts = (int(back['r1']), int(back['r2']), int(back['n1']), int(back['n2']))
            except Exception as ex:
                bn, parts = 'EXC ' + type(ex).__name__, None
            if bn != name or parts != tuple(rect[1:]):
                run.violation('read back of the identifier %r gives %r %r' % (name, bn, parts), dict(case, name=name))
            # model: reference part and sheet id
            refpart = name.rsplit('!', 1)[-1]
            ask('refname %d %d %s' % (MAXROW, MAXCOL, ','.join(map(str, rect))) if not (rect[1] == rect[2] and rect[3] == rect[4])
                else 'cellname %d %d %d %d' % (MAXROW, MAXCOL, rect[1], rect[3]),
                lambda m, refpart=refpart, case=case: dec(m) == refpart or run.disagree(
                    'name: model %r, implementation %r' % (dec(m), refpart), case))
            if sheet.isascii():
                sid = name.rsplit('!', 1)[0]
                ask('sheetid %s %s %s' % (enc(sheet), enc(directory), enc(book)),
                    lambda m, sid=sid, case=case: dec(m) == sid or run.disagree(
                        'sheet id: model %r, implementation %r' % (dec(m), sid), case))
            if kind != 'edge':
                ask('readback %d %d %s' % (MAXROW, MAXCOL, enc(refpart)),
                    lambda m, rect=rect, case=case: m == ','.join(map(str, rect[1:])) or run.disagree(
                        'readBack: model %s, rectangle %r' % (m, rect[1:]), case))
        # inputs mapping of a compiled formula (slow: a sample)
        if idx % 40 == 0 and names and kind != 'edge':
            name = list(names)[0]
            form, text = sp[0]
            ctx = {'directory': directory, 'filename': book, 'sheet': sheet, 'cr': str(host[0]), 'cc': host[1]}
            n_formula += 1
            run.count(1, ('formula-input', rect), True, 'formula-input')
            try:
                keys = list(Parser().ast('=' + text, context=ctx)[1].compile().inputs)
            except Exception as ex:
                keys = ['EXC ' + type(ex).__name__]
            if keys != [name]:
                run.violation('inputs mapping of the compiled formula =%s is %r, expected [%r]' % (text, keys, name),
                              {'op': 'formula-input', 'rect': list(rect), 'text': text, 'sheet': sheet})

    # ---- C. witnesses of the known findings, replayed every run ---------------------------------
    w = [Ranges().push(t).ranges[0]['name'] for t in ('XFD:XFD', '1048576:1048576')]
    run.replay_witness('last-row-or-column-name', w[0] == w[1], {'witness': 'XFD:XFD and 1048576:1048576', 'names': w})
    try:
        nm = Ranges().push("'It''s'!B5").ranges[0]['name']
        back = Ranges().push(nm).ranges[0]['name']
        ok = back == nm
    except Exception:
        ok = False
    run.replay_witness('sheet-name-with-quote', not ok, {'witness': "'It''s'!B5"})

    answers = model(req)
    for m, h in zip(answers, pend):
        h(m)
    run.extra['model_requests'] = len(req)
    run.extra['identifiers_seen'] = len(ids)
    return None


def replay(payload):
    common.import_repo(); setup()
    case = payload.get('case') or (payload.get('correspondence') or [None])[0]
    print(json.dumps(case, indent=1, default=str))
    if not case:
        print('nothing to replay: broken theorems:', payload.get('broken_theorems_or_audit')); return 0
    if case.get('text') is not None:
        ctx = {'directory': case.get('dir', ''), 'filename': case.get('book', ''), 'sheet': case.get('sheet', '')}
        if case.get('host'):
            ctx.update(cr=str(case['host'][0]), cc=case['host'][1])
        try:
            print('implementation name:', Range(case['text'], ctx).name)
        except Exception as ex:
            print('implementation raised', type(ex).__name__)
        if case.get('other'):
            print('other spelling     :', Range(case['other'], ctx).name)
    if case.get('rect'):
        r = case['rect']
        print('model refname:', dec(model(['refname %d %d %s' % (MAXROW, MAXCOL, ','.join(map(str, r)))])[0]))
    print('failed predicate:', case.get('what'))
    return 0
