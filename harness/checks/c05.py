"""C05 — array evaluation is the scalar rule lifted element-wise and fitted.

(1) array formulas in workbooks: an operator or a modelled element-wise function (IF, IFS, IFERROR,
    IFNA, ABS, NOT, ISERROR, unary -, %) applied to arguments of every shape class (scalar, 1xn, mx1, mxn;
    literals, ranges over constants of every kind, array constants), stored into every destination shape;
    each destination cell against the Lean model (mapN / map2 + fit).
(2) every element-wise library function on arrays vs the same function on the picked scalars
    (position by position, the implementation's own scalar result is the oracle).
(3) few vs many arguments: CONCATENATE / IFS / SWITCH with 1..40 arguments padded with arguments
    that cannot change the result; shapes scalar, row, column, matrix; error elements.
(4) fitting: Ranges().push(ref, value).value for ALL source shapes <= 4x4 x destination shapes <= 4x4,
    plain ndarray and Array, against the Lean `fit` and against the rule the property states.
"""
import json, itertools
import numpy as np
import common
from common import Run, model
import bookgen, bookrun
from bookgen import WB, Err, BLANK, wire_val

RULE = ('(1) 1 operator/function x argument shapes from {1x1,1xn,mx1,mxn} (m,n<=4, literal / range / array constant) x '
        'destination shapes <=4x4, elements of every kind; (2) ~70 element-wise library functions x shape combinations x '
        'element kinds; (3) argument counts {1,2,3,31,32,33,40}; (4) all 256 source x destination shape pairs for ndarray '
        'and Array. Non-trivial = at least one argument is not a scalar or the destination is not 1x1; distinct = distinct '
        'formula+shapes / call signatures.')

NA = 'x#N/A'


def fit_sizeeq(case):
    """equal element counts, different shapes: the value is refilled row-major (np.reshape)"""
    s, d = case.get('src_shape'), case.get('dst_shape')
    return bool(s and d and s[0] * s[1] == d[0] * d[1] and tuple(s) != tuple(d))


SIGNATURES = {'fit_sizeeq': fit_sizeeq}


def new_run():
    return Run('C05', RULE, SIGNATURES)


def gen_elem(rnd, kinds='nnnnnntbe_'):
    k = rnd.choice(kinds)
    if k == 'n':
        return rnd.choice([0, 1, 2, 3, -1, -2.5, 0.5, 4, 10, 100, 7])
    if k == 't':
        return rnd.choice(['a', 'bc', 'X', '5', 'abc'])
    if k == 'b':
        return rnd.choice([True, False])
    if k == 'e':
        return Err(rnd.choice(['#N/A', '#DIV/0!', '#VALUE!', '#REF!']))
    return BLANK


SHAPES = [(1, 1), (1, 2), (1, 3), (1, 4), (2, 1), (3, 1), (4, 1), (2, 2), (2, 3), (3, 2), (3, 3), (4, 4), (2, 4), (4, 2), (3, 4)]


def spec_fit(src, R, C):
    """the rule of the property on a wire array"""
    r, c = len(src), len(src[0])
    out = []
    for i in range(R):
        row = []
        for j in range(C):
            if (r == 1 or i < r) and (c == 1 or j < c):
                row.append(src[0 if r == 1 else i][0 if c == 1 else j])
            else:
                row.append(NA)
        out.append(row)
    return out


# ------------------------------------------------------------------------------------------------------------------
def part1(run):
    """array formulas through the workbook path"""
    rnd = run.rng
    quick = run.tier == 'quick'
    req, pend = [], []
    n = 260 if quick else 8000
    BIN = ['+', '-', '*', '/', '^', '&', '=', '<>', '<', '>', '<=', '>=']
    for k in range(n):
        wb = WB()
        wb.sheets.append(('b1.xlsx', 'S1'))
        # two 4x4 blocks of constants: A1:D4 and A6:D9
        for r0 in (1, 6):
            for i in range(4):
                for j in range(4):
                    v = gen_elem(rnd)
                    if v is not BLANK:
                        wb.cells[(0, r0 + i, 1 + j)] = ('v', v)

        def arg(shape=None):
            shape = shape or rnd.choice(SHAPES)
            m, nn = shape
            kind = rnd.random()
            if (m, nn) == (1, 1) and kind < 0.4:
                v = gen_elem(rnd, 'nnnntbe')
                return ('lit', v), (1, 1)
            if kind < 0.75:
                r0 = rnd.choice([1, 6]) + rnd.randint(0, 4 - m)
                c0 = 1 + rnd.randint(0, 4 - nn)
                return ('ref', (0, r0, r0 + m - 1, c0, c0 + nn - 1)), shape
            rows = [[gen_elem(rnd, 'nnnntbe') for _ in range(nn)] for _ in range(m)]
            return ('arr', rows), shape

        f = rnd.choice(['bin'] * 6 + ['un', 'IF', 'IF', 'IFS', 'IFERROR', 'IFNA', 'ABS', 'NOT', 'ISERROR', 'twice', 'twice'])
        compatible = True      # incompatible shapes raise BroadcastError out of calculate(): outside this property (part 2 checks the raise)
        base = rnd.choice(SHAPES)

        def compat_shape():
            if not compatible:
                return rnd.choice(SHAPES)
            m, nn = base
            return rnd.choice([(1, 1), (1, nn), (m, 1), (m, nn), (m, nn)])
        if f == 'twice':
            # one range read by two operators that take a blank differently (0, "", or by the partner's type): each reads
            # the cells as they are, not as the other has prepared them
            m, nn = base
            r0 = rnd.choice([1, 6]) + rnd.randint(0, 4 - m); c0 = 1 + rnd.randint(0, 4 - nn)
            a = ('ref', (0, r0, r0 + m - 1, c0, c0 + nn - 1))
            o1, o2 = rnd.sample(['+', '&', '=', '*', '<>', '&', '+'], 2)
            inner = ('bin', o2, a, ('lit', rnd.choice([0, 1, '', 'x'])))
            e = rnd.choice([('bin', o1, a, inner), ('bin', o1, inner, a),
                            ('call', 'IF', [('bin', '=', a, ('lit', '')), ('lit', 'blank'), ('bin', '*', a, ('lit', 2))]),
                            ('call', 'IF', [('bin', '>', ('bin', '+', a, ('lit', 0)), ('lit', 0)), ('bin', '&', a, ('lit', '!')), ('bin', '=', a, ('lit', ''))])])
            shapes = [base, base]
        elif f == 'bin':
            a, s1 = arg(compat_shape()); b, s2 = arg(compat_shape())
            e = ('bin', rnd.choice(BIN), a, b); shapes = [s1, s2]
        elif f == 'un':
            a, s1 = arg(compat_shape())
            e = ('un', rnd.choice(['-', '%', '+']), a); shapes = [s1]
        elif f in ('ABS', 'NOT', 'ISERROR'):
            a, s1 = arg(compat_shape())
            e = ('call', f, [a]); shapes = [s1]
        elif f == 'IF':
            args = [arg(compat_shape()) for _ in range(rnd.choice([2, 3, 3]))]
            e = ('call', 'IF', [x for x, _ in args]); shapes = [s for _, s in args]
        elif f == 'IFS':
            args = [arg(compat_shape()) for _ in range(rnd.choice([2, 4, 4, 6]))]
            e = ('call', 'IFS', [x for x, _ in args]); shapes = [s for _, s in args]
        else:
            args = [arg(compat_shape()) for _ in range(2)]
            e = ('call', f, [x for x, _ in args]); shapes = [s for _, s in args]
        R, C = rnd.choice(SHAPES + [base, base, base])
        dest = (0, 12, 1)
        wb.cells[dest] = ('a', R, C, e) if (R, C) != (1, 1) or rnd.random() < 0.5 else ('f', e)
        d = wb.to_dict()
        case = {'formula': d[wb.key(0, 12, 1, R, C) if wb.cells[dest][0] == 'a' else wb.key(0, 12, 1)], 'arg_shapes': shapes,
                'destination': [R, C], 'workbook': {kk: (str(v) if isinstance(v, Err) else v) for kk, v in d.items()}}
        run.count(1, (case['formula'], tuple(shapes), R, C), any(s != (1, 1) for s in shapes) or (R, C) != (1, 1),
                  'formula/%s' % (f if f != 'bin' else 'operator'))
        try:
            m = bookrun.ExcelModel().from_dict(d)
            sol = m.calculate()
        except Exception as ex:
            run.violation('calculating the array formula raised %s: %s' % (type(ex).__name__, str(ex)[:100]), case)
            continue
        vals = bookrun.solution_values(wb, sol)
        q = [(0, 12 + i, 1 + j) for i in range(R) for j in range(C)]
        req.append(wb.to_wire(q))
        pend.append((wb, q, vals, case))
        if k < 2:
            run.sample({'formula': case['formula'], 'destination': [R, C], 'values': [bookrun.show(vals.get(a)) for a in q]})
    answers = model(req)
    for ans, (wb, q, vals, case) in zip(answers, pend):
        for a, mv in zip(q, ans.split(' ')):
            if vals.get(a) != mv:
                run.disagree('cell %s: model %s, implementation %s' % (wb.key(*a), bookrun.show(mv), bookrun.show(vals.get(a))),
                             dict(case, cell=wb.key(*a)))
                break
    run.extra['array_formula_requests'] = len(req)


# ------------------------------------------------------------------------------------------------------------------
UNARY_NUM = ['ABS', 'ACOS', 'ACOSH', 'ACOT', 'ACOTH', 'ASIN', 'ASINH', 'ATAN', 'ATANH', 'COS', 'COSH', '_XLFN.COT', '_XLFN.CSC',
             '_XLFN.SEC', 'DEGREES', 'EVEN', 'EXP', 'FACT', 'INT', 'LOG10', 'LN', 'ODD', 'RADIANS', 'SIGN', 'SIN', 'SINH', 'SQRT',
             'TAN', 'TANH', 'NOT', 'DAY', 'MONTH', 'YEAR', 'HOUR', 'MINUTE', 'SECOND', 'ISOWEEKNUM', 'CHAR', 'ROMAN']
BINARY_NUM = ['ATAN2', 'POWER', 'MOD', 'ROUND', 'ROUNDUP', 'ROUNDDOWN', 'TRUNC', 'LOG', 'CEILING', 'FLOOR', 'WEEKDAY']
TERNARY_NUM = ['DATE', 'TIME']
UNARY_TEXT = ['LEN', 'LOWER', 'UPPER', 'TRIM', 'CODE', 'VALUE', 'ARABIC']
TEXT_NUM = ['LEFT', 'RIGHT']


def to_np(rows):
    a = np.empty((len(rows), len(rows[0])), object)
    for i, r in enumerate(rows):
        for j, v in enumerate(r):
            a[i, j] = bookrun.to_impl_value(v)
    return a


def pick(a, i, j):
    if not isinstance(a, np.ndarray):
        return a
    m, n = a.shape
    return a[0 if m == 1 else i, 0 if n == 1 else j]


def wires(res):
    a = np.asarray(res, object)
    if a.ndim == 0:
        a = a.reshape(1, 1)
    if a.ndim == 1:
        return 'one-dimensional result of length %d' % a.shape[0]
    return [[bookrun.wire_impl(x) for x in row] for row in a.tolist()]


def part2(run):
    from formulas.functions import get_functions
    from formulas.errors import BroadcastError
    F = get_functions()
    rnd = run.rng
    quick = run.tier == 'quick'
    table = ([(f, 1, 'n') for f in UNARY_NUM] + [(f, 2, 'n') for f in BINARY_NUM] + [(f, 3, 'n') for f in TERNARY_NUM] +
             [(f, 1, 't') for f in UNARY_TEXT] + [(f, 2, 'tn') for f in TEXT_NUM] +
             [('MID', 3, 'tnn'), ('FIND', 2, 'tt'), ('SEARCH', 2, 'tt'), ('SUBSTITUTE', 3, 'ttt'), ('REPLACE', 4, 'tnnt'),
              ('CONCATENATE', 3, 'ttt'), ('IF', 3, 'bnn'), ('IFERROR', 2, 'nn'), ('IFNA', 2, 'nn'), ('IFS', 4, 'bnbn'),
              ('SWITCH', 4, 'nntn'), ('DECIMAL', 2, 'tn')])
    table = [t for t in table if t[0] in F]
    missing = 0

    def elem(kind):
        r = rnd.random()
        if r < 0.12:
            return Err(rnd.choice(['#N/A', '#DIV/0!', '#VALUE!']))
        if r < 0.18:
            return BLANK
        if kind == 'n':
            return rnd.choice([0, 1, 2, 3, -1, 0.5, 2.5, 10, 45, 1000, 36526, -3]) if r < 0.9 else rnd.choice(['a', True])
        if kind == 't':
            return rnd.choice(['abc', 'A b', ' x ', '12', 'MCM', 'hello world', '']) if r < 0.9 else rnd.choice([5, True])
        return rnd.choice([True, False, 1, 0])
    reps = 6 if quick else 120
    for name, nargs, kinds in table:
        kinds = (kinds * nargs)[:nargs]
        f = F[name]
        f = f['function'] if isinstance(f, dict) else f
        for rep in range(reps):
            base = rnd.choice(SHAPES)
            m, n = base
            compatible = rnd.random() < 0.9
            shapes = [rnd.choice([(1, 1), (1, n), (m, 1), (m, n)]) if compatible else rnd.choice(SHAPES) for _ in range(nargs)]
            args, shown = [], []
            for (am, an), kd in zip(shapes, kinds):
                rows = [[elem(kd) for _ in range(an)] for _ in range(am)]
                if (am, an) == (1, 1) and rnd.random() < 0.5:
                    args.append(bookrun.to_impl_value(rows[0][0]))
                else:
                    args.append(to_np(rows))
                shown.append([[bookgen.wire_val(v) for v in r] for r in rows])
            case = {'function': name, 'args': shown, 'shapes': shapes}
            run.count(1, (name, json.dumps(shown)), any(s != (1, 1) for s in shapes), 'function/' + name)
            try:
                R = max(s[0] for s in shapes); C = max(s[1] for s in shapes)
                ok = all(s[0] in (1, R) and s[1] in (1, C) for s in shapes)
                try:
                    res = f(*args)
                except BroadcastError:
                    if ok:
                        run.violation('%s raises BroadcastError on compatible shapes %s' % (name, shapes), case)
                    continue
                if not ok:
                    run.violation('%s accepts incompatible shapes %s' % (name, shapes), case)
                    continue
                got = wires(res)
                all_scalar = all(not isinstance(a, np.ndarray) for a in args)
                want = [[None] * C for _ in range(R)]
                for i in range(R):
                    for j in range(C):
                        w = wires(f(*[pick(a, i, j) for a in args]))
                        want[i][j] = w[0][0] if isinstance(w, list) else w
                if got != want:
                    run.violation('%s on arrays differs from the scalar results position by position: %s vs %s' % (name, got, want), case)
            except Exception as ex:
                run.violation('%s raised %s: %s' % (name, type(ex).__name__, str(ex)[:100]), case)
    run.extra['functions_checked'] = len(table)


# ------------------------------------------------------------------------------------------------------------------
def part3(run):
    from formulas.functions import get_functions
    F = get_functions()
    rnd = run.rng
    quick = run.tier == 'quick'
    counts = [1, 2, 3, 31, 32, 33, 40]
    for rep in range(12 if quick else 300):
        m, n = rnd.choice(SHAPES)
        for name in ('CONCATENATE', 'IFS', 'SWITCH'):
            f = F[name]
            f = f['function'] if isinstance(f, dict) else f

            def arr(kd):
                shape = rnd.choice([(1, 1), (1, n), (m, 1), (m, n)])
                rows = [[(rnd.choice(['p', 'q', 'rs', 7, True]) if kd == 't' else rnd.choice([1, 2, 3, True, False, 0]))
                         if rnd.random() < 0.85 else Err(rnd.choice(['#N/A', '#DIV/0!'])) for _ in range(shape[1])] for _ in range(shape[0])]
                return to_np(rows) if shape != (1, 1) or rnd.random() < 0.5 else bookrun.to_impl_value(rows[0][0]), rows
            if name == 'CONCATENATE':
                core = [arr('t') for _ in range(rnd.randint(1, 3))]
                pad = lambda k: [''] * k
                build = lambda k: [a for a, _ in core] + pad(k)
            elif name == 'IFS':
                core = [arr('b'), arr('t')]
                build = lambda k: [False, 'never'] * (k // 2) + [a for a, _ in core]
            else:
                core = [arr('b'), arr('b'), arr('t')]
                build = lambda k: [core[0][0]] + ['no-such-case', 'never'] * (k // 2) + [core[1][0], core[2][0]]
            base = None
            for cnt in counts:
                k = max(0, cnt - len(core))
                args = build(k)
                case = {'function': name, 'argument_count': len(args), 'core': [[[bookgen.wire_val(v) for v in r] for r in rows] for _, rows in core]}
                run.count(1, (name, len(args), json.dumps(case['core'])), True, 'many-args/%s/%s' % (name, '>=32' if len(args) >= 32 else '<32'))
                try:
                    got = wires(f(*args))
                except Exception as ex:
                    got = 'raised ' + type(ex).__name__
                if base is None:
                    base = (got, len(args))
                elif got != base[0]:
                    run.violation('%s with %d arguments gives %s, with %d arguments %s' % (name, len(args), got, base[1], base[0]), case)
                    break


# ------------------------------------------------------------------------------------------------------------------
def part4(run):
    from formulas.ranges import Ranges
    from formulas.functions import Array
    rnd = run.rng
    req, pend = [], []
    shapes = [(r, c) for r in range(1, 5) for c in range(1, 5)]
    kinds = 0
    for (sr, sc) in shapes:
        for (dr, dc) in shapes:
            for cls in ('ndarray', 'Array'):
                rows = [[(i * 10 + j + 1) if rnd.random() < 0.8 else gen_elem(rnd, 'tbe') for j in range(sc)] for i in range(sr)]
                src = [[bookgen.wire_val(v) for v in r] for r in rows]
                a = to_np(rows)
                if cls == 'Array':
                    a = a.view(Array)
                ref = 'A1:%s%d' % (bookgen.col_letters(dc), dr) if (dr, dc) != (1, 1) else 'A1'
                case = {'src_shape': [sr, sc], 'dst_shape': [dr, dc], 'class': cls, 'value': src}
                run.count(1, (sr, sc, dr, dc, cls), True, 'fit/' + cls)
                try:
                    got = wires(Ranges().push(ref, a).value)
                except Exception as ex:
                    run.violation('storing a %dx%d %s into %s raised %s' % (sr, sc, cls, ref, type(ex).__name__), case)
                    continue
                want = spec_fit(src, dr, dc)
                if got != want:
                    run.violation('a %dx%d value stored into %dx%d cells gives %s, the rule gives %s' % (sr, sc, dr, dc, got, want), case)
                req.append('fit %d %d %d %d %s' % (dr, dc, sr, sc, ' '.join(v for r in src for v in r)))
                pend.append((got, dr, dc, case))
    # a scalar
    for v in (5, 'x', True):
        got = wires(Ranges().push('A1:B3', v).value)
        if got != [[bookgen.wire_val(v)] * 2] * 3:
            run.violation('a scalar does not fill the range: %s' % got, {'value': repr(v), 'dst_shape': [3, 2]})
    answers = model(req)
    for ans, (got, dr, dc, case) in zip(answers, pend):
        flat = ans.split(' ')
        mv = [flat[i * dc:(i + 1) * dc] for i in range(dr)]
        if mv != got:
            run.disagree('fit: model %s, implementation %s' % (mv, got), case)
    run.replay_witness('fit-sizeeq', wires(Ranges().push('A1:A3', to_np([[1, 2, 3]])).value) ==
                       [[bookgen.wire_val(1)], [bookgen.wire_val(2)], [bookgen.wire_val(3)]], {'witness': '[[1,2,3]] into A1:A3'})
    run.extra['fit_pairs'] = len(req)
    run.exhaustive = 'part 4 enumerates every source shape x destination shape with sides 1..4 for both array classes'


def check(run):
    bookrun.setup()
    part1(run)
    part2(run)
    part3(run)
    part4(run)
    run.extra['trusted_base'] = ['numpy (np.vectorize, broadcasting, reshape) is external: mapN / fit model its observable rule',
                                 'part 2 uses the implementation\'s own scalar result as the oracle (no model of those functions)']
    return None


def replay(payload):
    common.import_repo(); bookrun.setup()
    case = payload.get('case') or (payload.get('correspondence') or [None])[0]
    print(json.dumps(case, indent=1, default=str)[:4000])
    if not case:
        print('nothing to replay: broken theorems:', payload.get('broken_theorems_or_audit')); return 0
    if 'workbook' in case:
        m = bookrun.ExcelModel().from_dict(case['workbook'])
        sol = m.calculate()
        for k in case['workbook']:
            if str(case['workbook'][k]).startswith('='):
                print(k, np.asarray(sol[k].value, object).tolist())
    print('failed predicate:', case.get('what'))
    return 0
