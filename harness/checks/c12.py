"""C12 — the core function library matches its Excel definitions.

Every listed function is evaluated through a compiled formula (`Parser().ast('=F(...)')[1].compile()`),
with arguments typed directly into the formula or supplied as ranges, and compared with the Lean
reference definitions `XL.Model.Fn` (driver command `fn`).  Numbers are compared exactly except for the
transcendental kernels and the variance family (relative tolerance 1e-12), which the model takes as
parameters.
"""
import json, math, struct
import numpy as np
import common
from common import Run, model
import bookgen, bookrun
from bookgen import Err, BLANK, wire_val

RULE = ('per function: argument tuples over numbers (integers, halves, decimals such as 1.15 2.675 1.005 0.3, negatives), '
        'numeric text, other text, logicals, blanks, errors; each argument typed directly or supplied as a range (1x1, 1xn, '
        'nx1, mxn); optional arguments present or absent. Non-trivial = some argument is a range or not a plain number; '
        'distinct = distinct (function, arguments).')

TOL = {'SQRT', 'EXP', 'LN', 'LOG10', 'LOG', 'SIN', 'COS', 'TAN', 'ASIN', 'ACOS', 'ATAN', 'ATAN2', 'SINH', 'COSH', 'TANH', 'ASINH',
       'ACOSH', 'ATANH', 'VAR', 'VAR.S', 'VARP', 'VAR.P', 'STDEV', 'STDEV.S', 'STDEVP', 'STDEV.P', 'MOD', 'POWER', 'AVERAGE',
       'SUM', 'SUMSQ', 'PRODUCT', 'MEDIAN'}


def value_text_forms(case):
    """VALUE of a text that Excel reads as a number through a format (thousands separator, %, currency)"""
    return case.get('function') == 'VALUE' and case.get('class') == 'formatted-number'


def logical_text_literal(case):
    """AND / OR / XOR with a text typed directly"""
    return case.get('function') in ('AND', 'OR', 'XOR') and case.get('class') == 'text-literal'


def count_literals(case):
    return case.get('function') in ('COUNT', 'COUNTA') and case.get('class') in ('text-literal', 'error-literal')


def numeric_text_in_range(case):
    """an aggregation over a referenced array that holds text which looks like a number: the implementation converts
    the text, and that is the whole difference (the definition evaluated on the converted array agrees with it)"""
    return case.get('function') in AGG and bool(case.get('numeric_text_in_range')) and bool(case.get('agrees_when_text_is_converted'))


SIGNATURES = {'value_text_forms': value_text_forms, 'logical_text_literal': logical_text_literal, 'count_literals': count_literals,
              'numeric_text_in_range': numeric_text_in_range}


def new_run():
    return Run('C12', RULE, SIGNATURES)


def lit(v):
    if isinstance(v, bool):
        return 'TRUE' if v else 'FALSE'
    if isinstance(v, Err):
        return str(v)
    if isinstance(v, str):
        return '"%s"' % v.replace('"', '""')
    f = float(v)
    r = repr(abs(f))
    if 'e' in r:
        m, e = r.split('e'); r = '%sE%+d' % (m, int(e))
    r = r[:-2] if r.endswith('.0') else r
    return r if f >= 0 and not (f == 0 and math.copysign(1, f) < 0) else '-' + r


NUMS = [0, 1, 2, 3, -1, -2, 0.5, 1.5, 2.5, -2.5, 1.15, 2.675, 1.005, 0.3, 0.1, 7, 10, 12.345, 100, 1234.5678, -0.7, 4, 9, 0.25, 45, -3.7]
TEXTS = ['a', 'abc', 'Hello World', ' padded  text ', 'aXbXc', 'b', 'B', 'xyz', '', 'a*b', 'Ab?c', 'ABCabc']
NUMTEXT = ['5', '2.5', '-3', '10', '0']


def gen_val(rnd, kinds):
    k = rnd.choice(kinds)
    if k == 'n':
        return rnd.choice(NUMS)
    if k == 'i':
        return rnd.choice([0, 1, 2, 3, 4, 5, -1, 7, 10])
    if k == 't':
        return rnd.choice(TEXTS)
    if k == 's':
        return rnd.choice(NUMTEXT)
    if k == 'b':
        return rnd.choice([True, False])
    if k == 'e':
        return Err(rnd.choice(['#N/A', '#DIV/0!', '#VALUE!', '#NUM!']))
    return BLANK


class Arg:
    """one argument: scalar typed directly (`direct=True`) or a range"""

    def __init__(self, rows, direct):
        self.rows, self.direct = rows, direct

    def wire(self):
        if self.direct:
            return 's ' + wire_val(self.rows[0][0])
        return 'a %d %d %s' % (len(self.rows), len(self.rows[0]), ' '.join(wire_val(v) for r in self.rows for v in r))

    def show(self):
        return lit(self.rows[0][0]) if self.direct else [[repr(v) for v in r] for r in self.rows]


def gen_arg(rnd, kinds, shape=None, direct=None):
    if direct is None:
        direct = rnd.random() < 0.45
    if direct:
        v = gen_val(rnd, kinds.replace('_', '') or 'n')
        return Arg([[v]], True)
    m, n = shape or rnd.choice([(1, 1), (1, 3), (3, 1), (2, 2), (1, 4), (2, 3)])
    return Arg([[gen_val(rnd, kinds) for _ in range(n)] for _ in range(m)], False)


_cache = {}


def call(name, args):
    from formulas import Parser
    parts, inputs, k = [], {}, 0
    for a in args:
        if a.direct:
            parts.append(lit(a.rows[0][0]))
        else:
            m, n = len(a.rows), len(a.rows[0])
            r0 = 1 + 10 * k
            ref = 'A%d:%s%d' % (r0, bookgen.col_letters(n), r0 + m - 1) if (m, n) != (1, 1) else 'A%d' % r0
            k += 1
            arr = np.empty((m, n), object)
            for i in range(m):
                for j in range(n):
                    arr[i, j] = bookrun.to_impl_value(a.rows[i][j])
            inputs[ref] = arr
            parts.append(ref)
    formula = '=%s(%s)' % (name, ','.join(parts))
    fn = _cache.get(formula)
    if fn is None:
        fn = Parser().ast(formula)[1].compile()
        if len(_cache) < 20000:
            _cache[formula] = fn
    r = fn(*[inputs[k_] for k_ in fn.inputs]) if fn.inputs else fn()
    a = np.asarray(getattr(r, 'value', r), object)
    if a.ndim == 0:
        a = a.reshape(1, 1)
    if a.ndim == 1:
        a = a.reshape(1, -1)
    return formula, [[bookrun.wire_impl(x) for x in row] for row in a.tolist()]


def fnum(w):
    return struct.unpack('<d', struct.pack('<Q', int(w[1:], 16)))[0]


def same(name, a, b):
    if a == b:
        return True
    if a is None or b is None:
        return False
    if a[:1] == 'n' and b[:1] == 'n' and a != 'nNaN' and b != 'nNaN':
        x, y = fnum(a), fnum(b)
        if x == y:                 # +0.0 / -0.0
            return True
        if name in TOL:
            return abs(x - y) <= 1e-12 * max(1.0, abs(x), abs(y))
    return False


AGG = ['SUM', 'PRODUCT', 'SUMSQ', 'AVERAGE', 'MIN', 'MAX', 'MEDIAN', 'VAR', 'VAR.S', 'VARP', 'VAR.P', 'STDEV', 'STDEV.S', 'STDEVP', 'STDEV.P',
       'COUNT', 'COUNTA']
MATH1 = ['ABS', 'INT', 'SIGN', 'SQRT', 'EXP', 'LN', 'LOG10', 'EVEN', 'ODD', 'SIN', 'COS', 'TAN', 'ASIN', 'ACOS', 'ATAN', 'SINH', 'COSH', 'TANH',
         'ASINH', 'ACOSH', 'ATANH']
MATH2 = ['POWER', 'MOD', 'ROUND', 'ROUNDUP', 'ROUNDDOWN', 'TRUNC', 'CEILING', 'FLOOR', 'ATAN2', 'LOG']
IS = ['ISNUMBER', 'ISTEXT', 'ISNONTEXT', 'ISLOGICAL', 'ISBLANK', 'ISERROR', 'ISERR', 'ISNA']
TEXT1 = ['LEN', 'UPPER', 'LOWER', 'TRIM', 'VALUE']


def gen_call(rnd):
    """(function, [Arg], class)"""
    fam = rnd.choice(['agg', 'agg', 'math1', 'math2', 'math2', 'is', 'text', 'text', 'logic', 'kth', 'parity', 'logic2', 'sumproduct'])
    cls = fam
    if fam == 'sumproduct':
        # 1-3 referenced arrays, mostly of one shape (entries: exact numbers, numeric and other text, logicals, blanks, now and then
        # an error); sometimes a shape that does not fit (-> #VALUE!); numbers typed directly only as numbers
        shape = rnd.choice([(1, 1), (1, 3), (3, 1), (2, 2), (2, 3), (1, 4)])
        k = rnd.randint(1, 3)
        args = []
        for i in range(k):
            sh_ = shape
            if i and rnd.random() < 0.12:
                sh_ = rnd.choice([(1, 2), (3, 1), (2, 2), (1, 3)])
            kinds = rnd.choice(['iiii', 'iiiisb_', 'iiiist_', 'iiiib', 'iiiiiiie'])
            args.append(Arg([[gen_val(rnd, kinds) for _ in range(sh_[1])] for _ in range(sh_[0])], False))
        if shape == (1, 1) and rnd.random() < 0.5:
            args = [Arg([[rnd.choice([2, 3, 0.5, -1, 10])]], True) for _ in range(k)]
        return 'SUMPRODUCT', args, cls
    if fam == 'agg':
        f = rnd.choice(AGG + ['COUNTBLANK'])
        if f == 'COUNTBLANK':
            return f, [gen_arg(rnd, 'nntb__s', direct=False)], cls
        args = [gen_arg(rnd, rnd.choice(['nnnn', 'nnnnsb', 'nnntb_s', 'nnnnnne'])) for _ in range(rnd.randint(1, 3))]
        if any(a.direct and isinstance(a.rows[0][0], str) and not isinstance(a.rows[0][0], Err) and a.rows[0][0] not in NUMTEXT for a in args):
            cls = 'text-literal'
        if any(a.direct and isinstance(a.rows[0][0], Err) for a in args):
            cls = 'error-literal'
        return f, args, cls
    if fam == 'math1':
        f = rnd.choice(MATH1)
        return f, [gen_arg(rnd, rnd.choice(['nnnn', 'nnnnsbt_e']))], cls
    if fam == 'math2':
        f = rnd.choice(MATH2)
        a = gen_arg(rnd, rnd.choice(['nnnn', 'nnnnsb_e']))
        if f in ('ROUND', 'ROUNDUP', 'ROUNDDOWN', 'TRUNC'):
            b = gen_arg(rnd, 'i', shape=rnd.choice([(1, 1), None]))
        elif f in ('CEILING', 'FLOOR'):
            b = Arg([[rnd.choice([1, 2, 5, 0.1, 0.5, 0.25, 10, -1, -2, 0, 0.05, 3])]], True) if rnd.random() < 0.7 else gen_arg(rnd, 'n')
        elif f == 'LOG':
            b = Arg([[rnd.choice([2, 10, 0.5, 3, 7])]], True)
        else:
            b = gen_arg(rnd, rnd.choice(['nnnn', 'nnnib']))
        if f == 'MOD':
            # decimal fractions make n/d inexact in binary and the two float formulas differ by an ulp of the quotient:
            # only integers, halves and quarters here (DESIGN C12)
            exact = [0, 1, 2, 3, -1, -2, 0.5, 1.5, 2.5, -2.5, 7, 10, 100, 4, 9, 0.25, 45, -3, 12, 0.75]
            a = Arg([[rnd.choice(exact) for _ in r] for r in a.rows], a.direct)
            b = Arg([[rnd.choice(exact) for _ in r] for r in b.rows], b.direct)
        if not a.direct and not b.direct and (len(a.rows), len(a.rows[0])) != (len(b.rows), len(b.rows[0])):
            b = Arg([[b.rows[0][0]]], True)
        return f, [a, b], cls
    if fam == 'is':
        return rnd.choice(IS), [gen_arg(rnd, 'nstbe_')], cls
    if fam == 'parity':
        return rnd.choice(['ISODD', 'ISEVEN']), [gen_arg(rnd, 'nnnisbte_', shape=(1, 1))], cls
    if fam == 'kth':
        return rnd.choice(['LARGE', 'SMALL']), [gen_arg(rnd, rnd.choice(['nnnn', 'nnntb_']), direct=False), Arg([[rnd.randint(0, 5)]], True)], cls
    if fam == 'logic':
        f = rnd.choice(['AND', 'OR', 'XOR', 'NOT', 'IF', 'IFERROR', 'IFNA', 'SWITCH', 'IFS'])
        if f in ('AND', 'OR', 'XOR'):
            args = [gen_arg(rnd, rnd.choice(['bbbn', 'bbnt_', 'bbne'])) for _ in range(rnd.randint(1, 3))]
            if any(a.direct and isinstance(a.rows[0][0], str) and not isinstance(a.rows[0][0], Err) for a in args):
                cls = 'text-literal'
            return f, args, cls
        if f == 'NOT':
            return f, [gen_arg(rnd, 'bbnnte_')], cls
        if f == 'IF':
            return f, [gen_arg(rnd, 'bbnnte', shape=(1, 1)), gen_arg(rnd, 'nt', shape=(1, 1)), gen_arg(rnd, 'nt', shape=(1, 1))], cls
        if f in ('IFERROR', 'IFNA'):
            return f, [gen_arg(rnd, 'nntee', shape=(1, 1)), gen_arg(rnd, 'nt', shape=(1, 1))], cls
        if f == 'IFS':
            return f, [Arg([[gen_val(rnd, 'bbbne')]], True), Arg([[gen_val(rnd, 'nt')]], True), Arg([[gen_val(rnd, 'bbb')]], True), Arg([[gen_val(rnd, 'nt')]], True)], cls
        e = gen_val(rnd, 'nnttb')
        cases = []
        for _ in range(rnd.randint(1, 3)):
            c = e if rnd.random() < 0.3 else gen_val(rnd, 'nnttbe' if rnd.random() < 0.2 else 'nnttb')
            if isinstance(c, str) and not isinstance(c, Err) and rnd.random() < 0.4:
                c = c.swapcase()
            cases += [c, gen_val(rnd, 'nt')]
        if rnd.random() < 0.5:
            cases.append('dflt')
        return 'SWITCH', [Arg([[e]], True)] + [Arg([[c]], True) for c in cases], cls
    if fam == 'logic2':
        return 'SWITCH', [Arg([[gen_val(rnd, 'nb')]], True), Arg([[rnd.choice([True, 1, False, 0])]], True), Arg([['x']], True),
                          Arg([[rnd.choice([True, 1, False, 0])]], True), Arg([['y']], True)], 'logic'
    # text
    f = rnd.choice(TEXT1 + ['LEFT', 'RIGHT', 'MID', 'CONCATENATE', 'CONCAT', 'FIND', 'SEARCH', 'REPLACE', 'SUBSTITUTE', 'TEXTJOIN', 'VALUE'])
    T = lambda: gen_arg(rnd, 'tttnb', shape=(1, 1))
    N = lambda lo=0, hi=6: Arg([[rnd.randint(lo, hi)]], True)
    if f in TEXT1:
        if f == 'VALUE':
            v = rnd.choice(['12', '1.5', ' 12 ', '-5', '1e3', 'abc', '', '007', '.5', 12, 2.5, True] + ['1,000', '12%', '$12'])
            return f, [Arg([[v]], True)], ('formatted-number' if v in ('1,000', '12%', '$12') else cls)
        return f, [gen_arg(rnd, 'tttnbe')], cls
    if f in ('LEFT', 'RIGHT'):
        return f, [T()] + ([N(-1, 6)] if rnd.random() < 0.7 else []), cls
    if f == 'MID':
        return f, [T(), N(0, 6), N(-1, 6)], cls
    if f == 'CONCATENATE':
        return f, [gen_arg(rnd, 'ttnb', shape=(1, 1)) for _ in range(rnd.randint(1, 3))], cls
    if f == 'CONCAT':
        return f, [gen_arg(rnd, 'ttnb_') for _ in range(rnd.randint(1, 3))], cls
    if f in ('FIND', 'SEARCH'):
        w = rnd.choice(TEXTS)
        sub = rnd.choice([w[1:3], w[:1], 'b', 'B', 'X', '', 'zz', 'c'] + (['b*', '?c', 'a?', '~*', 'X*c'] if f == 'SEARCH' else []))
        return f, [Arg([[sub]], True), Arg([[w]], True)] + ([N(0, 7)] if rnd.random() < 0.5 else []), cls
    if f == 'REPLACE':
        return f, [T(), N(0, 7), N(-1, 5), Arg([[rnd.choice(['X', '', 'new'])]], True)], cls
    if f == 'SUBSTITUTE':
        t = rnd.choice(['aXbXc', 'aaa', 'abcabc', 'hello', ''])
        old = rnd.choice(['X', 'a', 'aa', 'bc', '', 'z'])
        return f, [Arg([[t]], True), Arg([[old]], True), Arg([[rnd.choice(['y', '', 'ZZ'])]], True)] + \
            ([N(0 if old else 1, 3)] if rnd.random() < 0.5 else []), cls
    return 'TEXTJOIN', [Arg([[rnd.choice([',', '-', '', '; '])]], True), Arg([[rnd.choice([True, False, 1, 0])]], True)] + \
        [gen_arg(rnd, 'tttn_') for _ in range(rnd.randint(1, 3))], cls


def check(run):
    bookrun.setup()
    rnd = run.rng
    quick = run.tier == 'quick'
    req, pend, alts = [], [], []
    n = 9000 if quick else 250000
    for k in range(n):
        f, args, cls = gen_call(rnd)
        case = {'function': f, 'args': [a.show() for a in args], 'direct': [a.direct for a in args], 'class': cls}
        try:
            formula, got = call(f, args)
        except Exception as ex:
            run.count(1, json.dumps(case, default=str), True, f)
            run.violation('%s raised %s: %s' % (f, type(ex).__name__, str(ex)[:100]), case)
            continue
        case['formula'] = formula
        run.count(1, json.dumps(case, default=str), any(not a.direct for a in args) or any(not isinstance(a.rows[0][0], (int, float)) for a in args), f)
        req.append('fn %s %d %s' % (f, len(args), ' '.join(a.wire() for a in args)))
        alt = None
        if f in AGG and any((not a.direct) and any(isinstance(v, str) and not isinstance(v, Err) and v in NUMTEXT for r in a.rows for v in r) for a in args):
            case['numeric_text_in_range'] = True
            conv = [a if a.direct else Arg([[float(v) if (isinstance(v, str) and not isinstance(v, Err) and v in NUMTEXT) else v for v in r] for r in a.rows], False)
                    for a in args]
            alt = 'fn %s %d %s' % (f, len(conv), ' '.join(a.wire() for a in conv))
        pend.append((f, case, got))
        alts.append(alt)
        if k < 3:
            run.sample({'formula': formula, 'result': [[bookrun.show(x) for x in r] for r in got]})
    answers = model(req)
    alt_idx = [i for i, a in enumerate(alts) if a]
    alt_ans = dict(zip(alt_idx, model([alts[i] for i in alt_idx])))
    notfn = 0
    for i_, (ans, (f, case, got)) in enumerate(zip(answers, pend)):
        if ans == 'notfn':
            notfn += 1
            run.disagree('the model has no definition for %s with %d arguments' % (f, len(case['args'])), case)
            continue
        if ans == 'broadcast':
            continue
        t = ans.split(' ')
        R, C = int(t[0]), int(t[1])
        mv = [t[2 + i * C: 2 + (i + 1) * C] for i in range(R)]
        ok = len(mv) == len(got) and all(len(a) == len(b) and all(same(f, x, y) for x, y in zip(a, b)) for a, b in zip(mv, got))
        if not ok and i_ in alt_ans and ' ' in alt_ans[i_]:
            t2 = alt_ans[i_].split(' ')
            R2, C2 = int(t2[0]), int(t2[1])
            mv2 = [t2[2 + i * C2: 2 + (i + 1) * C2] for i in range(R2)]
            case['agrees_when_text_is_converted'] = len(mv2) == len(got) and all(
                len(a) == len(b) and all(same(f, x, y) for x, y in zip(a, b)) for a, b in zip(mv2, got))
        if not ok:
            run.violation('%s: implementation %s, Excel definition (model) %s' % (
                case['formula'], [[bookrun.show(x) for x in r] for r in got], [[bookrun.show(x) for x in r] for r in mv]), case)
    # ---- known-finding witnesses ----------------------------------------------------------------------------------------------
    w = call('VALUE', [Arg([['1,000']], True)])[1][0][0]
    run.replay_witness('value-formatted-text', w != wire_val(1000.0), {'witness': '=VALUE("1,000")', 'result': w})
    w = call('XOR', [Arg([['a']], True), Arg([[True]], True)])[1][0][0]
    run.replay_witness('logical-text-literal', w == 'b1', {'witness': '=XOR("a",TRUE)', 'result': w})
    w = call('COUNT', [Arg([[1]], True), Arg([['a']], True)])[1][0][0]
    run.replay_witness('count-literals', w == 'x#VALUE!', {'witness': '=COUNT(1,"a")', 'result': w})
    w = call('SUM', [Arg([['3', 1]], False)])[1][0][0]
    run.replay_witness('numeric-text-in-range', w == wire_val(4.0), {'witness': '=SUM(A1:B1) with A1 the text "3" and B1 = 1', 'result': w})
    run.extra['model_requests'] = len(req)
    run.extra['trusted_base'] = ['the reference definitions are my reading of the Excel documentation (DESIGN §3 C12)',
                                 'transcendental kernels (libm vs numpy) agree to 1e-12 relative: assumed, compared with that tolerance',
                                 'decimal idealisation: rounding functions are defined on the shortest decimal text of the double']
    return None


def replay(payload):
    common.import_repo(); bookrun.setup()
    case = payload.get('case') or (payload.get('correspondence') or [None])[0]
    print(json.dumps(case, indent=1, default=str)[:3000])
    print('failed predicate:', case.get('what') if case else payload.get('broken_theorems_or_audit'))
    return 0
