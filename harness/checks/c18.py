"""C18 — the parser is total: it returns a formula or its syntax error, only.

Direct oracle on ALL strings: Parser().ast and is_formula return or raise FormulaError (subclasses
included); class-specific malformed inputs must be rejected; numeric literals are accepted with their
value.  Correspondence with the Lean lexer/parser on the strings of its alphabet (accept/reject and tree).
"""
import json, signal, string
import numpy as np
import common
from common import Run, model
import parsegen as G

RULE = ('token soups over the formula alphabet, random printable strings (incl. tabs, newlines, non-ASCII), '
        'single-edit mutations (delete/insert/replace/duplicate a token) of valid formulas, and constructed malformed '
        'classes (unbalanced parentheses/braces, missing operand, adjacent operands, ragged arrays, foreign characters), '
        'plus numeric literal forms. Non-trivial = at least 3 tokens; distinct = distinct strings.')

TOKENS = ['1', '2.5', '007', '.5', '1E+3', 'A1', '$B$2', 'A1:B2', 'A:B', '1:2', 'name', 'x.y', 'TRUE', 'false', '"s"', '""',
          '"a""b"', '#N/A', '#REF!', '#DIV/0!', 'SUM(', 'IF(', 'max(', '(', ')', '{', '}', ';', ',', ' ', '  ', '+', '-', '*',
          '/', '^', '&', '=', '<', '>', '<=', '>=', '<>', '%', ':', '!', '#', '$', '@', '\t', '\n', "'", '[', ']', '.', 'E',
          '1e5', '?', '\\', 'é', '“', '_', '0', '12a']


def enc(s):
    return 'u' + '.'.join(str(ord(c)) for c in s)


def dec(s):
    return ''.join(chr(int(x)) for x in s[1:].split('.')) if len(s) > 1 else ''


def newline_join(case):
    return '\n' in case.get('text', '') and case.get('class') in ('adjacent-operands', 'newline')


def operator_with_blanks(case):
    """a two-character comparison operator written with blanks inside ('> =', '< >', '< =') is accepted; with the blanks
    removed the text has no operator without a left operand"""
    import re
    t = case.get('text', '')
    if not case.get('class', '').endswith('/missing-left-operand'):
        return False
    t2 = re.sub(r'<\s+=', '<=', re.sub(r'>\s+=', '>=', re.sub(r'<\s+>', '<>', t)))
    return t2 != t and not lacks_left_operand(t2)


SIGNATURES = {'newline_join': newline_join, 'operator_with_blanks': operator_with_blanks}


def new_run():
    return Run('C18', RULE, SIGNATURES)


class Timeout(Exception):
    pass


def _alarm(*a):
    raise Timeout()


def setup():
    global Parser, FormulaError
    from formulas import Parser
    from formulas.errors import FormulaError


def parse(text):
    """('ok', expr) | ('error',) | ('escape', class) | ('timeout',)"""
    signal.signal(signal.SIGALRM, _alarm)
    signal.alarm(10)
    try:
        toks, b = Parser().ast(text)
        return ('ok', b[-1].get_expr)
    except FormulaError:
        return ('error',)
    except Timeout:
        return ('timeout',)
    except Exception as ex:
        return ('escape', type(ex).__name__)
    finally:
        signal.alarm(0)


_STRIP = None
_BINOP = None


def lacks_left_operand(text):
    """independent necessary condition of the grammar, on the text: an operator that can only be binary
    (* / ^ & = < > <= >= <>) or a % stands where no operand has ended - at the start, after an opening parenthesis or
    brace, after a separator or after another operator.  Such text is malformed whatever else it contains."""
    global _STRIP, _BINOP
    import re
    if _STRIP is None:
        _STRIP = re.compile(r'"(?:[^"]|"")*"|\'(?:[^\']|\'\')*\'')
        _BINOP = re.compile(r'<=|>=|<>|[*/^&=<>%]')
    t = text.lstrip()
    if t.startswith('{='):
        t = t[2:]
    elif t.startswith('='):
        t = t[1:]
    else:
        return False
    if '"' in _STRIP.sub('', t) or "'" in _STRIP.sub('', t):
        return False                     # an unterminated literal: rejected for that reason, not judged here
    t = _STRIP.sub('"s"', t)
    t = re.sub(r'#(?:DIV/0!|N/A|NULL!|NUM!|NAME\?|REF!|VALUE!)', 'E', t, flags=re.I)
    for m in _BINOP.finditer(t):
        before = t[:m.start()].rstrip()
        if not before or before[-1] in '({,;+-*/^&=<>:':
            return True
    return False


def brackets_mismatched(text):
    """a third necessary condition, independent of the parser: outside string literals every ')' closes a '(' and every '}' a
    '{', properly nested, and nothing stays open"""
    lacks_left_operand('=1')
    t = text.lstrip()
    if t.startswith('{=') and t.rstrip().endswith('}'):
        t = t[2:].rstrip()[:-1]
    elif t.startswith('='):
        t = t[1:]
    else:
        return False
    if '"' in _STRIP.sub('', t) or "'" in _STRIP.sub('', t):
        return False
    t = _STRIP.sub('s', t)
    stack = []
    for ch in t:
        if ch in '({':
            stack.append(ch)
        elif ch in ')}':
            if not stack or stack.pop() != {')': '(', '}': '{'}[ch]:
                return True
    return bool(stack)


def operand_after_percent(text):
    """a second necessary condition: after a percent sign comes an operator, a closing parenthesis / brace, a separator or
    the end - never the start of an operand (two operands without an operator)"""
    import re
    lacks_left_operand('=1')                      # compile the shared expressions
    t = text.lstrip()
    if t.startswith('{='):
        t = t[2:]
    elif t.startswith('='):
        t = t[1:]
    else:
        return False
    if '"' in _STRIP.sub('', t) or "'" in _STRIP.sub('', t):
        return False
    t = _STRIP.sub('"s"', t)
    return re.search(r'%\s*[A-Za-z0-9"({#.$_\\]', t) is not None


def check(run):
    setup()
    rnd = run.rng
    quick = run.tier == 'quick'
    req, pend = [], []
    seen = set()

    def one(text, cls, must_reject=False, ntok=3):
        if text in seen:
            return None
        seen.add(text)
        r = parse(text)
        case = {'text': text, 'class': cls, 'impl': list(r)}
        run.count(1, text, ntok >= 3, cls)
        if r[0] == 'escape':
            run.violation('an exception other than the formula-syntax error escapes: %s' % r[1], case)
        elif r[0] == 'timeout':
            run.violation('the parser does not terminate within 10 s', case)
        elif must_reject and r[0] == 'ok':
            run.violation('malformed input (%s) is accepted and read as %s' % (cls, r[1]), case)
        elif r[0] == 'ok' and lacks_left_operand(text):
            run.violation('malformed input (an operator without its left operand) is accepted and read as %s' % r[1], dict(case, **{'class': cls + '/missing-left-operand'}))
        elif r[0] == 'ok' and brackets_mismatched(text):
            run.violation('malformed input (parentheses / braces do not match) is accepted and read as %s' % r[1], dict(case, **{'class': cls + '/brackets'}))
        elif r[0] == 'ok' and operand_after_percent(text):
            run.violation('malformed input (an operand directly after a percent sign) is accepted and read as %s' % r[1], dict(case, **{'class': cls + '/operand-after-percent'}))
        try:
            signal.signal(signal.SIGALRM, _alarm); signal.alarm(10)
            Parser().is_formula(text)
        except Timeout:
            run.violation('is_formula does not terminate', case)
        except Exception as ex:
            run.violation('is_formula raised %s' % type(ex).__name__, case)
        finally:
            signal.alarm(0)
        got = 'ok ' + r[1] if r[0] == 'ok' else r[0]
        req.append('parse ' + enc(text))
        pend.append(lambda m, got=got, case=case: m == 'ood' or (('ok ' + dec(m[3:])) if m.startswith('ok ') else m) == got
                    or run.disagree('model %s, implementation %s' % (('ok ' + dec(m[3:])) if m.startswith('ok ') else m, got), case))
        return r

    # ---- 1. token soups -------------------------------------------------------------------------------------------
    n = 6000 if quick else 200000
    for i in range(n):
        k = rnd.randint(1, 9)
        toks = [rnd.choice(TOKENS) for _ in range(k)]
        one('=' + ''.join(toks), 'soup', ntok=k)
    # ---- 2. random printable strings -------------------------------------------------------------------------------
    alphabet = string.printable + 'éß“”€　１Ａ​\xa0'
    for i in range(2500 if quick else 100000):
        s = ''.join(rnd.choice(alphabet) for _ in range(rnd.randint(0, 14)))
        one(rnd.choice(['=', '', ' =', '{=', '=\n']) + s, 'printable', ntok=len(s))
    # ---- 3. single-edit mutations of valid formulas -----------------------------------------------------------------
    import re
    tokre = re.compile(r'"(?:[^"]|"")*"|[A-Za-z_$][A-Za-z0-9_.$:]*\(?|[0-9.]+(?:E[+-][0-9]+)?|<=|>=|<>|\s+|.', re.S)
    for i in range(1500 if quick else 40000):
        t = G.gen_tree(rnd, rnd.randint(1, 4))
        text = G.spell(t, G.Decor(rnd, extra_parens=0.2, blanks=0.3, case=0.3))
        toks = tokre.findall(text)
        if not toks:
            continue
        j = rnd.randrange(len(toks))
        kind = rnd.choice(['delete', 'insert', 'replace', 'duplicate', 'swap'])
        if kind == 'delete':
            toks = toks[:j] + toks[j + 1:]
        elif kind == 'insert':
            toks = toks[:j] + [rnd.choice(TOKENS)] + toks[j:]
        elif kind == 'replace':
            toks = toks[:j] + [rnd.choice(TOKENS)] + toks[j + 1:]
        elif kind == 'duplicate':
            toks = toks[:j] + [toks[j]] + toks[j:]
        elif j + 1 < len(toks):
            toks[j], toks[j + 1] = toks[j + 1], toks[j]
        one('=' + ''.join(toks), 'mutation-' + kind, ntok=len(toks))
    # ---- 4. constructed malformed classes: must be rejected -----------------------------------------------------------
    operands = ['1', 'A1', '"s"', 'TRUE', '#N/A', 'name', '2.5', 'A1:B2', 'SUM(1)', '(1)', '{1,2}']
    for i in range(700 if quick else 15000):
        t = G.gen_tree(rnd, rnd.randint(0, 3))
        good = G.spell(t)
        a, b = rnd.choice(operands), rnd.choice(operands)
        cls = rnd.choice(['unbalanced-open', 'unbalanced-close', 'unbalanced-brace', 'missing-operand', 'adjacent-operands',
                          'ragged-array', 'foreign-char', 'misplaced-close'])
        if cls == 'unbalanced-open':
            text = rnd.choice(['(' + good, 'SUM(' + good, good + '+(' + a, '((' + good + ')'])
        elif cls == 'unbalanced-close':
            text = rnd.choice([good + ')', '(' + good + '))', a + ')+' + b])
        elif cls == 'unbalanced-brace':
            text = rnd.choice(['{1,2', '1,2}', '{1;2', '{{1}', '{1}}', 'SUM({1,2)', 'SUM({1,2)}', '((' + a + '}', '((' + good + '}*' + b, 'SUM((' + a + ',' + b + '}',
                               '(SUM(' + a + '}', '{((' + a + '}}', 'SUM(SUM(;}', '((' + a + ';}', '{' + a + '))', 'SUM(' + a + '}'])
        elif cls == 'missing-operand':
            op = rnd.choice(G.BINOPS)
            text = rnd.choice([good + op, op.replace('-', '*').replace('+', '/') + good, '(' + good + op + ')', a + op + op.replace('-', '*').replace('+', '*') + b,
                               '()', 'SUM(' + a + op + ')', a + '*', '%' + a, 'SUM(1,%)', '(%)',
                               'SUM(' + a + ',' + op.replace('-', '*').replace('+', '/') + b + ')', 'IF(' + a + ',' + b + ',' + op.replace('-', '&').replace('+', '^') + a + ')',
                               '{' + a.replace('{1,2}', '1').replace('A1:B2', '1').replace('SUM(1)', '1').replace('(1)', '1').replace('name', '1').replace('A1', '1') + ',' + op.replace('-', '*').replace('+', '/') + '2}'])
        elif cls == 'adjacent-operands':
            if ':' in a + b or a[-1].isalnum() and b[0].isalnum() and not (a[0] == '"' or b[0] == '"'):
                sep = ''
                a, b = '"x"', rnd.choice(['1', 'A1', '"y"', 'TRUE', '#N/A', '(1)', 'SUM(1)', '{1}'])
            if a[-1] == '"' and b[0] == '"':
                b = '7'              # "x""y" is one string with a doubled quote
            if (a[-1].isalnum() or a[-1] in '_.') and b[0] == '(':
                a = '"x"'            # name(1) is a function call, not two operands
            text = rnd.choice([a + b, '(' + a + ')' + b, a + '(' + b + ')' if not a[-1].isalnum() else '"q"(' + b + ')',
                               'SUM(' + a + b + ')', '1 2', '1 "a"', '"a" "b"', '(1)(2)', '(1)2', '"a"1', '1"a"', '#N/A#N/A', '1\n2', '1\n+\n"a"\n"b"',
                               '1%' + b + '+', a + '%' + b, '1%2+', '(1)%' + b + '*'])
        elif cls == 'ragged-array':
            text = rnd.choice(['{1,2;3}', '{1;2,3}', '{1,2,3;4,5}', '{1,2;3,4;5}', 'SUM({1;2,3})', '{1,2;}', '{;1}'])
        elif cls == 'misplaced-close':
            text = rnd.choice([a + ')+(' + b, 'SUM(' + a + '))+(' + b, a + ')*(' + b + '+' + a, ')(', ')' + a + '('])
        else:
            ch = rnd.choice(['~', '`', '|', '“', '€', '§', '¤', '\x00', '\x7f'])   # `\\` and `?` are legal in names
            text = rnd.choice([good + ch, ch + good, a + ch + b, a + '+' + ch])
        r = one('=' + text, cls, must_reject=True)
    for text in ['#REF!+1', '#N/A x', '#DIV/0!)', '#NAME?1', '  #NUM! 2', '#VALUE!#VALUE!', '#N/A,#N/A']:
        r = one(text, 'error-literal-with-trailing-text', must_reject=True)
    run.sample({'class': 'adjacent-operands', 'text': '=(1)2', 'impl': list(parse('=(1)2'))})
    run.sample({'class': 'misplaced-close', 'text': '=1)+(2', 'impl': list(parse('=1)+(2'))})
    # ---- 5. numeric literals -------------------------------------------------------------------------------------------------
    lits = ['0', '7', '007', '000', '1.5', '1.50', '0.5', '.5', '00.5', '1E+3', '1E-3', '1.5E+10', '.5E-2', '007E+2', '123456789012345678',
            '1E+308', '1e+2', '0.1', '9.99', '100', '1E+0', '2.50E-01']
    for i in range(300 if quick else 5000):
        lits.append(rnd.choice(['', '0', '00']) + str(rnd.randint(0, 10 ** rnd.randint(1, 12))) + rnd.choice(['', '.' + str(rnd.randint(0, 999)).zfill(rnd.randint(1, 3))])
                    + rnd.choice(['', '', 'E+%d' % rnd.randint(0, 20), 'E-%d' % rnd.randint(0, 20)]))
    for l in lits:
        run.count(1, ('literal', l), True, 'numeric-literal')
        try:
            v = Parser().ast('=' + l)[1].compile()()
            v = v.ravel()[0] if isinstance(v, np.ndarray) else v
            ok = float(v) == float(l)
        except Exception as ex:
            v, ok = 'raised ' + type(ex).__name__, False
        if not ok:
            run.violation('numeric literal %s is not accepted with its value (got %r)' % (l, v), {'text': '=' + l, 'class': 'numeric-literal'})
    run.sample({'class': 'numeric-literal', 'text': '=007', 'impl': repr(Parser().ast('=007')[1].compile()())})

    # ---- known-finding witness ------------------------------------------------------------------------------------------------
    r = one('=1> =2', 'soup')
    run.replay_witness('operator-with-blanks', parse('=1> =2') == ('ok', '(1 >= 2)'), {'witness': '=1> =2', 'impl': list(parse('=1> =2'))})
    r = parse('=1\n2')
    run.replay_witness('newline-join', r == ('ok', '12'), {'witness': '=1\\n2', 'impl': list(r)})

    answers = model(req)
    ood = 0
    for m, h in zip(answers, pend):
        ood += m == 'ood'
        h(m)
    run.extra['model_requests'] = len(req)
    run.extra['model_out_of_domain'] = ood
    run.extra['model_in_domain'] = len(req) - ood
    return None


def replay(payload):
    common.import_repo(); setup()
    case = payload.get('case') or (payload.get('correspondence') or [None])[0]
    print(json.dumps(case, indent=1, default=str))
    if not case:
        print('nothing to replay: broken theorems:', payload.get('broken_theorems_or_audit')); return 0
    print('implementation:', parse(case['text']))
    m = model(['parse ' + enc(case['text'])])[0]
    print('model         :', ('ok ' + dec(m[3:])) if m.startswith('ok ') else m)
    print('failed predicate:', case.get('what'))
    return 0
