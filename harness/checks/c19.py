"""C19 — lookup and criteria functions agree with their search definitions.

MATCH (three modes, wildcards), INDEX, LOOKUP / VLOOKUP / HLOOKUP, COUNTIF / SUMIF / AVERAGEIF are
evaluated through compiled formulas (`Parser().ast(...)[1].compile()`) on generated vectors and
tables and compared (a) with the Lean model `XL.Model.Look` and (b) with brute-force search
definitions written independently in Python.
"""
import json, re
import numpy as np
import common
from common import Run, model
import bookgen, bookrun
from bookgen import Err, BLANK, wire_val

RULE = ('key vectors of length 1..6: strictly ascending / descending numbers or text for the approximate modes, arbitrary '
        'mixed-type vectors with duplicates for the exact mode; lookup values equal to / between / outside the keys and of '
        'other types; wildcard keys; tables up to 6x6 with row/column indexes inside and outside; criteria = six operators x '
        '(number, numeric text, text, logical) + plain values + wildcards (* ? ~* ~?) on mixed ranges with blanks. '
        'Non-trivial = vector length >= 3; distinct = distinct calls.')

SIGNATURES = {}


def new_run():
    return Run('C19', RULE, SIGNATURES)


WORDS = ['a', 'B', 'ab', 'Ab', 'abc', 'b', 'ba', 'c', 'C', 'cab', 'x', 'Xy', 'apple', 'APPLE', 'pineapple', 'a*', 'a?', 'q~']


def lit(v):
    """formula text of a value"""
    if isinstance(v, bool):
        return 'TRUE' if v else 'FALSE'
    if isinstance(v, Err):
        return str(v)
    if isinstance(v, str):
        return '"%s"' % v.replace('"', '""')
    f = float(v)
    r = repr(f)
    r = r[:-2] if r.endswith('.0') else r
    return r if f >= 0 else '(%s)' % r


def arr(vals, shape):
    a = np.empty(shape, object)
    it = iter(vals)
    for i in range(shape[0]):
        for j in range(shape[1]):
            a[i, j] = bookrun.to_impl_value(next(it))
    return a


_cache = {}


def call(formula, **inputs):
    """evaluate a formula with references bound to arrays; returns the wire value of the (single) result"""
    from formulas import Parser
    fn = _cache.get(formula)
    if fn is None:
        fn = _cache[formula] = Parser().ast(formula)[1].compile()
    r = fn(*[inputs[k] for k in fn.inputs]) if fn.inputs else fn()
    a = np.asarray(getattr(r, 'value', r), object)
    if a.size != 1:
        return 'array%s' % (a.shape,)
    return bookrun.wire_impl(a.ravel()[0])


def num_wire(n):
    return wire_val(float(n))


# ---- brute-force definitions ---------------------------------------------------------------------------------------------
def type_id(v):
    return 2 if isinstance(v, bool) else 1 if isinstance(v, str) and not isinstance(v, Err) else 0


def wild_regex(p):
    out, i = '', 0
    while i < len(p):
        c = p[i]
        if c == '~' and i + 1 < len(p) and p[i + 1] in '*?':
            out += re.escape(p[i + 1]); i += 2; continue
        out += '.*' if c == '*' else '.' if c == '?' else re.escape(c)
        i += 1
    return re.compile(out, re.I | re.S)


def same(a, b):
    if type_id(a) != type_id(b):
        return False
    return a.upper() == b.upper() if type_id(a) == 1 else a == b


def spec_match(mode, val, keys):
    """1-based position or None"""
    if val is BLANK:
        val = 0
    if mode == 0:
        if type_id(val) == 1 and any(ch in val for ch in '*?~'):
            rx = wild_regex(val)
            for i, k in enumerate(keys):
                if type_id(k) == 1 and rx.fullmatch(k):
                    return i + 1
            return None
        for i, k in enumerate(keys):
            if same(k, val):
                return i + 1
        return None
    key = (lambda x: x.upper()) if type_id(val) == 1 else (lambda x: x)
    best = None
    for i, k in enumerate(keys):
        if type_id(k) != type_id(val):
            continue
        if (mode > 0 and key(k) <= key(val)) or (mode < 0 and key(k) >= key(val)):
            best = i + 1
    return best


def spec_sat(crit, v):
    """criterion (op, operand) or ('wild', regex) on one element, compared within the element's own type"""
    if v is BLANK:
        v = ''
    if crit[0] == 'wild':
        return type_id(v) == 1 and bool(crit[1].fullmatch(v))
    op, c = crit
    if type_id(c) == 0 and not isinstance(c, Err) and type_id(v) == 1:
        try:
            v = float(v)
        except ValueError:
            pass
    if isinstance(c, Err) or isinstance(v, Err):
        eq = isinstance(c, Err) and isinstance(v, Err) and str(c) == str(v)
        return eq if op == '=' else (not eq and isinstance(v, Err) == isinstance(c, Err)) if op == '<>' else False
    if type_id(v) != type_id(c):
        return False
    a, b = (v.upper(), c.upper()) if type_id(c) == 1 else (v, c)
    return {'=': a == b, '<>': a != b, '<': a < b, '>': a > b, '<=': a <= b, '>=': a >= b}[op]


def spec_crit(c):
    if isinstance(c, str) and not isinstance(c, Err):
        op, rest = '=', c
        for k in ('>=', '<=', '<>', '<', '>', '='):
            if c.startswith(k) and c != k:
                op, rest = k, c[len(k):]
                break
        if op == '=' and re.search(r'(?<!~)[?*]', rest):
            return ('wild', wild_regex(rest))
        if op == '=':
            rest = rest.replace('~?', '?').replace('~*', '*')
        if rest in ('#N/A', '#DIV/0!', '#VALUE!', '#REF!', '#NAME?', '#NUM!', '#NULL!'):
            return (op, Err(rest))
        if rest.upper() in ('TRUE', 'FALSE'):
            return (op, rest.upper() == 'TRUE')
        try:
            return (op, float(rest))
        except ValueError:
            return (op, rest)
    if c is BLANK:
        return ('=', 0)
    return ('=', c)


# ---- generators ----------------------------------------------------------------------------------------------------------------
def gen_sorted(rnd, n, kind, desc):
    if kind == 'n':
        pool = sorted(rnd.sample([-3, -1, 0, 0.5, 1, 2, 2.5, 3, 4, 7, 10, 12, 100], n))
    else:
        pool = sorted(rnd.sample(['a', 'ab', 'abc', 'b', 'ba', 'c', 'cab', 'x', 'xy', 'm', 'k'], n), key=str.upper)
        pool = [w.upper() if rnd.random() < 0.3 else w for w in pool]
    return pool[::-1] if desc else pool


def gen_mixed(rnd, n):
    out = []
    for _ in range(n):
        k = rnd.random()
        out.append(rnd.choice([1, 2, 2, 3, 0, -1, 2.5, 10]) if k < 0.45 else rnd.choice(WORDS) if k < 0.85 else rnd.choice([True, False]))
    return out


def probe(rnd, keys, kind):
    k = rnd.random()
    if k < 0.4 and keys:
        v = rnd.choice(keys)
        return v.swapcase() if isinstance(v, str) and rnd.random() < 0.4 else v
    if kind == 'n':
        return rnd.choice([-10, -2, 0.25, 0.75, 1.5, 2.25, 3.5, 5, 8, 11, 50, 1000])
    if kind == 't':
        return rnd.choice(['0', 'aa', 'abb', 'B', 'bb', 'd', 'w', 'zz', 'A', 'CA'])
    return rnd.choice([1, 'a', 'zz', True, 2.5, 'AB'])


def check(run):
    bookrun.setup()
    rnd = run.rng
    quick = run.tier == 'quick'
    req, pend = [], []

    def both(what, case, got, spec, line, nontrivial, dist):
        run.count(1, (what, json.dumps(case, default=str)), nontrivial, dist)
        if spec is not None and got != spec:
            run.violation('%s: implementation %s, search definition %s' % (what, bookrun.show(got), bookrun.show(spec)), case)
        req.append(line)
        pend.append((what, case, got))

    # ---- MATCH ----------------------------------------------------------------------------------------------------------------
    for it in range(2500 if quick else 40000):
        n = rnd.randint(1, 6)
        mode = rnd.choice([1, -1, 0, 0])
        if mode == 0:
            keys = gen_mixed(rnd, n)
            val = probe(rnd, keys, 'm')
            if rnd.random() < 0.25:
                val = rnd.choice(['a*', '?b', '*b*', 'a?c', 'A*', '*', '?', 'a~*', 'a~?', '*apple', 'x?', '??'])
        else:
            kind = rnd.choice('nt')
            keys = gen_sorted(rnd, n, kind, mode < 0)
            val = probe(rnd, keys, kind)
        col = rnd.random() < 0.5
        a = arr(keys, (n, 1) if col else (1, n))
        case = {'function': 'MATCH', 'mode': mode, 'value': repr(val), 'keys': [repr(k) for k in keys]}
        try:
            # mode 1 also with the third argument omitted (its default)
            omitted = mode == 1 and rnd.random() < 0.4
            case['third_argument'] = 'omitted' if omitted else mode
            got = call('=MATCH(A1,B1:B9)' if omitted else '=MATCH(A1,B1:B9,%d)' % mode, A1=arr([val], (1, 1)), **{'B1:B9': a})
        except Exception as ex:
            run.violation('MATCH raised %s: %s' % (type(ex).__name__, str(ex)[:80]), case); continue
        p = spec_match(mode, val, keys)
        both('MATCH', case, got, num_wire(p) if p else 'x#N/A',
             'match %d %s %s' % (mode, wire_val(val), ' '.join(wire_val(k) for k in keys)), n >= 3, 'MATCH/mode%d' % mode)
    # ---- INDEX -----------------------------------------------------------------------------------------------------------------
    for it in range(800 if quick else 12000):
        R, C = rnd.randint(1, 6), rnd.randint(1, 6)
        vals = [rnd.choice([1, 2.5, 'a', True, 7, 'xy', BLANK, Err('#N/A')]) if rnd.random() < 0.3 else i for i in range(R * C)]
        r, c = rnd.randint(1, R + 2), rnd.randint(1, C + 2)
        case = {'function': 'INDEX', 'shape': [R, C], 'row': r, 'col': c, 'values': [repr(v) for v in vals]}
        try:
            got = call('=INDEX(B1:G6,%d,%d)' % (r, c), **{'B1:G6': arr(vals, (R, C))})
        except Exception as ex:
            run.violation('INDEX raised %s' % type(ex).__name__, case); continue
        if r <= R and c <= C:
            v = vals[(r - 1) * C + (c - 1)]
            spec = wire_val(0 if v is BLANK else v)
        else:
            spec = 'x#REF!'
        both('INDEX', case, got, spec, 'index %d %d %s %d %d' % (R, C, ' '.join(wire_val(v) for v in vals), r, c), R * C >= 3, 'INDEX')
    # ---- LOOKUP / VLOOKUP / HLOOKUP ---------------------------------------------------------------------------------------------
    for it in range(2000 if quick else 30000):
        R, C = rnd.randint(1, 6), rnd.randint(2, 6)
        f = rnd.choice(['VLOOKUP', 'HLOOKUP', 'LOOKUP'])
        approx = rnd.random() < 0.5
        nk = R if f != 'HLOOKUP' else C
        if approx or f == 'LOOKUP':
            kind = rnd.choice('nt'); keys = gen_sorted(rnd, nk, kind, False); val = probe(rnd, keys, kind)
        else:
            keys = gen_mixed(rnd, nk); val = probe(rnd, keys, 'm')
        body = [rnd.choice([10, 20, 'r', 'S', True, 3.5, 0]) if rnd.random() < 0.4 else 100 + i for i in range(R * C)]
        table = [[None] * C for _ in range(R)]
        it2 = iter(body)
        for i in range(R):
            for j in range(C):
                table[i][j] = next(it2)
        for i, k in enumerate(keys):
            if f == 'HLOOKUP':
                table[0][i] = k
            else:
                table[i][0] = k
        flat = [v for row in table for v in row]
        case = {'function': f, 'value': repr(val), 'table': [[repr(v) for v in row] for row in table], 'approximate': approx}
        try:
            if f == 'LOOKUP':
                res = [table[i][C - 1] for i in range(R)]
                case['results'] = [repr(v) for v in res]
                got = call('=LOOKUP(A1,B1:B9,C1:C9)', A1=arr([val], (1, 1)), **{'B1:B9': arr(keys, (R, 1)), 'C1:C9': arr(res, (R, 1))})
                p = spec_match(1, val, keys)
                spec = wire_val(res[p - 1]) if p else 'x#N/A'
                line = 'lookup 1 %s %d %s %s' % (wire_val(val), R, ' '.join(wire_val(k) for k in keys), ' '.join(wire_val(v) for v in res))
            else:
                idx = rnd.randint(1, (C if f == 'VLOOKUP' else R) + 1)
                case['index'] = idx
                # the fourth argument in every spelling Excel accepts; omitted (and empty) means an approximate match
                how = rnd.choice(['TRUE', '1', 'omitted', 'omitted']) if approx else rnd.choice(['FALSE', '0'])
                case['fourth_argument'] = how
                got = call('=%s(A1,B1:G6,%d%s)' % (f, idx, '' if how == 'omitted' else ',' + how), A1=arr([val], (1, 1)), **{'B1:G6': arr(flat, (R, C))})
                p = spec_match(1 if approx else 0, val, keys)
                lim = C if f == 'VLOOKUP' else R
                if idx > lim:
                    spec = 'x#REF!'
                elif not p:
                    spec = 'x#N/A'
                else:
                    spec = wire_val(table[p - 1][idx - 1] if f == 'VLOOKUP' else table[idx - 1][p - 1])
                line = 'vlookup %d %s %d %d %s %d %d' % (1 if f == 'VLOOKUP' else 0, wire_val(val), R, C, ' '.join(wire_val(v) for v in flat), idx, 1 if approx else 0)
        except Exception as ex:
            run.violation('%s raised %s: %s' % (f, type(ex).__name__, str(ex)[:80]), case); continue
        both(f, case, got, spec, line, nk >= 3, f + ('/approx' if approx else '/exact'))
    # ---- COUNTIF / SUMIF / AVERAGEIF ------------------------------------------------------------------------------------------------
    OPS = ['', '=', '<>', '<', '>', '<=', '>=']
    for it in range(3500 if quick else 50000):
        n = rnd.randint(1, 6)
        test = []
        for _ in range(n):
            k = rnd.random()
            test.append(rnd.choice([1, 2, 2, 3, 0, -1, 2.5, 10]) if k < 0.4 else rnd.choice(WORDS + ['2', '10', '']) if k < 0.75
                        else rnd.choice([True, False]) if k < 0.85 else BLANK)
        test = [('q' if v == '' else v) if not (v is BLANK) else v for v in test]
        mixed = it % 5 == 0
        if mixed:
            # logicals next to the equal numbers (as floats and as numeric text): each is compared within its own type
            test = [rnd.choice([True, False, 1.0, 0.0, 1, 0, '1', '0', 2.0, BLANK]) for _ in range(rnd.randint(2, 6))]
            n = len(test)
        k = rnd.random()
        if mixed:
            crit = rnd.choice([1, 0, 1.0, 0.0, True, False, '=1', '<>0', '=TRUE', '<>FALSE', '>0', '1', '0'])
        elif k < 0.25:
            crit = rnd.choice(['a*', '?b', '*b*', 'a?c', 'A*', '*', '?', 'a~*', 'a~?', '*apple', '=a*', 'x?', '??', '*~*'])
        elif k < 0.65:
            crit = rnd.choice(OPS) + rnd.choice(['1', '2', '2.5', '0', '10', 'a', 'B', 'ab', 'abc', 'c', 'TRUE', 'x'])
        elif k < 0.85:
            crit = rnd.choice([1, 2, 2.5, 0, 10, True, False])
        else:
            crit = rnd.choice(['a', 'b', 'AB', 'Apple', 'q'])
        sc = spec_crit(crit)
        f = rnd.choice(['COUNTIF', 'COUNTIF', 'SUMIF', 'SUMIF3', 'AVERAGEIF3'])
        oper = [rnd.choice([1, 2, 3, 4.5, 10, -2, 0.5]) if rnd.random() < 0.85 else rnd.choice([True, 'zz', BLANK]) for _ in range(n)]
        case = {'function': f, 'criterion': repr(crit), 'range': [repr(v) for v in test], 'sum_range': [repr(v) for v in oper]}
        col = rnd.random() < 0.5
        shp = (n, 1) if col else (1, n)
        try:
            if f == 'COUNTIF':
                got = call('=COUNTIF(B1:B9,A1)', A1=arr([crit], (1, 1)), **{'B1:B9': arr(test, shp)})
                spec = num_wire(sum(1 for v in test if spec_sat(sc, v)))
                line = 'countif %s %s' % (wire_val(crit), ' '.join(wire_val(v) for v in test))
            elif f == 'SUMIF':
                got = call('=SUMIF(B1:B9,A1)', A1=arr([crit], (1, 1)), **{'B1:B9': arr(test, shp)})
                spec = None
                line = 'sumif %s %d %s %s' % (wire_val(crit), n, ' '.join(wire_val(v) for v in test), ' '.join(wire_val(v) for v in test))
            else:
                fn = f[:-1]
                got = call('=%s(B1:B9,A1,C1:C9)' % fn, A1=arr([crit], (1, 1)), **{'B1:B9': arr(test, shp), 'C1:C9': arr(oper, shp)})
                sel = [o for t, o in zip(test, oper) if spec_sat(sc, t)]
                nums = [float(o) for o in sel if type_id(o) == 0 and o is not BLANK]
                if fn == 'SUMIF':
                    spec = num_wire(sum(nums)) if all(type_id(o) != 1 or o is BLANK for o in sel) else None
                else:
                    spec = (num_wire(sum(nums) / len(nums)) if nums else 'x#DIV/0!') if all(type_id(o) != 1 or o is BLANK for o in sel) else None
                line = '%s %s %d %s %s' % (fn.lower(), wire_val(crit), n, ' '.join(wire_val(v) for v in test), ' '.join(wire_val(v) for v in oper))
        except Exception as ex:
            run.violation('%s raised %s: %s' % (f, type(ex).__name__, str(ex)[:80]), case); continue
        both(f.rstrip('3'), case, got, spec, line, n >= 3, f.rstrip('3') + ('/wild' if sc[0] == 'wild' else '/cmp'))
    answers = model(req)
    for ans, (what, case, got) in zip(answers, pend):
        if ans != got:
            run.disagree('%s: model %s, implementation %s' % (what, bookrun.show(ans) if ans[:1] in 'ntbx_' else ans, bookrun.show(got)), case)
    run.sample({'MATCH(2.5,{1;2;3},1)': call('=MATCH(2.5,{1;2;3},1)')})
    run.sample({'COUNTIF({"ab","abc","a","AB"},"a?")': call('=COUNTIF({"ab","abc","a","AB"},"a?")')})
    run.extra['model_requests'] = len(req)
    run.extra['trusted_base'] = ['the order laws (LawfulKey) assumed by match_asc / match_desc hold for finite doubles, strings and logicals: not proved of Float',
                                 'criteria operands that are date texts, and error values inside tested ranges, are not generated']
    return None


def replay(payload):
    common.import_repo(); bookrun.setup()
    case = payload.get('case') or (payload.get('correspondence') or [None])[0]
    print(json.dumps(case, indent=1, default=str)[:3000])
    print('failed predicate:', case.get('what') if case else payload.get('broken_theorems_or_audit'))
    return 0
