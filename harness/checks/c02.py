"""C02 — operators implement Excel's scalar semantics for every kind of operand.

Implementation: formulas.functions.operators.OPERATORS (direct call), the same operators
through a compiled formula with cell inputs and with literals.  Model: XL.Model.Ops with
F := Float through xldriver (bit-exact).  Direct oracle: the rules of the property written
out independently below (`expected`).
"""
import re, math, struct, json, itertools
import numpy as np
import common
from common import Run, model

RULE = ('complete cross-product of a pool of operands (numbers incl. 0, +-1, fractions, 1e+-200, 2^53; numeric, padded, '
        'signed, exponent, empty and non-numeric text; TRUE/FALSE; blank; the 7 errors) x 12 binary + 3 unary operators '
        'through OPERATORS[op]; a stratified sample through compiled formulas with cell inputs and with literals; random '
        'finite doubles (bit-exact). Non-trivial = not (number op number); distinct = distinct (operator, operand, operand).')

BIN = ['+', '-', '*', '/', '^', '&', '=', '<>', '<', '>', '<=', '>=']
UN = ['U+', 'U-', '%']
MNAME = {'+': 'arith add', '-': 'arith sub', '*': 'arith mul', '/': 'arith div', '^': 'arith pow', '&': 'concat',
         '=': 'cmp eq', '<>': 'cmp ne', '<': 'cmp lt', '>': 'cmp gt', '<=': 'cmp le', '>=': 'cmp ge',
         'U+': 'unary plus', 'U-': 'unary minus', '%': 'unary percent'}
NUMERIC_TEXT = re.compile(r'^[ \t\n\r\x0b\x0c]*[+-]?(\d+\.?\d*|\.\d+)([eE][+-]?\d+)?[ \t\n\r\x0b\x0c]*$')


def setup():
    global OPERATORS, XlError, Error, EMPTY, Parser, Ranges, ERRS
    import schedula as sh
    from formulas.functions.operators import OPERATORS
    from formulas.tokens.operand import XlError, Error
    from formulas import Parser
    from formulas.ranges import Ranges
    EMPTY = sh.EMPTY
    ERRS = [Error.errors[k] for k in ('#NULL!', '#DIV/0!', '#VALUE!', '#REF!', '#NAME?', '#NUM!', '#N/A')]


def enc(s):
    return 'u' + '.'.join(str(ord(c)) for c in s)


def dec(s):
    return ''.join(chr(int(x)) for x in s[1:].split('.')) if len(s) > 1 else ''


def fbits(x):
    return 'n%x' % struct.unpack('<Q', struct.pack('<d', float(x)))[0]


def to_wire(v):
    """canonical protocol form of an implementation value; None if it is a foreign object"""
    if isinstance(v, np.ndarray):
        if v.size != 1:
            return None
        v = v.ravel()[0]
    if isinstance(v, np.generic):
        v = v.item()
    if v is EMPTY:
        return '_'
    if isinstance(v, XlError):
        return 'x' + str(v)
    if isinstance(v, bool):
        return 'b1' if v else 'b0'
    if isinstance(v, str):
        return 't' + enc(v)
    if isinstance(v, (int, float)):
        try:
            f = float(v)
        except OverflowError:
            return None
        if math.isnan(f) or math.isinf(f):
            return None
        return fbits(f)
    return None


def kind(v):
    if v is EMPTY:
        return 'blank'
    if isinstance(v, XlError):
        return 'error'
    if isinstance(v, bool):
        return 'bool'
    if isinstance(v, str):
        if v == '':
            return 'text-empty'
        if NUMERIC_TEXT.match(v):
            return 'text-numeric'
        try:
            float(v)
            return 'text-pyfloat'
        except ValueError:
            return 'text-other'
    return 'number'


def py_float_text(case):
    """an operand is text that Python's float() accepts but the numeric-text grammar rejects"""
    return any(k == 'text-pyfloat' for k in case.get('kinds', []))


def excel_display_unsafe(x):
    if isinstance(x, bool) or not isinstance(x, (int, float)):
        return False
    x = float(x)
    if x == 0:
        return False
    if x.is_integer():
        return abs(x) >= 1e15
    r = repr(x)
    digits = len(r.replace('-', '').replace('.', '').lstrip('0').split('e')[0])
    return 'e' in r or digits > 15 or abs(x) < 1e-4


def number_display(case):
    return case.get('op') == '&' and any(case.get('unsafe_display', []))


SIGNATURES = {'python_float_text': py_float_text, 'number_display_form': number_display}


def new_run():
    return Run('C02', RULE, SIGNATURES)


# ---- the rules of the property, written out (independent of the model) ----------------------------
def coerce(v):
    """number an operand is coerced to for arithmetic, or the error it yields"""
    if v is EMPTY:
        return 0.0
    if isinstance(v, bool):
        return 1.0 if v else 0.0
    if isinstance(v, str):
        if NUMERIC_TEXT.match(v):
            return float(v)
        return 'x#VALUE!'
    return float(v)


def fin(x):
    return fbits(x) if (not math.isnan(x) and not math.isinf(x)) else 'x#NUM!'


def display(v):
    if v is EMPTY:
        return ''
    if isinstance(v, bool):
        return 'TRUE' if v else 'FALSE'
    if isinstance(v, str):
        return v
    f = float(v)
    return '%d' % f if f.is_integer() else repr(f)


def expected(op, a, b=None):
    """wire form of the value Excel's rules give, or None when the rules leave it to the float unit"""
    args = [a] if b is None else [a, b]
    for v in args:
        if isinstance(v, XlError):
            return 'x' + str(v)
    if op == '&':
        return 't' + enc(display(a) + display(b))
    if op in ('=', '<>', '<', '>', '<=', '>='):
        def key(v, o):
            if v is EMPTY:
                v = '' if isinstance(o, str) else 0
            if isinstance(v, bool):
                return (2, v)
            if isinstance(v, str):
                return (1, v.upper())
            return (0, float(v))
        ka = key(a, b)
        kb = key(b, ka[1] if a is EMPTY else a)
        if a is EMPTY:      # the code replaces x first, then y against the *new* x
            kb = key(b, ka[1])
        r = {'=': ka == kb, '<>': ka != kb, '<': ka < kb, '>': ka > kb, '<=': ka <= kb, '>=': ka >= kb}[op]
        return 'b1' if r else 'b0'
    if op == 'U+':
        if a is EMPTY:
            return fbits(0.0)
        if isinstance(a, (bool, str)):
            return to_wire(a)
        return fin(float(a))
    x = coerce(a)
    if isinstance(x, str):
        return x
    if op == 'U-':
        return fin(-x)
    if op == '%':
        return fin(x / 100.0)
    y = coerce(b)
    if isinstance(y, str):
        return y
    try:
        if op == '+':
            return fin(x + y)
        if op == '-':
            return fin(x - y)
        if op == '*':
            return fin(x * y)
        if op == '/':
            return 'x#DIV/0!' if y == 0 else fin(x / y)
        if op == '^':
            if x == 0 and y == 0:
                return 'x#NUM!'
            if x == 0 and y < 0:
                return 'x#DIV/0!'
            r = x ** y
            return 'x#NUM!' if isinstance(r, complex) else fin(r)
    except OverflowError:
        return 'x#NUM!'
    return None


def show(w):
    if w is None:
        return 'foreign-object'
    if w.startswith('n'):
        return repr(struct.unpack('<d', struct.pack('<Q', int(w[1:], 16)))[0])
    if w.startswith('t'):
        return repr(dec(w[1:]))
    return w


def lit(v):
    """spelling of a value as a formula literal (None if it has none)"""
    if v is EMPTY:
        return None
    if isinstance(v, XlError):
        return str(v)
    if isinstance(v, bool):
        return 'TRUE' if v else 'FALSE'
    if isinstance(v, str):
        return '"%s"' % v.replace('"', '""')
    f = float(v)
    if f < 0:
        return None
    r = repr(f)
    if 'e' in r:
        m, e = r.split('e')
        return '%sE%+d' % (m, int(e))
    return r[:-2] if r.endswith('.0') else r


def check(run):
    setup()
    rnd = run.rng
    quick = run.tier == 'quick'
    numbers = [0, -0.0, 1, -1, 0.5, -0.5, 2, 3, 7, 100, 0.1, 1.5, -2.5, 1e200, -1e200, 1e-200, 2.0 ** 53, 1e15, 123456.789, 1 / 3]
    texts = ['12', ' 12 ', '-3.5', '1e3', '1E-2', '+4', '.5', '5.', '007', '', ' ', 'abc', 'ABC', 'Abc', 'abd', '12a',
             '1,000', 'TRUE', 'true', '1 2', '--1', '0x10', 'e5', '1e', '$5', '50%', 'a', 'B', 'Z', 'z', '_']
    pytexts = ['1_0', 'inf', 'nan', '-Infinity', '１２', '1_000.5']
    pool = numbers + texts + pytexts + [True, False, EMPTY] + ERRS
    req, pend = [], []

    def ask(line, h):
        req.append(line); pend.append(h)

    def judge(op, a, b, got, via):
        args = [a] if b is None else [a, b]
        case = {'op': op, 'via': via, 'args': [repr(x) for x in args], 'kinds': [kind(x) for x in args],
                'unsafe_display': [excel_display_unsafe(x) for x in args]}
        w = to_wire(got) if not isinstance(got, Exception) else None
        case['impl'] = show(w) if not isinstance(got, Exception) else 'raised ' + type(got).__name__
        nt = not all(kind(x) == 'number' for x in args)
        run.count(1, (op, via, repr(a), repr(b)), nt, '%s/%s' % (op, '+'.join(case['kinds'])))
        if isinstance(got, Exception):
            run.violation('operator raised %s: %s' % (type(got).__name__, str(got)[:80]), case)
            return
        if w is None:
            run.violation('result is not one well-formed Excel value: %r' % (got,), case)
            return
        exp = expected(op, a, b)
        if exp is not None and exp != w:
            run.violation('%s gives %s, the rules give %s' % (op, show(w), show(exp)), dict(case, expected=show(exp)))
        if op == '&' and any(case['unsafe_display']) and not any(isinstance(x, XlError) for x in args):
            # the display form of such numbers in Excel has 15 significant digits / E notation
            run.violation('& joins %s, not the 15-significant-digit display form' % show(w), case)
        wa = [to_wire(x) for x in args]
        if all(x is not None for x in wa) and all(kind(x) != 'text-pyfloat' and (not isinstance(x, str) or x.isascii()) for x in args):
            ask('%s %s' % (MNAME[op], ' '.join(wa)), lambda m, w=w, case=case: m == w or run.disagree(
                'model %s, implementation %s' % (show(m) if m != 'bad-request' else m, show(w)), case))

    def call(op, *args):
        try:
            return OPERATORS[op](*args)
        except Exception as ex:
            return ex

    # ---- 1. complete cross-product through OPERATORS ------------------------------------------------
    for op in BIN:
        for a in pool:
            for b in pool:
                judge(op, a, b, call(op, a, b), 'OPERATORS')
    for op in UN:
        for a in pool:
            judge(op, a, None, call(op, a), 'OPERATORS')
    run.exhaustive = True
    run.sample({'op': '/', 'args': ['1', "''"], 'impl': show(to_wire(call('/', 1, '')))})
    run.sample({'op': '<', 'args': ["'abc'", 'True'], 'impl': show(to_wire(call('<', 'abc', True)))})

    # ---- 2. random finite doubles, bit-exact ----------------------------------------------------------
    def rfloat():
        k = rnd.random()
        if k < 0.3:
            return float(rnd.randint(-1000, 1000))
        if k < 0.6:
            return rnd.uniform(-1e6, 1e6)
        if k < 0.8:
            return rnd.choice([-1, 1]) * 10.0 ** rnd.uniform(-300, 300)
        return struct.unpack('<d', struct.pack('<Q', rnd.getrandbits(64) & 0x7fefffffffffffff | (rnd.getrandbits(1) << 63)))[0]
    for _ in range(3000 if quick else 60000):
        a, b = rfloat(), rfloat()
        op = rnd.choice(['+', '-', '*', '/', '^', '=', '<', '>=', '<>'])
        if op == '^':
            b = rnd.choice([b, float(rnd.randint(-5, 5)), 0.5, 1 / 3])
        judge(op, a, b, call(op, a, b), 'OPERATORS-random')

    # ---- 3. through compiled formulas: cell inputs and literals ---------------------------------------
    funcs = {}

    def formula_cells(op, a, b):
        f = '=B1%sC1' % op if b is not None else {'U+': '=+B1', 'U-': '=-B1', '%': '=B1%'}[op]
        if f not in funcs:
            funcs[f] = Parser().ast(f)[1].compile()
        fn = funcs[f]
        try:
            vals = {'B1': a, 'C1': b}
            r = fn(*[Ranges().push(k, np.asarray([[vals[k]]], object)) for k in fn.inputs])
            if isinstance(r, Ranges):
                r = r.value
            return r
        except Exception as ex:
            return ex

    def formula_literals(op, a, b):
        la, lb = lit(a), (lit(b) if b is not None else '')
        if la is None or lb is None:
            return None
        f = ('=%s%s%s' % (la, op, lb)) if b is not None else {'U+': '=+%s', 'U-': '=-%s', '%': '=%s%%'}[op] % la
        try:
            return Parser().ast(f)[1].compile()()
        except Exception as ex:
            return ex
    sample_pool = [0, 1, -1, 0.5, 1e200, '12', ' 12 ', 'abc', '', True, False, EMPTY, ERRS[1], ERRS[6], '1e3', 2.0 ** 53]
    n3 = 0
    for op in BIN + UN:
        for a in sample_pool:
            for b in (sample_pool if op in BIN else [None]):
                if quick and rnd.random() > 0.35:
                    continue
                judge(op, a, b, formula_cells(op, a, b), 'cells')
                r = formula_literals(op, a, b)
                if r is not None:
                    judge(op, a, b, r, 'literals')
                n3 += 1
    run.extra['through_formulas'] = n3

    # ---- known-finding witnesses ------------------------------------------------------------------------
    r = call('+', '1_0', 1)
    run.replay_witness('python-float-text', to_wire(r) == fbits(11.0), {'witness': '"1_0"+1', 'impl': show(to_wire(r))})
    r = call('&', 0.1 + 0.2, '')
    run.replay_witness('number-display-form', to_wire(r) == 't' + enc('0.30000000000000004'), {'witness': '(0.1+0.2)&""', 'impl': show(to_wire(r))})

    answers = model(req)
    for m, h in zip(answers, pend):
        h(m)
    run.extra['model_requests'] = len(req)
    run.extra['trusted_base'] = ['IEEE-754: Lean Float and CPython float use the same hardware/libm operations (compared bit-exactly here)',
                                 'LawfulNum (order laws of finite doubles) is a hypothesis of the comparison theorems, instantiated for Int']
    return None


def replay(payload):
    common.import_repo(); setup()
    case = payload.get('case') or (payload.get('correspondence') or [None])[0]
    print(json.dumps(case, indent=1, default=str))
    if not case:
        print('nothing to replay: broken theorems:', payload.get('broken_theorems_or_audit')); return 0
    ns = {'EMPTY': EMPTY}
    ns.update({str(e): e for e in ERRS})

    def val(s):
        if s == 'EMPTY':
            return EMPTY
        if s.startswith('#'):
            return Error.errors[s]
        return eval(s, {'inf': float('inf')})
    args = [val(a) for a in case['args']]
    try:
        r = OPERATORS[case['op']](*args)
        w = to_wire(r)
        print('implementation:', show(w), repr(r))
    except Exception as ex:
        print('implementation raised', type(ex).__name__, ex)
    exp = expected(case['op'], *args)
    print('rules          :', show(exp) if exp else '(left to the float unit)')
    wa = [to_wire(x) for x in args]
    if all(wa):
        m = model(['%s %s' % (MNAME[case['op']], ' '.join(wa))])[0]
        print('model          :', show(m) if m != 'bad-request' else m)
    print('failed predicate:', case.get('what'))
    return 0
