"""C07 — recalculation with overrides is exact and leaves no trace.

For random workbooks: an override set (constants, formula cells, blank cells, a multi-cell range, a
defined name that is a reference) is supplied to (a) a live model that first went through a random
history of calculate / compile / to_dict / write / deepcopy operations, (b) a freshly built model,
(c) the Lean model (`withOverride`); all three must agree on every cell; restricting the requested
outputs must not change any returned value.
"""
import copy, json
import numpy as np
import common
from common import Run, model
import bookgen, bookrun

RULE = ('random acyclic workbooks x override sets over constants, formula cells, blank cells, one multi-cell range and one '
        'reference-valued name x histories of 0-6 operations (calculate with other inputs, calculate with outputs, compile+call, '
        'to_dict, write, deepcopy) before the observed calculation. Non-trivial = the override set touches a cell that some '
        'formula depends on; distinct = distinct (workbook, override set, history).')


def new_run():
    return Run('C07', RULE)


def cells_of_ref(ref):
    s, r1, r2, c1, c2 = ref
    return [(s, r, c) for r in range(r1, r2 + 1) for c in range(c1, c2 + 1)]


def check(run):
    bookrun.setup()
    rnd = run.rng
    quick = run.tier == 'quick'
    n = 120 if quick else 2500
    req, pend = [], []
    hist_stats = {}
    for k in range(n):
        wb = bookgen.generate(rnd, n_books=rnd.choice([1, 1, 2]))
        d = wb.to_dict(explicit_blanks=True)
        case = {'workbook': {k_: (str(v) if isinstance(v, bookgen.Err) else v) for k_, v in d.items()}}
        try:
            live = bookrun.ExcelModel().from_dict(d)
            live.calculate()
        except Exception as ex:
            run.violation('building the workbook raised %s' % type(ex).__name__, case)
            continue
        # ---- override set --------------------------------------------------------------------------------
        consts = [a for a, c in wb.cells.items() if c[0] == 'v']
        forms = [a for a, c in wb.cells.items() if c[0] == 'f']
        ov_impl, ov_cells = {}, []          # implementation inputs, (s, r, c, value) for the model
        kinds = []
        for a in rnd.sample(consts, min(len(consts), rnd.randint(0, 3))):
            v = bookgen.gen_value(rnd, 'nnnnntb')
            ov_impl[wb.key(*a)] = bookrun.to_impl_value(v); ov_cells.append(a + (v,)); kinds.append('const')
        for a in rnd.sample(forms, min(len(forms), rnd.randint(0, 2))):
            v = bookgen.gen_value(rnd, 'nnnnt')
            ov_impl[wb.key(*a)] = bookrun.to_impl_value(v); ov_cells.append(a + (v,)); kinds.append('formula')
        # a range node that exists in the model (used by some formula) and whose cells are all constants/blank
        rngs = sorted({dep[1] for c in wb.cells.values() if c[0] != 'v' for dep in wb.deps(c[-1])
                       if dep[0] == 'ref' and (dep[1][1], dep[1][3]) != (dep[1][2], dep[1][4]) and dep[1][1] != 0})
        spill = {(s_, r_ + i_, c_ + j_) for (s_, r_, c_), ct in wb.cells.items() if ct[0] == 'a' for i_ in range(ct[1]) for j_ in range(ct[2])}
        # an array formula must lie wholly inside the overridden range or wholly outside it (a part of a spill cannot be set)
        arects = [{(s_, r_ + i_, c_ + j_) for i_ in range(ct[1]) for j_ in range(ct[2])} for (s_, r_, c_), ct in wb.cells.items() if ct[0] == 'a']
        # the range may lie over formula cells (they are overridden through it, not re-evaluated) and over cells that are
        # also supplied on their own (with the same value: one set of supplied values)
        rngs = [r for r in rngs if all(not (ar & set(cells_of_ref(r))) or ar <= set(cells_of_ref(r)) for ar in arects)
                and all(wb.cells.get(a, ('v',))[0] in ('v', 'f') or a in spill for a in cells_of_ref(r))]
        if rngs and rnd.random() < 0.6:
            r = rnd.choice(rngs)
            h, w = r[2] - r[1] + 1, r[4] - r[3] + 1
            vals = [[bookgen.gen_value(rnd, 'nnnnt') for _ in range(w)] for _ in range(h)]
            have = {x[:3]: x[3] for x in ov_cells}
            for i in range(h):
                for j in range(w):
                    if (r[0], r[1] + i, r[3] + j) in have:
                        vals[i][j] = have[(r[0], r[1] + i, r[3] + j)]
            ov_cells = [x for x in ov_cells if x[:3] not in set(cells_of_ref(r))]
            key = '%s!%s' % (wb.sheet_id(r[0]), wb.ref_text(r))
            ov_impl[key] = [[bookrun.to_impl_value(v) for v in row] for row in vals]
            for i in range(h):
                for j in range(w):
                    ov_cells.append((r[0], r[1] + i, r[3] + j, vals[i][j]))
            kinds.append('range')
        names = [nm for nm, (bk, e) in wb.names.items() if e[0] == 'ref' and (e[1][1], e[1][3]) == (e[1][2], e[1][4])
                 and wb.cells.get((e[1][0], e[1][1], e[1][3]), ('v',))[0] in ('v', 'f') and (e[1][0], e[1][1], e[1][3]) not in [x[:3] for x in ov_cells]]
        if names and rnd.random() < 0.6:
            nm = rnd.choice(names)
            e = wb.names[nm][1]
            v = bookgen.gen_value(rnd, 'nnnn')
            ov_impl[wb.name_key(nm)] = v
            ov_cells.append((e[1][0], e[1][1], e[1][3], v)); kinds.append('name')
        # ---- history on the live model -------------------------------------------------------------------------
        hist = []
        for _ in range(rnd.randint(0, 4 if quick else 6)):
            op = rnd.choice(['calc-other', 'calc-outputs', 'compile', 'to_dict', 'write', 'deepcopy'])
            hist.append(op)
            hist_stats[op] = hist_stats.get(op, 0) + 1
            try:
                if op == 'calc-other':
                    other = {wb.key(*a): bookrun.to_impl_value(bookgen.gen_value(rnd, 'nnnt')) for a in rnd.sample(consts + forms, min(3, len(consts + forms)))}
                    live.calculate(inputs=other)
                elif op == 'calc-outputs':
                    live.calculate(outputs=[wb.key(*a) for a in rnd.sample(forms, min(2, len(forms)))] or None)
                elif op == 'compile':
                    ins = [wb.key(*a) for a in rnd.sample(consts, min(2, len(consts)))]
                    outs = [wb.key(*a) for a in rnd.sample(forms, min(2, len(forms)))]
                    if ins and outs:
                        f = live.compile(inputs=ins, outputs=outs)
                        f(*[rnd.choice([1, 2, 5]) for _ in ins])
                elif op == 'to_dict':
                    live.to_dict()
                elif op == 'write':
                    live.write()
                elif op == 'deepcopy':
                    cp = copy.deepcopy(live)
                    cp.calculate(inputs={wb.key(*a): 99 for a in consts[:2]})
            except Exception as ex:
                run.violation('history operation %s raised %s: %s' % (op, type(ex).__name__, str(ex)[:80]), dict(case, history=hist))
        # ---- observed calculation ------------------------------------------------------------------------------------
        case.update(overrides={k_: (str(v) if not isinstance(v, list) else str(v)) for k_, v in ov_impl.items()}, history=hist, kinds=kinds)
        touched = any(x[:3] in {a for c in wb.cells.values() if c[0] != 'v' for dep in wb.deps(c[-1]) if dep[0] == 'ref'
                                 for a in cells_of_ref(dep[1]) if dep[1][1] != 0} for x in ov_cells) or 'name' in kinds
        run.count(1, (json.dumps(case['workbook'], sort_keys=True, default=str), str(sorted(case['overrides'].items())), tuple(hist)),
                  touched and bool(ov_cells), 'overrides=%s/history=%d' % ('+'.join(sorted(set(kinds))) or 'none', len(hist)))
        try:
            v_live = bookrun.solution_values(wb, live.calculate(inputs=ov_impl))
            fresh = bookrun.ExcelModel().from_dict(d)
            v_fresh = bookrun.solution_values(wb, fresh.calculate(inputs=ov_impl))
        except Exception as ex:
            run.violation('calculate(inputs=...) raised %s: %s' % (type(ex).__name__, str(ex)[:100]), case)
            continue
        # the last solution of the model (what write() without a solution writes) is that of the last calculation, whatever
        # is compiled, exported or copied afterwards
        after = rnd.sample(['compile', 'to_dict', 'deepcopy', 'compile'], rnd.randint(0, 2))
        try:
            for op in after:
                if op == 'compile':
                    ins = [wb.key(*a) for a in rnd.sample(consts, min(2, len(consts)))]
                    outs_ = [wb.key(*a) for a in rnd.sample(forms, min(2, len(forms)))]
                    if ins and outs_:
                        live.compile(inputs=ins, outputs=outs_)
                elif op == 'to_dict':
                    live.to_dict()
                else:
                    copy.deepcopy(live).calculate()
            v_last = bookrun.solution_values(wb, live.dsp.solution)
        except Exception as ex:
            run.violation('%s after the calculation raised %s: %s' % (after, type(ex).__name__, str(ex)[:80]), dict(case, after=after))
            v_last = v_live
        bad = [a for a in v_live if v_last[a] != v_live[a]]
        if bad:
            a = bad[0]
            run.violation('after %s the last solution of the model holds %s for cell %s, the calculation returned %s' % (
                after, bookrun.show(v_last[a]), wb.key(*a), bookrun.show(v_live[a])), dict(case, cell=wb.key(*a), after=after))
        # supplying a value through a name or a range equals supplying it to the underlying cells (where those are nodes)
        if 'range' in kinds or 'name' in kinds:
            try:
                m2 = bookrun.ExcelModel().from_dict(d)
                cellwise = {wb.key(*x[:3]): bookrun.to_impl_value(x[3]) for x in ov_cells}
                if all(k_ in m2.dsp.nodes for k_ in cellwise):
                    v_cells = bookrun.solution_values(wb, m2.calculate(inputs=cellwise))
                    bad = [a for a in v_fresh if v_fresh[a] != v_cells[a]]
                    if bad:
                        a = bad[0]
                        run.violation('cell %s is %s with the values supplied through %s and %s with the same values supplied cell by cell' % (
                            wb.key(*a), bookrun.show(v_fresh[a]), '/'.join(sorted(set(kinds))), bookrun.show(v_cells[a])),
                            dict(case, cell=wb.key(*a), cellwise={k_: str(v_) for k_, v_ in cellwise.items()}))
            except Exception as ex:
                run.violation('calculate with cell-by-cell inputs raised %s: %s' % (type(ex).__name__, str(ex)[:80]), case)
        diff = [a for a in v_fresh if v_fresh[a] != v_live[a]]
        if diff:
            a = diff[0]
            run.violation('cell %s is %s on the model with history %s and %s on a fresh model' % (
                wb.key(*a), bookrun.show(v_live[a]), hist, bookrun.show(v_fresh[a])), dict(case, cell=wb.key(*a)))
        # restricting the outputs
        outs = [a for a in rnd.sample(list(wb.cells), min(3, len(wb.cells))) if wb.cells[a][0] != 'a']
        if outs:
            try:
                sol = fresh.calculate(inputs=ov_impl, outputs=[wb.key(*a) for a in outs])
                for a in outs:
                    got = bookrun.wire_impl(np.asarray(sol[wb.key(*a)].value, object)[0, 0]) if wb.key(*a) in sol else 'missing'
                    if got != v_fresh[a]:
                        run.violation('cell %s is %s when only %d outputs are requested and %s otherwise' % (
                            wb.key(*a), bookrun.show(got), len(outs), bookrun.show(v_fresh[a])), dict(case, cell=wb.key(*a), outputs=[wb.key(*x) for x in outs]))
            except Exception as ex:
                run.violation('calculate(inputs, outputs) raised %s' % type(ex).__name__, case)
        if k < 2:
            run.sample({'overrides': case['overrides'], 'history': hist, 'cells': len(wb.cells)})
        q = list(v_fresh)
        req.append(wb.to_wire(q, overrides=ov_cells))
        pend.append((wb, q, v_fresh, case, ov_cells))
    # ---- template stream: one range with 0..3 populated cells, overridden as a range, a sub-range or through a name -----------
    for k in range(40 if quick else 1500):
        wb, R, name, outs = bookgen.range_template(rnd)
        d = wb.to_dict(explicit_blanks=wb.explicit)
        case = {'workbook': {k_: (str(v) if isinstance(v, bookgen.Err) else v) for k_, v in d.items()}, 'stream': 'range-template'}
        how = rnd.choice((['range', 'sub-range', 'name'] if name else ['range', 'sub-range']) if (wb.explicit and not wb.has_array) else (['range', 'name'] if name else ['range']))
        if wb.cellname and rnd.random() < 0.5:
            how = 'cell-name'
        rr = (0, 3, 3, 1, 1) if how == 'cell-name' else R if how != 'sub-range' else (0, 2, 3, 1, 1)
        vals = [[rnd.choice([4, 6, 20, 30, 0, 8.5])] for _ in range(rr[2] - rr[1] + 1)]
        key = wb.name_key(wb.cellname) if how == 'cell-name' else wb.name_key(name) if how == 'name' else '%s!%s' % (wb.sheet_id(0), wb.ref_text(rr))
        ov_impl = {key: [[bookrun.to_impl_value(v) for v in row] for row in vals]}
        ov_cells = [(0, rr[1] + i, 1, vals[i][0]) for i in range(len(vals))]
        case.update(overrides={key: str(vals)}, kinds=[how], history=[])
        run.count(1, (json.dumps(case['workbook'], sort_keys=True, default=str), key, str(vals)), True, 'template/' + how)
        try:
            fresh = bookrun.ExcelModel().from_dict(d)
            v_fresh = bookrun.solution_values(wb, fresh.calculate(inputs=ov_impl))
            # (a cell that reads unlisted blanks from the running solution does not pull INV(range) into a restricted
            #  calculation: known finding outputs-restricted-unlisted-blanks, replayed on its witness below)
            o2 = [a for a in rnd.sample(outs, min(2, len(outs))) if a not in wb.solution_read]
            sol = bookrun.ExcelModel().from_dict(d).calculate(inputs=ov_impl, outputs=[wb.key(*a) for a in o2])
            for a in o2:
                got = bookrun.wire_impl(np.asarray(sol[wb.key(*a)].value, object)[0, 0]) if wb.key(*a) in sol else 'missing'
                if got != v_fresh[a]:
                    run.violation('cell %s is %s when only 2 outputs are requested and %s otherwise' % (
                        wb.key(*a), bookrun.show(got), bookrun.show(v_fresh[a])), dict(case, cell=wb.key(*a)))
        except Exception as ex:
            run.violation('calculate(inputs=...) raised %s: %s' % (type(ex).__name__, str(ex)[:100]), case)
            continue
        q = list(v_fresh)
        req.append(wb.to_wire(q, overrides=ov_cells))
        pend.append((wb, q, v_fresh, case, ov_cells))
    # repaired (5e54b6e): a referenced blank cell that the dictionary does not list is reached by a range override
    dd = {"'[b.xlsx]S'!A1": 1, "'[b.xlsx]S'!A3": 3, "'[b.xlsx]S'!B1": "='[b.xlsx]S'!A2&\"x\"", "'[b.xlsx]S'!B2": "=SUM('[b.xlsx]S'!A1:A3)"}
    try:
        sol = bookrun.ExcelModel().from_dict(dd).calculate(inputs={"'[b.xlsx]S'!A1:A3": [[10], [20], [30]]})
        b1 = sol["'[b.xlsx]S'!B1"].value[0, 0]
    except Exception as ex:
        b1 = 'raised ' + type(ex).__name__
    run.count(1, 'regression/listed-blank', True, 'regression')
    if b1 != '20x':
        run.violation('a value supplied through A1:A3 does not reach the blank cell A2 that range assembly listed: A2&"x" is %r, not \'20x\'' % (b1,),
                      {'workbook': dd, 'overrides': {"'[b.xlsx]S'!A1:A3": '[[10],[20],[30]]'}, 'stream': 'regression'})
    # known finding: a supplied range without any cell node does not reach another range over the same unlisted blanks
    dd = {"'[b.xlsx]S'!B2": "=SUM('[b.xlsx]S'!A1:A3)", "'[b.xlsx]S'!B3": "=SUM('[b.xlsx]S'!A2:A3)"}
    try:
        sol = bookrun.ExcelModel().from_dict(dd).calculate(inputs={"'[b.xlsx]S'!A1:A3": [[10], [20], [30]]})
        b3 = sol["'[b.xlsx]S'!B3"].value[0, 0]
    except Exception as ex:
        b3 = 'raised ' + type(ex).__name__
    run.replay_witness('range-override-all-blank-range', b3 != 50, {'witness': 'A1:A3 all unlisted, B3 = SUM(A2:A3), inputs A1:A3', 'B3': repr(b3)})
    dd = {"'[b.xlsx]S'!A1": 1, "'[b.xlsx]S'!B2": "=SUM('[b.xlsx]S'!A1:A3)", "'[b.xlsx]S'!B3": "=SUM('[b.xlsx]S'!A2:A3)"}
    try:
        sol = bookrun.ExcelModel().from_dict(dd).calculate(inputs={"'[b.xlsx]S'!A1:A3": [[10], [20], [30]]}, outputs=["'[b.xlsx]S'!B3"])
        b3 = sol["'[b.xlsx]S'!B3"].value[0, 0]
        b3all = bookrun.ExcelModel().from_dict(dd).calculate(inputs={"'[b.xlsx]S'!A1:A3": [[10], [20], [30]]})["'[b.xlsx]S'!B3"].value[0, 0]
    except Exception as ex:
        b3 = b3all = 'raised ' + type(ex).__name__
    run.count(1, 'regression/solution-read', True, 'regression')
    if b3all != 50:
        run.violation('a value supplied through A1:A3 (A1 populated) does not reach SUM(A2:A3) over unlisted blanks: %r, not 50' % (b3all,),
                      {'workbook': dd, 'overrides': {"'[b.xlsx]S'!A1:A3": '[[10],[20],[30]]'}, 'stream': 'regression'})
    run.replay_witness('outputs-restricted-unlisted-blanks', b3 != 50, {'witness': 'A1 = 1, B3 = SUM(A2:A3), inputs A1:A3, outputs [B3]', 'B3': repr(b3)})
    answers = model(req)
    for ans, (wb, q, base, case, ov_cells) in zip(answers, pend):
        for a, mv in zip(q, ans.split(' ')):
            if base[a] != mv:
                run.disagree('cell %s: model %s, implementation %s' % (wb.key(*a), bookrun.show(mv), bookrun.show(base[a])),
                             dict(case, cell=wb.key(*a), wire=wb.to_wire([a], overrides=ov_cells)))
                break
    run.extra['model_requests'] = len(req)
    run.extra['history_operations'] = hist_stats
    run.extra['trusted_base'] = ['the model is a pure function of (workbook, inputs): "no trace" is a property of the implementation, observed by comparing a live model after a history with a fresh one']
    return None


def replay(payload):
    common.import_repo(); bookrun.setup()
    case = payload.get('case') or (payload.get('correspondence') or [None])[0]
    print(json.dumps(case, indent=1, default=str)[:3000])
    if case and case.get('wire'):
        print('model:', [bookrun.show(x) for x in model([case['wire']])[0].split(' ')])
    print('failed predicate:', case.get('what') if case else payload.get('broken_theorems_or_audit'))
    return 0
