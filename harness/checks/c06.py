"""C06 — reference operators follow cell-set semantics, values included.

Correspondence: formulas.ranges (_intersect, _split, Ranges & + | - simplify) vs the Lean model
XL.Model.Rect through xldriver.  Direct oracle: cell sets by brute-force coordinate
enumeration, independent of both.  Values: every cell holds a distinct number, the value
seen through a combined reference must be the values of exactly those cells.
"""
import itertools, collections
import numpy as np
import common
from common import Run, model

RULE = ('all ordered pairs of rectangles of an NxN grid (N=4 quick, 5 thorough) for _intersect, _split, & : - '
        'simplify and .value; random multi-area operands with whole rows/columns and three sheets; '
        'formula-level reference expressions. A case is non-trivial when the operands share a cell '
        '(or lie on different sheets); distinct = distinct (operation, operand geometry).')

SHEETS = ['', 'S1', 'S2']          # sorted order = model sheet numbers 0,1,2


def null_inside_union(case):
    """known finding null-inside-union: the union of an EMPTY intersection with other areas evaluates to those areas"""
    return case.get('op') == 'formula' and case.get('kind') == 'inter-union' and bool(case.get('empty_intersection_dropped_from_union'))


SIGNATURES = {'null_inside_union': null_inside_union}


def new_run():
    return Run('C06', RULE, SIGNATURES)


def setup():
    global Ranges, _intersect, _split, _index2col, maxrow, maxcol, InvalidRangeError, Parser, Error
    from formulas.ranges import Ranges, _intersect, _split
    from formulas.tokens.operand import _index2col, maxrow, maxcol, Error
    from formulas.errors import InvalidRangeError
    from formulas import Parser


# ---- rectangles: (sheet, r1, r2, c1, c2) ---------------------------------------------------
def ref(r):
    s, r1, r2, c1, c2 = r
    if r1 == 0 and r2 == maxrow:
        return '%s:%s' % (_index2col(c1), _index2col(c2))
    if c1 == 0 and c2 == maxcol:
        return '%d:%d' % (r1, r2)
    a, b = '%s%d' % (_index2col(c1), r1), '%s%d' % (_index2col(c2), r2)
    return a if a == b else a + ':' + b


def ctx(r):
    return {'sheet_id': SHEETS[r[0]]} if r[0] else None


def canon(d):
    return (SHEETS.index(d['sheet_id']), int(d['r1']), int(d['r2']), int(d['n1']), int(d['n2']))


def fmt(r):
    return ','.join(map(str, r))


def fmts(rs):
    return ';'.join(fmt(r) for r in rs) if rs else '-'


def parse_rects(s):
    return [] if s == '-' else [tuple(map(int, x.split(','))) for x in s.split(';')]


def ranges_of(areas, values=False):
    rng = Ranges()
    for a in areas:
        if values:
            rng.push(ref(a), value=cell_values(a), context=ctx(a))
        else:
            rng.push(ref(a), context=ctx(a))
    return rng


def cellval(s, i, j):
    return s * 1000000 + i * 1000 + j


def cell_values(a):
    s, r1, r2, c1, c2 = a
    return np.array([[cellval(s, i, j) for j in range(c1, c2 + 1)] for i in range(r1, r2 + 1)], object)


# ---- brute-force oracle on probe points --------------------------------------------------
def probe_axis(n, mx):
    return list(range(0, n + 3)) + [mx - 1, mx, mx + 1]


def cover(areas, probes):
    c = collections.Counter()
    for (s, r1, r2, c1, c2) in areas:
        for p in probes:
            if p[0] == s and r1 <= p[1] <= r2 and c1 <= p[2] <= c2:
                c[p] += 1
    return c


def small(a):
    return a[2] - a[1] < 64 and a[4] - a[3] < 64


def check(run):
    setup()
    N = 4 if run.tier == 'quick' else 5
    rects = [(0, r1, r2, c1, c2) for r1 in range(1, N + 1) for r2 in range(r1, N + 1)
             for c1 in range(1, N + 1) for c2 in range(c1, N + 1)]
    probes = [(s, i, j) for s in range(3) for i in probe_axis(N, maxrow) for j in probe_axis(N, maxcol)]
    real = lambda p: p[1] >= 1 and p[2] >= 1 and p[1] <= maxrow and p[2] <= maxcol
    rng_cache = {}

    def R(a):
        if a not in rng_cache:
            rng_cache[a] = Ranges().push(ref(a), context=ctx(a)).ranges[0]
        return rng_cache[a]

    requests, pending = [], []
    do_whole_row_simplify = [2 if run.tier == 'quick' else 12]

    def ask(line, handler):
        requests.append(line)
        pending.append(handler)

    def relation(a, b):
        if a[0] != b[0]:
            return 'other-sheet'
        ca, cb = cover([a], probes), cover([b], probes)
        if not (set(ca) & set(cb)):
            return 'disjoint'
        if a == b:
            return 'equal'
        if set(ca) <= set(cb):
            return 'a-in-b'
        if set(cb) <= set(ca):
            return 'b-in-a'
        return 'overlap'

    # ---- 1. exhaustive pairs --------------------------------------------------------------
    def pair_case(a, b, exhaustive=True):
        rel = relation(a, b)
        nt = rel != 'disjoint'
        ca, cb = cover([a], probes), cover([b], probes)
        # _intersect
        z = _intersect(R(a), R(b))
        zi = canon(z) if z else None
        run.count(1, ('inter', a, b), nt, 'inter/' + rel)
        want = {p for p in ca if p in cb}
        got = set(cover([zi], probes)) if zi else set()
        if got != want:
            run.violation('_intersect does not cover exactly the common cells',
                          {'op': 'inter', 'a': fmt(a), 'b': fmt(b), 'impl': fmt(zi) if zi else 'none'})
        ask('inter %s %s' % (fmt(a), fmt(b)),
            lambda m, zi=zi, a=a, b=b: m == (fmt(zi) if zi else 'none') or run.disagree(
                'inter: model %s, implementation %s' % (m, fmt(zi) if zi else 'none'),
                {'op': 'inter', 'a': fmt(a), 'b': fmt(b)}))
        # _split
        sp = [canon(p) for p in _split(R(a), R(b))]
        run.count(1, ('split', a, b), nt, 'split/' + rel)
        csp = cover(sp, probes)
        # (on the cells of the sheet: index 0 only occurs as the first index of a whole row / column; nothing outside rng \ base)
        if {p for p in csp if real(p)} != {p for p in cb if p not in ca and real(p)} or not set(csp) <= {p for p in cb if p not in ca} \
                or any(v != 1 for v in csp.values()):
            run.violation('_split pieces are not exactly rng minus base, each cell once',
                          {'op': 'split', 'base': fmt(a), 'rng': fmt(b), 'impl': fmts(sp)})
        ask('split %s %s' % (fmt(a), fmt(b)),
            lambda m, sp=sp, a=a, b=b: cover(parse_rects(m), probes) == cover(sp, probes) or run.disagree(
                'split: model %s, implementation %s' % (m, fmts(sp)), {'op': 'split', 'base': fmt(a), 'rng': fmt(b)}))
        area_case([a], [b], rel, nt)

    def area_case(A, B, rel, nt):
        cA, cB = cover(A, probes), cover(B, probes)
        key = (tuple(A), tuple(B))
        # ':' bounding box
        run.count(1, ('bbox',) + key, nt, 'bbox/' + rel)
        try:
            z = (ranges_of(A) + ranges_of(B)).ranges
            zb = canon(z[0]) if len(z) == 1 else 'many'
        except InvalidRangeError:
            zb = None
        first = [A[0]] + list(A[1:]) + list(B)
        sheets = {x[0] for x in first}
        if len(sheets) > 1:
            if zb is not None:
                run.violation("':' of areas on different sheets did not raise InvalidRangeError",
                              {'op': 'bbox', 'a': fmts(A), 'b': fmts(B), 'impl': str(zb)})
        else:
            want = (first[0][0], min(x[1] for x in first), max(x[2] for x in first),
                    min(x[3] for x in first), max(x[4] for x in first))
            if zb != want:
                run.violation("':' is not the bounding rectangle of its operands",
                              {'op': 'bbox', 'a': fmts(A), 'b': fmts(B), 'impl': str(zb), 'expected': fmt(want)})
        ask('bbox %s %s' % (fmts(A), fmts(B)),
            lambda m, zb=zb: m == (fmt(zb) if zb else 'none') or run.disagree(
                'bbox: model %s, implementation %s' % (m, zb), {'op': 'bbox', 'a': fmts(A), 'b': fmts(B)}))
        # '&' intersection of area lists
        run.count(1, ('and',) + key, nt, 'and/' + rel)
        z = [canon(x) for x in (ranges_of(A) & ranges_of(B)).ranges]
        cz = cover(z, probes)
        if set(cz) != {p for p in cA if p in cB}:
            run.violation("intersection does not cover exactly the common cells",
                          {'op': 'and', 'a': fmts(A), 'b': fmts(B), 'impl': fmts(z)})
        ask('and %s %s' % (fmts(A), fmts(B)),
            lambda m, cz=cz, z=z: cover(parse_rects(m), probes) == cz or run.disagree(
                'and: model %s, implementation %s' % (m, fmts(z)), {'op': 'and', 'a': fmts(A), 'b': fmts(B)}))
        # '|' union
        run.count(1, ('or',) + key, nt, 'or/' + rel)
        z = [canon(x) for x in (ranges_of(A) | ranges_of(B)).ranges]
        if z != list(A) + list(B):
            run.violation("union does not keep every operand area in order",
                          {'op': 'or', 'a': fmts(A), 'b': fmts(B), 'impl': fmts(z)})
        # '-' difference
        run.count(1, ('sub',) + key, nt, 'sub/' + rel)
        z = [canon(x) for x in (ranges_of(A) - ranges_of(B)).ranges]
        cz = cover(z, probes)
        if {p for p in cz if real(p)} != {p for p in cA if p not in cB and real(p)} or not set(cz) <= {p for p in cA if p not in cB} \
                or any(v != 1 for v in cz.values()):
            run.violation("difference is not exactly the cells of the first operand outside the second, each once",
                          {'op': 'sub', 'a': fmts(A), 'b': fmts(B), 'impl': fmts(z)})
        ask('sub %s %s' % (fmts(A), fmts(B)),
            lambda m, cz=cz, z=z: cover(parse_rects(m), probes) == cz or run.disagree(
                'sub: model %s, implementation %s' % (m, fmts(z)), {'op': 'sub', 'a': fmts(A), 'b': fmts(B)}))
        # simplify of the union
        U = list(A) + list(B)
        wide = max(x[4] for x in U) > 64
        if wide and not do_whole_row_simplify[0]:
            z = None      # a whole row costs 16384 helper columns (~15 s): only a few per run
        else:
          if wide:
            do_whole_row_simplify[0] -= 1
          run.count(1, ('simplify',) + key, nt, 'simplify/' + rel)
          try:
            z = [canon(x) for x in ranges_of(U).simplify().ranges]
          except Exception as ex:
            z = None
            run.violation('simplify raised %s' % type(ex).__name__, {'op': 'simplify', 'areas': fmts(U)})
        if z is not None:
            cz, cU = cover(z, probes), cover(U, probes)
            want = {p for p in cU if real(p)}
            gotr = {p for p in cz if real(p)}
            if gotr != want or not set(cz) <= set(cU) or (len(U) >= 2 and any(v != 1 for v in cz.values())):
                run.violation('simplify does not preserve exactly the cells, each once',
                              {'op': 'simplify', 'areas': fmts(U), 'impl': fmts(z)})
            ask('simplify %d %s' % (maxrow, fmts(U)),
                lambda m, cz=cz, z=z: {p: v for p, v in cover(parse_rects(m), probes).items() if real(p)} ==
                {p: v for p, v in cz.items() if real(p)} or run.disagree(
                    'simplify: model %s, implementation %s' % (m, fmts(z)), {'op': 'simplify', 'areas': fmts(U)}))
        # values through the combined references
        if all(small(x) for x in U):
            value_case(A, B, rel, nt)

    def value_case(A, B, rel, nt):
        VA, VB = ranges_of(A, True), ranges_of(B, True)
        for op, res in (('and', lambda: VA & VB), ('or', lambda: VA | VB), ('sub', lambda: VA - VB),
                        ('bbox', lambda: VA + VB)):
            run.count(1, ('value', op, tuple(A), tuple(B)), nt, 'value-' + op + '/' + rel)
            try:
                r = res()
            except InvalidRangeError:
                continue
            except Exception as ex:
                run.violation('%s on valued references raised %s' % (op, type(ex).__name__),
                              {'op': 'value-' + op, 'a': fmts(A), 'b': fmts(B)})
                continue
            areas = [canon(x) for x in r.ranges]
            if op == 'bbox' and not all(small(x) for x in areas):
                continue
            try:
                v = r.value
            except Exception as ex:
                run.violation('.value raised %s' % type(ex).__name__, {'op': 'value-' + op, 'a': fmts(A), 'b': fmts(B)})
                continue
            if not areas:
                ok = v.shape == (1, 1) and v[0, 0] is Error.errors['#NULL!']
                if not ok:
                    run.violation('empty reference does not evaluate to #NULL!',
                                  {'op': 'value-' + op, 'a': fmts(A), 'b': fmts(B), 'impl': repr(v)})
                continue
            if op == 'bbox':
                # cells of the bounding box outside the operands are not supplied: they read ''
                have = cover(list(A) + list(B), [(areas[0][0], i, j) for i in range(areas[0][1], areas[0][2] + 1)
                                                 for j in range(areas[0][3], areas[0][4] + 1)])
                exp = [[cellval(areas[0][0], i, j) if (areas[0][0], i, j) in have else ''
                        for j in range(areas[0][3], areas[0][4] + 1)] for i in range(areas[0][1], areas[0][2] + 1)]
                if np.asarray(v, object).tolist() != exp:
                    run.violation("value of a ':' reference is not position by position the cells' values",
                                  {'op': 'value-bbox', 'a': fmts(A), 'b': fmts(B), 'impl': repr(np.asarray(v).tolist())})
                continue
            if len(areas) == 1:
                s, r1, r2, c1, c2 = areas[0]
                exp = [[cellval(s, i, j) for j in range(c1, c2 + 1)] for i in range(r1, r2 + 1)]
                if np.asarray(v, object).tolist() != exp:
                    run.violation('value of a single rectangle is not position by position the cells\' values',
                                  {'op': 'value-' + op, 'a': fmts(A), 'b': fmts(B), 'areas': fmts(areas),
                                   'impl': repr(np.asarray(v).tolist())})
            else:
                exp = collections.Counter(cellval(s, i, j) for (s, r1, r2, c1, c2) in areas
                                          for i in range(r1, r2 + 1) for j in range(c1, c2 + 1))
                got = collections.Counter(np.asarray(v, object).ravel().tolist())
                if got != exp:
                    run.violation('value of a multi-area reference is not each cell once per covering area',
                                  {'op': 'value-' + op, 'a': fmts(A), 'b': fmts(B), 'areas': fmts(areas),
                                   'impl': repr(sorted(got.elements()))[:300]})

    def guarded(f, *args):
        try:
            f(*args)
        except common.HarnessError:
            raise
        except Exception as ex:     # the implementation raised where the property promises a result
            import traceback
            tb = traceback.extract_tb(ex.__traceback__)
            where = [t for t in tb if '/harness/' not in t.filename]
            if not where:
                raise
            run.violation('implementation raised %s: %s' % (type(ex).__name__, str(ex)[:120]),
                          {'op': 'exception', 'args': repr(args)[:300], 'at': '%s:%d' % (where[-1].filename, where[-1].lineno)})

    for a in rects:
        for b in rects:
            guarded(pair_case, a, b)
    run.exhaustive = True
    run.sample({'op': 'pair', 'a': fmt(rects[7]), 'b': fmt(rects[len(rects) // 2]),
                'split_impl': fmts([canon(p) for p in _split(R(rects[7]), R(rects[len(rects) // 2]))])})

    # ---- 2. random multi-area operands, whole rows/columns, sheets --------------------------
    rnd = run.rng

    def rand_rect():
        s = rnd.choice([0, 0, 1, 1, 2])
        k = rnd.random()
        if k < 0.12:
            c1 = rnd.randint(1, N); c2 = rnd.randint(c1, N)
            return (s, 0, maxrow, c1, c2)
        if k < 0.24:
            r1 = rnd.randint(1, N); r2 = rnd.randint(r1, N)
            return (s, r1, r2, 0, maxcol)
        if k < 0.30:
            r1 = rnd.randint(1, N); c1 = rnd.randint(1, N)
            return (s, r1, rnd.choice([maxrow - 1, r1 + 1]), c1, rnd.choice([maxcol - 1, c1 + 1]))
        r1 = rnd.randint(1, N); r2 = rnd.randint(r1, N); c1 = rnd.randint(1, N); c2 = rnd.randint(c1, N)
        return (s, r1, r2, c1, c2)

    n_rand = 250 if run.tier == 'quick' else 3000
    for i in range(n_rand):
        A = [rand_rect() for _ in range(rnd.randint(1, 3))]
        B = [rand_rect() for _ in range(rnd.randint(1, 3))]
        if rnd.random() < 0.6:       # mostly one sheet so that operands meet
            s = A[0][0]
            A = [(s,) + x[1:] for x in A]; B = [(s,) + x[1:] for x in B]
        whole = any(x[1] == 0 or x[3] == 0 for x in A + B)
        multi = len({x[0] for x in A + B}) > 1
        rel = 'multi-area' + ('/whole' if whole else '') + ('/sheets' if multi else '')
        guarded(area_case, A, B, rel, True)
        if i < 3:
            run.sample({'op': 'areas', 'a': fmts(A), 'b': fmts(B)})

    # ---- 2b. values supplied by whole-row / whole-column operands ------------------------------------
    def big_values(a):
        s_, r1, r2, c1, c2 = a
        rows_ = np.arange(max(r1, 1), r2 + 1, dtype=np.int64); cols_ = np.arange(max(c1, 1), c2 + 1, dtype=np.int64)
        return ((s_ << 40) + (rows_[:, None] << 15) + cols_[None, :])

    def cells_of(a):
        return (a[2] - max(a[1], 1) + 1) * (a[4] - max(a[3], 1) + 1)

    def whole_rect():
        k = rnd.random()
        if k < 0.55:
            r1 = rnd.randint(1, N); return (0, r1, min(r1 + rnd.randint(0, 2), maxrow), 0, maxcol)
        if k < 0.7:
            c1 = rnd.randint(1, N); return (0, 0, maxrow, c1, c1 + rnd.randint(0, 1))
        r1 = rnd.randint(1, N); r2 = rnd.randint(r1, N); c1 = rnd.randint(1, N); c2 = rnd.randint(c1, N)
        return (0, r1, r2, c1, rnd.choice([c2, c2, maxcol]))

    for i in range(25 if run.tier == 'quick' else 600):
        A = [whole_rect() for _ in range(rnd.randint(1, 2))]
        B = [whole_rect() for _ in range(rnd.randint(1, 2))]
        if not any(x[1] == 0 or x[3] == 0 for x in A + B) or sum(cells_of(x) for x in A + B) > 6000000:
            continue
        for op in ('and', 'sub', 'or'):
            run.count(1, ('value-whole', op, tuple(A), tuple(B)), True, 'value-%s/whole-row-or-column' % op)
            case = {'op': 'value-' + op, 'a': fmts(A), 'b': fmts(B)}
            try:
                VA, VB = Ranges(), Ranges()
                for x in A:
                    VA.push(ref(x), value=big_values(x).astype(object), context=ctx(x))
                for x in B:
                    # the second operand carries values only where the operation keeps its cells
                    if op == 'or':
                        VB.push(ref(x), value=big_values(x).astype(object), context=ctx(x))
                    else:
                        VB.push(ref(x), context=ctx(x))
                r = (VA & VB) if op == 'and' else (VA - VB) if op == 'sub' else (VA | VB)
                areas = [canon(x) for x in r.ranges]
                if not areas or sum(cells_of(x) for x in areas) > 6000000:
                    continue
                v = np.asarray(r.value, object)
            except InvalidRangeError:
                continue
            except Exception as ex:
                run.violation('%s on references valued by whole rows / columns raised %s: %s' % (op, type(ex).__name__, str(ex)[:80]), case)
                continue
            try:
                if len(areas) == 1:
                    ok = v.shape == big_values(areas[0]).shape and bool((v.astype(np.int64) == big_values(areas[0])).all())
                else:
                    exp = np.sort(np.concatenate([big_values(x).ravel() for x in areas]))
                    ok = v.size == exp.size and bool((np.sort(v.ravel().astype(np.int64)) == exp).all())
            except (TypeError, ValueError):
                ok = False
            if not ok:
                run.violation('the value of a reference combined from whole rows / columns is not the values of exactly its cells',
                              dict(case, areas=fmts(areas), impl=repr(v.ravel()[:6].tolist())))

    # ---- 3. formula level ---------------------------------------------------------------------
    formula_cases(run, N)

    # the exact witness of known finding null-inside-union
    try:
        fn = Parser().ast('=SUM((A1:A2 B1:B2,C1))')[1].compile()
        w = fn(*[Ranges().pushes([x['name'] for x in v.ranges], [cell_values(canon(x)) for x in v.ranges]) for v in fn.inputs.values()])
        w = np.asarray(getattr(w, 'value', w), object).ravel().tolist()
    except Exception as ex:
        w = ['raised ' + type(ex).__name__]
    run.replay_witness('null-inside-union', not (len(w) == 1 and w[0] is Error.errors['#NULL!']), {'witness': '=SUM((A1:A2 B1:B2,C1))', 'impl': repr(w)})

    # ---- model answers ------------------------------------------------------------------------
    answers = model(requests)
    for m, h in zip(answers, pending):
        h(m)
    run.extra['model_requests'] = len(requests)
    return None


def formula_cases(run, N):
    """=SUM(A1:B2 B1:C2), =SUM((A1:A2,A2:A3)), =SUM(A1:A1:C2) and friends through the parser"""
    rnd = run.rng
    cells = lambda: (rnd.randint(1, N), rnd.randint(1, N))

    def rr():
        r1, c1 = cells(); r2, c2 = cells()
        r1, r2 = sorted((r1, r2)); c1, c2 = sorted((c1, c2))
        return (0, r1, r2, c1, c2)

    n = 150 if run.tier == 'quick' else 1500
    for i in range(n):
        a, b, c = rr(), rr(), rr()
        kind = rnd.choice(['inter', 'union', 'range', 'union-inter', 'inter-union'])
        ca = lambda x: collections.Counter((x[0], i_, j_) for i_ in range(x[1], x[2] + 1) for j_ in range(x[3], x[4] + 1))
        if kind == 'inter':
            f = '=SUM(%s %s)' % (ref(a), ref(b))
            exp = [p for p in ca(a) if p in ca(b)]
        elif kind == 'union':
            f = '=SUM((%s,%s))' % (ref(a), ref(b))
            exp = list(ca(a).elements()) + list(ca(b).elements())
        elif kind == 'range':
            par = lambda x: '(%s)' % x if ':' in x else x     # 'C1:A3:D3' would read as (C1:A3):D3
            f = '=SUM(%s:%s)' % (par(ref(a)), par(ref(b)))
            bb = (0, min(a[1], b[1]), max(a[2], b[2]), min(a[3], b[3]), max(a[4], b[4]))
            exp = list(ca(bb))
        elif kind == 'inter-union':
            # an intersection as an operand of a union: when it is empty the whole reference is #NULL!
            f = '=SUM((%s %s,%s))' % (ref(a), ref(b), ref(c))
            common_ab = [p for p in ca(a) if p in ca(b)]
            exp = (common_ab + list(ca(c).elements())) if common_ab else []
        else:
            f = '=SUM((%s,%s) %s)' % (ref(a), ref(b), ref(c))
            exp = [p for p in ca(a) if p in ca(c)] + [p for p in ca(b) if p in ca(c)]
        run.count(1, (kind, a, b, c), True, 'formula/' + kind)
        try:
            fn = Parser().ast(f)[1].compile()
            args = []
            for v in fn.inputs.values():
                args.append(Ranges().pushes([x['name'] for x in v.ranges], [cell_values(canon(x)) for x in v.ranges]))
            res = fn(*args)
            if isinstance(res, Ranges):
                res = res.value
            res = np.asarray(res, object).ravel().tolist()
        except Exception as ex:
            run.violation('formula-level reference expression raised %s' % type(ex).__name__, {'op': 'formula', 'formula': f})
            continue
        if not exp:
            ok = len(res) == 1 and res[0] is Error.errors['#NULL!']
        else:
            ok = len(res) == 1 and not isinstance(res[0], str) and float(res[0]) == float(sum(cellval(*p) for p in exp))
        if not ok:
            rest_only = kind == 'inter-union' and not exp and len(res) == 1 and not isinstance(res[0], str) and \
                float(res[0]) == float(sum(cellval(*p) for p in ca(c).elements()))
            run.violation('formula value is not the sum over exactly the referenced cells' if exp else
                          'a reference with an empty intersection among its operands is not #NULL!',
                          {'op': 'formula', 'kind': kind, 'formula': f, 'impl': repr(res), 'expected_cells': len(exp),
                           'empty_intersection_dropped_from_union': bool(rest_only)})
        if i < 4:
            run.sample({'op': 'formula', 'formula': f, 'impl': repr(res)})


def replay(payload):
    setup_needed = common.import_repo()
    setup()
    case = payload.get('case') or (payload.get('correspondence') or [None])[0]
    print(json_dumps(case))
    if not case:
        print('nothing to replay: the replay names broken theorems only:', payload.get('broken_theorems_or_audit'))
        return 0
    op = case.get('op')
    P = lambda k: [tuple(map(int, x.split(','))) for x in case[k].split(';')] if case.get(k) not in (None, '-') else []
    if op in ('inter', 'split'):
        a = P('a' if op == 'inter' else 'base')[0]; b = P('b' if op == 'inter' else 'rng')[0]
        ra, rb = Ranges().push(ref(a), context=ctx(a)).ranges[0], Ranges().push(ref(b), context=ctx(b)).ranges[0]
        if op == 'inter':
            z = _intersect(ra, rb); print('implementation:', fmt(canon(z)) if z else 'none')
        else:
            print('implementation:', fmts([canon(p) for p in _split(ra, rb)]))
        print('model:', model(['%s %s %s' % (op, fmt(a), fmt(b))])[0])
    elif op in ('and', 'sub', 'bbox', 'or'):
        A, B = P('a'), P('b')
        f = {'and': lambda x, y: x & y, 'sub': lambda x, y: x - y, 'bbox': lambda x, y: x + y, 'or': lambda x, y: x | y}[op]
        try:
            print('implementation:', fmts([canon(x) for x in f(ranges_of(A), ranges_of(B)).ranges]))
        except Exception as ex:
            print('implementation raised', type(ex).__name__)
        if op != 'or':
            print('model:', model(['%s %s %s' % (op, fmts(A), fmts(B))])[0])
    elif op == 'simplify':
        U = P('areas')
        try:
            print('implementation:', fmts([canon(x) for x in ranges_of(U).simplify().ranges]))
        except Exception as ex:
            print('implementation raised', type(ex).__name__)
        print('model:', model(['simplify %d %s' % (maxrow, fmts(U))])[0])
    elif op == 'formula':
        fn = Parser().ast(case['formula'])[1].compile()
        args = [Ranges().pushes([x['name'] for x in v.ranges], [cell_values(canon(x)) for x in v.ranges])
                for v in fn.inputs.values()]
        print('implementation:', fn(*args))
    print('failed predicate:', case.get('what'))
    return 0


def json_dumps(x):
    import json
    return json.dumps(x, indent=1, default=str)
