#!/venv/bin/python
"""bin/check <ID> [--tier quick|thorough] [--replay path]  — entry point of every check."""
import os, sys, json, argparse, importlib, traceback

HERE = os.path.dirname(os.path.abspath(__file__))
sys.path.insert(0, HERE)


def main():
    ap = argparse.ArgumentParser()
    ap.add_argument('pid')
    ap.add_argument('--tier', default=os.environ.get('VERIF_TIER', 'quick'))
    ap.add_argument('--replay')
    ap.add_argument('--no-lean', action='store_true', help='skip the Lean build/audit stage (debugging only)')
    a = ap.parse_args()
    os.environ['VERIF_TIER'] = a.tier
    import common
    try:
        mod = importlib.import_module('checks.' + a.pid.lower())
        if a.replay:
            return mod.replay(json.load(open(a.replay)))
        run = mod.new_run()
        if not a.no_lean:
            run.lean = common.lean_stage(a.pid, thorough=(a.tier == 'thorough'))
        else:
            common.lean_stage_driver_only() if hasattr(common, 'lean_stage_driver_only') else None
        common.import_repo()
        search = mod.check(run)
        return run.finish(search)
    except common.HarnessError as ex:
        print('HARNESS-ERROR %s: %s' % (a.pid, ex))
        return 2
    except Exception:
        traceback.print_exc()
        print('HARNESS-ERROR %s: unexpected exception in the harness' % a.pid)
        return 2


if __name__ == '__main__':
    sys.exit(main())
