"""Shared machinery of the checks: repository import, Lean build/audit, model driver,
case bookkeeping, verdict logic and evidence files.  See DESIGN.md §2.4.

Run with /venv/bin/python (it has the repository's third-party dependencies).
"""
import os, sys, re, json, time, random, hashlib, subprocess, fcntl, collections, warnings, traceback

warnings.simplefilter('ignore')

VERIF = os.path.dirname(os.path.dirname(os.path.abspath(__file__)))
REPO = os.environ.get('VERIF_REPO', '/repo')
LEAN = os.path.join(VERIF, 'lean')
DRIVER = os.path.join(LEAN, '.lake', 'build', 'bin', 'xldriver')
EVIDENCE = os.path.join(VERIF, 'evidence')
REPLAYS = os.path.join(EVIDENCE, 'replays')
ACCEPTED_AXIOMS = {'propext', 'Classical.choice', 'Quot.sound'}
BANNED = ['sorry', 'admit', 'native_decide', 'bv_decide', 'implemented_by', 'unsafe ', 'maxHeartbeats 0']


def import_repo():
    """import `formulas` from the repository under check, never an installed copy"""
    if sys.path[0] != REPO:
        sys.path.insert(0, REPO)
    import formulas
    root = os.path.abspath(REPO) + os.sep
    assert os.path.abspath(formulas.__file__).startswith(root), \
        'formulas imported from %s, expected under %s' % (formulas.__file__, REPO)
    return formulas


# --------------------------------------------------------------------------------------
# Lean side
# --------------------------------------------------------------------------------------
class Lock:
    def __enter__(self):
        self.f = open(os.path.join(LEAN, '.build.lock'), 'w')
        fcntl.flock(self.f, fcntl.LOCK_EX)
        return self

    def __exit__(self, *a):
        fcntl.flock(self.f, fcntl.LOCK_UN)
        self.f.close()


def _run(cmd, cwd=None, timeout=3600, input=None, env=None):
    p = subprocess.run(cmd, cwd=cwd, capture_output=True, text=True, timeout=timeout, input=input, env=env)
    return p.returncode, p.stdout + p.stderr


def strip_comments(src):
    """remove Lean block (nested) and line comments, keep string literals"""
    out, i, depth, n = [], 0, 0, len(src)
    in_str = False
    while i < n:
        c = src[i]
        if depth == 0 and in_str:
            out.append(c)
            if c == '\\' and i + 1 < n:
                out.append(src[i + 1]); i += 2; continue
            if c == '"':
                in_str = False
            i += 1; continue
        if src.startswith('/-', i):
            depth += 1; i += 2; continue
        if depth and src.startswith('-/', i):
            depth -= 1; i += 2; continue
        if depth:
            i += 1; continue
        if src.startswith('--', i):
            while i < n and src[i] != '\n':
                i += 1
            continue
        if c == '"':
            in_str = True
        out.append(c); i += 1
    return ''.join(out)


def scan_sources():
    """textual scan of lean/**/*.lean for constructs that are not allowed (DESIGN §2.4 step 3)"""
    bad = []
    for root, dirs, files in os.walk(LEAN):
        if '.lake' in root:
            continue
        for fn in files:
            if not fn.endswith('.lean'):
                continue
            path = os.path.join(root, fn)
            src = strip_comments(open(path).read())
            for tok in BANNED:
                if tok in src:
                    bad.append('%s: %s' % (os.path.relpath(path, LEAN), tok.strip()))
            if re.search(r'(?m)^\s*axiom\s', src):
                bad.append('%s: axiom' % os.path.relpath(path, LEAN))
            if re.search(r'\bpartial\s+def\b', src) and fn != 'Driver.lean':
                bad.append('%s: partial def' % os.path.relpath(path, LEAN))
    return bad


def property_theorems(pid):
    """names of the theorems of XL/Props/<pid>.lean, fully qualified"""
    path = os.path.join(LEAN, 'XL', 'Props', pid + '.lean')
    src = strip_comments(open(path).read())
    ns = re.search(r'(?m)^namespace\s+(\S+)', src)
    ns = ns.group(1) if ns else ''
    names = re.findall(r'(?m)^\s*(?:private\s+)?theorem\s+(\S+)', src)
    return [(ns + '.' + n) if ns else n for n in names], path


def theorem_at(path, line):
    """name of the theorem/example enclosing a source line (for build error reports)"""
    name = None
    for i, l in enumerate(open(path).read().split('\n'), 1):
        m = re.match(r'\s*(?:private\s+)?(theorem|lemma|example|def|instance)\s*(\S*)', l)
        if m:
            cand = m.group(2) if m.group(1) != 'example' else 'example@%d' % i
            if i <= line:
                name = cand
    return name


class LeanResult:
    def __init__(self):
        self.tables_changed = False
        self.driver_ok = False
        self.build_ok = False
        self.build_errors = []      # [(file, line, theorem, message)]
        self.theorems = []
        self.axioms = {}            # theorem -> [axioms]
        self.audit_bad = []         # theorem names with foreign axioms / missing
        self.scan_bad = []
        self.log = ''

    @property
    def discharged(self):
        if not self.build_ok or self.scan_bad:
            broken = {e[2] for e in self.build_errors}
            if not self.build_ok and not broken:
                return 0
            return len([t for t in self.theorems if t.split('.')[-1] not in broken
                        and t in self.axioms and t not in self.audit_bad]) if self.axioms else 0
        return len([t for t in self.theorems if t in self.axioms and t not in self.audit_bad])

    @property
    def ok(self):
        return self.driver_ok and self.build_ok and not self.audit_bad and not self.scan_bad

    def broken_names(self):
        names = [e[2] for e in self.build_errors if e[2]] + list(self.audit_bad) + self.scan_bad
        return sorted(set(names)) or (['lake build'] if not self.build_ok else [])


def lean_stage(pid, thorough=False):
    """regenerate tables from /repo, build the driver and the property module, audit axioms"""
    res = LeanResult()
    with Lock():
        env = dict(os.environ, VERIF_REPO=REPO)
        rc, out = _run(['/venv/bin/python', os.path.join(VERIF, 'harness', 'gen_tables.py')], env=env)
        res.log += out
        if rc != 0:
            raise HarnessError('gen_tables failed:\n' + out)
        res.tables_changed = 'generated-tables changed' in out
        rc, out = _run(['lake', 'build', 'xldriver'], cwd=LEAN)
        res.log += out
        res.driver_ok = rc == 0 and os.path.exists(DRIVER)
        if not res.driver_ok:
            raise HarnessError('model driver does not build:\n' + out[-3000:])
        res.theorems, ppath = property_theorems(pid)
        rc, out = _run(['lake', 'build', 'XL.Props.' + pid], cwd=LEAN)
        res.log += out
        res.build_ok = rc == 0
        if not res.build_ok:
            for m in re.finditer(r'(?m)^error: (\S+\.lean):(\d+):(\d+): (.*)$', out):
                f, line = m.group(1), int(m.group(2))
                fp = f if os.path.isabs(f) else os.path.join(LEAN, f)
                res.build_errors.append((f, line, theorem_at(fp, line) if os.path.exists(fp) else None, m.group(4)))
            if not res.build_errors:
                for m in re.finditer(r'(?m)^(?:error: )?(\S+\.lean):(\d+):(\d+): error:? (.*)$', out):
                    f, line = m.group(1), int(m.group(2))
                    fp = f if os.path.isabs(f) else os.path.join(LEAN, f)
                    res.build_errors.append((f, line, theorem_at(fp, line) if os.path.exists(fp) else None, m.group(4)))
        res.scan_bad = scan_sources()
        if res.build_ok:
            audit = os.path.join(LEAN, 'Audit', pid + '.lean')
            os.makedirs(os.path.dirname(audit), exist_ok=True)
            text = 'import XL.Props.%s\n' % pid + ''.join('#print axioms %s\n' % t for t in res.theorems)
            if not os.path.exists(audit) or open(audit).read() != text:
                open(audit, 'w').write(text)
            rc, out = _run(['lake', 'env', 'lean', audit], cwd=LEAN)
            res.log += out
            for m in re.finditer(r"'([^']+)' depends on axioms: \[([^\]]*)\]", out.replace('\n', ' ')):
                res.axioms[m.group(1)] = [a.strip() for a in m.group(2).split(',') if a.strip()]
            for m in re.finditer(r"'([^']+)' does not depend on any axioms", out):
                res.axioms[m.group(1)] = []
            for t in res.theorems:
                if t not in res.axioms or set(res.axioms[t]) - ACCEPTED_AXIOMS:
                    res.audit_bad.append(t)
            if thorough:
                mods = ['XL.Props.' + pid]
                rc, out = _run(['lake', 'env', 'leanchecker'] + mods, cwd=LEAN, timeout=3000)
                res.log += out
                res.leanchecker = rc == 0
                if rc != 0:
                    res.audit_bad.append('leanchecker:' + pid)
    return res


class HarnessError(Exception):
    pass


def model(lines, timeout=600):
    """answers of the executable model to request lines"""
    if not lines:
        return []
    data = '\n'.join(lines) + '\n'
    p = subprocess.run([DRIVER], input=data, capture_output=True, text=True, timeout=timeout)
    if p.returncode != 0:
        raise HarnessError('xldriver failed: ' + p.stderr[-2000:])
    out = p.stdout.split('\n')
    if out and out[-1] == '':
        out.pop()
    if len(out) != len(lines):
        raise HarnessError('xldriver answered %d lines for %d requests' % (len(out), len(lines)))
    return out


# --------------------------------------------------------------------------------------
# Known findings
# --------------------------------------------------------------------------------------
def load_findings(pid):
    path = os.path.join(VERIF, 'known_findings.json')
    if not os.path.exists(path):
        return []
    data = json.load(open(path))
    return [f for f in data.get('findings', []) if pid in f.get('properties', [f.get('property')])
            and f.get('status') == 'known']


# --------------------------------------------------------------------------------------
# Run bookkeeping, verdict, evidence
# --------------------------------------------------------------------------------------
class Run:
    """collects what one check run did; `finish()` decides the verdict and writes evidence"""

    def __init__(self, pid, rule, signatures=None):
        self.pid = pid
        self.tier = os.environ.get('VERIF_TIER', 'quick')
        self.seed = int(os.environ.get('VERIF_SEED', '0'))
        self.rng = random.Random(self.seed * 1000003 + int(hashlib.sha1(pid.encode()).hexdigest()[:6], 16))
        self.rule = rule
        self.t0 = time.time()
        self.evaluations = 0
        self.nontrivial = set()
        self.samples = []
        self.dist = collections.Counter()
        self.violations = []        # property violations with a failing input (not known)
        self.disagreements = []     # model/implementation disagreements on verdict-bearing observables
        self.known_hits = collections.OrderedDict()   # finding id -> first case
        self.findings = load_findings(pid)
        self.signatures = signatures or {}
        self.notes = []
        self.exhaustive = None
        self.extra = {}
        self.lean = None
        self.stale = []

    # -- counting ----------------------------------------------------------------------
    def count(self, n=1, key=None, nontrivial=False, dist=None):
        self.evaluations += n
        if nontrivial and key is not None:
            self.nontrivial.add(hashlib.sha1(repr(key).encode()).digest()[:8])
        if dist is not None:
            self.dist[dist] += n

    def sample(self, case, limit=12):
        if len(self.samples) < limit:
            self.samples.append(case)

    # -- outcomes ------------------------------------------------------------------------
    def matching_finding(self, case):
        for f in self.findings:
            sig = self.signatures.get(f.get('signature'))
            if sig is None:
                continue
            try:
                if sig(case):
                    return f
            except Exception:
                continue
        return None

    def violation(self, what, case):
        """the property fails on the implementation at `case` (a JSON-able dict)"""
        case = dict(case, what=what)
        f = self.matching_finding(case)
        if f is not None:
            self.known_hits.setdefault(f['id'], case)
            return False
        self.violations.append(case)
        return True

    def disagree(self, what, case):
        """model and implementation differ on a verdict-bearing observable"""
        case = dict(case, what=what)
        f = self.matching_finding(case)
        if f is not None:
            self.known_hits.setdefault(f['id'], case)
            return False
        self.disagreements.append(case)
        return True

    def replay_witness(self, fid, still_fails, case):
        """every known finding carries one exact witness replayed on each run"""
        for f in self.findings:
            if f['id'] == fid:
                if still_fails:
                    self.known_hits.setdefault(fid, case)
                else:
                    self.stale.append(fid)

    # -- verdict -------------------------------------------------------------------------
    def write_replay(self, payload):
        os.makedirs(REPLAYS, exist_ok=True)
        h = hashlib.sha1(json.dumps(payload, sort_keys=True, default=str).encode()).hexdigest()[:10]
        path = os.path.join(REPLAYS, '%s-%s.json' % (self.pid, h))
        json.dump(payload, open(path, 'w'), indent=1, sort_keys=True, default=str)
        return os.path.relpath(path, VERIF)

    def finish(self, search=None):
        """verdict logic of DESIGN §2.4 step 6.  `search` is called when a proof obligation or
        the correspondence broke but no failing input is known yet; it may add violations."""
        lean = self.lean
        proof_broken = lean is not None and not lean.ok
        if (proof_broken or self.disagreements) and not self.violations and search is not None:
            self.notes.append('search for a failing input started (proof/correspondence broken)')
            search()
        rc = 0
        lines = []
        for fid, case in self.known_hits.items():
            f = [x for x in self.findings if x['id'] == fid][0]
            lines.append('KNOWN-FINDING: property=%s %s [%s]' % (self.pid, f['what'], fid))
        for fid in self.stale:
            lines.append('NOTE: known finding %s no longer reproduces on its witness (stale entry)' % fid)
        if self.violations:
            v = self.violations[0]
            path = self.write_replay({'property': self.pid, 'kind': 'failing-input', 'case': v,
                                      'more': self.violations[1:6], 'seed': self.seed, 'tier': self.tier,
                                      'broken': lean.broken_names() if proof_broken else [],
                                      'disagreements': self.disagreements[:5]})
            lines.append('VIOLATION property=%s replay=%s' % (self.pid, path))
            rc = 1
        elif proof_broken or self.disagreements:
            broken = lean.broken_names() if proof_broken else []
            payload = {'property': self.pid, 'kind': 'no-failing-input-found',
                       'broken_theorems_or_audit': broken,
                       'build_errors': [list(e) for e in (lean.build_errors if lean else [])][:10],
                       'correspondence': self.disagreements[:10], 'seed': self.seed, 'tier': self.tier}
            path = self.write_replay(payload)
            lines.append('VIOLATION property=%s replay=%s no-failing-input-found' % (self.pid, path))
            rc = 1
        self.write_evidence()
        for l in lines:
            print(l)
        print('%s %s seed=%d evaluations=%d distinct_nontrivial=%d disagreements=%d violations=%d known=%d wall=%.1fs'
              % (self.pid, self.tier, self.seed, self.evaluations, len(self.nontrivial),
                 len(self.disagreements), len(self.violations), len(self.known_hits), time.time() - self.t0))
        return rc

    def write_evidence(self):
        lean = self.lean
        cov = collections.OrderedDict()
        if lean is not None:
            cov['obligations'] = len(lean.theorems)
            cov['discharged'] = lean.discharged
            cov['checker_cmd'] = ('cd lean && lake build XL.Props.%s && lake env lean Audit/%s.lean  '
                                  '(#print axioms on every property theorem; source scan for sorry/axiom/native_decide)'
                                  % (self.pid, self.pid)) + ('; lake env leanchecker XL.Props.%s' % self.pid
                                                             if self.tier == 'thorough' else '')
            axs = sorted({a for v in lean.axioms.values() for a in v})
            cov['trusted_base'] = [
                'Lean 4 kernel' + (' + leanchecker re-check' if self.tier == 'thorough' else ''),
                'axioms used by the property theorems: ' + (', '.join(axs) or 'none'),
                'harness/gen_tables.py (tables regenerated from /repo this run: %s)' % ('changed' if lean.tables_changed else 'unchanged'),
                'correspondence harness (adapters, canonicalisation, generators) run against /repo in-process',
                'Lean compiler/runtime for the xldriver executable model',
            ] + self.extra.get('trusted_base', [])
            cov['theorems'] = {t: lean.axioms.get(t) for t in lean.theorems}
        cov['evaluations'] = self.evaluations
        cov['distinct_nontrivial'] = len(self.nontrivial)
        cov['rule'] = self.rule
        cov['samples'] = self.samples or ['(no case recorded)']
        if self.exhaustive is not None:
            cov['exhaustive'] = bool(self.exhaustive)
        cov['distribution'] = dict(sorted(self.dist.items(), key=lambda kv: str(kv[0])))
        cov['disagreements'] = len(self.disagreements)
        cov['known_findings_hit'] = list(self.known_hits)
        if self.notes:
            cov['notes'] = self.notes
        for k, v in self.extra.items():
            if k != 'trusted_base':
                cov[k] = v
        ev = collections.OrderedDict(
            property_id=self.pid, tier=self.tier, seed=self.seed, level='proof', coverage=cov,
            assumptions=self.extra.get('assumptions', []) + [
                'the model is tied to the code by differential testing on the cases counted here, not by proof',
            ],
            wall_s=round(time.time() - self.t0, 2), violations=len(self.violations))
        os.makedirs(EVIDENCE, exist_ok=True)
        json.dump(ev, open(os.path.join(EVIDENCE, self.pid + '.json'), 'w'), indent=1, default=str)


def jsonable(x):
    try:
        json.dumps(x)
        return x
    except Exception:
        return repr(x)
