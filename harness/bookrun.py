"""Running abstract workbooks (bookgen.WB) on the implementation and on the Lean model."""
import os, math, struct, json, shutil, tempfile, subprocess, sys
import numpy as np
import bookgen
from bookgen import enc, dec, Err, BLANK


def setup():
    import logging
    logging.disable(logging.CRITICAL)      # the library logs a traceback for every unimplemented function / missing file
    global ExcelModel, XlError, Error, EMPTY, Ranges, sh
    import schedula as sh
    import formulas
    from formulas import ExcelModel
    from formulas.tokens.operand import XlError, Error
    from formulas.ranges import Ranges
    EMPTY = sh.EMPTY


def wire_impl(v):
    """canonical wire form of a value computed by the implementation (None: a foreign object)"""
    if isinstance(v, np.ndarray) and v.size == 1:
        v = v.ravel()[0]          # 0-d and 1x1 arrays are unwrapped (DESIGN §2.2)
    if isinstance(v, np.generic):
        v = v.item()
    if v is EMPTY:
        return '_'
    if isinstance(v, XlError):
        return 'x' + str.__str__(v)       # XlCircular prints as '0'; its identity is '#CIRC!'
    if isinstance(v, bool):
        return 'b1' if v else 'b0'
    if isinstance(v, str):
        return 't' + enc(v)
    if isinstance(v, (int, float)):
        f = float(v)
        if math.isnan(f) or math.isinf(f):
            return None
        return 'n%x' % struct.unpack('<Q', struct.pack('<d', f))[0]
    return None


def show(w):
    if w is None:
        return 'foreign-object'
    if w.startswith('n') and w != 'nNaN':
        return repr(struct.unpack('<d', struct.pack('<Q', int(w[1:], 16)))[0])
    if w.startswith('t'):
        return repr(dec(w[1:]))
    return w


def to_impl_value(v):
    """an abstract value as the implementation takes it as an input"""
    if v is BLANK:
        return EMPTY
    if isinstance(v, Err):
        return Error.errors[str(v)]
    return v


def solution_values(wb, sol):
    """{(s, r, c): wire value} of every populated address, read from a dispatcher solution"""
    out = {}
    for (s, r, c), cont in wb.cells.items():
        if cont[0] == 'a':
            key = wb.key(s, r, c, cont[1], cont[2])
            val = sol.get(key)
            arr = np.asarray(val.value, object) if val is not None and hasattr(val, 'value') else None
            for i in range(cont[1]):
                for j in range(cont[2]):
                    try:
                        out[(s, r + i, c + j)] = wire_impl(arr[i, j])
                    except Exception:
                        out[(s, r + i, c + j)] = 'missing'
        else:
            key = wb.key(s, r, c)
            val = sol.get(key)
            try:
                out[(s, r, c)] = wire_impl(np.asarray(val.value, object)[0, 0])
            except Exception:
                out[(s, r, c)] = 'missing'
    return out


def calc_dict(wb, order=None, inputs=None, outputs=None):
    m = ExcelModel().from_dict(wb.to_dict(order))
    sol = m.calculate(inputs=inputs, outputs=outputs) if (inputs or outputs) else m.calculate()
    return m, sol


def calc_xlsx(wb, dirpath):
    paths = wb.to_xlsx(dirpath)
    m = ExcelModel().loads(*paths).finish()
    return m, m.calculate()
