"""Rewrite the table of DESIGN.md §9.8 (between the seeded-table markers) from seeded/*/meta.json and result.json."""
import json, os, re
V = os.path.dirname(os.path.dirname(os.path.abspath(__file__)))
rows = []
for d in sorted(os.listdir(os.path.join(V, 'seeded'))):
    mp = os.path.join(V, 'seeded', d, 'meta.json')
    rp = os.path.join(V, 'seeded', d, 'result.json')
    if not os.path.exists(mp):
        continue
    m = json.load(open(mp))
    r = json.load(open(rp)) if os.path.exists(rp) else {'checks': {}}
    summ = (m.get('summary') or '').replace('|', '/').replace('\n', ' ')
    summ = summ if len(summ) < 230 else summ[:227] + '…'
    det = [k for k, v in r['checks'].items() if v['detected']]
    miss = [k for k, v in r['checks'].items() if not v['detected']]
    fv = ''
    for k in det:
        fv = (r['checks'][k]['first_violation'] or '').replace('|', '/')[:110]
        break
    rows.append('| `%s` | %s | %s%s | %s |' % (d, summ, ', '.join(det) or '—', (' (not by ' + ', '.join(miss) + ')') if miss else '', fv))
head = '| change | what it does (agent\'s summary) | caught by (quick tier) | first violation reported |\n|---|---|---|---|\n'
p = os.path.join(V, 'DESIGN.md')
s = open(p).read()
a, b = '<!-- seeded-table-begin -->\n', '<!-- seeded-table-end -->\n'
s = s[:s.index(a) + len(a)] + head + '\n'.join(rows) + '\n' + s[s.index(b):]
open(p, 'w').write(s)
print(len(rows), 'rows')
