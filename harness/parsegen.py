"""Formula trees, their spellings and their fully parenthesised rendering — the generator and the
independent oracle shared by the C01, C09 and C18 checks.

A tree is a tuple:
  ('num', text) ('str', text) ('bool', text) ('err', text) ('ref', text) ('name', text)
  ('empty',)
  ('un', '-'|'+', t)        prefix sign
  ('post', t)               percent
  ('bin', op, l, r)         the 12 value operators
  ('rng', op, l, r)         reference operators ' ' ',' ':' on reference operands
  ('call', NAME, [args])    arguments may be ('empty',)
  ('arr', [[t, ...], ...])  array literal, rows of equal length

`render` is the rendering the property prescribes (binary operations in parentheses, unary sign and
`%` bare, NAME(a, b), ARRAY(ARRAY(..), ..)); `spell` produces a concrete text under a decoration.
The grammar's binding strengths (the property's own list) are used to decide where parentheses
are needed — they are NOT read from the implementation.
"""
import random

# the property's order: comparisons < & < + - < * / < ^ < % (postfix) < unary sign
RANK = {'=': 1, '<': 1, '>': 1, '<=': 1, '>=': 1, '<>': 1, '&': 2, '+': 3, '-': 3, '*': 4, '/': 4, '^': 5}
R_POST, R_UN, R_RNG, R_ATOM = 6, 7, 8, 9
BINOPS = list(RANK)
FUNCS = ['SUM', 'IF', 'MAX', 'MIN', 'AND', 'OR', 'NOT', 'ABS', 'IFERROR', 'COUNT', 'CONCATENATE', 'AVERAGE', 'ROUND']


def is_ref(t):
    return t[0] in ('ref',) or t[0] == 'rng' or (t[0] == 'err' and t[1].upper() == '#REF!')


def render(t):
    k = t[0]
    if k == 'str':
        return '"%s"' % t[1]
    if k in ('num', 'bool', 'err'):
        return t[1]
    if k in ('ref', 'name'):
        return t[1].replace('$', '').upper()
    if k == 'empty':
        return ''
    if k == 'un':
        return t[1] + render(t[2])
    if k == 'post':
        return render(t[1]) + '%'
    if k == 'bin':
        return '(%s %s %s)' % (render(t[2]), t[1], render(t[3]))
    if k == 'rng':
        return '(%s%s %s)' % (render(t[2]), t[1].strip(' '), render(t[3]))
    if k == 'call':
        return '%s(%s)' % (t[1].upper(), ', '.join(render(a) for a in t[2]))
    if k == 'arr':
        return 'ARRAY(%s)' % ', '.join('ARRAY(%s)' % ', '.join(render(c) for c in row) for row in t[1])
    raise ValueError(t)


def rank(t):
    k = t[0]
    if k == 'bin':
        return RANK[t[1]]
    if k == 'un':
        return R_UN
    if k == 'post':
        return R_POST
    if k == 'rng':
        return R_RNG
    return R_ATOM


def count_ops(t):
    k = t[0]
    if k in ('un',):
        return 1 + count_ops(t[2])
    if k == 'post':
        return 1 + count_ops(t[1])
    if k in ('bin', 'rng'):
        return 1 + count_ops(t[2]) + count_ops(t[3])
    if k == 'call':
        return 1 + sum(count_ops(a) for a in t[2])
    if k == 'arr':
        return 1 + sum(count_ops(c) for row in t[1] for c in row)
    return 0


class Decor:
    """choices a spelling makes at every node: redundant parentheses, blanks, letter case"""

    def __init__(self, rnd=None, extra_parens=0.0, blanks=0.0, case=0.0, dollars=0.0):
        self.rnd, self.extra_parens, self.blanks, self.case, self.dollars = rnd, extra_parens, blanks, case, dollars

    def p(self, prob):
        return self.rnd is not None and self.rnd.random() < prob

    def ws(self):
        return ' ' * self.rnd.randint(1, 2) if self.p(self.blanks) else ''

    def recase(self, s):
        if not self.p(self.case):
            return s
        return self.rnd.choice([s.lower(), s.upper(), s.capitalize(), s.swapcase()])


MINIMAL = Decor()


def spell(t, d=MINIMAL, ctx=0, right_of=None):
    """text of tree `t` in a context that needs binding strength > ctx ... see `need_parens`"""
    s = _spell(t, d)
    if need_parens(t, ctx, right_of) or (d.p(d.extra_parens) and t[0] != 'empty'):
        s = '(' + d.ws() + s + d.ws() + ')'
    return s


def need_parens(t, ctx, right_of):
    """parentheses are needed when the tree binds more weakly than its context demands; for the right
    operand of a binary operator of the same rank too (operators group left to right)"""
    r = rank(t)
    if r < ctx:
        return True
    if r == ctx and right_of == 'right' and t[0] in ('bin', 'rng'):
        return True
    return False


def _spell(t, d):
    k = t[0]
    if k == 'str':
        return '"%s"' % t[1]
    if k == 'num':
        return t[1]
    if k == 'bool':
        return d.recase(t[1])
    if k == 'err':
        if t[1].upper() == '#REF!' and d.p(0.3):
            # what Excel leaves of a reference to a deleted sheet: the error literal swallows the cell part
            return d.recase(t[1]) + d.recase(d.rnd.choice(['A1', '$B$2', 'C3:D4', '$A$1:$B$2', 'A:B', '$C:$D', '1:2', '$3:$4', 'XFD1048576']))
        return t[1]
    if k == 'ref':
        s = t[1]
        if d.p(d.dollars):
            s = ''.join(('$' + c if (c.isalpha() and (i == 0 or not s[i - 1].isalpha())) or
                         (c.isdigit() and (i == 0 or not s[i - 1].isdigit())) else c) for i, c in enumerate(s) if c != '$')
        return d.recase(s)
    if k == 'name':
        return d.recase(t[1])
    if k == 'empty':
        return ''
    if k == 'un':
        # the operand of a sign is an atom, a percent, a call or parenthesised: '-2^2' is '(-2)^2'
        inner = spell(t[2], d, R_UN + 1)
        if inner[:1] in '+-' and not getattr(d, 'sign_runs', False):
            inner = '(' + inner + ')'          # keep signs apart: sign runs are a separate stream
        return t[1] + inner
    if k == 'post':
        return spell(t[1], d, R_POST, None) + d.ws() + '%'
    if k == 'bin':
        r = RANK[t[1]]
        left = spell(t[2], d, r, 'left')
        right = spell(t[3], d, r, 'right')
        if t[1] in '+-' and right[:1] in '+-' and not getattr(d, 'sign_runs', False):
            right = '(' + right + ')'
        return left + d.ws() + t[1] + d.ws() + right
    if k == 'rng':
        op = t[1]
        left = spell(t[2], d, R_RNG, 'left')
        right = spell(t[3], d, R_RNG, 'right')
        if op == ' ':
            return left + ' ' + d.ws() + right
        if op == ',':
            # a union lives inside its own parentheses
            return '(' + left + d.ws() + ',' + d.ws() + right + ')'
        # `X:Y` glued to plain references is one range lexeme: keep the operator apart from them
        if not left.endswith(')'):
            left = '(' + left + ')'
        if ':' in right and not right.startswith('('):
            right = '(' + right + ')'
        return left + d.ws() + ':' + d.ws() + right
    if k == 'call':
        args = [spell(a, d, 0) for a in t[2]]
        return d.recase(t[1]) + '(' + d.ws() + (d.ws() + ',' + d.ws()).join(args) + d.ws() + ')'
    if k == 'arr':
        return '{' + (d.ws() + ';' + d.ws()).join((d.ws() + ',' + d.ws()).join(spell(c, d, 0) for c in row) for row in t[1]) + '}'
    raise ValueError(t)


# ---- generators -------------------------------------------------------------------------------------------
def atom(rnd, refs_only=False):
    if refs_only:
        return ('ref', rnd.choice(['A1', 'B2', 'C3', 'A1:B2', 'B1:C3', 'D4:E5', 'Z9', 'AA10', 'A:B', '1:2']))
    k = rnd.random()
    if k < 0.35:
        return ('num', rnd.choice(['1', '2', '3', '10', '0.5', '2.50', '.5', '1E+2', '1.5E-3', '007', '100']))
    if k < 0.55:
        return ('ref', rnd.choice(['A1', 'B2', 'C3', 'AA10', 'XFC100', 'A1:B2', 'C1:D4']))
    if k < 0.65:
        return ('str', rnd.choice(['a', 'abc', '', 'a b', 'x""y', '1', '(', ',', '+', 'TRUE']))
    if k < 0.75:
        return ('bool', rnd.choice(['TRUE', 'FALSE']))
    if k < 0.85:
        return ('name', rnd.choice(['rate', 'my_name', 'x.y', 'Total1', '_p']))
    return ('err', rnd.choice(['#N/A', '#DIV/0!', '#VALUE!', '#REF!', '#NAME?', '#NUM!', '#NULL!']))


def gen_tree(rnd, depth, allow_sign_nest=False):
    if depth <= 0 or rnd.random() < 0.18:
        return atom(rnd)
    k = rnd.random()
    if k < 0.50:
        return ('bin', rnd.choice(BINOPS), gen_tree(rnd, depth - 1), gen_tree(rnd, depth - 1))
    if k < 0.60:
        sub = gen_tree(rnd, depth - 1)
        if sub[0] == 'un' and not allow_sign_nest:
            sub = ('post', sub) if rnd.random() < 0.5 else atom(rnd)
        return ('un', rnd.choice('-+'), sub)
    if k < 0.68:
        sub = gen_tree(rnd, depth - 1)
        if sub[0] == 'post':      # '5%%' is valid Excel but rejected by the code (documented deviation)
            sub = sub[1]
        return ('post', sub)
    if k < 0.86:
        n = rnd.choice([0, 1, 1, 2, 2, 3, 4, 5])
        args = [gen_tree(rnd, depth - 1) if rnd.random() > 0.15 else ('empty',) for _ in range(n)]
        if len(args) == 1 and args[0] == ('empty',):
            args = []
        return ('call', rnd.choice(FUNCS), args)
    if k < 0.93:
        rows, cols = rnd.randint(1, 3), rnd.randint(1, 3)
        cell = lambda: rnd.choice([('num', '1'), ('num', '2.5'), ('str', 'a'), ('bool', 'TRUE'), ('err', '#N/A'),
                                   ('un', '-', ('num', '3'))])
        return ('arr', [[cell() for _ in range(cols)] for _ in range(rows)])
    op = rnd.choice([' ', ',', ':'])
    l = atom(rnd, True) if rnd.random() < 0.7 else ('rng', rnd.choice([' ', ',']), atom(rnd, True), atom(rnd, True))
    r = atom(rnd, True)
    if op == ':' and l[0] == 'ref':
        # `A1:B2` between two plain references is one range token, not an operator application
        l = ('rng', rnd.choice([' ', ',']), l, atom(rnd, True))
    return ('rng', op, l, r)


def has_adjacent_signs(text):
    """a sign directly after another sign or after a binary +/- (only blanks between)"""
    prev = None
    for c in text:
        if c == ' ':
            continue
        if c in '+-' and prev is not None and prev in '+-':
            return True
        prev = c
    return False
