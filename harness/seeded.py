"""Run the checks against a seeded change: `harness/seeded.py <seeded-dir> [ID ...] [--tier quick]`.

Applies `<seeded-dir>/patch.diff` to /repo (git apply), runs `bin/check <ID> --tier <tier>` for the
listed properties (default: the property named in meta.json), records exit codes and VIOLATION lines in
`<seeded-dir>/result.json`, and restores /repo (`git checkout -- .`) whatever happens.  Never commits.
"""
import sys, os, json, subprocess, time

VERIF = os.path.dirname(os.path.dirname(os.path.abspath(__file__)))
REPO = os.environ.get('VERIF_REPO', '/repo')


def sh(cmd, **kw):
    return subprocess.run(cmd, capture_output=True, text=True, **kw)


def main():
    args = [a for a in sys.argv[1:] if not a.startswith('--')]
    tier = 'quick'
    if '--tier' in sys.argv:
        tier = sys.argv[sys.argv.index('--tier') + 1]
        args = [a for a in args if a != tier]
    d = os.path.abspath(args[0])
    meta = json.load(open(os.path.join(d, 'meta.json')))
    ids = args[1:] or [meta['property']]
    st = sh(['git', '-C', REPO, 'status', '--porcelain', '--untracked-files=no']).stdout.strip()
    if st:
        print('refusing: /repo has local changes:\n' + st)
        return 2
    patch = os.path.join(d, 'patch.diff')
    p = sh(['git', '-C', REPO, 'apply', '--whitespace=nowarn', patch])
    if p.returncode != 0:
        print('patch does not apply:', p.stderr)
        return 2
    out = {'patch': os.path.relpath(patch, VERIF), 'tier': tier, 'checks': {}}
    try:
        for pid in ids:
            t0 = time.time()
            r = sh([os.path.join(VERIF, 'bin', 'check'), pid, '--tier', tier], cwd=VERIF)
            lines = [l for l in (r.stdout + r.stderr).splitlines() if l.startswith('VIOLATION') or l.startswith('HARNESS-ERROR')]
            replay_what = None
            for l in lines:
                if 'replay=' in l:
                    path = l.split('replay=')[1].split()[0]
                    try:
                        pl = json.load(open(os.path.join(VERIF, path)))
                        c = pl.get('case') or (pl.get('correspondence') or [{}])[0]
                        replay_what = (c.get('what') or str(pl.get('broken_theorems_or_audit')))[:300]
                    except Exception as ex:
                        replay_what = 'unreadable replay: %s' % ex
            out['checks'][pid] = {'exit': r.returncode, 'detected': r.returncode == 1 and bool(lines), 'lines': lines[:3],
                                  'first_violation': replay_what, 'seconds': round(time.time() - t0, 1),
                                  'summary': (r.stdout.strip().splitlines() or [''])[-1][:200]}
            print(pid, 'exit', r.returncode, 'DETECTED' if out['checks'][pid]['detected'] else 'not detected', '|', replay_what)
    finally:
        sh(['git', '-C', REPO, 'checkout', '--', '.'])
    json.dump(out, open(os.path.join(d, 'result.json'), 'w'), indent=1)
    return 0


if __name__ == '__main__':
    sys.exit(main())
