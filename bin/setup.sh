#!/bin/sh
# MANIFEST.setup_cmd: build the framework offline from files on disk only.
# 1. regenerate XL/Generated from /repo (tie a); 2. lake build everything (model, proofs, driver).
HERE="$(cd "$(dirname "$0")/.." && pwd)"
cd "$HERE" || exit 2
export PYTHONWARNINGS=ignore
/venv/bin/python harness/gen_tables.py || exit 2
cd lean || exit 2
lake build 2>&1 | grep -v "^⚠\|warning:\|^$\|Hint:\|\[apply\]\|^Note:\|^  " | tail -40
lake build >/dev/null 2>&1 || { echo "setup: lake build failed"; exit 2; }
test -x .lake/build/bin/xldriver || { echo "setup: xldriver missing"; exit 2; }
echo "setup: ok"
