import XL.Model.Rect
import XL.Model.Proto
import XL.Model.Dispatch
import XL.Proofs.Rect
import XL.Proofs.Merge
import XL.Props.C06
