import XL.Model.Dispatch
/-! `xldriver`: one request per line on stdin, one canonical answer per line on stdout. -/
partial def loop (i o : IO.FS.Stream) : IO Unit := do
  let line ← i.getLine
  if line.isEmpty then return ()
  o.putStrLn (XL.answer line)
  loop i o
def main : IO Unit := do loop (← IO.getStdin) (← IO.getStdout)
