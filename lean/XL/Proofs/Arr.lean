import XL.Model.Arr
/-!
# Proofs about broadcasting (`mapN`, `map2`) and fitting (`fit`)
-/
namespace XL

/-- element `(i, j)` of an array (`d` outside) -/
def Arr.at {α} (a : Arr α) (d : α) (i j : Nat) : α := (a.getD i []).getD j d

theorem tabulate_at {α} (R C : Nat) (f : Nat → Nat → α) (d : α) (i j : Nat) (hi : i < R) (hj : j < C) :
    (tabulate R C f).at d i j = f i j := by
  simp [Arr.at, tabulate, List.getD_eq_getElem?_getD, hi, hj]

theorem tabulate_nrows {α} (R C : Nat) (f : Nat → Nat → α) : (tabulate R C f).nrows = R := by
  simp [tabulate, Arr.nrows]

theorem tabulate_ncols {α} (R C : Nat) (f : Nat → Nat → α) (hR : 0 < R) : (tabulate R C f).ncols = C := by
  cases R with
  | zero => omega
  | succ n => simp [tabulate, Arr.ncols, List.range_succ_eq_map]

theorem tabulate_wf {α} (R C : Nat) (f : Nat → Nat → α) (hR : 0 < R) (hC : 0 < C) : (tabulate R C f).WF := by
  refine ⟨by rw [tabulate_nrows]; exact hR, by rw [tabulate_ncols R C f hR]; exact hC, ?_⟩
  intro r hr
  rw [tabulate_ncols R C f hR]
  simp only [tabulate, List.mem_map, List.mem_range] at hr
  obtain ⟨i, _, rfl⟩ := hr
  simp

/-! ### how an operand stretches -/

/-- a scalar (1×1) gives its element everywhere -/
theorem bget_scalar {α} (a d : α) (i j : Nat) : Arr.bget [[a]] d i j = a := by
  simp [Arr.bget, Arr.nrows, Arr.ncols]

/-- a single row repeats along the rows -/
theorem bget_row {α} (row : List α) (d : α) (i j : Nat) (h : row.length ≠ 1) :
    Arr.bget [row] d i j = row.getD j d := by
  simp [Arr.bget, Arr.nrows, Arr.ncols, h]

/-- a single column repeats along the columns -/
theorem bget_col {α} (a : Arr α) (d : α) (i j : Nat) (hr : a.nrows ≠ 1) (hc : a.ncols = 1) :
    a.bget d i j = a.at d i 0 := by
  simp [Arr.bget, Arr.at, hr, hc]

/-- a full array is read where it is -/
theorem bget_full {α} (a : Arr α) (d : α) (i j : Nat) (hr : a.nrows ≠ 1) (hc : a.ncols ≠ 1) :
    a.bget d i j = a.at d i j := by
  simp [Arr.bget, Arr.at, hr, hc]

/-! ### broadcasting of shapes -/

theorem bdim_some (m n k : Nat) : bdim m n = some k ↔ (m = n ∧ k = m) ∨ (m ≠ n ∧ m = 1 ∧ k = n) ∨ (m ≠ n ∧ m ≠ 1 ∧ n = 1 ∧ k = m) := by
  unfold bdim
  split
  · rename_i h; subst h; constructor
    · intro h; left; exact ⟨rfl, (Option.some.inj h).symm⟩
    · rintro (⟨_, h⟩ | ⟨h, _⟩ | ⟨h, _⟩)
      · rw [h]
      · exact absurd rfl h
      · exact absurd rfl h
  · rename_i hne
    split
    · rename_i h1; constructor
      · intro h; right; left; exact ⟨hne, h1, (Option.some.inj h).symm⟩
      · rintro (⟨h, _⟩ | ⟨_, _, h⟩ | ⟨_, h, _⟩)
        · exact absurd h hne
        · rw [h]
        · exact absurd h1 h
    · rename_i h1
      split
      · rename_i h2; constructor
        · intro h; right; right; exact ⟨hne, h1, h2, (Option.some.inj h).symm⟩
        · rintro (⟨h, _⟩ | ⟨_, h, _⟩ | ⟨_, _, _, h⟩)
          · exact absurd h hne
          · exact absurd h h1
          · rw [h]
      · rename_i h2; constructor
        · intro h; cases h
        · rintro (⟨h, _⟩ | ⟨_, h, _⟩ | ⟨_, _, h, _⟩)
          · exact absurd h hne
          · exact absurd h h1
          · exact absurd h h2

/-- two operands are compatible iff, in each dimension, the sizes are equal or one of them is 1;
the result has the larger size -/
theorem bshape_pair (r1 c1 r2 c2 R C : Nat) :
    bshape [(r1, c1), (r2, c2)] = some (R, C) ↔ bdim r1 r2 = some R ∧ bdim c1 c2 = some C := by
  have h1 : ∀ n, bdim n 1 = some n := by
    intro n; unfold bdim; by_cases h : n = 1 <;> simp [h]
  simp only [bshape, h1]
  cases hr : bdim r1 r2 <;> cases hc : bdim c1 c2 <;> simp

/-! ### the element-wise rule -/

/-- **`mapN` is the scalar function position by position**: whatever the number of arguments, the
result has the broadcast shape and element `(i, j)` is `f` of the elements picked from the arguments -/
theorem mapN_pointwise {α γ} (f : List α → γ) (d : α) (dg : γ) (args : List (Arr α)) (R C : Nat)
    (hs : bshape (args.map fun a => (a.nrows, a.ncols)) = some (R, C)) :
    ∃ res, mapN f d args = some res ∧ res.nrows = R ∧
      ∀ i j, i < R → j < C → res.at dg i j = f (args.map fun a => a.bget d i j) := by
  refine ⟨tabulate R C fun i j => f (args.map fun a => a.bget d i j), by simp [mapN, hs], tabulate_nrows _ _ _, ?_⟩
  intro i j hi hj
  exact tabulate_at R C _ dg i j hi hj

/-- incompatible shapes are the `BroadcastError` branch, and only they -/
theorem mapN_none_iff {α γ} (f : List α → γ) (d : α) (args : List (Arr α)) :
    mapN f d args = none ↔ bshape (args.map fun a => (a.nrows, a.ncols)) = none := by
  unfold mapN
  cases bshape (args.map fun a => (a.nrows, a.ncols)) with
  | none => simp
  | some p => obtain ⟨R, C⟩ := p; simp

theorem map2_pointwise {α β γ} (f : α → β → γ) (da : α) (db : β) (dg : γ) (a : Arr α) (b : Arr β) (R C : Nat)
    (hs : bshape [(a.nrows, a.ncols), (b.nrows, b.ncols)] = some (R, C)) :
    ∃ res, map2 f da db a b = some res ∧ res.nrows = R ∧
      ∀ i j, i < R → j < C → res.at dg i j = f (a.bget da i j) (b.bget db i j) := by
  refine ⟨tabulate R C fun i j => f (a.bget da i j) (b.bget db i j), by simp [map2, hs], tabulate_nrows _ _ _, ?_⟩
  intro i j hi hj
  exact tabulate_at R C _ dg i j hi hj

theorem bshape_scalars {α} (extra : List α) :
    bshape ((extra.map fun x => ([[x]] : Arr α)).map fun (a : Arr α) => (a.nrows, a.ncols)) = some (1, 1) := by
  induction extra with
  | nil => rfl
  | cons x xs ih =>
    simp only [List.map_cons, bshape] at ih ⊢
    rw [ih]
    simp [bdim, Arr.nrows, Arr.ncols]

/-- adding arguments that the function ignores does not change the result as long as they are
scalars: **few or very many arguments give the same answer** -/
theorem mapN_extra_scalars {α γ} (f g : List α → γ) (d : α) (args : List (Arr α)) (extra : List α)
    (hfg : ∀ l, g (l ++ extra) = f l) :
    mapN g d (args ++ extra.map fun x => [[x]]) = mapN f d args := by
  have hshape : bshape ((args ++ extra.map fun x => [[x]]).map fun a => (a.nrows, a.ncols)) =
      bshape (args.map fun a => (a.nrows, a.ncols)) := by
    induction args with
    | nil => simpa [bshape] using bshape_scalars extra
    | cons a as ih =>
      simp only [List.cons_append, List.map_cons, bshape]
      rw [ih]
  unfold mapN
  rw [hshape]
  cases bshape (args.map fun a => (a.nrows, a.ncols)) with
  | none => rfl
  | some p =>
    obtain ⟨R, C⟩ := p
    simp only
    congr 1
    have : (fun i j => g ((args ++ extra.map fun x => [[x]]).map fun a => a.bget d i j)) =
        (fun i j => f (args.map fun a => a.bget d i j)) := by
      funext i j
      rw [List.map_append]
      have : (extra.map fun x => [[x]]).map (fun a => Arr.bget a d i j) = extra := by
        rw [List.map_map]
        conv => rhs; rw [← List.map_id extra]
        apply List.map_congr_left
        intro x _
        simp [bget_scalar]
      rw [this]
      exact hfg _
    rw [this]

/-! ### fitting -/

theorem chunks_flatten {α} (C : Nat) : ∀ (v : Arr α), (∀ r ∈ v, r.length = C) → chunks C v.length v.flatten = v
  | [], _ => rfl
  | r :: rest, h => by
    have hr : r.length = C := h r List.mem_cons_self
    have ih := chunks_flatten C rest (fun x hx => h x (List.mem_cons_of_mem _ hx))
    simp only [List.length_cons, chunks, List.flatten_cons]
    rw [List.take_left' hr, List.drop_left' hr, ih]

/-- the rule the property states (`fitSpec`): a scalar fills, a single row / column repeats, surplus is
dropped, unreached cells get `#N/A` — **holds whenever the element counts differ** -/
theorem fit_spec_of_size_ne {α} (na : α) (R C : Nat) (v : Arr α) (h : v.nrows * v.ncols ≠ R * C)
    (i j : Nat) (hi : i < R) (hj : j < C) : (fit na R C v).at na i j = fitSpec na v i j := by
  simp only [fit, h, if_false]
  rw [tabulate_at R C _ na i j hi hj]
  rfl

/-- … **and when the shapes are equal** (the value is stored as it is) -/
theorem fit_same_shape {α} (na : α) (v : Arr α) (hwf : v.WF) : fit na v.nrows v.ncols v = v := by
  simp only [fit, if_true]
  exact chunks_flatten v.ncols v hwf.2.2

theorem fit_spec_same_shape {α} (na : α) (v : Arr α) (hwf : v.WF) (i j : Nat) (hi : i < v.nrows) (hj : j < v.ncols) :
    (fit na v.nrows v.ncols v).at na i j = fitSpec na v i j := by
  rw [fit_same_shape na v hwf]
  simp only [fitSpec, hi, hj, or_true, and_self, if_true, Arr.bget, Arr.at]
  by_cases h1 : v.nrows = 1
  · have : i = 0 := by omega
    subst this
    by_cases h2 : v.ncols = 1
    · have : j = 0 := by omega
      subst this; simp [h1, h2]
    · simp [h1, h2]
  · by_cases h2 : v.ncols = 1
    · have : j = 0 := by omega
      subst this; simp [h1, h2]
    · simp [h1, h2]

end XL
