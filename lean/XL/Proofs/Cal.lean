import XL.Model.Cal
/-!
# Calendar lemmas: civil-from-days and days-from-civil are inverse, for every day number
-/
namespace XL

theorem doe_lt (z : Nat) : doe z < 146097 := by unfold doe; omega

/-- the only non-linear fact of the calendar (year of era from day of era), by `omega` after
splitting on the century -/
theorem doy_ok (d q : Nat) (h3 : d < 146097) (hq : q = (d - d / 1460 + d / 36524 - d / 146096) / 365) :
    365 * q + q / 4 - q / 100 ≤ d ∧ d - (365 * q + q / 4 - q / 100) ≤ 365 ∧ q ≤ 399 ∧
    (d - (365 * q + q / 4 - q / 100) = 365 → q % 4 = 3 ∧ (q % 100 ≠ 99 ∨ q = 399)) := by
  have h4 : d / 146096 = 0 ∨ d / 146096 = 1 := by omega
  have : d / 36524 = 0 ∨ d / 36524 = 1 ∨ d / 36524 = 2 ∨ d / 36524 = 3 ∨ d / 36524 = 4 := by omega
  have hq4 : q / 100 = 0 ∨ q / 100 = 1 ∨ q / 100 = 2 ∨ q / 100 = 3 ∨ q / 100 = 4 := by omega
  rcases h4 with h4 | h4 <;> rcases this with h | h | h | h | h <;> rcases hq4 with g | g | g | g | g <;> omega

theorem doy_bounds (z : Nat) :
    365 * yoe z + yoe z / 4 - yoe z / 100 ≤ doe z ∧ doy z ≤ 365 ∧ yoe z ≤ 399 ∧
    (doy z = 365 → yoe z % 4 = 3 ∧ (yoe z % 100 ≠ 99 ∨ yoe z = 399)) := by
  have h := doy_ok (doe z) (yoe z) (doe_lt z) rfl
  unfold doy
  exact h

theorem mp_le (z : Nat) : mp z ≤ 11 := by
  have := doy_bounds z
  unfold mp; omega

theorem dom_bounds (z : Nat) : (153 * mp z + 2) / 5 ≤ doy z ∧ 1 ≤ dom z ∧ dom z ≤ 31 := by
  have := doy_bounds z
  unfold dom mp; omega

theorem roundtrip (z : Nat) : daysFrom (yy z) (mp z) (dom z) = z := by
  have h2 := doy_bounds z
  have h3 := dom_bounds z
  have hy : yy z / 400 = era z := by unfold yy; omega
  have hm : yy z % 400 = yoe z := by unfold yy; omega
  unfold daysFrom
  rw [hy, hm]
  have hd : (153 * mp z + 2) / 5 + dom z - 1 = doy z := by unfold dom; omega
  rw [hd]
  have : yoe z * 365 + yoe z / 4 - yoe z / 100 + doy z = doe z := by
    unfold doy; omega
  rw [this]
  unfold era doe; omega

/-- every day number is the day number of its own civil date -/
theorem civil_roundtrip (z : Nat) : daysFromCivil (civilY z) (civilM z) (civilD z) = z := by
  have hm := mp_le z
  have := roundtrip z
  unfold daysFromCivil civilY civilM civilD
  by_cases h : mp z < 10
  · simp only [h, if_true]
    have h' : ¬ (mp z + 3 ≤ 2) := by omega
    simp only [h', if_false]
    simpa using this
  · simp only [h, if_false]
    have h' : mp z - 9 ≤ 2 := by omega
    simp only [h', if_true]
    have e1 : yy z + 1 - 1 = yy z := by omega
    have e2 : mp z - 9 + 9 = mp z := by omega
    rw [e1, e2]; exact this

theorem civilM_range (z : Nat) : 1 ≤ civilM z ∧ civilM z ≤ 12 := by
  have := mp_le z
  unfold civilM; split <;> omega

theorem civilD_pos (z : Nat) : 1 ≤ civilD z := (dom_bounds z).2.1

theorem dom_le (z : Nat) :
    (mp z = 0 → dom z ≤ 31) ∧ (mp z = 1 → dom z ≤ 30) ∧ (mp z = 2 → dom z ≤ 31) ∧ (mp z = 3 → dom z ≤ 30) ∧
    (mp z = 4 → dom z ≤ 31) ∧ (mp z = 5 → dom z ≤ 31) ∧ (mp z = 6 → dom z ≤ 30) ∧ (mp z = 7 → dom z ≤ 31) ∧
    (mp z = 8 → dom z ≤ 30) ∧ (mp z = 9 → dom z ≤ 31) ∧ (mp z = 10 → dom z ≤ 31) ∧
    (mp z = 11 → dom z ≤ 29 ∧ (dom z = 29 → doy z = 365)) := by
  have hb := doy_bounds z
  unfold dom mp
  omega

theorem leap_next (q Y : Nat) (hY : Y % 400 = q) (h : q % 4 = 3 ∧ (q % 100 ≠ 99 ∨ q = 399)) :
    isLeap ((Y : Int) + 1) = true := by
  unfold isLeap
  simp only [Bool.and_eq_true, Bool.or_eq_true, beq_iff_eq, bne_iff_ne, ne_eq]
  refine ⟨by omega, ?_⟩
  rcases h.2 with l2 | l2
  · exact Or.inl (by omega)
  · exact Or.inr (by omega)

/-- the civil date of a day number is a real date: its day does not exceed the month length -/
theorem civilD_le (z : Nat) : (civilD z : Int) ≤ daysInMonth (civilY z) (civilM z) := by
  have hb := doy_bounds z
  have hm := mp_le z
  have hdl := dom_le z
  have hyy : yy z % 400 = yoe z := by unfold yy; omega
  have hmp : mp z = 0 ∨ mp z = 1 ∨ mp z = 2 ∨ mp z = 3 ∨ mp z = 4 ∨ mp z = 5 ∨ mp z = 6 ∨ mp z = 7 ∨
      mp z = 8 ∨ mp z = 9 ∨ mp z = 10 ∨ mp z = 11 := by omega
  unfold civilD civilM civilY daysInMonth
  rcases hmp with h | h | h | h | h | h | h | h | h | h | h | h
  all_goals simp only [h] at hdl ⊢
  all_goals try (simp at hdl ⊢; omega)
  -- February of civil year `yy z + 1`
  simp at hdl ⊢
  by_cases hl : doy z = 365
  · have := leap_next (yoe z) (yy z) hyy (hb.2.2.2 hl)
    rw [this]; simp; omega
  · have : dom z ≤ 28 := by
      have := hdl.2; omega
    split <;> omega

end XL

namespace XL

/-! ### Excel serial numbers -/

theorem dateZero_eq : dateZero = 693900 := by decide

theorem yoe_ge_300 (d q : Nat) (h3 : d < 146097) (hq : q = (d - d / 1460 + d / 36524 - d / 146096) / 365)
    (h : 109572 ≤ d) : 300 ≤ q := by
  have h4 : d / 146096 = 0 ∨ d / 146096 = 1 := by omega
  have : d / 36524 = 3 ∨ d / 36524 = 4 := by omega
  rcases h4 with h4 | h4 <;> rcases this with h | h <;> omega

theorem yy_ge_1900 (z : Nat) (h : 693960 ≤ z) : 1900 ≤ yy z := by
  have hd := doe_lt z
  unfold yy era
  by_cases he : 5 ≤ z / 146097
  · omega
  · have he4 : z / 146097 = 4 := by omega
    have : 109572 ≤ doe z := by unfold doe; omega
    have := yoe_ge_300 (doe z) (yoe z) hd rfl this
    omega

theorem civilY_ge_1900 (z : Nat) (h : 693960 ≤ z) : 1900 ≤ civilY z ∧
    (1900 < civilY z ∨ (civilY z = 1900 ∧ 3 ≤ civilM z)) := by
  have := yy_ge_1900 z h
  unfold civilY civilM
  split <;> omega

theorem civilY_le_9999 (z : Nat) (h : z ≤ 3652364) : civilY z ≤ 9999 := by
  have hb := doy_bounds z
  have hd := doe_lt z
  unfold civilY yy era
  by_cases he : z / 146097 ≤ 23
  · split <;> omega
  · have he4 : z / 146097 = 24 := by omega
    have hdoe : doe z ≤ 146036 := by unfold doe; omega
    by_cases hy : yoe z ≤ 398
    · split <;> omega
    · have hy' : yoe z = 399 := by omega
      have : doy z ≤ 305 := by unfold doy; omega
      have : mp z < 10 := by unfold mp; omega
      simp only [this, if_true]; omega

theorem dateNorm_valid (fuel : Nat) (y m d : Int) (hm1 : 1 ≤ m) (hm2 : m ≤ 12) (hd1 : 1 ≤ d)
    (hd2 : d ≤ daysInMonth y m) (hy1 : 1899 < y) (hy2 : y ≤ 9999) :
    dateNorm (fuel + 1) y m d = .ok (y, m, d) := by
  have e : (m - 1) / 12 = 0 := by omega
  unfold dateNorm
  simp only [e, Int.add_zero, Int.zero_mul, Int.sub_zero]
  have h1 : ¬ d ≤ 0 := by omega
  have h2 : ¬ d > daysInMonth y m := by omega
  have h3 : dateInRange y m d = true := by
    unfold dateInRange; simp; left; omega
  simp [h1, hy2, h2, h3]

/-- a serial number after the fictitious leap day converts to a date whose `DATE` is the serial -/
theorem serial_roundtrip_late (fuel : Nat) (n : Int) (h1 : 60 < n) (h2 : n ≤ 2958465) :
    ∃ y m d, int2date 2958465 n = .ok (y, m, d) ∧ xdate (fuel + 1) y m d = .ok n := by
  have hn : ((n.toNat : Nat) : Int) = n := Int.toNat_of_nonneg (by omega)
  have hz : 693960 ≤ dateZero + (n.toNat - 1) ∧ dateZero + (n.toNat - 1) ≤ 3652364 := by
    rw [dateZero_eq]; omega
  refine ⟨civilY (dateZero + (n.toNat - 1)), civilM (dateZero + (n.toNat - 1)), civilD (dateZero + (n.toNat - 1)), ?_, ?_⟩
  · unfold int2date
    have : (60 < n ∧ n ≤ ((2958465 : Nat) : Int)) := ⟨h1, by simpa using h2⟩
    simp only [this, and_self, if_true]
  · generalize hzz : dateZero + (n.toNat - 1) = z at hz ⊢
    obtain ⟨g1, g2⟩ := civilY_ge_1900 z hz.1
    have g3 := civilY_le_9999 z hz.2
    have g4 := civilM_range z
    have g5 := civilD_pos z
    have g6 := civilD_le z
    have hdim28 : (civilY z = 1900 ∧ civilM z = 2) → civilD z ≤ 28 := by
      intro ⟨a, b⟩
      rw [a, b] at g6
      have : daysInMonth ((1900 : Nat) : Int) ((2 : Nat) : Int) = 28 := by decide
      rw [this] at g6; omega
    unfold xdate
    have hs : ¬ (((civilY z : Nat) : Int) = 1900 ∧ ((((civilM z : Nat) : Int) = 2 ∧ ((civilD z : Nat) : Int) = 29) ∨
        (((civilM z : Nat) : Int) = 3 ∧ ((civilD z : Nat) : Int) = 0))) := by
      intro ⟨a, b⟩
      rcases b with ⟨b1, b2⟩ | ⟨b1, b2⟩
      · have := hdim28 ⟨by omega, by omega⟩; omega
      · omega
    simp only [hs, if_false]
    have hy : ¬ (((civilY z : Nat) : Int) < 1900) := by omega
    simp only [hy, if_false]
    rw [dateNorm_valid fuel _ _ _ (by omega) (by omega) (by omega) g6 (by omega) (by omega)]
    simp only [Int.toNat_natCast]
    rw [civil_roundtrip z]
    have hflag : (((civilY z : Nat) : Int) > 1900 ∨ (((civilY z : Nat) : Int) = 1900 ∧ ((civilM z : Nat) : Int) ≥ 3)) := by
      rcases g2 with g | ⟨g, g'⟩
      · left; omega
      · right; omega
    simp only [hflag, if_true]
    rw [← hzz, dateZero_eq]
    congr 1
    omega

end XL
