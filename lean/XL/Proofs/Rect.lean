import XL.Model.Rect
/-!
# Lemmas about the rectangle algebra (`XL.Model.Rect`)
-/
namespace XL

def Disjoint (a b : Rect) : Prop := ∀ p, ¬ (a.mem p ∧ b.mem p)

/-- some area of `l` covers `p` -/
def Covered (l : List Rect) (p : Cell) : Prop := ∃ q ∈ l, q.mem p

theorem covered_nil (p : Cell) : ¬ Covered [] p := by simp [Covered]

theorem covered_cons (r : Rect) (l : List Rect) (p : Cell) :
    Covered (r :: l) p ↔ r.mem p ∨ Covered l p := by simp [Covered]

theorem covered_append (a b : List Rect) (p : Cell) :
    Covered (a ++ b) p ↔ Covered a p ∨ Covered b p := by
  simp only [Covered, List.mem_append]
  constructor
  · rintro ⟨q, hq | hq, hm⟩
    · exact Or.inl ⟨q, hq, hm⟩
    · exact Or.inr ⟨q, hq, hm⟩
  · rintro (⟨q, hq, hm⟩ | ⟨q, hq, hm⟩)
    · exact ⟨q, Or.inl hq, hm⟩
    · exact ⟨q, Or.inr hq, hm⟩

theorem covered_flatMap (l : List Rect) (f : Rect → List Rect) (p : Cell) :
    Covered (l.flatMap f) p ↔ ∃ r ∈ l, Covered (f r) p := by
  simp only [Covered, List.mem_flatMap]
  constructor
  · rintro ⟨q, ⟨r, hr, hq⟩, hm⟩; exact ⟨r, hr, q, hq, hm⟩
  · rintro ⟨r, hr, q, hq, hm⟩; exact ⟨q, ⟨r, hr, hq⟩, hm⟩

/-! ### `_intersect` -/

theorem inter_mem (x y : Rect) (p : Cell) :
    (∃ z, inter x y = some z ∧ z.mem p) ↔ x.mem p ∧ y.mem p := by
  unfold inter Rect.mem
  constructor
  · rintro ⟨z, hz, hm⟩
    split at hz
    · split at hz
      · split at hz
        · cases hz; simp at hm; omega
        · cases hz
      · cases hz
    · cases hz
  · intro h
    have h0 : x.sheet = y.sheet := by omega
    have h1 : max y.c1 x.c1 ≤ min y.c2 x.c2 := by omega
    have h2 : max y.r1 x.r1 ≤ min y.r2 x.r2 := by omega
    simp only [h0, h1, h2, if_true]
    exact ⟨_, rfl, by simp; omega⟩

theorem inter_some (x y z : Rect) (h : inter x y = some z) :
    x.sheet = y.sheet ∧ z.sheet = x.sheet ∧ z.c1 = max y.c1 x.c1 ∧ z.c2 = min y.c2 x.c2 ∧
    z.r1 = max y.r1 x.r1 ∧ z.r2 = min y.r2 x.r2 ∧ z.c1 ≤ z.c2 ∧ z.r1 ≤ z.r2 := by
  unfold inter at h
  split at h
  · split at h
    · split at h
      · cases h; simp; omega
      · cases h
    · cases h
  · cases h

theorem inter_mem' (x y z : Rect) (h : inter x y = some z) (p : Cell) :
    z.mem p ↔ x.mem p ∧ y.mem p := by
  constructor
  · intro hm; exact (inter_mem x y p).mp ⟨z, h, hm⟩
  · intro hm
    obtain ⟨z', hz', hm'⟩ := (inter_mem x y p).mpr hm
    rw [h] at hz'; cases hz'; exact hm'

/-- an empty intersection (`#NULL!`) means exactly: no common cell -/
theorem inter_none (x y : Rect) : inter x y = none ↔ ∀ p, ¬ (x.mem p ∧ y.mem p) := by
  constructor
  · intro h p hp
    obtain ⟨z, hz, _⟩ := (inter_mem x y p).mpr hp
    rw [h] at hz; cases hz
  · intro h
    cases hi : inter x y with
    | none => rfl
    | some z =>
      exfalso
      have hb := inter_some x y z hi
      apply h ⟨x.sheet, z.r1, z.c1⟩
      unfold Rect.mem; simp; omega

theorem inter_wf (x y z : Rect) (h : inter x y = some z) : z.WF := by
  have := inter_some x y z h; unfold Rect.WF; omega

/-! ### `_split` -/

theorem split_cover (base rng : Rect) (hw : rng.WF) (p : Cell) :
    Covered (split base rng) p ↔ rng.mem p ∧ ¬ base.mem p := by
  unfold split Covered
  cases hi : inter base rng with
  | none =>
    have hn := (inter_none base rng).mp hi p
    simp only [List.mem_singleton, exists_eq_left]
    constructor
    · intro h; exact ⟨h, fun hb => hn ⟨hb, h⟩⟩
    · intro h; exact h.1
  | some z =>
    have hz := inter_mem' base rng z hi
    obtain ⟨hs, hzs, hc1, hc2, hr1, hr2, hcc, hrr⟩ := inter_some base rng z hi
    unfold Rect.WF at hw
    simp only [List.mem_append, Rect.mem]
    constructor
    · rintro ⟨q, hq, hm⟩
      rcases hq with ((hq | hq) | hq) | hq
      all_goals (split at hq <;> simp at hq)
      all_goals (subst hq; simp at hm; omega)
    · rintro ⟨hm, hnb⟩
      by_cases h1 : p.col < z.c1
      · refine ⟨⟨rng.sheet, rng.r1, rng.r2, rng.c1, z.c1 - 1⟩, ?_, by simp; omega⟩
        have : z.c1 ≠ rng.c1 := by omega
        simp [this]
      · by_cases h2 : z.c2 < p.col
        · refine ⟨⟨rng.sheet, rng.r1, rng.r2, z.c2 + 1, rng.c2⟩, ?_, by simp; omega⟩
          have : z.c2 ≠ rng.c2 := by omega
          simp [this]
        · by_cases h3 : p.row < z.r1
          · refine ⟨⟨rng.sheet, rng.r1, z.r1 - 1, z.c1, z.c2⟩, ?_, by simp; omega⟩
            have : z.r1 ≠ rng.r1 := by omega
            simp [this]
          · refine ⟨⟨rng.sheet, z.r2 + 1, rng.r2, z.c1, z.c2⟩, ?_, by simp; omega⟩
            have : z.r2 ≠ rng.r2 := by omega
            simp [this]

theorem split_wf (base rng : Rect) (hw : rng.WF) : ∀ q ∈ split base rng, q.WF := by
  intro q hq
  unfold split at hq
  cases hi : inter base rng with
  | none => rw [hi] at hq; simp at hq; subst hq; exact hw
  | some z =>
    rw [hi] at hq
    obtain ⟨hs, hzs, hc1, hc2, hr1, hr2, hcc, hrr⟩ := inter_some base rng z hi
    unfold Rect.WF at hw ⊢
    simp only [List.mem_append] at hq
    rcases hq with ((hq | hq) | hq) | hq
    all_goals (split at hq <;> simp at hq)
    all_goals (subst hq; simp; omega)

/-- the strips produced by `_split` never overlap: no cell is returned twice -/
theorem split_disjoint (base rng : Rect) : (split base rng).Pairwise Disjoint := by
  unfold split
  cases hi : inter base rng with
  | none => simp
  | some z =>
    obtain ⟨hs, hzs, hc1, hc2, hr1, hr2, hcc, hrr⟩ := inter_some base rng z hi
    simp only
    by_cases a1 : z.c1 = rng.c1 <;> by_cases a2 : z.c2 = rng.c2 <;>
      by_cases a3 : z.r1 = rng.r1 <;> by_cases a4 : z.r2 = rng.r2 <;>
      simp [a1, a2, a3, a4, Disjoint, Rect.mem] <;>
      (try (intros; omega)) <;> (try (refine ⟨?_, ?_⟩ <;> (try (intros; omega)))) <;>
      (try (refine ⟨?_, ?_⟩ <;> (try (intros; omega)))) <;>
      (try (refine ⟨?_, ?_⟩ <;> (try (intros; omega)))) <;> (try (intros; omega))

/-! ### `__add__` : bounding rectangle -/

def Rect.Sub (a b : Rect) : Prop := ∀ p, a.mem p → b.mem p

theorem bboxStep_some (a r z : Rect) (h : bboxStep (some a) r = some z) :
    a.sheet = r.sheet ∧ z = ⟨a.sheet, min a.r1 r.r1, max a.r2 r.r2, min a.c1 r.c1, max a.c2 r.c2⟩ := by
  unfold bboxStep at h
  simp only at h
  split at h
  · cases h; exact ⟨by assumption, rfl⟩
  · cases h

theorem foldl_bboxStep_none (l : List Rect) : l.foldl bboxStep none = none := by
  induction l with
  | nil => rfl
  | cons r l ih => simpa [List.foldl, bboxStep] using ih

/-- the fold contains its seed and every folded rectangle, and is below every common
upper bound (on the same sheet) -/
theorem foldl_bbox (l : List Rect) (a z : Rect) (h : l.foldl bboxStep (some a) = some z) :
    a.Sub z ∧ (∀ r ∈ l, r.Sub z) ∧ z.sheet = a.sheet ∧ (∀ r ∈ l, r.sheet = a.sheet) ∧
    ∀ u : Rect, a.WF → (∀ r ∈ l, r.WF) → a.Sub u → (∀ r ∈ l, r.Sub u) → z.Sub u := by
  induction l generalizing a with
  | nil =>
    simp at h; subst h
    exact ⟨fun _ h => h, by simp, rfl, by simp, fun u _ _ hu _ => hu⟩
  | cons r l ih =>
    simp only [List.foldl] at h
    cases hs : bboxStep (some a) r with
    | none => rw [hs, foldl_bboxStep_none] at h; cases h
    | some a' =>
      rw [hs] at h
      obtain ⟨hsh, ha'⟩ := bboxStep_some a r a' hs
      obtain ⟨h1, h2, h3, h4, h5⟩ := ih a' h
      have haa' : a.Sub a' := by
        subst ha'; intro p hp; unfold Rect.mem at *; simp; omega
      have hra' : r.Sub a' := by
        subst ha'; intro p hp; unfold Rect.mem at *; simp; omega
      have hsa' : a'.sheet = a.sheet := by subst ha'; rfl
      refine ⟨fun p hp => h1 p (haa' p hp), ?_, by omega, ?_, ?_⟩
      · intro x hx
        rcases List.mem_cons.mp hx with hx | hx
        · subst hx; exact fun p hp => h1 p (hra' p hp)
        · exact h2 x hx
      · intro x hx
        rcases List.mem_cons.mp hx with hx | hx
        · subst hx; omega
        · have := h4 x hx; omega
      · intro u hwa hwl hau hlu
        have hwr := hwl r (by simp)
        have hru := hlu r (by simp)
        apply h5 u
        · subst ha'; unfold Rect.WF at *; simp; omega
        · exact fun x hx => hwl x (by simp [hx])
        · -- a' ⊆ u: the four corners of a' are cells of a or of r
          subst ha'
          intro p hp
          unfold Rect.WF at hwa hwr
          have c1 := hau ⟨a.sheet, a.r1, a.c1⟩ (by unfold Rect.mem; simp; omega)
          have c2 := hau ⟨a.sheet, a.r2, a.c2⟩ (by unfold Rect.mem; simp; omega)
          have c3 := hru ⟨r.sheet, r.r1, r.c1⟩ (by unfold Rect.mem; simp; omega)
          have c4 := hru ⟨r.sheet, r.r2, r.c2⟩ (by unfold Rect.mem; simp; omega)
          unfold Rect.mem at *
          simp at *
          omega
        · exact fun x hx => hlu x (by simp [hx])

/-- the `:` operator returns the least rectangle containing every operand area -/
theorem bbox_least (r0 : Rect) (rest other : List Rect) (z : Rect)
    (h : bbox (r0 :: rest) other = some z) :
    (∀ r ∈ r0 :: rest ++ other, r.Sub z) ∧
    ∀ u : Rect, (∀ r ∈ r0 :: rest ++ other, r.WF) → (∀ r ∈ r0 :: rest ++ other, r.Sub u) → z.Sub u := by
  unfold bbox at h
  obtain ⟨h1, h2, _, _, h5⟩ := foldl_bbox (rest ++ other) r0 z h
  constructor
  · intro r hr
    rcases List.mem_cons.mp hr with hr | hr
    · subst hr; exact h1
    · exact h2 r hr
  · intro u hw hu
    exact h5 u (hw r0 (by simp)) (fun r hr => hw r (List.mem_cons_of_mem _ hr))
      (hu r0 (by simp)) (fun r hr => hu r (List.mem_cons_of_mem _ hr))

theorem foldl_bbox_none (l : List Rect) (a : Rect) :
    l.foldl bboxStep (some a) = none ↔ ∃ r ∈ l, r.sheet ≠ a.sheet := by
  induction l generalizing a with
  | nil => simp
  | cons r l ih =>
    simp only [List.foldl]
    by_cases hs : a.sheet = r.sheet
    · have : bboxStep (some a) r = some ⟨a.sheet, min a.r1 r.r1, max a.r2 r.r2, min a.c1 r.c1, max a.c2 r.c2⟩ := by
        simp [bboxStep, hs]
      rw [this, ih]
      simp only [List.mem_cons, exists_eq_or_imp]
      constructor
      · rintro ⟨x, hx, hne⟩; exact Or.inr ⟨x, hx, hne⟩
      · rintro (h | ⟨x, hx, hne⟩)
        · exact absurd hs.symm h
        · exact ⟨x, hx, hne⟩
    · have : bboxStep (some a) r = none := by simp [bboxStep, hs]
      rw [this, foldl_bboxStep_none]
      simp only [List.mem_cons, exists_eq_or_imp, true_iff]
      exact Or.inl (fun h => hs h.symm)

/-- `InvalidRangeError` exactly when some area lies on another sheet -/
theorem bbox_none (r0 : Rect) (rest other : List Rect) :
    bbox (r0 :: rest) other = none ↔ ∃ r ∈ rest ++ other, r.sheet ≠ r0.sheet := by
  unfold bbox
  exact foldl_bbox_none (rest ++ other) r0

/-! ### `__or__` : union keeps every area, overlaps count twice -/

theorem cover_append (a b : List Rect) (p : Cell) : cover (a ++ b) p = cover a p + cover b p := by
  simp [cover, List.filter_append]

theorem cover_pos (l : List Rect) (p : Cell) : 0 < cover l p ↔ Covered l p := by
  simp [cover, Covered, List.length_pos_iff_exists_mem, List.mem_filter]

/-- in a pairwise disjoint list no cell is covered twice -/
theorem cover_le_one (l : List Rect) (h : l.Pairwise Disjoint) (p : Cell) : cover l p ≤ 1 := by
  induction l with
  | nil => simp [cover]
  | cons r l ih =>
    have ⟨h1, h2⟩ := List.pairwise_cons.mp h
    have ih := ih h2
    by_cases hm : r.mem p
    · have : cover l p = 0 := by
        apply Nat.eq_zero_of_not_pos
        intro hp
        obtain ⟨q, hq, hqm⟩ := (cover_pos l p).mp hp
        exact h1 q hq p ⟨hm, hqm⟩
      simp [cover, hm] at this ⊢
      omega
    · simp [cover, hm] at ih ⊢
      exact ih

/-! ### `__and__` -/

theorem interAreas_covered (self other : List Rect) (p : Cell) :
    Covered (interAreas self other) p ↔ Covered self p ∧ Covered other p := by
  unfold interAreas
  rw [covered_flatMap]
  constructor
  · rintro ⟨rng, hrng, q, hq, hm⟩
    obtain ⟨r, hr, hi⟩ := List.mem_filterMap.mp hq
    have := (inter_mem' rng r q hi p).mp hm
    exact ⟨⟨r, hr, this.2⟩, ⟨rng, hrng, this.1⟩⟩
  · rintro ⟨⟨r, hr, hrm⟩, ⟨rng, hrng, hgm⟩⟩
    obtain ⟨z, hz, hzm⟩ := (inter_mem rng r p).mpr ⟨hgm, hrm⟩
    exact ⟨rng, hrng, z, List.mem_filterMap.mpr ⟨r, hr, hz⟩, hzm⟩

/-! ### `__sub__` -/

theorem flatMap_split_inv (b : Rect) (stack : List Rect) (hw : ∀ q ∈ stack, q.WF)
    (hd : stack.Pairwise Disjoint) :
    (∀ q ∈ stack.flatMap (split b), q.WF) ∧ (stack.flatMap (split b)).Pairwise Disjoint ∧
    ∀ p, Covered (stack.flatMap (split b)) p ↔ Covered stack p ∧ ¬ b.mem p := by
  refine ⟨?_, ?_, ?_⟩
  · intro q hq
    obtain ⟨r, hr, hq⟩ := List.mem_flatMap.mp hq
    exact split_wf b r (hw r hr) q hq
  · induction stack with
    | nil => simp
    | cons r st ih =>
      have ⟨h1, h2⟩ := List.pairwise_cons.mp hd
      simp only [List.flatMap_cons]
      rw [List.pairwise_append]
      refine ⟨split_disjoint b r, ih (fun q hq => hw q (by simp [hq])) h2, ?_⟩
      intro x hx y hy p ⟨hxp, hyp⟩
      obtain ⟨r', hr', hy⟩ := List.mem_flatMap.mp hy
      have hxr := ((split_cover b r (hw r (by simp)) p).mp ⟨x, hx, hxp⟩).1
      have hyr := ((split_cover b r' (hw r' (by simp [hr'])) p).mp ⟨y, hy, hyp⟩).1
      exact h1 r' hr' p ⟨hxr, hyr⟩
  · intro p
    rw [covered_flatMap]
    constructor
    · rintro ⟨r, hr, hc⟩
      have := (split_cover b r (hw r hr) p).mp hc
      exact ⟨⟨r, hr, this.1⟩, this.2⟩
    · rintro ⟨⟨r, hr, hm⟩, hnb⟩
      exact ⟨r, hr, (split_cover b r (hw r hr) p).mpr ⟨hm, hnb⟩⟩

theorem foldl_split_inv (base stack : List Rect) (hw : ∀ q ∈ stack, q.WF)
    (hd : stack.Pairwise Disjoint) :
    (∀ q ∈ base.foldl (fun st b => st.flatMap (split b)) stack, q.WF) ∧
    (base.foldl (fun st b => st.flatMap (split b)) stack).Pairwise Disjoint ∧
    ∀ p, Covered (base.foldl (fun st b => st.flatMap (split b)) stack) p ↔
      Covered stack p ∧ ¬ Covered base p := by
  induction base generalizing stack with
  | nil => exact ⟨hw, hd, fun p => by simp [covered_nil]⟩
  | cons b base ih =>
    obtain ⟨w1, d1, c1⟩ := flatMap_split_inv b stack hw hd
    obtain ⟨w2, d2, c2⟩ := ih (stack.flatMap (split b)) w1 d1
    refine ⟨w2, d2, fun p => ?_⟩
    simp only [List.foldl]
    rw [c2 p, c1 p, covered_cons]
    constructor
    · rintro ⟨⟨h1, h2⟩, h3⟩; exact ⟨h1, fun h => h.elim h2 h3⟩
    · rintro ⟨h1, h2⟩; exact ⟨⟨h1, fun h => h2 (Or.inl h)⟩, fun h => h2 (Or.inr h)⟩

theorem subOne_inv (base : List Rect) (r0 : Rect) (hw : r0.WF) :
    (∀ q ∈ subOne base r0, q.WF) ∧ (subOne base r0).Pairwise Disjoint ∧
    ∀ p, Covered (subOne base r0) p ↔ r0.mem p ∧ ¬ Covered base p := by
  obtain ⟨w, d, c⟩ := foldl_split_inv base [r0] (by simpa using hw) (by simp)
  refine ⟨w, d, fun p => ?_⟩
  unfold subOne
  rw [c p]; simp [Covered]

theorem subGo_inv (self other acc : List Rect) (done : List Rect) (hw : ∀ q ∈ self, q.WF)
    (hd : acc.Pairwise Disjoint)
    (hc : ∀ p, Covered acc p ↔ Covered done p ∧ ¬ Covered other p) :
    (subGo self (other ++ acc) acc).Pairwise Disjoint ∧
    ∀ p, Covered (subGo self (other ++ acc) acc) p ↔
      (Covered done p ∨ Covered self p) ∧ ¬ Covered other p := by
  induction self generalizing acc done with
  | nil =>
    refine ⟨hd, fun p => ?_⟩
    simp only [subGo]; rw [hc p]; simp [covered_nil]
  | cons r0 rs ih =>
    obtain ⟨w1, d1, c1⟩ := subOne_inv (other ++ acc) r0 (hw r0 (by simp))
    have hd' : (acc ++ subOne (other ++ acc) r0).Pairwise Disjoint := by
      rw [List.pairwise_append]
      refine ⟨hd, d1, ?_⟩
      intro x hx y hy p ⟨hxp, hyp⟩
      have := ((c1 p).mp ⟨y, hy, hyp⟩).2
      exact this ((covered_append _ _ p).mpr (Or.inr ⟨x, hx, hxp⟩))
    have hc' : ∀ p, Covered (acc ++ subOne (other ++ acc) r0) p ↔
        Covered (done ++ [r0]) p ∧ ¬ Covered other p := by
      intro p
      rw [covered_append, covered_append, c1 p, covered_append, hc p]
      simp only [Covered, List.mem_singleton, exists_eq_left]
      grind
    have := ih (acc ++ subOne (other ++ acc) r0) (done ++ [r0]) (fun q hq => hw q (by simp [hq])) hd' hc'
    simp only [subGo]
    rw [List.append_assoc]
    refine ⟨this.1, fun p => ?_⟩
    rw [this.2 p, covered_append, covered_cons]
    simp only [Covered, List.mem_singleton, exists_eq_left]
    grind

end XL
