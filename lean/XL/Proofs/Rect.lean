import XL.Model.Rect
/-!
# Lemmas about the rectangle algebra (`XL.Model.Rect`)
-/
namespace XL

def Disjoint (a b : Rect) : Prop := ∀ p, ¬ (a.mem p ∧ b.mem p)

/-- some area of `l` covers `p` -/
def Covered (l : List Rect) (p : Cell) : Prop := ∃ q ∈ l, q.mem p

theorem covered_nil (p : Cell) : ¬ Covered [] p := by simp [Covered]

theorem covered_cons (r : Rect) (l : List Rect) (p : Cell) :
    Covered (r :: l) p ↔ r.mem p ∨ Covered l p := by simp [Covered]

theorem covered_append (a b : List Rect) (p : Cell) :
    Covered (a ++ b) p ↔ Covered a p ∨ Covered b p := by
  simp only [Covered, List.mem_append]
  constructor
  · rintro ⟨q, hq | hq, hm⟩
    · exact Or.inl ⟨q, hq, hm⟩
    · exact Or.inr ⟨q, hq, hm⟩
  · rintro (⟨q, hq, hm⟩ | ⟨q, hq, hm⟩)
    · exact ⟨q, Or.inl hq, hm⟩
    · exact ⟨q, Or.inr hq, hm⟩

theorem covered_flatMap (l : List Rect) (f : Rect → List Rect) (p : Cell) :
    Covered (l.flatMap f) p ↔ ∃ r ∈ l, Covered (f r) p := by
  simp only [Covered, List.mem_flatMap]
  constructor
  · rintro ⟨q, ⟨r, hr, hq⟩, hm⟩; exact ⟨r, hr, q, hq, hm⟩
  · rintro ⟨r, hr, q, hq, hm⟩; exact ⟨q, ⟨r, hr, hq⟩, hm⟩

/-! ### `_intersect` -/

theorem inter_mem (x y : Rect) (p : Cell) :
    (∃ z, inter x y = some z ∧ z.mem p) ↔ x.mem p ∧ y.mem p := by
  unfold inter Rect.mem
  constructor
  · rintro ⟨z, hz, hm⟩
    split at hz
    · split at hz
      · split at hz
        · cases hz; simp at hm; omega
        · cases hz
      · cases hz
    · cases hz
  · intro h
    have h0 : x.sheet = y.sheet := by omega
    have h1 : max y.c1 x.c1 ≤ min y.c2 x.c2 := by omega
    have h2 : max y.r1 x.r1 ≤ min y.r2 x.r2 := by omega
    simp only [h0, h1, h2, if_true]
    exact ⟨_, rfl, by simp; omega⟩

theorem inter_some (x y z : Rect) (h : inter x y = some z) :
    x.sheet = y.sheet ∧ z.sheet = x.sheet ∧ z.c1 = max y.c1 x.c1 ∧ z.c2 = min y.c2 x.c2 ∧
    z.r1 = max y.r1 x.r1 ∧ z.r2 = min y.r2 x.r2 ∧ z.c1 ≤ z.c2 ∧ z.r1 ≤ z.r2 := by
  unfold inter at h
  split at h
  · split at h
    · split at h
      · cases h; simp; omega
      · cases h
    · cases h
  · cases h

theorem inter_mem' (x y z : Rect) (h : inter x y = some z) (p : Cell) :
    z.mem p ↔ x.mem p ∧ y.mem p := by
  constructor
  · intro hm; exact (inter_mem x y p).mp ⟨z, h, hm⟩
  · intro hm
    obtain ⟨z', hz', hm'⟩ := (inter_mem x y p).mpr hm
    rw [h] at hz'; cases hz'; exact hm'

/-- an empty intersection (`#NULL!`) means exactly: no common cell -/
theorem inter_none (x y : Rect) : inter x y = none ↔ ∀ p, ¬ (x.mem p ∧ y.mem p) := by
  constructor
  · intro h p hp
    obtain ⟨z, hz, _⟩ := (inter_mem x y p).mpr hp
    rw [h] at hz; cases hz
  · intro h
    cases hi : inter x y with
    | none => rfl
    | some z =>
      exfalso
      have hb := inter_some x y z hi
      apply h ⟨x.sheet, z.r1, z.c1⟩
      unfold Rect.mem; simp; omega

theorem inter_wf (x y z : Rect) (h : inter x y = some z) : z.WF := by
  have := inter_some x y z h; unfold Rect.WF; omega

/-! ### `_split` -/

theorem splitRaw_cover (base rng : Rect) (hw : rng.WF) (p : Cell) :
    Covered (splitRaw base rng) p ↔ rng.mem p ∧ ¬ base.mem p := by
  unfold splitRaw Covered
  cases hi : inter base rng with
  | none =>
    have hn := (inter_none base rng).mp hi p
    simp only [List.mem_singleton, exists_eq_left]
    constructor
    · intro h; exact ⟨h, fun hb => hn ⟨hb, h⟩⟩
    · intro h; exact h.1
  | some z =>
    have hz := inter_mem' base rng z hi
    obtain ⟨hs, hzs, hc1, hc2, hr1, hr2, hcc, hrr⟩ := inter_some base rng z hi
    unfold Rect.WF at hw
    simp only [List.mem_append, Rect.mem]
    constructor
    · rintro ⟨q, hq, hm⟩
      rcases hq with ((hq | hq) | hq) | hq
      all_goals (split at hq <;> simp at hq)
      all_goals (subst hq; simp at hm; omega)
    · rintro ⟨hm, hnb⟩
      by_cases h1 : p.col < z.c1
      · refine ⟨⟨rng.sheet, rng.r1, rng.r2, rng.c1, z.c1 - 1⟩, ?_, by simp; omega⟩
        have : z.c1 ≠ rng.c1 := by omega
        simp [this]
      · by_cases h2 : z.c2 < p.col
        · refine ⟨⟨rng.sheet, rng.r1, rng.r2, z.c2 + 1, rng.c2⟩, ?_, by simp; omega⟩
          have : z.c2 ≠ rng.c2 := by omega
          simp [this]
        · by_cases h3 : p.row < z.r1
          · refine ⟨⟨rng.sheet, rng.r1, z.r1 - 1, z.c1, z.c2⟩, ?_, by simp; omega⟩
            have : z.r1 ≠ rng.r1 := by omega
            simp [this]
          · refine ⟨⟨rng.sheet, z.r2 + 1, rng.r2, z.c1, z.c2⟩, ?_, by simp; omega⟩
            have : z.r2 ≠ rng.r2 := by omega
            simp [this]

theorem splitRaw_wf (base rng : Rect) (hw : rng.WF) : ∀ q ∈ splitRaw base rng, q.WF := by
  intro q hq
  unfold splitRaw at hq
  cases hi : inter base rng with
  | none => rw [hi] at hq; simp at hq; subst hq; exact hw
  | some z =>
    rw [hi] at hq
    obtain ⟨hs, hzs, hc1, hc2, hr1, hr2, hcc, hrr⟩ := inter_some base rng z hi
    unfold Rect.WF at hw ⊢
    simp only [List.mem_append] at hq
    rcases hq with ((hq | hq) | hq) | hq
    all_goals (split at hq <;> simp at hq)
    all_goals (subst hq; simp; omega)

theorem splitRaw_disjoint (base rng : Rect) : (splitRaw base rng).Pairwise Disjoint := by
  unfold splitRaw
  cases hi : inter base rng with
  | none => simp
  | some z =>
    obtain ⟨hs, hzs, hc1, hc2, hr1, hr2, hcc, hrr⟩ := inter_some base rng z hi
    simp only
    by_cases a1 : z.c1 = rng.c1 <;> by_cases a2 : z.c2 = rng.c2 <;>
      by_cases a3 : z.r1 = rng.r1 <;> by_cases a4 : z.r2 = rng.r2 <;>
      simp [a1, a2, a3, a4, Disjoint, Rect.mem] <;>
      (try (intros; omega)) <;> (try (refine ⟨?_, ?_⟩ <;> (try (intros; omega)))) <;>
      (try (refine ⟨?_, ?_⟩ <;> (try (intros; omega)))) <;>
      (try (refine ⟨?_, ?_⟩ <;> (try (intros; omega)))) <;> (try (intros; omega))

/-! #### the strips the code cuts (`split`): sides compared after `or 1` -/

/-- a cell of a sheet: rows and columns count from 1 (index 0 only occurs as the first index of a whole row / column) -/
def Cell.Real (p : Cell) : Prop := 1 ≤ p.row ∧ 1 ≤ p.col

/-- last row and last column at least 1, as in every rectangle the parser produces -/
def Rect.Pos (a : Rect) : Prop := 1 ≤ a.r2 ∧ 1 ≤ a.c2

theorem or1_eq (a b : Nat) : or1 a = or1 b ↔ (a = b ∨ (a = 0 ∧ b = 1) ∨ (a = 1 ∧ b = 0)) := by
  unfold or1; split <;> split <;> omega

theorem or1_ne_lo (z r : Nat) (h : r ≤ z) : or1 z ≠ or1 r ↔ (r < z ∧ 2 ≤ z) := by
  rw [ne_eq, or1_eq]; omega

theorem or1_ne_hi (z r : Nat) (h : z ≤ r) : or1 z ≠ or1 r ↔ (z < r ∧ 2 ≤ r) := by
  rw [ne_eq, or1_eq]; omega

theorem narrow_lo (z r : Nat) (h : r ≤ z) :
    (r < z ∧ 2 ≤ z ∧ narrow z r = z) ∨ (z = r ∧ narrow z r = r) ∨ (r = 0 ∧ z = 1 ∧ narrow z r = r) := by
  unfold narrow
  by_cases e : or1 z ≠ or1 r
  · rw [if_pos e]; rw [or1_ne_lo z r h] at e; exact Or.inl ⟨e.1, e.2, rfl⟩
  · rw [if_neg e]; rw [or1_ne_lo z r h] at e
    by_cases e2 : z = r
    · exact Or.inr (Or.inl ⟨e2, rfl⟩)
    · exact Or.inr (Or.inr ⟨by omega, by omega, rfl⟩)

theorem narrow_hi (z r : Nat) (h : z ≤ r) :
    (z < r ∧ 2 ≤ r ∧ narrow z r = z) ∨ (z = r ∧ narrow z r = r) ∨ (z = 0 ∧ r = 1 ∧ narrow z r = r) := by
  unfold narrow
  by_cases e : or1 z ≠ or1 r
  · rw [if_pos e]; rw [or1_ne_hi z r h] at e; exact Or.inl ⟨e.1, e.2, rfl⟩
  · rw [if_neg e]; rw [or1_ne_hi z r h] at e
    by_cases e2 : z = r
    · exact Or.inr (Or.inl ⟨e2, rfl⟩)
    · exact Or.inr (Or.inr ⟨by omega, by omega, rfl⟩)

theorem pairwise_four {α : Type} (R : α → α → Prop) (c1 c2 c3 c4 : Prop) [Decidable c1] [Decidable c2] [Decidable c3]
    [Decidable c4] (x1 x2 x3 x4 : α) (h12 : c1 → c2 → R x1 x2) (h13 : c1 → c3 → R x1 x3) (h14 : c1 → c4 → R x1 x4)
    (h23 : c2 → c3 → R x2 x3) (h24 : c2 → c4 → R x2 x4) (h34 : c3 → c4 → R x3 x4) :
    ((if c1 then [x1] else []) ++ (if c2 then [x2] else []) ++ (if c3 then [x3] else []) ++
      (if c4 then [x4] else [])).Pairwise R := by
  by_cases a1 : c1 <;> by_cases a2 : c2 <;> by_cases a3 : c3 <;> by_cases a4 : c4 <;> simp [a1, a2, a3, a4] <;>
    simp [a1, a2, a3, a4] at h12 h13 h14 h23 h24 h34 <;> simp [*]

/-- the strips of `split`, one by one -/
theorem mem_split (base rng z q : Rect) (hi : inter base rng = some z) :
    q ∈ split base rng ↔
      (or1 z.c1 ≠ or1 rng.c1 ∧ q = ⟨rng.sheet, rng.r1, rng.r2, rng.c1, z.c1 - 1⟩) ∨
      (or1 z.c2 ≠ or1 rng.c2 ∧ q = ⟨rng.sheet, rng.r1, rng.r2, z.c2 + 1, rng.c2⟩) ∨
      (or1 z.r1 ≠ or1 rng.r1 ∧ q = ⟨rng.sheet, rng.r1, z.r1 - 1, narrow z.c1 rng.c1, narrow z.c2 rng.c2⟩) ∨
      (or1 z.r2 ≠ or1 rng.r2 ∧ q = ⟨rng.sheet, z.r2 + 1, rng.r2, narrow z.c1 rng.c1, narrow z.c2 rng.c2⟩) := by
  unfold split
  rw [hi]
  simp only [List.mem_append, List.mem_ite_nil_right, List.mem_singleton, or_assoc]

/-- the strips lie in `rng` and outside `base` -/
theorem split_sub (base rng : Rect) (hw : rng.WF) (p : Cell) (h : Covered (split base rng) p) :
    rng.mem p ∧ ¬ base.mem p := by
  cases hi : inter base rng with
  | none =>
    unfold split Covered at h
    rw [hi] at h
    have hn := (inter_none base rng).mp hi p
    simp only [List.mem_singleton, exists_eq_left] at h
    exact ⟨h, fun hb => hn ⟨hb, h⟩⟩
  | some z =>
    obtain ⟨hs, hzs, hc1, hc2, hr1, hr2, hcc, hrr⟩ := inter_some base rng z hi
    unfold Rect.WF at hw
    obtain ⟨q, hq, hm⟩ := h
    rw [mem_split base rng z q hi] at hq
    have k1 : rng.c1 ≤ z.c1 := by omega
    have k2 : z.c2 ≤ rng.c2 := by omega
    have k3 : rng.r1 ≤ z.r1 := by omega
    have k4 : z.r2 ≤ rng.r2 := by omega
    rcases narrow_lo z.c1 rng.c1 k1 with ⟨n1a, n1c, n1b⟩ | ⟨n1a, n1b⟩ | ⟨n1a, n1c, n1b⟩ <;>
    rcases narrow_hi z.c2 rng.c2 k2 with ⟨n2a, n2c, n2b⟩ | ⟨n2a, n2b⟩ | ⟨n2a, n2c, n2b⟩ <;>
    (rw [n1b, n2b] at hq
     unfold Rect.mem at hm ⊢
     rw [or1_ne_lo z.c1 rng.c1 k1, or1_ne_hi z.c2 rng.c2 k2, or1_ne_lo z.r1 rng.r1 k3, or1_ne_hi z.r2 rng.r2 k4] at hq
     rcases hq with ⟨hc, rfl⟩ | ⟨hc, rfl⟩ | ⟨hc, rfl⟩ | ⟨hc, rfl⟩ <;> simp only at hm <;> omega)

theorem split_wf (base rng : Rect) (hw : rng.WF) : ∀ q ∈ split base rng, q.WF := by
  intro q hq
  cases hi : inter base rng with
  | none => unfold split at hq; rw [hi] at hq; simp at hq; subst hq; exact hw
  | some z =>
    obtain ⟨hs, hzs, hc1, hc2, hr1, hr2, hcc, hrr⟩ := inter_some base rng z hi
    rw [mem_split base rng z q hi] at hq
    have k1 : rng.c1 ≤ z.c1 := by omega
    have k2 : z.c2 ≤ rng.c2 := by omega
    have k3 : rng.r1 ≤ z.r1 := by omega
    have k4 : z.r2 ≤ rng.r2 := by omega
    rcases narrow_lo z.c1 rng.c1 k1 with ⟨n1a, n1c, n1b⟩ | ⟨n1a, n1b⟩ | ⟨n1a, n1c, n1b⟩ <;>
    rcases narrow_hi z.c2 rng.c2 k2 with ⟨n2a, n2c, n2b⟩ | ⟨n2a, n2b⟩ | ⟨n2a, n2c, n2b⟩ <;>
    (rw [n1b, n2b] at hq
     unfold Rect.WF at hw ⊢
     rw [or1_ne_lo z.c1 rng.c1 k1, or1_ne_hi z.c2 rng.c2 k2, or1_ne_lo z.r1 rng.r1 k3, or1_ne_hi z.r2 rng.r2 k4] at hq
     rcases hq with ⟨hc, rfl⟩ | ⟨hc, rfl⟩ | ⟨hc, rfl⟩ | ⟨hc, rfl⟩ <;> simp only <;> omega)

/-- last row and column of every strip are at least 1 again -/
theorem split_pos (base rng : Rect) (hb : base.Pos) (hp : rng.Pos) : ∀ q ∈ split base rng, q.Pos := by
  intro q hq
  cases hi : inter base rng with
  | none => unfold split at hq; rw [hi] at hq; simp at hq; subst hq; exact hp
  | some z =>
    obtain ⟨hs, hzs, hc1, hc2, hr1, hr2, hcc, hrr⟩ := inter_some base rng z hi
    rw [mem_split base rng z q hi] at hq
    have k1 : rng.c1 ≤ z.c1 := by omega
    have k2 : z.c2 ≤ rng.c2 := by omega
    have k3 : rng.r1 ≤ z.r1 := by omega
    have k4 : z.r2 ≤ rng.r2 := by omega
    rcases narrow_lo z.c1 rng.c1 k1 with ⟨n1a, n1c, n1b⟩ | ⟨n1a, n1b⟩ | ⟨n1a, n1c, n1b⟩ <;>
    rcases narrow_hi z.c2 rng.c2 k2 with ⟨n2a, n2c, n2b⟩ | ⟨n2a, n2b⟩ | ⟨n2a, n2c, n2b⟩ <;>
    (rw [n1b, n2b] at hq
     unfold Rect.Pos at hp hb ⊢
     rw [or1_ne_lo z.c1 rng.c1 k1, or1_ne_hi z.c2 rng.c2 k2, or1_ne_lo z.r1 rng.r1 k3, or1_ne_hi z.r2 rng.r2 k4] at hq
     rcases hq with ⟨hc, rfl⟩ | ⟨hc, rfl⟩ | ⟨hc, rfl⟩ | ⟨hc, rfl⟩ <;> simp only <;> omega)

/-- the strips produced by `_split` never overlap: no cell is returned twice -/
theorem split_disjoint (base rng : Rect) : (split base rng).Pairwise Disjoint := by
  unfold split
  cases hi : inter base rng with
  | none => simp
  | some z =>
    obtain ⟨hs, hzs, hc1, hc2, hr1, hr2, hcc, hrr⟩ := inter_some base rng z hi
    simp only
    have k1 : rng.c1 ≤ z.c1 := by omega
    have k2 : z.c2 ≤ rng.c2 := by omega
    have k3 : rng.r1 ≤ z.r1 := by omega
    have k4 : z.r2 ≤ rng.r2 := by omega
    rcases narrow_lo z.c1 rng.c1 k1 with ⟨n1a, n1c, n1b⟩ | ⟨n1a, n1b⟩ | ⟨n1a, n1c, n1b⟩ <;>
    rcases narrow_hi z.c2 rng.c2 k2 with ⟨n2a, n2c, n2b⟩ | ⟨n2a, n2b⟩ | ⟨n2a, n2c, n2b⟩ <;>
    (rw [n1b, n2b]
     apply pairwise_four
     all_goals (intro a b p hp; (try rw [or1_ne_lo z.c1 rng.c1 k1] at a); (try rw [or1_ne_hi z.c2 rng.c2 k2] at a); (try rw [or1_ne_lo z.r1 rng.r1 k3] at a); (try rw [or1_ne_hi z.c2 rng.c2 k2] at b); (try rw [or1_ne_lo z.r1 rng.r1 k3] at b); (try rw [or1_ne_hi z.r2 rng.r2 k4] at b); unfold Rect.mem at hp; simp only at hp; omega))

/-- **every cell of the sheet** that lies in `rng` and outside `base` is in a strip -/
theorem split_cover_real (base rng : Rect) (hw : rng.WF) (hb : base.Pos) (p : Cell) (hp : p.Real)
    (h : rng.mem p ∧ ¬ base.mem p) : Covered (split base rng) p := by
  cases hi : inter base rng with
  | none => unfold split Covered; rw [hi]; exact ⟨rng, by simp, h.1⟩
  | some z =>
    obtain ⟨hs, hzs, hc1, hc2, hr1, hr2, hcc, hrr⟩ := inter_some base rng z hi
    unfold Rect.WF at hw
    unfold Rect.Pos at hb
    unfold Cell.Real at hp
    obtain ⟨hm, hnb⟩ := h
    unfold Covered
    simp only [mem_split base rng z _ hi]
    unfold Rect.mem at hm hnb
    have k1 : rng.c1 ≤ z.c1 := by omega
    have k2 : z.c2 ≤ rng.c2 := by omega
    have k3 : rng.r1 ≤ z.r1 := by omega
    have k4 : z.r2 ≤ rng.r2 := by omega
    rcases narrow_lo z.c1 rng.c1 k1 with ⟨n1a, n1c, n1b⟩ | ⟨n1a, n1b⟩ | ⟨n1a, n1c, n1b⟩ <;>
    rcases narrow_hi z.c2 rng.c2 k2 with ⟨n2a, n2c, n2b⟩ | ⟨n2a, n2b⟩ | ⟨n2a, n2c, n2b⟩ <;>
    (rw [n1b, n2b]
     rw [or1_ne_lo z.c1 rng.c1 k1, or1_ne_hi z.c2 rng.c2 k2, or1_ne_lo z.r1 rng.r1 k3, or1_ne_hi z.r2 rng.r2 k4]
     by_cases h1 : p.col < z.c1
     · exact ⟨_, Or.inl ⟨by omega, rfl⟩, by unfold Rect.mem; simp only; omega⟩
     · by_cases h2 : z.c2 < p.col
       · exact ⟨_, Or.inr (Or.inl ⟨by omega, rfl⟩), by unfold Rect.mem; simp only; omega⟩
       · by_cases h3 : p.row < z.r1
         · exact ⟨_, Or.inr (Or.inr (Or.inl ⟨by omega, rfl⟩)), by unfold Rect.mem; simp only; omega⟩
         · exact ⟨_, Or.inr (Or.inr (Or.inr ⟨by omega, rfl⟩)), by unfold Rect.mem; simp only; omega⟩)

/-- **one split step**, on the cells of the sheet: exactly `rng \ base` -/
theorem split_cover (base rng : Rect) (hw : rng.WF) (hb : base.Pos) (p : Cell) (hp : p.Real) :
    Covered (split base rng) p ↔ rng.mem p ∧ ¬ base.mem p :=
  ⟨split_sub base rng hw p, split_cover_real base rng hw hb p hp⟩

/-! ### `__add__` : bounding rectangle -/

def Rect.Sub (a b : Rect) : Prop := ∀ p, a.mem p → b.mem p

theorem bboxStep_some (a r z : Rect) (h : bboxStep (some a) r = some z) :
    a.sheet = r.sheet ∧ z = ⟨a.sheet, min a.r1 r.r1, max a.r2 r.r2, min a.c1 r.c1, max a.c2 r.c2⟩ := by
  unfold bboxStep at h
  simp only at h
  split at h
  · cases h; exact ⟨by assumption, rfl⟩
  · cases h

theorem foldl_bboxStep_none (l : List Rect) : l.foldl bboxStep none = none := by
  induction l with
  | nil => rfl
  | cons r l ih => simpa [List.foldl, bboxStep] using ih

/-- the fold contains its seed and every folded rectangle, and is below every common
upper bound (on the same sheet) -/
theorem foldl_bbox (l : List Rect) (a z : Rect) (h : l.foldl bboxStep (some a) = some z) :
    a.Sub z ∧ (∀ r ∈ l, r.Sub z) ∧ z.sheet = a.sheet ∧ (∀ r ∈ l, r.sheet = a.sheet) ∧
    ∀ u : Rect, a.WF → (∀ r ∈ l, r.WF) → a.Sub u → (∀ r ∈ l, r.Sub u) → z.Sub u := by
  induction l generalizing a with
  | nil =>
    simp at h; subst h
    exact ⟨fun _ h => h, by simp, rfl, by simp, fun u _ _ hu _ => hu⟩
  | cons r l ih =>
    simp only [List.foldl] at h
    cases hs : bboxStep (some a) r with
    | none => rw [hs, foldl_bboxStep_none] at h; cases h
    | some a' =>
      rw [hs] at h
      obtain ⟨hsh, ha'⟩ := bboxStep_some a r a' hs
      obtain ⟨h1, h2, h3, h4, h5⟩ := ih a' h
      have haa' : a.Sub a' := by
        subst ha'; intro p hp; unfold Rect.mem at *; simp; omega
      have hra' : r.Sub a' := by
        subst ha'; intro p hp; unfold Rect.mem at *; simp; omega
      have hsa' : a'.sheet = a.sheet := by subst ha'; rfl
      refine ⟨fun p hp => h1 p (haa' p hp), ?_, by omega, ?_, ?_⟩
      · intro x hx
        rcases List.mem_cons.mp hx with hx | hx
        · subst hx; exact fun p hp => h1 p (hra' p hp)
        · exact h2 x hx
      · intro x hx
        rcases List.mem_cons.mp hx with hx | hx
        · subst hx; omega
        · have := h4 x hx; omega
      · intro u hwa hwl hau hlu
        have hwr := hwl r (by simp)
        have hru := hlu r (by simp)
        apply h5 u
        · subst ha'; unfold Rect.WF at *; simp; omega
        · exact fun x hx => hwl x (by simp [hx])
        · -- a' ⊆ u: the four corners of a' are cells of a or of r
          subst ha'
          intro p hp
          unfold Rect.WF at hwa hwr
          have c1 := hau ⟨a.sheet, a.r1, a.c1⟩ (by unfold Rect.mem; simp; omega)
          have c2 := hau ⟨a.sheet, a.r2, a.c2⟩ (by unfold Rect.mem; simp; omega)
          have c3 := hru ⟨r.sheet, r.r1, r.c1⟩ (by unfold Rect.mem; simp; omega)
          have c4 := hru ⟨r.sheet, r.r2, r.c2⟩ (by unfold Rect.mem; simp; omega)
          unfold Rect.mem at *
          simp at *
          omega
        · exact fun x hx => hlu x (by simp [hx])

/-- the `:` operator returns the least rectangle containing every operand area -/
theorem bbox_least (r0 : Rect) (rest other : List Rect) (z : Rect)
    (h : bbox (r0 :: rest) other = some z) :
    (∀ r ∈ r0 :: rest ++ other, r.Sub z) ∧
    ∀ u : Rect, (∀ r ∈ r0 :: rest ++ other, r.WF) → (∀ r ∈ r0 :: rest ++ other, r.Sub u) → z.Sub u := by
  unfold bbox at h
  obtain ⟨h1, h2, _, _, h5⟩ := foldl_bbox (rest ++ other) r0 z h
  constructor
  · intro r hr
    rcases List.mem_cons.mp hr with hr | hr
    · subst hr; exact h1
    · exact h2 r hr
  · intro u hw hu
    exact h5 u (hw r0 (by simp)) (fun r hr => hw r (List.mem_cons_of_mem _ hr))
      (hu r0 (by simp)) (fun r hr => hu r (List.mem_cons_of_mem _ hr))

theorem foldl_bbox_none (l : List Rect) (a : Rect) :
    l.foldl bboxStep (some a) = none ↔ ∃ r ∈ l, r.sheet ≠ a.sheet := by
  induction l generalizing a with
  | nil => simp
  | cons r l ih =>
    simp only [List.foldl]
    by_cases hs : a.sheet = r.sheet
    · have : bboxStep (some a) r = some ⟨a.sheet, min a.r1 r.r1, max a.r2 r.r2, min a.c1 r.c1, max a.c2 r.c2⟩ := by
        simp [bboxStep, hs]
      rw [this, ih]
      simp only [List.mem_cons, exists_eq_or_imp]
      constructor
      · rintro ⟨x, hx, hne⟩; exact Or.inr ⟨x, hx, hne⟩
      · rintro (h | ⟨x, hx, hne⟩)
        · exact absurd hs.symm h
        · exact ⟨x, hx, hne⟩
    · have : bboxStep (some a) r = none := by simp [bboxStep, hs]
      rw [this, foldl_bboxStep_none]
      simp only [List.mem_cons, exists_eq_or_imp, true_iff]
      exact Or.inl (fun h => hs h.symm)

/-- `InvalidRangeError` exactly when some area lies on another sheet -/
theorem bbox_none (r0 : Rect) (rest other : List Rect) :
    bbox (r0 :: rest) other = none ↔ ∃ r ∈ rest ++ other, r.sheet ≠ r0.sheet := by
  unfold bbox
  exact foldl_bbox_none (rest ++ other) r0

/-! ### `__or__` : union keeps every area, overlaps count twice -/

theorem cover_append (a b : List Rect) (p : Cell) : cover (a ++ b) p = cover a p + cover b p := by
  simp [cover, List.filter_append]

theorem cover_pos (l : List Rect) (p : Cell) : 0 < cover l p ↔ Covered l p := by
  simp [cover, Covered, List.length_pos_iff_exists_mem, List.mem_filter]

/-- in a pairwise disjoint list no cell is covered twice -/
theorem cover_le_one (l : List Rect) (h : l.Pairwise Disjoint) (p : Cell) : cover l p ≤ 1 := by
  induction l with
  | nil => simp [cover]
  | cons r l ih =>
    have ⟨h1, h2⟩ := List.pairwise_cons.mp h
    have ih := ih h2
    by_cases hm : r.mem p
    · have : cover l p = 0 := by
        apply Nat.eq_zero_of_not_pos
        intro hp
        obtain ⟨q, hq, hqm⟩ := (cover_pos l p).mp hp
        exact h1 q hq p ⟨hm, hqm⟩
      simp [cover, hm] at this ⊢
      omega
    · simp [cover, hm] at ih ⊢
      exact ih

/-! ### `__and__` -/

theorem interAreas_covered (self other : List Rect) (p : Cell) :
    Covered (interAreas self other) p ↔ Covered self p ∧ Covered other p := by
  unfold interAreas
  rw [covered_flatMap]
  constructor
  · rintro ⟨rng, hrng, q, hq, hm⟩
    obtain ⟨r, hr, hi⟩ := List.mem_filterMap.mp hq
    have := (inter_mem' rng r q hi p).mp hm
    exact ⟨⟨r, hr, this.2⟩, ⟨rng, hrng, this.1⟩⟩
  · rintro ⟨⟨r, hr, hrm⟩, ⟨rng, hrng, hgm⟩⟩
    obtain ⟨z, hz, hzm⟩ := (inter_mem rng r p).mpr ⟨hgm, hrm⟩
    exact ⟨rng, hrng, z, List.mem_filterMap.mpr ⟨r, hr, hz⟩, hzm⟩

/-! ### `__sub__` -/

theorem flatMap_split_inv (b : Rect) (hb : b.Pos) (stack : List Rect) (hw : ∀ q ∈ stack, q.WF ∧ q.Pos)
    (hd : stack.Pairwise Disjoint) :
    (∀ q ∈ stack.flatMap (split b), q.WF ∧ q.Pos) ∧ (stack.flatMap (split b)).Pairwise Disjoint ∧
    (∀ p, Covered (stack.flatMap (split b)) p → Covered stack p ∧ ¬ b.mem p) ∧
    ∀ p, p.Real → (Covered (stack.flatMap (split b)) p ↔ Covered stack p ∧ ¬ b.mem p) := by
  have hsub : ∀ p, Covered (stack.flatMap (split b)) p → Covered stack p ∧ ¬ b.mem p := by
    intro p hc
    rw [covered_flatMap] at hc
    obtain ⟨r, hr, hc⟩ := hc
    have := split_sub b r (hw r hr).1 p hc
    exact ⟨⟨r, hr, this.1⟩, this.2⟩
  refine ⟨?_, ?_, hsub, ?_⟩
  · intro q hq
    obtain ⟨r, hr, hq⟩ := List.mem_flatMap.mp hq
    exact ⟨split_wf b r (hw r hr).1 q hq, split_pos b r hb (hw r hr).2 q hq⟩
  · induction stack with
    | nil => simp
    | cons r st ih =>
      have ⟨h1, h2⟩ := List.pairwise_cons.mp hd
      simp only [List.flatMap_cons]
      rw [List.pairwise_append]
      refine ⟨split_disjoint b r, ih (fun q hq => hw q (by simp [hq])) h2 ?_, ?_⟩
      · intro p hc
        rw [covered_flatMap] at hc
        obtain ⟨r', hr', hc⟩ := hc
        have := split_sub b r' (hw r' (by simp [hr'])).1 p hc
        exact ⟨⟨r', hr', this.1⟩, this.2⟩
      · intro x hx y hy p ⟨hxp, hyp⟩
        obtain ⟨r', hr', hy⟩ := List.mem_flatMap.mp hy
        have hxr := (split_sub b r (hw r (by simp)).1 p ⟨x, hx, hxp⟩).1
        have hyr := (split_sub b r' (hw r' (by simp [hr'])).1 p ⟨y, hy, hyp⟩).1
        exact h1 r' hr' p ⟨hxr, hyr⟩
  · intro p hp
    refine ⟨hsub p, ?_⟩
    rintro ⟨⟨r, hr, hm⟩, hnb⟩
    rw [covered_flatMap]
    exact ⟨r, hr, split_cover_real b r (hw r hr).1 hb p hp ⟨hm, hnb⟩⟩

theorem foldl_split_inv (base stack : List Rect) (hbp : ∀ q ∈ base, q.Pos) (hw : ∀ q ∈ stack, q.WF ∧ q.Pos)
    (hd : stack.Pairwise Disjoint) :
    (∀ q ∈ base.foldl (fun st b => st.flatMap (split b)) stack, q.WF ∧ q.Pos) ∧
    (base.foldl (fun st b => st.flatMap (split b)) stack).Pairwise Disjoint ∧
    (∀ p, Covered (base.foldl (fun st b => st.flatMap (split b)) stack) p → Covered stack p ∧ ¬ Covered base p) ∧
    ∀ p, p.Real → (Covered (base.foldl (fun st b => st.flatMap (split b)) stack) p ↔
      Covered stack p ∧ ¬ Covered base p) := by
  induction base generalizing stack with
  | nil => exact ⟨hw, hd, fun p h => ⟨h, covered_nil p⟩, fun p _ => by simp [covered_nil]⟩
  | cons b base ih =>
    obtain ⟨w1, d1, s1, c1⟩ := flatMap_split_inv b (hbp b (by simp)) stack hw hd
    obtain ⟨w2, d2, s2, c2⟩ := ih (stack.flatMap (split b)) (fun q hq => hbp q (by simp [hq])) w1 d1
    refine ⟨w2, d2, fun p h => ?_, fun p hp => ?_⟩
    · simp only [List.foldl] at h
      have h2 := s2 p h
      have h1 := s1 p h2.1
      exact ⟨h1.1, fun hc => ((covered_cons b base p).mp hc).elim h1.2 h2.2⟩
    · simp only [List.foldl]
      rw [c2 p hp, c1 p hp, covered_cons]
      constructor
      · rintro ⟨⟨h1, h2⟩, h3⟩; exact ⟨h1, fun h => h.elim h2 h3⟩
      · rintro ⟨h1, h2⟩; exact ⟨⟨h1, fun h => h2 (Or.inl h)⟩, fun h => h2 (Or.inr h)⟩

theorem subOne_inv (base : List Rect) (hbp : ∀ q ∈ base, q.Pos) (r0 : Rect) (hw : r0.WF ∧ r0.Pos) :
    (∀ q ∈ subOne base r0, q.WF ∧ q.Pos) ∧ (subOne base r0).Pairwise Disjoint ∧
    (∀ p, Covered (subOne base r0) p → r0.mem p ∧ ¬ Covered base p) ∧
    ∀ p, p.Real → (Covered (subOne base r0) p ↔ r0.mem p ∧ ¬ Covered base p) := by
  obtain ⟨w, d, s, c⟩ := foldl_split_inv base [r0] hbp (by simpa using hw) (by simp)
  refine ⟨w, d, fun p h => ?_, fun p hp => ?_⟩
  · have := s p h; simpa [Covered] using this
  · unfold subOne
    rw [c p hp]; simp [Covered]

theorem subGo_inv (self other acc : List Rect) (done : List Rect) (hw : ∀ q ∈ self, q.WF ∧ q.Pos)
    (hop : ∀ q ∈ other, q.Pos) (hap : ∀ q ∈ acc, q.Pos)
    (hd : acc.Pairwise Disjoint)
    (hs : ∀ p, Covered acc p → Covered done p ∧ ¬ Covered other p)
    (hc : ∀ p, p.Real → (Covered acc p ↔ Covered done p ∧ ¬ Covered other p)) :
    (subGo self (other ++ acc) acc).Pairwise Disjoint ∧
    (∀ p, Covered (subGo self (other ++ acc) acc) p → (Covered done p ∨ Covered self p) ∧ ¬ Covered other p) ∧
    ∀ p, p.Real → (Covered (subGo self (other ++ acc) acc) p ↔
      (Covered done p ∨ Covered self p) ∧ ¬ Covered other p) := by
  induction self generalizing acc done with
  | nil =>
    refine ⟨hd, fun p h => ?_, fun p hp => ?_⟩
    · simp only [subGo] at h; have := hs p h; exact ⟨Or.inl this.1, this.2⟩
    · simp only [subGo]; rw [hc p hp]; simp [covered_nil]
  | cons r0 rs ih =>
    have hbp : ∀ q ∈ other ++ acc, q.Pos := by
      intro q hq; rcases List.mem_append.mp hq with hq | hq
      · exact hop q hq
      · exact hap q hq
    obtain ⟨w1, d1, s1, c1⟩ := subOne_inv (other ++ acc) hbp r0 (hw r0 (by simp))
    have hd' : (acc ++ subOne (other ++ acc) r0).Pairwise Disjoint := by
      rw [List.pairwise_append]
      refine ⟨hd, d1, ?_⟩
      intro x hx y hy p ⟨hxp, hyp⟩
      have := (s1 p ⟨y, hy, hyp⟩).2
      exact this ((covered_append _ _ p).mpr (Or.inr ⟨x, hx, hxp⟩))
    have hap' : ∀ q ∈ acc ++ subOne (other ++ acc) r0, q.Pos := by
      intro q hq; rcases List.mem_append.mp hq with hq | hq
      · exact hap q hq
      · exact (w1 q hq).2
    have hs' : ∀ p, Covered (acc ++ subOne (other ++ acc) r0) p → Covered (done ++ [r0]) p ∧ ¬ Covered other p := by
      intro p h
      rcases (covered_append _ _ p).mp h with h | h
      · have := hs p h
        exact ⟨(covered_append _ _ p).mpr (Or.inl this.1), this.2⟩
      · have := s1 p h
        refine ⟨(covered_append _ _ p).mpr (Or.inr ⟨r0, by simp, this.1⟩), fun ho => this.2 ((covered_append _ _ p).mpr (Or.inl ho))⟩
    have hc' : ∀ p, p.Real → (Covered (acc ++ subOne (other ++ acc) r0) p ↔
        Covered (done ++ [r0]) p ∧ ¬ Covered other p) := by
      intro p hp
      rw [covered_append, covered_append, c1 p hp, covered_append, hc p hp]
      simp only [Covered, List.mem_singleton, exists_eq_left]
      grind
    have := ih (acc ++ subOne (other ++ acc) r0) (done ++ [r0]) (fun q hq => hw q (by simp [hq])) hap' hd' hs' hc'
    simp only [subGo]
    rw [List.append_assoc]
    refine ⟨this.1, fun p h => ?_, fun p hp => ?_⟩
    · have h2 := this.2.1 p h
      rw [covered_append, covered_cons] at h2
      rw [covered_cons]
      simp only [Covered, List.mem_singleton, exists_eq_left] at h2 ⊢
      grind
    · rw [this.2.2 p hp, covered_append, covered_cons]
      simp only [Covered, List.mem_singleton, exists_eq_left]
      grind

end XL
