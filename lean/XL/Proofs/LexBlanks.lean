import XL.Proofs.LexTree
/-!
# The tokeniser on text with blanks, and the exported text of a tree

Part 1 (`ws` … `parse_textG`): every filter of the tokeniser loop on text in which blanks stand between the tokens
(`GT` = token and the number of blanks behind it): the filters that skip leading blanks, those that eat trailing
blanks, the operator runs in which blanks are dropped; `lexLoop_textG` — the loop does on that text what the token
list does; `parse_textG` — from tokens to text.

Part 2 (`CT.fspec` … `render_text_parses`): `render`, the exported text of a formula (`(a + b)`, `F(a, b)`, `-a`,
`a%`), is such a text for the fully parenthesised spelling `CT.fspec`; for every render-stable tree (`CT.RWF`)
`parseString ('=' :: render t) = ok t` — the character-level form of "export then import is the identity".
`CT.shapeOK` decides the shape condition (driver command `rtext`), `rwf_of_wf_shape` ties it to `CT.RWF`.
-/
namespace XL.LexText
open XL

/-- a run of `k` blanks -/
def ws (k : Nat) : List Char := List.replicate k ' '

theorem skipWs_ws (k : Nat) (s : List Char) : skipWs (ws k ++ s) = skipWs s := by
  induction k with
  | zero => rfl
  | succ n ih =>
    have : ws (n + 1) ++ s = ' ' :: (ws n ++ s) := by simp [ws, List.replicate_succ]
    rw [this]
    have h : isWs ' ' = true := by decide
    simp only [skipWs, List.dropWhile, h] at ih ⊢
    exact ih

theorem mError_ws (k : Nat) (s : List Char) : mError (ws k ++ s) = mError s := by simp only [mError, skipWs_ws]
theorem mString_ws (k : Nat) (s : List Char) : mString (ws k ++ s) = mString s := by simp only [mString, skipWs_ws]
theorem mNumber_ws (k : Nat) (s : List Char) : mNumber (ws k ++ s) = mNumber s := by simp only [mNumber, skipWs_ws]
theorem mSeparator_ws (k : Nat) (s : List Char) : mSeparator (ws k ++ s) = mSeparator s := by simp only [mSeparator, skipWs_ws]
theorem mFunction_ws (k : Nat) (s : List Char) : mFunction (ws k ++ s) = mFunction s := by simp only [mFunction, skipWs_ws]
theorem mArray_ws (k : Nat) (s : List Char) : mArray (ws k ++ s) = mArray s := by simp only [mArray, skipWs_ws]
theorem mParen_ws (k : Nat) (s : List Char) : mParen (ws k ++ s) = mParen s := by simp only [mParen, skipWs_ws]
theorem opBeforeSign_ws (k : Nat) (s : List Char) : opBeforeSign (ws k ++ s) = opBeforeSign s := by simp only [opBeforeSign, skipWs_ws]

theorem mRange_ws (k : Nat) (s : List Char) : mRange (ws (k + 1) ++ s) = .noMatch := by
  have : ws (k + 1) ++ s = ' ' :: (ws k ++ s) := by simp [ws, List.replicate_succ]
  rw [this]
  exact mRange_nonword ' ' _ (by decide) (by decide)


/-! ### operands followed by blanks -/

def afterOperandW : List Char := ' ' :: afterOperand

def OkAfterW (rest : List Char) : Prop := rest = [] ∨ ∃ c r, rest = c :: r ∧ c ∈ afterOperandW

theorem afterW_facts (c : Char) (h : c ∈ afterOperandW) :
    c.isDigit = false ∧ c.isAlpha = false ∧ c ≠ '.' ∧ c ≠ ':' ∧ c ≠ 'E' ∧ c ≠ 'e' ∧ isWordChar c = false ∧ c ≠ '(' ∧ c ≠ '#' ∧ c ≠ '"' := by
  have := List.all_eq_true.mp (by decide : afterOperandW.all (fun c => !c.isDigit && !c.isAlpha && c != '.' && c != ':' && c != 'E' && c != 'e'
    && !isWordChar c && c != '(' && c != '#' && c != '"') = true) c h
  simpa [and_assoc] using this

theorem ws_succ (g : Nat) (s : List Char) : ws (g + 1) ++ s = ' ' :: (ws g ++ s) := by simp [ws, List.replicate_succ]

theorem okAfterW_ws (g : Nat) (rest : List Char) (h : OkAfter rest) : OkAfterW (ws g ++ rest) := by
  cases g with
  | zero =>
    rcases h with rfl | ⟨c, r, rfl, hc⟩
    · left; simp [ws]
    · right; exact ⟨c, r, by simp [ws], by simp [afterOperandW, hc]⟩
  | succ n => right; exact ⟨' ', ws n ++ rest, ws_succ n rest, by simp [afterOperandW]⟩

theorem skipWs_ws_okAfter (g : Nat) (rest : List Char) (h : OkAfter rest) : skipWs (ws g ++ rest) = rest := by
  rw [skipWs_ws]; exact skipWs_okAfter rest h

theorem takeDigits_appendW (d rest : List Char) (hd : ∀ c ∈ d, c ∈ digitsL) (hr : OkAfterW rest) :
    takeDigits (d ++ rest) = (d, rest) := by
  have hall : ∀ c ∈ d, c.isDigit = true := fun c hc => (digit_facts c (hd c hc)).1
  have hrest : rest.takeWhile Char.isDigit = [] ∧ rest.dropWhile Char.isDigit = rest := by
    rcases hr with rfl | ⟨c, r, rfl, hc⟩
    · simp
    · have := (afterW_facts c hc).1
      simp [List.takeWhile, List.dropWhile, this]
  simp only [takeDigits]
  rw [List.takeWhile_append_of_pos hall, List.dropWhile_append_of_pos hall, hrest.1, hrest.2]
  simp

theorem numLiteral_digitsW (d rest : List Char) (hne : d ≠ []) (hd : ∀ c ∈ d, c ∈ digitsL) (hr : OkAfterW rest) :
    numLiteral (d ++ rest) = some (d, rest) := by
  have htd := takeDigits_appendW d rest hd hr
  cases d with
  | nil => exact absurd rfl hne
  | cons c0 d' =>
    have hc0 := digit_facts c0 (hd c0 (by simp))
    have h1 : ¬ (c0 = '.') := hc0.2.2.2.1
    unfold numLiteral
    rcases hr with rfl | ⟨c, r, rfl, hc⟩
    · simp only [List.append_nil] at htd ⊢
      simp [htd, h1]
    · have hf := afterW_facts c hc
      simp only [List.cons_append] at htd ⊢
      simp only [htd]
      simp [h1, hf]
      cases r with
      | nil => rfl
      | cons sg r' => simp [hf]

theorem lookahead_ws (g : Nat) (rest : List Char) (hr : OkAfter rest) : numLookaheadOk (ws g ++ rest) = true := by
  cases g with
  | zero => simpa [ws] using lookahead_okAfter rest hr
  | succ n =>
    rw [ws_succ]
    simp only [numLookaheadOk]
    have : skipWs (' ' :: (ws n ++ rest)) = rest := by rw [← ws_succ]; exact skipWs_ws_okAfter (n + 1) rest hr
    rw [this]
    rcases hr with rfl | ⟨c, r, rfl, hc⟩
    · decide
    · have hf := after_facts c hc
      simp [hf]

/-- an unsigned integer literal followed by blanks -/
theorem mNumber_digits_g (d : List Char) (g : Nat) (rest : List Char) (hne : d ≠ []) (hd : ∀ c ∈ d, c ∈ digitsL) (hr : OkAfter rest) :
    mNumber (d ++ (ws g ++ rest)) = some (.operand .num (String.ofList d), rest) := by
  cases d with
  | nil => exact absurd rfl hne
  | cons c0 d' =>
    have hc0 := digit_facts c0 (hd c0 (by simp))
    have hs : skipWs (c0 :: d' ++ (ws g ++ rest)) = c0 :: d' ++ (ws g ++ rest) := skipWs_cons c0 _ hc0.2.1
    simp only [mNumber, hs, numLiteral_digitsW (c0 :: d') (ws g ++ rest) hne hd (okAfterW_ws g rest hr), lookahead_ws g rest hr,
      skipWs_ws_okAfter g rest hr]
    simp

theorem rest_splitW (rest : List Char) (hr : OkAfterW rest) :
    rest.takeWhile isWordChar = [] ∧ rest.dropWhile isWordChar = rest := by
  rcases hr with rfl | ⟨c, r, rfl, hc⟩
  · simp
  · have := (afterW_facts c hc).2.2.2.2.2.2.1
    simp [List.takeWhile, List.dropWhile, this]

/-- a cell name followed by blanks: the blanks stay -/
theorem mRange_cellW (ls ds rest : List Char) (h : CellName ls ds) (hr : OkAfterW rest) :
    mRange (ls ++ ds ++ rest) = .tok (.operand .range (String.ofList (ls ++ ds))) rest := by
  have hw := cell_word ls ds h
  have h1 : (ls ++ ds ++ rest).takeWhile isWordChar = ls ++ ds := by
    rw [List.takeWhile_append_of_pos hw, (rest_splitW rest hr).1]; simp
  have h2 : (ls ++ ds ++ rest).dropWhile isWordChar = rest := by
    rw [List.dropWhile_append_of_pos hw, (rest_splitW rest hr).2]
  have h3 : (ls ++ ds).isEmpty = false := by
    cases ls with
    | nil => have := h.nLetters.1; simp at this
    | cons _ _ => rfl
  unfold mRange
  simp only [h1, h2, h3]
  rcases hr with rfl | ⟨c, r, rfl, hc⟩
  · simp [cell_nodollar ls ds h, cellName_ok ls ds h]
  · have hf := afterW_facts c hc
    simp [hf, cell_nodollar ls ds h, cellName_ok ls ds h]

theorem strBody_plainW : ∀ (body rest acc : List Char), (∀ c ∈ body, c ≠ '"') → OkAfterW rest →
    strBody (body ++ '"' :: rest) acc = some (acc.reverse ++ body, rest)
  | [], rest, acc, _, hr => by
    rcases hr with rfl | ⟨c, r, rfl, hc⟩
    · simp [strBody]
    · have hq : c ≠ '"' := (afterW_facts c hc).2.2.2.2.2.2.2.2.2
      simp only [List.nil_append]
      rw [strBody.eq_def]
      simp [hq]
  | b :: body, rest, acc, hb, hr => by
    have hq : b ≠ '"' := hb b (by simp)
    have ih := strBody_plainW body rest (b :: acc) (fun c hc => hb c (by simp [hc])) hr
    simp only [List.cons_append]
    rw [strBody.eq_def]
    simp [hq]
    simpa using ih

/-- a string literal followed by blanks -/
theorem mString_plain_g (body : List Char) (g : Nat) (rest : List Char) (hb : ∀ c ∈ body, c ∈ strL) (hr : OkAfter rest) :
    mString ('"' :: (body ++ '"' :: (ws g ++ rest))) = some (.operand .str (String.ofList body), rest) := by
  have hq : isWs '"' = false := by decide
  simp only [mString, skipWs_cons '"' _ hq]
  rw [strBody_plainW body (ws g ++ rest) [] (fun c hc => (str_facts c (hb c hc)).1) (okAfterW_ws g rest hr)]
  simp [skipWs_ws_okAfter g rest hr]


/-! ### operators between blanks -/

theorem ws_all_run (k : Nat) : ∀ x ∈ ws k, isOpRunChar x = true := by
  intro x hx
  simp only [ws, List.mem_replicate] at hx
  rw [hx.2]; decide

theorem filter_ws (k : Nat) : (ws k).filter (fun c => !isWs c) = [] := by
  apply List.filter_eq_nil_iff.mpr
  intro x hx
  simp only [ws, List.mem_replicate] at hx
  rw [hx.2]; decide

theorem processRun_ws (l g : Nat) (m : List Char) : processRun (ws l ++ m ++ ws g) = processRun m := by
  have : (ws l ++ m ++ ws g).filter (fun c => !isWs c) = m.filter (fun c => !isWs c) := by
    simp [List.filter_append, filter_ws]
  simp only [processRun, this]

/-- an operator run `ws l ++ m ++ ws g` in front of a character that does not continue it -/
theorem mOperator_run_g (l g : Nat) (m : List Char) (name : String) (c : Char) (r : List Char)
    (hm : ∀ x ∈ m, isOpRunChar x = true) (h0 : ∃ x t, m = x :: t ∧ isWs x = false ∧ x ≠ '%')
    (hc : isOpRunChar c = false) (hcand : opBeforeSign (m ++ (ws g ++ c :: r)) = none) (hproc : processRun m = some name) :
    mOperator (ws l ++ (m ++ (ws g ++ c :: r))) = some (.opr name, c :: r) := by
  obtain ⟨x, t, rfl, hxw, hxp⟩ := h0
  have hall : ∀ y ∈ ws l ++ (x :: t) ++ ws g, isOpRunChar y = true := by
    intro y hy
    rcases List.mem_append.mp hy with h | h
    · rcases List.mem_append.mp h with h | h
      · exact ws_all_run l y h
      · exact hm y h
    · exact ws_all_run g y h
  have e : ws l ++ ((x :: t) ++ (ws g ++ c :: r)) = (ws l ++ (x :: t) ++ ws g) ++ c :: r := by simp
  have h1 : (ws l ++ ((x :: t) ++ (ws g ++ c :: r))).takeWhile isOpRunChar = ws l ++ (x :: t) ++ ws g := by
    rw [e, List.takeWhile_append_of_pos hall]; simp [List.takeWhile, hc]
  have h2 : (ws l ++ ((x :: t) ++ (ws g ++ c :: r))).dropWhile isOpRunChar = c :: r := by
    rw [e, List.dropWhile_append_of_pos hall]; simp [List.dropWhile, hc]
  have hs : skipWs (ws l ++ ((x :: t) ++ (ws g ++ c :: r))) = (x :: t) ++ (ws g ++ c :: r) := by
    rw [skipWs_ws]; exact skipWs_cons x _ hxw
  simp only [mOperator, opBeforeSign_ws, hcand, hs]
  split
  · rename_i heq; simp at heq; exact absurd heq.1 hxp
  · simp only [h1, h2, processRun_ws, hproc]
    have hne : (ws l ++ (x :: t) ++ ws g).isEmpty = false := by simp
    simp [hne]

theorem signAhead_ws_atom (g : Nat) (c : Char) (r : List Char) (h : c ∈ startAtom) : signAhead (ws g ++ c :: r) = false := by
  have hf := atom_facts c h
  simp [signAhead, skipWs_ws, skipWs_cons c r hf.2.1, hf]

/-- an operator symbol between blanks, followed by the start of an operand (no sign): the blanks are consumed -/
theorem mOperator_bin_atom_g (l g : Nat) (name : String) (hn : name ∈ opsNoPM) (c : Char) (r : List Char) (h : c ∈ startAtom) :
    mOperator (ws l ++ (opText name ++ (ws g ++ c :: r))) = some (.opr name, c :: r) := by
  have hf := atom_facts c h
  have hsa := signAhead_ws_atom g c r h
  simp only [opsNoPM, List.mem_cons, List.not_mem_nil, or_false] at hn
  rcases hn with rfl | rfl | rfl | rfl | rfl | rfl | rfl | rfl | rfl | rfl
  all_goals
    apply mOperator_run_g l g _ _ c r (by decide) ⟨_, _, rfl, by decide, by decide⟩ hf.1 _ (by decide)
  all_goals
    cases g with
    | zero => simp [ws, opText, opBeforeSign, opCand, skipWs, isWs, signAhead_atom c r h, hf]
    | succ n =>
      have hsa' := hsa
      rw [ws_succ] at hsa' ⊢
      simp [opText, opBeforeSign, opCand, skipWs, isWs, hsa']


/-- an operator symbol (after blanks) in front of blanks and a sign: the blanks behind it stay -/
theorem mOperator_bin_sign_g (l g : Nat) (name : String) (hn : name ∈ opsNoPM) (sg : Char) (hsg : sg = '+' ∨ sg = '-') (r : List Char) :
    mOperator (ws l ++ (opText name ++ (ws g ++ sg :: r))) = some (.opr name, ws g ++ sg :: r) := by
  have hsa : signAhead (ws g ++ sg :: r) = true := by
    have hw : isWs sg = false := by rcases hsg with rfl | rfl <;> decide
    simp only [signAhead, skipWs_ws, skipWs_cons sg r hw]
    rcases hsg with rfl | rfl <;> decide
  simp only [mOperator, opBeforeSign_ws]
  simp only [opsNoPM, List.mem_cons, List.not_mem_nil, or_false] at hn
  rcases hn with rfl | rfl | rfl | rfl | rfl | rfl | rfl | rfl | rfl | rfl
  all_goals
    cases g with
    | zero => rcases hsg with rfl | rfl <;> simp [ws, opText, opBeforeSign, opCand, skipWs, isWs, signAhead, processRun]
    | succ n =>
      rw [ws_succ] at hsa ⊢
      simp [opText, opBeforeSign, opCand, skipWs, isWs, hsa, processRun]

/-- `+` or `-` between blanks, before the start of an operand -/
theorem mOperator_pm_g (l g : Nat) (sg : Char) (hsg : sg = '+' ∨ sg = '-') (c : Char) (r : List Char) (h : c ∈ startAtom) :
    mOperator (ws l ++ (sg :: (ws g ++ c :: r))) = some (.opr (if sg = '-' then "-" else "+"), c :: r) := by
  have hf := atom_facts c h
  have := mOperator_run_g l g [sg] (if sg = '-' then "-" else "+") c r
    (by rcases hsg with rfl | rfl <;> decide) ⟨sg, [], rfl, by rcases hsg with rfl | rfl <;> decide, by rcases hsg with rfl | rfl <;> decide⟩ hf.1
    (by rcases hsg with rfl | rfl <;> simp [opBeforeSign, opCand, skipWs, isWs])
    (by rcases hsg with rfl | rfl <;> decide)
  simpa using this

/-- a single `%` after blanks -/
theorem mOperator_pct_g (l : Nat) (rest : List Char) (h : ∀ c r, rest = c :: r → c ≠ '%') :
    mOperator (ws l ++ '%' :: rest) = some (.opr "%", rest) := by
  have hc : opBeforeSign ('%' :: rest) = none := by simp [opBeforeSign, opCand, skipWs, isWs]
  simp only [mOperator, opBeforeSign_ws, hc]
  have hs : skipWs (ws l ++ '%' :: rest) = '%' :: rest := by rw [skipWs_ws]; exact skipWs_cons '%' rest (by decide)
  rw [hs]
  cases rest with
  | nil => simp [List.takeWhile]
  | cons c r =>
    have := h c r rfl
    have hb : (c == '%') = false := by simp [this]
    simp [List.takeWhile, hb]

/-- blanks in front of `,` or `)` are no operator -/
theorem mOperator_none_g (l : Nat) (c : Char) (r : List Char) (hw : isWs c = false) (ho : isOpRunChar c = false) (hp : c ≠ '%') :
    mOperator (ws l ++ c :: r) = none := by
  have hcand : opBeforeSign (c :: r) = none := by
    simp [opBeforeSign, skipWs_cons c r hw, opCand_none c r ho]
  have hs : skipWs (ws l ++ c :: r) = c :: r := by rw [skipWs_ws]; exact skipWs_cons c r hw
  simp only [mOperator, opBeforeSign_ws, hcand, hs]
  split
  · rename_i heq; simp at heq; exact absurd heq.1 hp
  · have h1 : (ws l ++ c :: r).takeWhile isOpRunChar = ws l := by
      rw [List.takeWhile_append_of_pos (ws_all_run l)]; simp [List.takeWhile, ho]
    simp only [h1]
    cases l with
    | zero => simp [ws]
    | succ n =>
      have hne : (ws (n + 1)).isEmpty = false := by simp [ws, List.replicate_succ]
      have hp' : processRun (ws (n + 1)) = none := by
        have := processRun_ws (n + 1) 0 []
        simp only [ws, List.replicate_zero, List.append_nil] at this
        simpa [ws, processRun] using this
      simp [hne, hp']


/-! ### one iteration of the loop, with blanks -/

theorem punct_before_operator_g (l : Nat) (c : Char) (r : List Char) (h : c ∈ punctL) (hq : c ≠ '"') :
    mError (ws l ++ c :: r) = none ∧ mString (ws l ++ c :: r) = none ∧ mNumber (ws l ++ c :: r) = none ∧
    mRange (ws l ++ c :: r) = .noMatch := by
  have hb := punct_before_operator c r h hq
  refine ⟨by rw [mError_ws]; exact hb.1, by rw [mString_ws]; exact hb.2.1, by rw [mNumber_ws]; exact hb.2.2.1, ?_⟩
  cases l with
  | zero => simpa [ws] using hb.2.2.2
  | succ n => exact mRange_ws n _

def startsSignChar : List Char → Bool
  | c :: _ => c == '+' || c == '-'
  | [] => false

/-- does the token (followed by `g` blanks and then `rest`) leave the blanks to the next iteration? -/
def TS.rem (tk : TS) (g : Nat) (rest : List Char) : Nat :=
  match tk with
  | .cell _ _ => g
  | .rp => g
  | .pct => g
  | .bin name => if decide (name ∈ opsNoPM) && startsSignChar rest then g else 0
  | _ => 0

/-- may blanks stand in front of the token? -/
def TS.tolerant : TS → Bool
  | .bin _ => true | .sign _ => true | .pct => true | .sep => true | .rp => true
  | _ => false

theorem length_lt_append3 (l g : Nat) (a rest : List Char) (k : Nat) (h : a ≠ []) (hk : k ≤ g) :
    (ws k ++ rest).length < (ws l ++ (a ++ (ws g ++ rest))).length := by
  cases a with
  | nil => exact absurd rfl h
  | cons x t => simp [ws]; omega

/-- **one iteration of the tokeniser loop, with blanks**: `l` blanks, the token, `g` blanks, then text that
starts with a delimiting non-blank character -/
theorem lexStep_g (tk : TS) (l g : Nat) (rest : List Char) (st st1 : PState) (hwf : tk.WF) (hn : tk.okNext rest)
    (hl : l = 0 ∨ tk.tolerant = true) (hstep : step st tk.tok = .ok st1) :
    lexStep st (ws l ++ (tk.text ++ (ws g ++ rest))) = .ok (st1, ws (tk.rem g rest) ++ rest) := by
  cases tk with
  | num d =>
    have hl0 : l = 0 := by rcases hl with h | h; exact h; simp [TS.tolerant] at h
    subst hl0
    obtain ⟨hne, hd⟩ := hwf
    obtain ⟨d0, dt, rfl⟩ : ∃ d0 dt, d = d0 :: dt := by
      cases d with | nil => exact absurd rfl hne | cons a b => exact ⟨a, b, rfl⟩
    have hd0 := digit_facts d0 (hd d0 (by simp))
    simp only [ws, List.replicate_zero, List.nil_append, TS.text, TS.rem] at hstep ⊢
    exact lexStep_number st _ _ rest st1 (mError_none d0 _ hd0.2.1 hd0.2.2.2.2.2.1) (mString_none d0 _ hd0.2.1 hd0.2.2.1)
      (mNumber_digits_g (d0 :: dt) g rest hne hd hn) (by simp [ws]; omega) hstep
  | cell ls ds =>
    have hl0 : l = 0 := by rcases hl with h | h; exact h; simp [TS.tolerant] at h
    subst hl0
    obtain ⟨l0, lt, rfl⟩ : ∃ l0 lt, ls = l0 :: lt := by
      cases ls with | nil => have := hwf.nLetters.1; simp at this | cons a b => exact ⟨a, b, rfl⟩
    have hl0 := upper_facts l0 (hwf.letters l0 (by simp))
    simp only [ws, List.replicate_zero, List.nil_append, TS.rem] at hstep ⊢
    have e : TS.text (.cell (l0 :: lt) ds) ++ (List.replicate g ' ' ++ rest) = l0 :: (lt ++ ds ++ (ws g ++ rest)) := by simp [TS.text, ws]
    have e2 : TS.text (.cell (l0 :: lt) ds) ++ (List.replicate g ' ' ++ rest) = (l0 :: lt) ++ ds ++ (ws g ++ rest) := by simp [TS.text, ws]
    have hE : mError (TS.text (.cell (l0 :: lt) ds) ++ (List.replicate g ' ' ++ rest)) = none := by rw [e]; exact mError_none l0 _ hl0.2.2.2.1 hl0.2.2.2.2.2.2.2.2.1
    have hS : mString (TS.text (.cell (l0 :: lt) ds) ++ (List.replicate g ' ' ++ rest)) = none := by rw [e]; exact mString_none l0 _ hl0.2.2.2.1 hl0.2.2.2.2.1
    have hN : mNumber (TS.text (.cell (l0 :: lt) ds) ++ (List.replicate g ' ' ++ rest)) = none := by rw [e2]; exact mNumber_cell (l0 :: lt) ds _ hwf
    have hR : mRange (TS.text (.cell (l0 :: lt) ds) ++ (List.replicate g ' ' ++ rest)) = .tok (.operand .range (String.ofList ((l0 :: lt) ++ ds))) (ws g ++ rest) := by
      rw [e2]; exact mRange_cellW (l0 :: lt) ds _ hwf (okAfterW_ws g rest hn)
    exact lexStep_range st _ _ _ st1 hE hS hN hR (by simp [TS.text, ws]; omega) hstep
  | str body =>
    have hl0 : l = 0 := by rcases hl with h | h; exact h; simp [TS.tolerant] at h
    subst hl0
    simp only [ws, List.replicate_zero, List.nil_append, TS.rem] at hstep ⊢
    have e : TS.text (.str body) ++ (List.replicate g ' ' ++ rest) = '"' :: (body ++ '"' :: (ws g ++ rest)) := by simp [TS.text, ws]
    rw [e]
    exact lexStep_string st _ _ rest st1 (mError_none '"' _ (by decide) (by decide)) (mString_plain_g body g rest hwf hn)
      (by simp [ws]; omega) hstep
  | bin name =>
    simp only [TS.okNext] at hn
    simp only [TS.WF] at hwf
    rcases hwf with hops | rfl | rfl
    · have hnpm : ¬ (name = "+" ∨ name = "-") := by
        simp only [opsNoPM, List.mem_cons, List.not_mem_nil, or_false] at hops
        rcases hops with rfl | rfl | rfl | rfl | rfl | rfl | rfl | rfl | rfl | rfl <;> decide
      simp only [hnpm, if_false] at hn
      obtain ⟨c, r, rfl, hc⟩ := hn
      have hx : ∃ x t, opText name = x :: t ∧ x ∈ punctL ∧ x ≠ '"' := by
        simp only [opsNoPM, List.mem_cons, List.not_mem_nil, or_false] at hops
        rcases hops with rfl | rfl | rfl | rfl | rfl | rfl | rfl | rfl | rfl | rfl <;> exact ⟨_, _, rfl, by decide, by decide⟩
      obtain ⟨x, t, hxt, hxp, hxq⟩ := hx
      have hb := punct_before_operator_g l x (t ++ (ws g ++ c :: r)) hxp hxq
      simp only [TS.text, TS.tok] at hstep ⊢
      rcases hc with hc | rfl | rfl
      · have hrem : TS.rem (.bin name) g (c :: r) = 0 := by
          have hf := atom_facts c hc
          simp [TS.rem, startsSignChar, hf]
        have hO := mOperator_bin_atom_g l g name hops c r hc
        rw [hrem]
        rw [hxt] at hO ⊢
        simp only [List.cons_append, ws, List.replicate_zero, List.nil_append] at hO hb ⊢
        exact lexStep_operator st _ _ _ st1 hb.1 hb.2.1 hb.2.2.1 hb.2.2.2 hO (by simp; omega) hstep
      · have hrem : TS.rem (.bin name) g ('+' :: r) = g := by simp [TS.rem, hops, startsSignChar]
        have hO := mOperator_bin_sign_g l g name hops '+' (Or.inl rfl) r
        rw [hrem]
        rw [hxt] at hO ⊢
        simp only [List.cons_append] at hO hb ⊢
        exact lexStep_operator st _ _ _ st1 hb.1 hb.2.1 hb.2.2.1 hb.2.2.2 hO (by simp [ws]; omega) hstep
      · have hrem : TS.rem (.bin name) g ('-' :: r) = g := by simp [TS.rem, hops, startsSignChar]
        have hO := mOperator_bin_sign_g l g name hops '-' (Or.inr rfl) r
        rw [hrem]
        rw [hxt] at hO ⊢
        simp only [List.cons_append] at hO hb ⊢
        exact lexStep_operator st _ _ _ st1 hb.1 hb.2.1 hb.2.2.1 hb.2.2.2 hO (by simp [ws]; omega) hstep
    · simp only [true_or, if_true] at hn
      obtain ⟨c, r, rfl, hc⟩ := hn
      have hO := mOperator_pm_g l g '+' (Or.inl rfl) c r hc
      have hb := punct_before_operator_g l '+' (ws g ++ c :: r) (by decide) (by decide)
      have hrem : TS.rem (.bin "+") g (c :: r) = 0 := by simp [TS.rem, opsNoPM]
      rw [hrem]
      simp only [TS.text, TS.tok, opText, List.cons_append, List.nil_append, ws, List.replicate_zero] at hstep hO hb ⊢
      exact lexStep_operator st _ _ _ st1 hb.1 hb.2.1 hb.2.2.1 hb.2.2.2 (by simpa using hO) (by simp; omega) hstep
    · simp only [or_true, if_true] at hn
      obtain ⟨c, r, rfl, hc⟩ := hn
      have hO := mOperator_pm_g l g '-' (Or.inr rfl) c r hc
      have hb := punct_before_operator_g l '-' (ws g ++ c :: r) (by decide) (by decide)
      have hrem : TS.rem (.bin "-") g (c :: r) = 0 := by simp [TS.rem, opsNoPM]
      rw [hrem]
      simp only [TS.text, TS.tok, opText, List.cons_append, List.nil_append, ws, List.replicate_zero] at hstep hO hb ⊢
      exact lexStep_operator st _ _ _ st1 hb.1 hb.2.1 hb.2.2.1 hb.2.2.2 (by simpa using hO) (by simp; omega) hstep
  | sign m =>
    obtain ⟨c, r, rfl, hc⟩ := hn
    simp only [TS.rem, ws, List.replicate_zero, List.nil_append]
    cases m with
    | true =>
      have hO := mOperator_pm_g l g '-' (Or.inr rfl) c r hc
      have hb := punct_before_operator_g l '-' (ws g ++ c :: r) (by decide) (by decide)
      simp only [TS.text, TS.tok, List.cons_append, List.nil_append, ws] at hstep hO hb ⊢
      exact lexStep_operator st _ _ _ st1 hb.1 hb.2.1 hb.2.2.1 hb.2.2.2 (by simpa using hO) (by simp; omega) hstep
    | false =>
      have hO := mOperator_pm_g l g '+' (Or.inl rfl) c r hc
      have hb := punct_before_operator_g l '+' (ws g ++ c :: r) (by decide) (by decide)
      simp only [TS.text, TS.tok, List.cons_append, List.nil_append, ws] at hstep hO hb ⊢
      exact lexStep_operator st _ _ _ st1 hb.1 hb.2.1 hb.2.2.1 hb.2.2.2 (by simpa using hO) (by simp; omega) hstep
  | pct =>
    obtain ⟨hok, hp⟩ := hn
    have hb := punct_before_operator_g l '%' (ws g ++ rest) (by decide) (by decide)
    have hp' : ∀ c r, ws g ++ rest = c :: r → c ≠ '%' := by
      intro c r h
      cases g with
      | zero => exact hp c r (by simpa [ws] using h)
      | succ n => rw [ws_succ] at h; simp at h; rw [← h.1]; decide
    simp only [TS.text, TS.tok, TS.rem, List.cons_append, List.nil_append] at hstep ⊢
    exact lexStep_operator st _ _ _ st1 hb.1 hb.2.1 hb.2.2.1 hb.2.2.2 (mOperator_pct_g l (ws g ++ rest) hp') (by simp; omega) hstep
  | sep =>
    have hb := punct_before_operator_g l ',' (ws g ++ rest) (by decide) (by decide)
    have hnw := startsOperand_noWs rest hn
    have hS : mSeparator (ws l ++ ',' :: (ws g ++ rest)) = some (.sep, rest) := by
      rw [mSeparator_ws]
      simp [mSeparator, skipWs_cons ',' _ (by decide : isWs ',' = false), skipWs_ws, skipWs_noWs rest hnw]
    simp only [TS.text, TS.tok, TS.rem, List.cons_append, List.nil_append, ws, List.replicate_zero] at hstep hb hS ⊢
    exact lexStep_separator st _ _ _ st1 hb.1 hb.2.1 hb.2.2.1 hb.2.2.2
      (by have := mOperator_none_g l ',' (ws g ++ rest) (by decide) (by decide) (by decide); simpa [ws] using this)
      hS (by simp; omega) hstep
  | fn name =>
    have hl0 : l = 0 := by rcases hl with h | h; exact h; simp [TS.tolerant] at h
    subst hl0
    obtain ⟨⟨n0, nt, rfl, hn0⟩, hall⟩ := hwf
    have hf0 := fnFirst_facts n0 hn0
    have hu0 := upper_facts n0 hf0.1
    have hnw : NoWsHead rest := startsOperand_noWs rest hn
    simp only [ws, List.replicate_zero, List.nil_append, TS.rem] at hstep ⊢
    have e : TS.text (.fn (n0 :: nt)) ++ (List.replicate g ' ' ++ rest) = n0 :: (nt ++ '(' :: (ws g ++ rest)) := by simp [TS.text, ws]
    have hE : mError (n0 :: (nt ++ '(' :: (ws g ++ rest))) = none := mError_none n0 _ hu0.2.2.2.1 hu0.2.2.2.2.2.2.2.2.1
    have hS : mString (n0 :: (nt ++ '(' :: (ws g ++ rest))) = none := mString_none n0 _ hu0.2.2.2.1 hu0.2.2.2.2.1
    have hN : mNumber (n0 :: (nt ++ '(' :: (ws g ++ rest))) = none :=
      mNumber_none_of n0 _ hu0.2.2.2.1 hu0.2.2.1 hu0.2.2.2.2.2.1 (strip_first _ _ n0 _ hf0.2.1) (strip_first _ _ n0 _ hf0.2.2)
    have hR : mRange (n0 :: (nt ++ '(' :: (ws g ++ rest))) = .noMatch := by
      have := mRange_fn (n0 :: nt) (ws g ++ rest) (by simp) hall
      simpa using this
    have hO : mOperator (n0 :: (nt ++ '(' :: (ws g ++ rest))) = none := mOperator_none n0 _ hu0.2.2.2.1 hu0.2.2.2.2.2.2.2.2.2.2.2.1 hu0.2.2.2.2.2.2.2.2.2.2.2.2
    have hP : mSeparator (n0 :: (nt ++ '(' :: (ws g ++ rest))) = none := mSeparator_none n0 _ hu0.2.2.2.1 (by
      intro e2; rw [e2] at hu0; simp at hu0)
    have hF : mFunction (n0 :: (nt ++ '(' :: (ws g ++ rest))) = some (.fn (String.ofList (n0 :: nt)), rest) := by
      -- the filter eats the blanks behind the parenthesis
      have hp : ∀ c ∈ n0 :: nt, (c.isAlphanum || c == '_' || c == '.') = true := by
        intro c hc; simp [(upper_facts c (hall c hc)).2.2.2.2.2.2.2.2.2.2.1]
      have hq : ('('.isAlphanum || '(' == '_' || '(' == '.') = false := by decide
      have h1 : ((n0 :: nt) ++ '(' :: (ws g ++ rest)).takeWhile (fun c => c.isAlphanum || c == '_' || c == '.') = n0 :: nt := by
        rw [List.takeWhile_append_of_pos hp]; simp [List.takeWhile, hq]
      have h2 : ((n0 :: nt) ++ '(' :: (ws g ++ rest)).dropWhile (fun c => c.isAlphanum || c == '_' || c == '.') = '(' :: (ws g ++ rest) := by
        rw [List.dropWhile_append_of_pos hp]; simp [List.dropWhile, hq]
      have hs : skipWs ((n0 :: nt) ++ '(' :: (ws g ++ rest)) = (n0 :: nt) ++ '(' :: (ws g ++ rest) := skipWs_cons n0 _ hu0.2.2.2.1
      have e3 : n0 :: (nt ++ '(' :: (ws g ++ rest)) = (n0 :: nt) ++ '(' :: (ws g ++ rest) := rfl
      rw [e3]
      simp only [mFunction, hs, h1, h2]
      simp [hu0.1, upperS, upper_map (n0 :: nt) hall, skipWs_ws, skipWs_noWs rest hnw]
    rw [e]
    exact lexStep_function st _ _ rest st1 hE hS hN hR hO hP hF (by simp [ws]; omega) hstep
  | lp =>
    have hl0 : l = 0 := by rcases hl with h | h; exact h; simp [TS.tolerant] at h
    subst hl0
    have hnw : NoWsHead rest := startsOperand_noWs rest (Or.inl hn)
    have hb := punct_before_operator '(' (ws g ++ rest) (by decide) (by decide)
    have hL : mParen ('(' :: (ws g ++ rest)) = some (.lp, rest) := by
      simp [mParen, skipWs_cons '(' _ (by decide : isWs '(' = false), skipWs_ws, skipWs_noWs rest hnw]
    simp only [ws, List.replicate_zero, List.nil_append, TS.text, TS.tok, TS.rem, List.cons_append] at hstep hb hL ⊢
    exact lexStep_paren st _ _ _ st1 hb.1 hb.2.1 hb.2.2.1 hb.2.2.2 (mOperator_none '(' _ (by decide) (by decide) (by decide))
      (mSeparator_none '(' _ (by decide) (by decide)) (mFunction_none '(' _ (by decide) (by decide)) (mArray_none '(' _ (by decide) (by decide))
      hL (by simp; omega) hstep
  | rp =>
    have hb := punct_before_operator_g l ')' (ws g ++ rest) (by decide) (by decide)
    have hO := mOperator_none_g l ')' (ws g ++ rest) (by decide) (by decide) (by decide)
    have hP : mSeparator (ws l ++ ')' :: (ws g ++ rest)) = none := by rw [mSeparator_ws]; exact mSeparator_none ')' _ (by decide) (by decide)
    have hF : mFunction (ws l ++ ')' :: (ws g ++ rest)) = none := by rw [mFunction_ws]; exact mFunction_none ')' _ (by decide) (by decide)
    have hA : mArray (ws l ++ ')' :: (ws g ++ rest)) = none := by rw [mArray_ws]; exact mArray_none ')' _ (by decide) (by decide)
    have hL : mParen (ws l ++ ')' :: (ws g ++ rest)) = some (.rp, ws g ++ rest) := by rw [mParen_ws]; exact mParen_rp _
    simp only [TS.text, TS.tok, TS.rem, List.cons_append, List.nil_append] at hstep ⊢
    exact lexStep_paren st _ _ _ st1 hb.1 hb.2.1 hb.2.2.1 hb.2.2.2 hO hP hF hA hL (by simp; omega) hstep


/-! ### the loop on text with blanks -/

/-- a token and the number of blanks written behind it -/
abbrev GT := TS × Nat

def textG : List GT → List Char
  | [] => []
  | (tk, g) :: ss => tk.text ++ (ws g ++ textG ss)

/-- every token is well formed, the text behind its blanks delimits it, and blanks that a filter leaves over are
followed by a token that may have blanks in front -/
inductive SafeG : List GT → Prop
  | nil : SafeG []
  | cons (tk : TS) (g : Nat) (ss : List GT) : tk.WF → tk.okNext (textG ss) →
      (tk.rem g (textG ss) = 0 ∨ ∃ tk' g' ss', ss = (tk', g') :: ss' ∧ tk'.tolerant = true) →
      SafeG ss → SafeG ((tk, g) :: ss)

theorem textG_ne (tk : TS) (g : Nat) (ss : List GT) (h : tk.WF) : tk.text ++ (ws g ++ textG ss) ≠ [] := by
  have := text_ne tk h
  cases ht : tk.text with
  | nil => exact absurd ht this
  | cons _ _ => simp

/-- **the tokeniser loop on text with blanks does what the token list does** (`l` blanks may be left over from the
token before) -/
theorem lexLoop_textG : ∀ (ss : List GT) (l : Nat) (st st' : PState) (fuel : Nat), SafeG ss →
    (l = 0 ∨ ∃ tk g ss', ss = (tk, g) :: ss' ∧ tk.tolerant = true) → (ws l ++ textG ss).length < fuel →
    runToks (ss.map fun x => x.1.tok) st = .ok st' → lexLoop fuel st (ws l ++ textG ss) = .ok st'
  | [], l, st, st', fuel, _, hl, hf, hr => by
    have hl0 : l = 0 := by
      rcases hl with h | ⟨_, _, _, h, _⟩
      · exact h
      · cases h
    subst hl0
    cases fuel with
    | zero => simp at hf
    | succ n =>
      simp only [List.map_nil, runToks] at hr
      cases hr
      simp [lexLoop, textG, ws]
  | (tk, g) :: ss, l, st, st', fuel, hs, hl, hf, hr => by
    cases hs with
    | cons _ _ _ hwf hnext hrem hrest =>
    cases fuel with
    | zero => simp at hf
    | succ n =>
      simp only [List.map_cons, runToks] at hr
      cases hstep : step st tk.tok with
      | error e =>
        rw [hstep] at hr
        cases e <;> simp at hr
      | ok st1 =>
        rw [hstep] at hr
        simp only at hr
        split at hr
        · cases hr
        · rename_i hne
          have hl' : l = 0 ∨ tk.tolerant = true := by
            rcases hl with h | ⟨tk', g', ss', h, ht⟩
            · exact Or.inl h
            · simp at h; obtain ⟨⟨rfl, rfl⟩, rfl⟩ := h; exact Or.inr ht
          have hlx := lexStep_g tk l g (textG ss) st st1 hwf hnext hl' hstep
          have hne' : (ws l ++ (tk.text ++ (ws g ++ textG ss))).isEmpty = false := by
            have := textG_ne tk g ss hwf
            cases h : tk.text ++ (ws g ++ textG ss) with
            | nil => exact absurd h this
            | cons _ _ => simp
          have hremle : tk.rem g (textG ss) ≤ g := by
            cases tk <;> simp [TS.rem] <;> split <;> omega
          have hlen : (ws (tk.rem g (textG ss)) ++ textG ss).length < (ws l ++ (tk.text ++ (ws g ++ textG ss))).length :=
            length_lt_append3 l g tk.text (textG ss) _ (text_ne tk hwf) hremle
          simp only [textG, lexLoop, hne', hlx, hne, hlen]
          simp only [Bool.false_eq_true, if_false, if_true]
          apply lexLoop_textG ss _ st1 st' n hrest _ _ hr
          · rcases hrem with h | ⟨tk', g', ss', h1, h2⟩
            · exact Or.inl h
            · exact Or.inr ⟨tk', g', ss', h1, h2⟩
          · simp only [textG] at hf
            have := hlen
            simp only [List.length_append] at this hf ⊢
            omega


theorem scan_ws : ∀ (g : Nat) (rest : List Char) (pw : Bool), ∃ pw', domainScan (ws g ++ rest) 0 false pw = domainScan rest 0 false pw'
  | 0, rest, pw => ⟨pw, by simp [ws]⟩
  | g + 1, rest, pw => by
    obtain ⟨pw', ih⟩ := scan_ws g rest (isWordChar ' ')
    refine ⟨pw', ?_⟩
    rw [ws_succ]
    have h1 : inAlphabet ' ' = true := by decide
    simp only [domainScan, h1, Bool.true_and]
    simpa using ih

theorem scan_textG : ∀ (ss : List GT), SafeG ss → ∀ pw, domainScan (textG ss) 0 false pw = true
  | [], _, pw => by simp [textG, domainScan]
  | (tk, g) :: ss, hs, pw => by
    cases hs with
    | cons _ _ _ hwf _ _ hrest =>
      obtain ⟨pw1, h1⟩ := scan_ts tk hwf (ws g ++ textG ss) pw
      obtain ⟨pw2, h2⟩ := scan_ws g (textG ss) pw1
      simp only [textG]
      rw [h1, h2]
      exact scan_textG ss hrest pw2

/-- the text ends with a character that is not a blank when no blanks are written behind the last token -/
theorem textG_last : ∀ (ss : List GT), SafeG ss → ss ≠ [] → (ss.getLast?.map (·.2)) = some 0 →
    ∃ init c, textG ss = init ++ [c] ∧ isWs c = false
  | [], _, hne, _ => absurd rfl hne
  | [(tk, g)], hs, _, hl => by
    have hg : g = 0 := by simpa using hl
    subst hg
    have hwf : tk.WF := by cases hs with | cons _ _ _ h _ _ _ => exact h
    obtain ⟨init, c, h1, h2⟩ := text_last_noWs tk hwf
    exact ⟨init, c, by simp [textG, ws, h1], h2⟩
  | (tk, g) :: x :: rest, hs, _, hl => by
    have hrest : SafeG (x :: rest) := by cases hs with | cons _ _ _ _ _ _ h => exact h
    have hl' : ((x :: rest).getLast?.map (·.2)) = some 0 := by simpa [List.getLast?_cons_cons] using hl
    obtain ⟨init, c, h1, h2⟩ := textG_last (x :: rest) hrest (by simp) hl'
    refine ⟨tk.text ++ (ws g ++ init), c, ?_, h2⟩
    simp only [textG] at h1 ⊢
    rw [h1]; simp

/-- **from tokens to text, with blanks** -/
theorem parse_textG (ss : List GT) (hs : SafeG ss) (hne : ss ≠ []) (hl : (ss.getLast?.map (·.2)) = some 0) (t : Ast)
    (h : parseToks (ss.map fun x => x.1.tok) = .ok t) : parseString ('=' :: textG ss) = .ok t := by
  have hlast := textG_last ss hs hne hl
  obtain ⟨⟨tk, g⟩, ss', rfl⟩ : ∃ x ss', ss = x :: ss' := by
    cases ss with | nil => exact absurd rfl hne | cons a b => exact ⟨a, b, rfl⟩
  have hwf : tk.WF := by cases hs with | cons _ _ _ h _ _ _ => exact h
  obtain ⟨c, r, hcr, hcw⟩ := text_head_noWs tk hwf (ws g ++ textG ss')
  simp only [parseToks] at h
  cases hrun : runToks (((tk, g) :: ss').map fun x => x.1.tok) initState with
  | error e => rw [hrun] at h; cases h
  | ok s =>
    rw [hrun] at h
    simp only at h
    have hloop := lexLoop_textG ((tk, g) :: ss') 0 initState s ((textG ((tk, g) :: ss')).length + 1) hs (Or.inl rfl)
      (by simp [ws]) hrun
    simp only [ws, List.replicate_zero, List.nil_append] at hloop
    have hdom : inDomain ('=' :: textG ((tk, g) :: ss')) = true := by
      obtain ⟨pw', hsc⟩ := scan_plain ['='] (textG ((tk, g) :: ss')) false (by decide)
      simp only [inDomain]
      have : '=' :: textG ((tk, g) :: ss') = ['='] ++ textG ((tk, g) :: ss') := rfl
      rw [this, hsc]
      exact scan_textG ((tk, g) :: ss') hs pw'
    have hbody : textG ((tk, g) :: ss') = c :: r := by simp only [textG]; exact hcr
    have hstrip : skipWs ((skipWs (textG ((tk, g) :: ss'))).reverse.dropWhile isWs).reverse = textG ((tk, g) :: ss') := by
      rw [hbody, skipWs_cons c r hcw, ← hbody, strip_trailing _ hlast, hbody, skipWs_cons c r hcw]
    simp only [parseString, hdom, Bool.not_true, Bool.false_eq_true, if_false, skipWs_cons '=' _ (by decide : isWs '=' = false),
      hstrip]
    rw [hbody]
    simp only [parseFormulaBody]
    rw [← hbody, hloop]
    simp only [h]


/-! ## the exported text (`render`) of a formula tree parses back to the tree

`render` writes every binary operator as `(a op b)` with one blank on either side of the operator, a call as
`F(a, b)`, signs and `%` without parentheses.  `CT.fspec` is that spelling as tokens, `CT.xspec` adds the blanks.
Not every tree is read back from this text — these are the known findings `sign-run` (`--x`, `a + -b`: sign runs
are folded by parity), `double-percent` (`x%%`) and the shared text `-x%` of `-(x%)` and `(-x)%`; `CT.RWF`
excludes exactly those shapes. -/

def CT.isPct : CT → Bool
  | .pct _ => true
  | _ => false

/-- the exported text begins with a sign -/
def CT.startsSignF : CT → Bool
  | .neg _ _ => true
  | .pct a => a.startsSignF
  | _ => false

mutual
def CT.fspec : CT → List TS
  | .num d => [.num d]
  | .cell ls ds => [.cell ls ds]
  | .str body => [.str body]
  | .bin name a b => TS.lp :: (a.fspec ++ TS.bin name :: (b.fspec ++ [TS.rp]))
  | .neg m a => TS.sign m :: a.fspec
  | .pct a => a.fspec ++ [TS.pct]
  | .call name args => TS.fn name :: (CT.fspecArgs args ++ [TS.rp])
def CT.fspecArgs : List CT → List TS
  | [] => []
  | [a] => a.fspec
  | a :: b :: rest => a.fspec ++ TS.sep :: CT.fspecArgs (b :: rest)
end

/-- strength of the exported spelling: binary operators are parenthesised -/
def CT.qf : CT → Nat
  | .neg _ _ => 7
  | .pct _ => 6
  | _ => 9

inductive CT.RWF : CT → Prop
  | num (d : List Char) : d ≠ [] → (∀ c ∈ d, c ∈ digitsL) → CT.RWF (.num d)
  | cell (ls ds : List Char) : CellName ls ds → CT.RWF (.cell ls ds)
  | str (body : List Char) : (∀ c ∈ body, c ∈ strL) → CT.RWF (.str body)
  | bin (name : String) (a b : CT) : name ∈ binNames → CT.RWF a → CT.RWF b →
      ((name = "+" ∨ name = "-") → b.startsSignF = false) → CT.RWF (.bin name a b)
  | neg (m : Bool) (a : CT) : CT.RWF a → a.startsSignF = false → a.isPct = false → CT.RWF (.neg m a)
  | pct (a : CT) : CT.RWF a → a.isPct = false → CT.RWF (.pct a)
  | call (name : List Char) (args : List CT) : (∃ n0 nt, name = n0 :: nt ∧ n0 ∈ fnFirstL) → (∀ c ∈ name, c ∈ upperL) →
      (∀ a ∈ args, CT.RWF a) → CT.RWF (.call name args)

theorem fspec_ne_nil (ct : CT) : ct.fspec ≠ [] := by
  cases ct <;> simp [CT.fspec]

theorem fspecArgs_map (args : List CT) :
    (CT.fspecArgs args).map TS.tok = joinSep (args.map fun a => a.fspec.map TS.tok) := by
  match args with
  | [] => simp [CT.fspecArgs, joinSep]
  | [a] => simp [CT.fspecArgs, joinSep]
  | a :: b :: rest =>
    have ih := fspecArgs_map (b :: rest)
    simp only [CT.fspecArgs, List.map_append, List.map_cons, joinSep, TS.tok] at ih ⊢
    rw [ih]

theorem qf_of (ct : CT) (h1 : ct.startsSignF = false) (h2 : ct.isPct = false) : ct.qf = 9 := by
  cases ct <;> simp_all [CT.qf, CT.startsSignF, CT.isPct]

theorem qf_ge (ct : CT) : 6 ≤ ct.qf := by
  cases ct <;> simp [CT.qf]

/-- the exported spelling is a spelling (token level) -/
theorem fspec_sp (ct : CT) (h : CT.RWF ct) : Sp ct.toAst (ct.fspec.map TS.tok) ct.qf := by
  induction h with
  | num d _ _ => simp only [CT.toAst, CT.fspec, CT.qf, List.map_cons, List.map_nil, TS.tok]; exact Sp.operand _ _
  | cell ls ds _ => simp only [CT.toAst, CT.fspec, CT.qf, List.map_cons, List.map_nil, TS.tok]; exact Sp.operand _ _
  | str body _ => simp only [CT.toAst, CT.fspec, CT.qf, List.map_cons, List.map_nil, TS.tok]; exact Sp.operand _ _
  | bin name a b hn _ _ _ iha ihb =>
    obtain ⟨_, hp5⟩ := prec_bin name hn
    have h := Sp.paren _ _ _ (Sp.bin name _ _ _ _ a.qf b.qf hn iha ihb (by have := qf_ge a; omega) (by have := qf_ge b; omega))
    simpa [CT.toAst, CT.fspec, CT.qf, TS.tok, List.append_assoc] using h
  | neg m a _ hs hp ih =>
    have hsn : signName m ∈ signNames := by cases m <;> simp [signName, signNames]
    have hsym : TS.tok (.sign m) = .opr (signSym (signName m)) := by cases m <;> simp [TS.tok, signName, signSym]
    simp only [CT.toAst, CT.fspec, CT.qf, List.map_cons, hsym]
    exact Sp.sign _ _ _ a.qf hsn ih (by rw [qf_of a hs hp]; omega)
  | pct a _ _ ih =>
    simp only [CT.toAst, CT.fspec, CT.qf, List.map_append, List.map_cons, List.map_nil, TS.tok]
    exact Sp.percent _ _ a.qf ih (qf_ge a)
  | call name args _ _ _ ih =>
    simp only [CT.toAst, CT.fspec, CT.qf, List.map_cons, List.map_append, List.map_nil, TS.tok, fspecArgs_map, toAsts_map]
    have := Sp.call (String.ofList name) (args.map fun a => (a.toAst, a.fspec.map TS.tok, a.qf))
      (by
        intro x hx _
        obtain ⟨a, ha, rfl⟩ := List.mem_map.mp hx
        exact ih a ha)
      (by
        intro x hx hnil
        obtain ⟨a, ha, rfl⟩ := List.mem_map.mp hx
        simp only [List.map_eq_nil_iff] at hnil
        exact absurd hnil (fspec_ne_nil a))
      (by
        intro x hl
        cases args with
        | nil => simp at hl
        | cons a rest =>
          cases rest with
          | cons b r => simp at hl
          | nil =>
            simp only [List.map_cons, List.map_nil, List.cons.injEq, and_true] at hl
            subst hl
            simp [fspec_ne_nil a])
    simpa [List.map_map, Function.comp_def] using this

/-! ### the exported spelling is delimited -/

/-- the exported spelling starts an operand; with an atom unless it begins with a sign -/
theorem startsF (ct : CT) (h : CT.RWF ct) : ∀ rest, StartsOperand (textOf ct.fspec ++ rest) ∧
    (ct.startsSignF = false → StartsAtom (textOf ct.fspec ++ rest)) := by
  induction h with
  | num d hne hd =>
    intro rest
    cases d with
    | nil => exact absurd rfl hne
    | cons a b =>
      have := atom_digit a (hd a (by simp))
      exact ⟨⟨a, b ++ rest, by simp [CT.fspec, textOf, TS.text], Or.inl this⟩, fun _ => ⟨a, b ++ rest, by simp [CT.fspec, textOf, TS.text], this⟩⟩
  | cell ls ds hc =>
    intro rest
    cases ls with
    | nil => have := hc.nLetters.1; simp at this
    | cons a b =>
      have := atom_upper a (hc.letters a (by simp))
      exact ⟨⟨a, b ++ ds ++ rest, by simp [CT.fspec, textOf, TS.text], Or.inl this⟩, fun _ => ⟨a, b ++ ds ++ rest, by simp [CT.fspec, textOf, TS.text], this⟩⟩
  | str body _ =>
    intro rest
    have : '"' ∈ startAtom := by decide
    exact ⟨⟨'"', body ++ '"' :: rest, by simp [CT.fspec, textOf, TS.text], Or.inl this⟩, fun _ => ⟨'"', body ++ '"' :: rest, by simp [CT.fspec, textOf, TS.text], this⟩⟩
  | bin name a b _ _ _ _ _ _ =>
    intro rest
    have hlp : '(' ∈ startAtom := by decide
    have e : textOf (CT.fspec (.bin name a b)) ++ rest = '(' :: (textOf (a.fspec ++ TS.bin name :: (b.fspec ++ [TS.rp])) ++ rest) := by
      simp [CT.fspec, textOf, TS.text]
    rw [e]
    exact ⟨⟨'(', _, rfl, Or.inl hlp⟩, fun _ => ⟨'(', _, rfl, hlp⟩⟩
  | neg m a _ _ _ _ =>
    intro rest
    have e : textOf (CT.fspec (.neg m a)) ++ rest = (if m then '-' else '+') :: (textOf a.fspec ++ rest) := by
      simp [CT.fspec, textOf, TS.text]
    refine ⟨⟨if m then '-' else '+', _, e, ?_⟩, fun h => by simp [CT.startsSignF] at h⟩
    cases m <;> simp
  | pct a _ _ iha =>
    intro rest
    have e : textOf (CT.fspec (.pct a)) ++ rest = textOf a.fspec ++ ('%' :: rest) := by
      simp [CT.fspec, textOf, textOf_append, TS.text]
    rw [e]
    have hs : CT.startsSignF (.pct a) = a.startsSignF := by simp [CT.startsSignF]
    rw [hs]
    exact iha _
  | call name args hname hall _ _ =>
    intro rest
    obtain ⟨n0, nt, rfl, hn0⟩ := hname
    have := atom_upper n0 (hall n0 (by simp))
    have e : textOf (CT.fspec (.call (n0 :: nt) args)) ++ rest = n0 :: (nt ++ '(' :: (textOf (CT.fspecArgs args ++ [TS.rp]) ++ rest)) := by
      simp [CT.fspec, textOf, TS.text]
    exact ⟨⟨n0, _, e, Or.inl this⟩, fun _ => ⟨n0, _, e, this⟩⟩

/-- what the delimiting of an exported sub-tree needs from the text behind it -/
def TailOKF (ct : CT) (tail : List Char) : Prop := OkAfter tail ∧ ∀ r, tail = '%' :: r → ct.isPct = false

theorem isPct_neg_free (ct : CT) (h : CT.RWF ct) : True := trivial

theorem safe_fargs : ∀ (args : List CT), (∀ a ∈ args, CT.RWF a) → (∀ a ∈ args, ∀ tail, TailOKF a tail → SafeT a.fspec tail) →
    ∀ tail, SafeT (CT.fspecArgs args) (')' :: tail)
  | [], _, _, tail => SafeT.nil _
  | [a], _, ih, tail => by
    simp only [CT.fspecArgs]
    exact ih a (by simp) _ ⟨okAfter_cons ')' tail (by decide), by intro r hr; simp at hr⟩
  | a :: b :: rest, hw, ih, tail => by
    simp only [CT.fspecArgs]
    apply safeT_append
    · apply ih a (by simp)
      refine ⟨?_, ?_⟩
      · simp only [textOf, TS.text, List.cons_append, List.nil_append]
        exact okAfter_cons ',' _ (by decide)
      · intro r hr; simp [textOf, TS.text] at hr
    · refine SafeT.cons .sep _ _ trivial ?_ (safe_fargs (b :: rest) (fun x hx => hw x (by simp [hx])) (fun x hx => ih x (by simp [hx])) tail)
      simp only [TS.okNext]
      left
      have : ∃ ss, CT.fspecArgs (b :: rest) = b.fspec ++ ss := by
        cases rest with
        | nil => exact ⟨[], by simp [CT.fspecArgs]⟩
        | cons c r => exact ⟨TS.sep :: CT.fspecArgs (c :: r), by simp [CT.fspecArgs]⟩
      obtain ⟨ss, hss⟩ := this
      rw [hss, textOf_append, List.append_assoc]
      exact (startsF b (hw b (by simp)) _).1

/-- **the exported spelling of every render-stable tree is delimited** -/
theorem safe_fspec (ct : CT) (h : CT.RWF ct) : ∀ tail, TailOKF ct tail → SafeT ct.fspec tail := by
  induction h with
  | num d hne hd =>
    intro tail ht
    exact SafeT.cons (.num d) [] tail ⟨hne, hd⟩ (by simpa [TS.okNext, textOf] using ht.1) (SafeT.nil _)
  | cell ls ds hc =>
    intro tail ht
    exact SafeT.cons (.cell ls ds) [] tail hc (by simpa [TS.okNext, textOf] using ht.1) (SafeT.nil _)
  | str body hb =>
    intro tail ht
    exact SafeT.cons (.str body) [] tail hb (by simpa [TS.okNext, textOf] using ht.1) (SafeT.nil _)
  | bin name a b hn ha hb hpm iha ihb =>
    intro tail ht
    obtain ⟨x, t, hxt, hxa, hxp⟩ := opText_head name hn
    simp only [CT.fspec]
    refine SafeT.cons .lp _ tail trivial ?_ ?_
    · simp only [TS.okNext, textOf_append, List.append_assoc]
      exact (startsF a ha _).1
    · apply safeT_append
      · apply iha
        refine ⟨?_, ?_⟩
        · simp only [textOf, TS.text, hxt, List.cons_append]
          exact okAfter_cons x _ hxa
        · intro r hr
          simp only [textOf, TS.text, hxt, List.cons_append, List.cons.injEq] at hr
          exact absurd hr.1 hxp
      · refine SafeT.cons (.bin name) _ tail (bin_wf name hn) ?_ ?_
        · simp only [TS.okNext, textOf_append, List.append_assoc]
          split
          · rename_i hpm'
            exact (startsF b hb _).2 (hpm hpm')
          · exact (startsF b hb _).1
        · apply safeT_append
          · apply ihb
            refine ⟨?_, ?_⟩
            · simp only [textOf, TS.text, List.cons_append, List.nil_append]
              exact okAfter_cons ')' _ (by decide)
            · intro r hr; simp [textOf, TS.text] at hr
          · exact SafeT.cons .rp [] tail trivial (by simpa [TS.okNext, textOf] using ht.1) (SafeT.nil _)
  | neg m a ha hs hp iha =>
    intro tail ht
    simp only [CT.fspec]
    refine SafeT.cons (.sign m) _ tail trivial ?_ ?_
    · simp only [TS.okNext]
      exact (startsF a ha tail).2 hs
    · exact iha tail ⟨ht.1, fun _ _ => hp⟩
  | pct a ha hp iha =>
    intro tail ht
    simp only [CT.fspec]
    apply safeT_append
    · apply iha
      refine ⟨?_, fun _ _ => hp⟩
      simp only [textOf, TS.text, List.cons_append, List.nil_append]
      exact okAfter_cons '%' _ (by decide)
    · refine SafeT.cons .pct [] tail trivial ?_ (SafeT.nil _)
      simp only [TS.okNext, textOf, List.nil_append]
      refine ⟨ht.1, ?_⟩
      intro c r hr hc
      subst hc
      have := ht.2 r hr
      simp [CT.isPct] at this
  | call name args hname hall hw ih =>
    intro tail ht
    simp only [CT.fspec]
    refine SafeT.cons (.fn name) _ tail ⟨hname, hall⟩ ?_ ?_
    · simp only [TS.okNext]
      cases args with
      | nil => right; exact ⟨tail, Or.inr (by simp [CT.fspecArgs, textOf, TS.text])⟩
      | cons a rest =>
        left
        have : ∃ ss, CT.fspecArgs (a :: rest) = a.fspec ++ ss := by
          cases rest with
          | nil => exact ⟨[], by simp [CT.fspecArgs]⟩
          | cons c r => exact ⟨TS.sep :: CT.fspecArgs (c :: r), by simp [CT.fspecArgs]⟩
        obtain ⟨ss, hss⟩ := this
        rw [hss, List.append_assoc, textOf_append, List.append_assoc]
        exact (startsF a (hw a (by simp)) _).1
    · apply safeT_append
      · have := safe_fargs args hw ih tail
        simpa [textOf, TS.text] using this
      · exact SafeT.cons .rp [] tail trivial (by simpa [TS.okNext, textOf] using ht.1) (SafeT.nil _)


/-! ### blanks between the tokens of a delimited spelling -/

/-- the tokens without their blanks -/
def fsts (ss : List GT) : List TS := ss.map (fun x => x.1)

theorem textG_append (a b : List GT) : textG (a ++ b) = textG a ++ textG b := by
  induction a with
  | nil => rfl
  | cons x t ih => obtain ⟨tk, g⟩ := x; simp [textG, ih]

/-- the token that follows: the first of the list, or what follows the list -/
def firstOf (ss : List GT) (nx : Option TS) : Option TS :=
  match ss with
  | (tk, _) :: _ => some tk
  | [] => nx

theorem firstOf_append (a b : List GT) (nx : Option TS) : firstOf (a ++ b) nx = firstOf a (firstOf b nx) := by
  cases a with
  | nil => rfl
  | cons x t => rfl

/-- blanks may be written behind a token when the filter of that token eats them (separator, binary operator not
followed by a sign) or the next filter skips them -/
def gapCond (tk : TS) (g : Nat) (nxt : Option TS) : Prop :=
  g = 0 ∨ (∃ t, nxt = some t ∧ t.tolerant = true) ∨ tk = .sep ∨
    (∃ n, tk = .bin n ∧ ∀ t, nxt = some t → startsSignChar t.text = false)

inductive GapsOK : List GT → Option TS → Prop
  | nil (nx : Option TS) : GapsOK [] nx
  | cons (tk : TS) (g : Nat) (ss : List GT) (nx : Option TS) : gapCond tk g (firstOf ss nx) → GapsOK ss nx →
      GapsOK ((tk, g) :: ss) nx

theorem gapsOK_append (a b : List GT) (nx : Option TS) (ha : GapsOK a (firstOf b nx)) (hb : GapsOK b nx) :
    GapsOK (a ++ b) nx := by
  induction a with
  | nil => exact hb
  | cons x t ih =>
    cases ha with
    | cons tk g _ _ hc hrest =>
      refine GapsOK.cons tk g (t ++ b) nx ?_ (ih hrest)
      rw [firstOf_append]; exact hc

theorem okAfter_head (c : Char) (t1 t2 : List Char) (h : OkAfter (c :: t1)) : OkAfter (c :: t2) := by
  rcases h with h | ⟨c', r, hcr, hp⟩
  · cases h
  · simp only [List.cons.injEq] at hcr
    exact Or.inr ⟨c, t2, rfl, by rw [hcr.1]; exact hp⟩

theorem startsOperand_head (c : Char) (t1 t2 : List Char) (h : StartsOperand (c :: t1)) : StartsOperand (c :: t2) := by
  obtain ⟨c', r, hcr, hp⟩ := h
  simp only [List.cons.injEq] at hcr
  exact ⟨c, t2, rfl, by rw [hcr.1]; exact hp⟩

theorem startsAtom_head (c : Char) (t1 t2 : List Char) (h : StartsAtom (c :: t1)) : StartsAtom (c :: t2) := by
  obtain ⟨c', r, hcr, hp⟩ := h
  simp only [List.cons.injEq] at hcr
  exact ⟨c, t2, rfl, by rw [hcr.1]; exact hp⟩

theorem sepNext_head (c : Char) (t1 t2 : List Char)
    (h : StartsOperand (c :: t1) ∨ ∃ r, c :: t1 = ',' :: r ∨ c :: t1 = ')' :: r) :
    StartsOperand (c :: t2) ∨ ∃ r, c :: t2 = ',' :: r ∨ c :: t2 = ')' :: r := by
  rcases h with h | ⟨r, h | h⟩
  · exact Or.inl (startsOperand_head c t1 t2 h)
  · simp only [List.cons.injEq] at h; exact Or.inr ⟨t2, Or.inl (by rw [h.1])⟩
  · simp only [List.cons.injEq] at h; exact Or.inr ⟨t2, Or.inr (by rw [h.1])⟩

/-- what a token needs from the text behind it only concerns the first character of that text -/
theorem okNext_congr (tk : TS) (r1 r2 : List Char) (h : r1.head? = r2.head?) (h1 : tk.okNext r1) : tk.okNext r2 := by
  cases r1 with
  | nil =>
    cases r2 with
    | nil => exact h1
    | cons c t => simp at h
  | cons c1 t1 =>
    cases r2 with
    | nil => simp at h
    | cons c2 t2 =>
      have hc : c1 = c2 := by simpa using h
      subst hc
      cases tk with
      | num d => exact okAfter_head c1 t1 t2 h1
      | cell ls ds => exact okAfter_head c1 t1 t2 h1
      | str body => exact okAfter_head c1 t1 t2 h1
      | rp => exact okAfter_head c1 t1 t2 h1
      | pct =>
        refine ⟨okAfter_head c1 t1 t2 h1.1, ?_⟩
        intro c r hcr
        simp only [List.cons.injEq] at hcr
        exact h1.2 c t1 (by rw [hcr.1])
      | bin name =>
        simp only [TS.okNext] at h1 ⊢
        split
        · rename_i hn; rw [if_pos hn] at h1; exact startsAtom_head c1 t1 t2 h1
        · rename_i hn; rw [if_neg hn] at h1; exact startsOperand_head c1 t1 t2 h1
      | sign m => exact startsAtom_head c1 t1 t2 h1
      | sep => exact sepNext_head c1 t1 t2 h1
      | fn name => exact sepNext_head c1 t1 t2 h1
      | lp => exact startsOperand_head c1 t1 t2 h1

theorem rem_le (tk : TS) (g : Nat) (rest : List Char) : tk.rem g rest ≤ g := by
  cases tk <;> simp [TS.rem] <;> split <;> omega

theorem startsSignChar_append (a b : List Char) (h : a ≠ []) : startsSignChar (a ++ b) = startsSignChar a := by
  cases a with
  | nil => exact absurd rfl h
  | cons x t => rfl

theorem head_textG (ss : List GT) (h : SafeT (fsts ss) []) : (textG ss).head? = (textOf (fsts ss) ++ []).head? := by
  cases ss with
  | nil => rfl
  | cons x t =>
    obtain ⟨tk, g⟩ := x
    simp only [fsts, List.map_cons] at h
    have hwf : tk.WF := by cases h with | cons _ _ _ hw _ _ => exact hw
    have hne := text_ne tk hwf
    cases ht : tk.text with
    | nil => exact absurd ht hne
    | cons c r => simp [textG, textOf, fsts, ht]

/-- **blanks in the allowed places do not change what the tokeniser sees** -/
theorem safeG_of : ∀ (ss : List GT), SafeT (fsts ss) [] → GapsOK ss none → SafeG ss
  | [], _, _ => SafeG.nil
  | (tk, g) :: ss, hs, hg => by
    simp only [fsts, List.map_cons] at hs
    cases hs with
    | cons _ _ _ hwf hnext hrest =>
    cases hg with
    | cons _ _ _ _ hc hgrest =>
    refine SafeG.cons tk g ss hwf (okNext_congr tk _ _ (head_textG ss hrest).symm hnext) ?_ (safeG_of ss hrest hgrest)
    rcases hc with h0 | ⟨t, ht, htol⟩ | hsep | ⟨n, hb, hns⟩
    · left; have := rem_le tk g (textG ss); omega
    · right
      cases ss with
      | nil => simp [firstOf] at ht
      | cons x rest =>
        obtain ⟨t', g'⟩ := x
        simp only [firstOf, Option.some.injEq] at ht
        exact ⟨t', g', rest, rfl, by rw [ht]; exact htol⟩
    · left; subst hsep; simp [TS.rem]
    · left
      subst hb
      have : startsSignChar (textG ss) = false := by
        cases ss with
        | nil => rfl
        | cons x rest =>
          obtain ⟨t', g'⟩ := x
          have hwf' : t'.WF := by simp only [List.map_cons] at hrest; cases hrest with | cons _ _ _ hw _ _ => exact hw
          simp only [textG]
          rw [startsSignChar_append _ _ (text_ne t' hwf')]
          exact hns t' rfl
      simp [TS.rem, this]


/-! ### the exported text: tokens of `fspec` with the blanks `render` writes -/

mutual
/-- the exported spelling with its blanks; `tr` blanks behind the last token -/
def CT.xspec : CT → Nat → List GT
  | .num d, tr => [(.num d, tr)]
  | .cell ls ds, tr => [(.cell ls ds, tr)]
  | .str body, tr => [(.str body, tr)]
  | .bin name a b, tr => (TS.lp, 0) :: (a.xspec 1 ++ (TS.bin name, 1) :: (b.xspec 0 ++ [(TS.rp, tr)]))
  | .neg m a, tr => (TS.sign m, 0) :: a.xspec tr
  | .pct a, tr => a.xspec 0 ++ [(TS.pct, tr)]
  | .call name args, tr => (TS.fn name, 0) :: (CT.xspecArgs args ++ [(TS.rp, tr)])
def CT.xspecArgs : List CT → List GT
  | [] => []
  | [a] => a.xspec 0
  | a :: b :: rest => a.xspec 0 ++ (TS.sep, 1) :: CT.xspecArgs (b :: rest)
end

theorem fsts_append (a b : List GT) : fsts (a ++ b) = fsts a ++ fsts b := by simp [fsts]

theorem xspecArgs_fsts : ∀ (args : List CT), (∀ a ∈ args, ∀ tr, fsts (a.xspec tr) = a.fspec) →
    fsts (CT.xspecArgs args) = CT.fspecArgs args
  | [], _ => rfl
  | [a], ih => by simp only [CT.xspecArgs, CT.fspecArgs]; exact ih a (by simp) 0
  | a :: b :: rest, ih => by
    simp only [CT.xspecArgs, CT.fspecArgs, fsts_append]
    rw [ih a (by simp) 0]
    have := xspecArgs_fsts (b :: rest) (fun x hx => ih x (by simp [hx]))
    simp only [fsts, List.map_cons] at this ⊢
    rw [this]

theorem xspec_fsts (ct : CT) (h : CT.RWF ct) : ∀ tr, fsts (ct.xspec tr) = ct.fspec := by
  induction h with
  | num d _ _ => intro tr; rfl
  | cell ls ds _ => intro tr; rfl
  | str body _ => intro tr; rfl
  | bin name a b _ _ _ _ iha ihb =>
    intro tr
    simp only [CT.xspec, CT.fspec, fsts, List.map_cons, List.map_append, List.map_nil]
    have ha := iha 1; have hb := ihb 0
    simp only [fsts] at ha hb
    rw [ha, hb]
  | neg m a _ _ _ iha =>
    intro tr
    simp only [CT.xspec, CT.fspec, fsts, List.map_cons]
    have ha := iha tr
    simp only [fsts] at ha
    rw [ha]
  | pct a _ _ iha =>
    intro tr
    simp only [CT.xspec, CT.fspec, fsts, List.map_cons, List.map_append, List.map_nil]
    have ha := iha 0
    simp only [fsts] at ha
    rw [ha]
  | call name args _ _ _ ih =>
    intro tr
    have := xspecArgs_fsts args ih
    simp only [fsts] at this
    simp only [CT.xspec, CT.fspec, fsts, List.map_cons, List.map_append, List.map_nil, this]

theorem xspec_ne_nil (ct : CT) (tr : Nat) : ct.xspec tr ≠ [] := by
  cases ct <;> simp [CT.xspec]

theorem digit_not_sign (c : Char) (h : c ∈ digitsL) : (c == '+' || c == '-') = false := by
  have := List.all_eq_true.mp (by decide : digitsL.all (fun c => !(c == '+' || c == '-')) = true) c h
  simpa using this

theorem upper_not_sign (c : Char) (h : c ∈ upperL) : (c == '+' || c == '-') = false := by
  have := List.all_eq_true.mp (by decide : upperL.all (fun c => !(c == '+' || c == '-')) = true) c h
  simpa using this

/-- the first token of the exported text tolerates blanks in front of it or does not begin with a sign -/
theorem first_xspec (ct : CT) (h : CT.RWF ct) : ∀ tr, ∃ t g rest, ct.xspec tr = (t, g) :: rest ∧
    (t.tolerant = true ∨ startsSignChar t.text = false) := by
  induction h with
  | num d hne hd =>
    intro tr
    refine ⟨.num d, tr, [], rfl, Or.inr ?_⟩
    cases d with
    | nil => exact absurd rfl hne
    | cons a b =>
      simp only [TS.text, startsSignChar]
      exact digit_not_sign a (hd a (by simp))
  | cell ls ds hc =>
    intro tr
    refine ⟨.cell ls ds, tr, [], rfl, Or.inr ?_⟩
    cases ls with
    | nil => have := hc.nLetters.1; simp at this
    | cons a b =>
      simp only [TS.text, List.cons_append, startsSignChar]
      exact upper_not_sign a (hc.letters a (by simp))
  | str body _ => intro tr; exact ⟨.str body, tr, [], rfl, Or.inr (by simp [TS.text, startsSignChar])⟩
  | bin name a b _ _ _ _ _ _ => intro tr; exact ⟨.lp, 0, _, rfl, Or.inr (by simp [TS.text, startsSignChar])⟩
  | neg m a _ _ _ _ => intro tr; exact ⟨.sign m, 0, _, rfl, Or.inl rfl⟩
  | pct a _ _ iha =>
    intro tr
    obtain ⟨t, g, rest, e, hp⟩ := iha 0
    exact ⟨t, g, rest ++ [(TS.pct, tr)], by simp [CT.xspec, e], hp⟩
  | call name args hname hall _ _ =>
    intro tr
    obtain ⟨n0, nt, rfl, hn0⟩ := hname
    refine ⟨.fn (n0 :: nt), 0, _, rfl, Or.inr ?_⟩
    simp only [TS.text, List.cons_append, startsSignChar]
    exact upper_not_sign n0 (hall n0 (by simp))


theorem firstOf_xspec (ct : CT) (h : CT.RWF ct) (tr : Nat) (rest : List GT) (nx : Option TS) :
    ∃ t, firstOf (ct.xspec tr ++ rest) nx = some t ∧ (t.tolerant = true ∨ startsSignChar t.text = false) := by
  obtain ⟨t, g, r, e, hp⟩ := first_xspec ct h tr
  exact ⟨t, by rw [e]; rfl, hp⟩

theorem gaps_xargs : ∀ (args : List CT), (∀ a ∈ args, CT.RWF a) →
    (∀ a ∈ args, ∀ tr nx, (tr = 0 ∨ ∃ t, nx = some t ∧ t.tolerant = true) → GapsOK (a.xspec tr) nx) →
    ∀ nx, GapsOK (CT.xspecArgs args) nx
  | [], _, _, nx => GapsOK.nil nx
  | [a], _, ih, nx => by simp only [CT.xspecArgs]; exact ih a (by simp) 0 nx (Or.inl rfl)
  | a :: b :: rest, hw, ih, nx => by
    simp only [CT.xspecArgs]
    apply gapsOK_append
    · exact ih a (by simp) 0 _ (Or.inl rfl)
    · exact GapsOK.cons .sep 1 _ nx (Or.inr (Or.inr (Or.inl rfl)))
        (gaps_xargs (b :: rest) (fun x hx => hw x (by simp [hx])) (fun x hx => ih x (by simp [hx])) nx)

/-- the blanks `render` writes stand where the tokeniser allows them -/
theorem gaps_xspec (ct : CT) (h : CT.RWF ct) : ∀ tr nx, (tr = 0 ∨ ∃ t, nx = some t ∧ t.tolerant = true) →
    GapsOK (ct.xspec tr) nx := by
  induction h with
  | num d _ _ =>
    intro tr nx ht
    refine GapsOK.cons _ tr [] nx ?_ (GapsOK.nil nx)
    rcases ht with h0 | h1
    · exact Or.inl h0
    · exact Or.inr (Or.inl h1)
  | cell ls ds _ =>
    intro tr nx ht
    refine GapsOK.cons _ tr [] nx ?_ (GapsOK.nil nx)
    rcases ht with h0 | h1
    · exact Or.inl h0
    · exact Or.inr (Or.inl h1)
  | str body _ =>
    intro tr nx ht
    refine GapsOK.cons _ tr [] nx ?_ (GapsOK.nil nx)
    rcases ht with h0 | h1
    · exact Or.inl h0
    · exact Or.inr (Or.inl h1)
  | bin name a b _ _ hb _ iha ihb =>
    intro tr nx ht
    simp only [CT.xspec]
    refine GapsOK.cons .lp 0 _ nx (Or.inl rfl) ?_
    apply gapsOK_append
    · exact iha 1 _ (Or.inr ⟨.bin name, rfl, rfl⟩)
    · refine GapsOK.cons (.bin name) 1 _ nx ?_ ?_
      · obtain ⟨t, ht1, ht2⟩ := firstOf_xspec b hb 0 [(TS.rp, tr)] nx
        rcases ht2 with h1 | h2
        · exact Or.inr (Or.inl ⟨t, ht1, h1⟩)
        · refine Or.inr (Or.inr (Or.inr ⟨name, rfl, ?_⟩))
          intro t' ht'
          rw [ht1] at ht'
          cases ht'
          exact h2
      · apply gapsOK_append
        · exact ihb 0 _ (Or.inl rfl)
        · refine GapsOK.cons .rp tr [] nx ?_ (GapsOK.nil nx)
          rcases ht with h0 | h1
          · exact Or.inl h0
          · exact Or.inr (Or.inl h1)
  | neg m a _ _ _ iha =>
    intro tr nx ht
    simp only [CT.xspec]
    exact GapsOK.cons (.sign m) 0 _ nx (Or.inl rfl) (iha tr nx ht)
  | pct a _ _ iha =>
    intro tr nx ht
    simp only [CT.xspec]
    apply gapsOK_append
    · exact iha 0 _ (Or.inl rfl)
    · refine GapsOK.cons .pct tr [] nx ?_ (GapsOK.nil nx)
      rcases ht with h0 | h1
      · exact Or.inl h0
      · exact Or.inr (Or.inl h1)
  | call name args _ _ hw ih =>
    intro tr nx ht
    simp only [CT.xspec]
    refine GapsOK.cons (.fn name) 0 _ nx (Or.inl rfl) ?_
    apply gapsOK_append
    · exact gaps_xargs args hw ih _
    · refine GapsOK.cons .rp tr [] nx ?_ (GapsOK.nil nx)
      rcases ht with h0 | h1
      · exact Or.inl h0
      · exact Or.inr (Or.inl h1)

theorem getLast_gap_append (a : List GT) (tk : TS) (g : Nat) : ((a ++ [(tk, g)]).getLast?.map (·.2)) = some g := by
  simp

theorem xspec_last (ct : CT) (h : CT.RWF ct) : ∀ tr, ((ct.xspec tr).getLast?.map (·.2)) = some tr := by
  induction h with
  | num d _ _ => intro tr; rfl
  | cell ls ds _ => intro tr; rfl
  | str body _ => intro tr; rfl
  | bin name a b _ _ _ _ _ _ =>
    intro tr
    have : CT.xspec (.bin name a b) tr = ((TS.lp, 0) :: (a.xspec 1 ++ (TS.bin name, 1) :: b.xspec 0)) ++ [(TS.rp, tr)] := by
      simp [CT.xspec]
    rw [this]; exact getLast_gap_append _ _ _
  | neg m a _ _ _ iha =>
    intro tr
    simp only [CT.xspec]
    cases hx : a.xspec tr with
    | nil => exact absurd hx (xspec_ne_nil a tr)
    | cons x t =>
      have := iha tr
      rw [hx] at this
      simpa [List.getLast?_cons_cons] using this
  | pct a _ _ _ =>
    intro tr
    simp only [CT.xspec]; exact getLast_gap_append _ _ _
  | call name args _ _ _ _ =>
    intro tr
    have : CT.xspec (.call name args) tr = ((TS.fn name, 0) :: CT.xspecArgs args) ++ [(TS.rp, tr)] := by
      simp [CT.xspec]
    rw [this]; exact getLast_gap_append _ _ _

/-! ### … and that text is what `render` writes -/

theorem render_bin (n : String) (hn : n ∈ binNames) (a b : Ast) :
    (render (.op n [a, b])).toList = '(' :: ((render a).toList ++ ' ' :: (opText n ++ ' ' :: ((render b).toList ++ [')']))) := by
  simp only [binNames, List.mem_cons, List.not_mem_nil, or_false] at hn
  rcases hn with rfl | rfl | rfl | rfl | rfl | rfl | rfl | rfl | rfl | rfl | rfl | rfl <;> simp [render, renderArgs, opText]

theorem renderArgs_toList : ∀ (args : List CT), (∀ a ∈ args, textG (a.xspec 0) = (render a.toAst).toList) →
    textG (CT.xspecArgs args) = (renderArgs ", " (args.map CT.toAst)).toList
  | [], _ => by simp [CT.xspecArgs, textG, renderArgs]
  | [a], ih => by simp only [CT.xspecArgs, List.map_cons, List.map_nil, renderArgs]; exact ih a (by simp)
  | a :: b :: rest, ih => by
    have hr := renderArgs_toList (b :: rest) (fun x hx => ih x (by simp [hx]))
    simp only [CT.xspecArgs, List.map_cons, renderArgs, textG_append, textG, String.toList_append] at hr ⊢
    rw [ih a (by simp), hr]
    simp [TS.text, ws]

theorem textG_xspec (ct : CT) (h : CT.RWF ct) : ∀ tr, textG (ct.xspec tr) = (render ct.toAst).toList ++ ws tr := by
  induction h with
  | num d _ _ => intro tr; simp [CT.xspec, CT.toAst, textG, TS.text, render]
  | cell ls ds _ => intro tr; simp [CT.xspec, CT.toAst, textG, TS.text, render]
  | str body _ => intro tr; simp [CT.xspec, CT.toAst, textG, TS.text, render]
  | bin name a b hn _ _ _ iha ihb =>
    intro tr
    simp only [CT.xspec, CT.toAst, textG, textG_append, iha 1, ihb 0, render_bin name hn, TS.text]
    simp [ws]
  | neg m a _ _ _ iha =>
    intro tr
    cases m <;> simp [CT.xspec, CT.toAst, textG, iha tr, TS.text, render, renderArgs, signName, ws]
  | pct a _ _ iha =>
    intro tr
    simp [CT.xspec, CT.toAst, textG, textG_append, iha 0, TS.text, render, renderArgs, ws]
  | call name args _ _ _ ih =>
    intro tr
    have hargs := renderArgs_toList args (fun a ha => by have := ih a ha 0; simpa [ws] using this)
    simp only [CT.xspec, CT.toAst, textG, textG_append, hargs, TS.text, toAsts_map, render, String.toList_append,
      String.toList_ofList]
    simp [ws]

/-- **the exported text of a formula parses back to its tree** — on the characters: the tokeniser loop with its ten
filters, blanks included, and the shunting-yard they drive read `=` followed by `render t` back as `t`, for every
render-stable tree (`CT.RWF`: no sign directly under a sign or behind `+`/`-`, no `%` of a `%`, no sign of a `%`) -/
theorem render_text_parses (ct : CT) (h : CT.RWF ct) :
    parseString ('=' :: (render ct.toAst).toList) = .ok ct.toAst := by
  have e := textG_xspec ct h 0
  simp only [ws, List.replicate_zero, List.append_nil] at e
  rw [← e]
  have hsafe : SafeG (ct.xspec 0) := by
    apply safeG_of
    · rw [xspec_fsts ct h 0]
      exact safe_fspec ct h [] ⟨Or.inl rfl, by intro r hr; cases hr⟩
    · exact gaps_xspec ct h 0 none (Or.inl rfl)
  apply parse_textG (ct.xspec 0) hsafe (xspec_ne_nil ct 0) (xspec_last ct h 0)
  have hm : ((ct.xspec 0).map fun x => x.1.tok) = ct.fspec.map TS.tok := by
    rw [← xspec_fsts ct h 0]; simp [fsts, List.map_map, Function.comp_def]
  rw [hm]
  exact parse_spelling _ _ _ (fspec_sp ct h)


/-! ### the shape condition, decidable (used by the driver command `rtext`) -/

mutual
def CT.shapeOK : CT → Bool
  | .bin name a b => a.shapeOK && b.shapeOK && (!(name == "+" || name == "-") || !b.startsSignF)
  | .neg _ a => a.shapeOK && !a.startsSignF && !a.isPct
  | .pct a => a.shapeOK && !a.isPct
  | .call _ args => CT.shapeOKs args
  | _ => true
def CT.shapeOKs : List CT → Bool
  | [] => true
  | a :: rest => a.shapeOK && CT.shapeOKs rest
end

theorem shapeOKs_mem : ∀ (args : List CT), CT.shapeOKs args = true → ∀ a ∈ args, a.shapeOK = true
  | [], _, a, ha => by simp at ha
  | x :: rest, h, a, ha => by
    simp only [CT.shapeOKs, Bool.and_eq_true] at h
    rcases List.mem_cons.mp ha with rfl | ha
    · exact h.1
    · exact shapeOKs_mem rest h.2 a ha

/-- a well-formed compact tree of the right shape is render-stable -/
theorem rwf_of_wf_shape (ct : CT) (h : CT.WF ct) : ct.shapeOK = true → CT.RWF ct := by
  induction h with
  | num d h1 h2 => intro _; exact CT.RWF.num d h1 h2
  | cell ls ds hc => intro _; exact CT.RWF.cell ls ds hc
  | str body hb => intro _; exact CT.RWF.str body hb
  | bin name a b hn _ _ iha ihb =>
    intro hs
    simp only [CT.shapeOK, Bool.and_eq_true, Bool.or_eq_true, Bool.not_eq_true', beq_iff_eq] at hs
    refine CT.RWF.bin name a b hn (iha hs.1.1) (ihb hs.1.2) ?_
    intro hpm
    rcases hs.2 with h1 | h2
    · simp only [Bool.or_eq_false_iff, beq_eq_false_iff_ne] at h1
      rcases hpm with rfl | rfl
      · exact absurd rfl h1.1
      · exact absurd rfl h1.2
    · exact h2
  | neg m a _ iha =>
    intro hs
    simp only [CT.shapeOK, Bool.and_eq_true, Bool.not_eq_true'] at hs
    exact CT.RWF.neg m a (iha hs.1.1) hs.1.2 hs.2
  | pct a _ iha =>
    intro hs
    simp only [CT.shapeOK, Bool.and_eq_true, Bool.not_eq_true'] at hs
    exact CT.RWF.pct a (iha hs.1) hs.2
  | call name args h1 h2 _ ih =>
    intro hs
    simp only [CT.shapeOK] at hs
    exact CT.RWF.call name args h1 h2 (fun a ha => ih a ha (shapeOKs_mem args hs a ha))

-- non-vacuity: `=(1 + A1%)`, `=-SUM((2 * -3), "x")`
example : CT.RWF (.bin "+" (.num ['1']) (.pct (.cell ['A'] ['1']))) :=
  rwf_of_wf_shape _ (CT.WF.bin _ _ _ (by decide) (CT.WF.num _ (by decide) (by decide))
    (CT.WF.pct _ (CT.WF.cell _ _ ⟨by decide, by decide, by decide, by decide, by decide⟩))) (by decide)


/-! ### any admissible placement of blanks -/

/-- **blanks between the tokens do not matter**: write any numbers of blanks behind the tokens of the compact
spelling of a well-formed tree — wherever the tokeniser allows them (`GapsOK`: behind a separator or a binary
operator, or in front of an operator, a sign, `%`, a separator or a closing parenthesis), none behind the last
token — and the text still parses to the tree -/
theorem compact_text_with_blanks_parses (ct : CT) (h : CT.WF ct) (gs : List GT) (hf : fsts gs = ct.spec)
    (hg : GapsOK gs none) (hl : (gs.getLast?.map (·.2)) = some 0) :
    parseString ('=' :: textG gs) = .ok ct.toAst := by
  have hne : gs ≠ [] := by
    intro e; rw [e] at hf; exact spec_ne_nil ct hf.symm
  have hsafe : SafeG gs := by
    apply safeG_of gs _ hg
    rw [hf]
    exact safe_spec ct h [] ⟨Or.inl rfl, by intro r hr; cases hr⟩
  apply parse_textG gs hsafe hne hl
  have hm : (gs.map fun x => x.1.tok) = ct.spec.map TS.tok := by
    rw [← hf]; simp [fsts, List.map_map, Function.comp_def]
  rw [hm]
  exact parse_spelling _ _ _ (spec_sp ct h)

-- `=1 + 2*A1` : blanks around `+`
example : GapsOK [(TS.num ['1'], 1), (TS.bin "+", 1), (TS.num ['2'], 0), (TS.bin "*", 0), (TS.cell ['A'] ['1'], 0)] none := by
  refine GapsOK.cons _ _ _ _ (Or.inr (Or.inl ⟨_, rfl, rfl⟩)) ?_
  refine GapsOK.cons _ _ _ _ (Or.inr (Or.inr (Or.inr ⟨"+", rfl, by intro t ht; cases ht; rfl⟩))) ?_
  refine GapsOK.cons _ _ _ _ (Or.inl rfl) ?_
  refine GapsOK.cons _ _ _ _ (Or.inl rfl) ?_
  exact GapsOK.cons _ _ _ _ (Or.inl rfl) (GapsOK.nil _)


/-- the same for the fully parenthesised (exported) spelling: the blanks `render` writes are one admissible choice -/
theorem exported_text_with_blanks_parses (ct : CT) (h : CT.RWF ct) (gs : List GT) (hf : fsts gs = ct.fspec)
    (hg : GapsOK gs none) (hl : (gs.getLast?.map (·.2)) = some 0) :
    parseString ('=' :: textG gs) = .ok ct.toAst := by
  have hne : gs ≠ [] := by
    intro e; rw [e] at hf; exact fspec_ne_nil ct hf.symm
  have hsafe : SafeG gs := by
    apply safeG_of gs _ hg
    rw [hf]
    exact safe_fspec ct h [] ⟨Or.inl rfl, by intro r hr; cases hr⟩
  apply parse_textG gs hsafe hne hl
  have hm : (gs.map fun x => x.1.tok) = ct.fspec.map TS.tok := by
    rw [← hf]; simp [fsts, List.map_map, Function.comp_def]
  rw [hm]
  exact parse_spelling _ _ _ (fspec_sp ct h)


end XL.LexText
