/-!
# `allRange`: a bounded universal check whose kernel evaluation has logarithmic recursion depth
(`Nat.decidableBallLT` overflows the kernel's recursion guard on a few thousand cases)
-/
namespace XL

def allRange (f : Nat → Bool) : Nat → Nat → Nat → Bool
  | 0, lo, len => len == 0 || (len == 1 && f lo)
  | fuel + 1, lo, len =>
    if len ≤ 1 then (len == 0 || f lo)
    else allRange f fuel lo (len / 2) && allRange f fuel (lo + len / 2) (len - len / 2)

theorem allRange_sound (f : Nat → Bool) : ∀ (fuel lo len : Nat), len ≤ 2 ^ fuel →
    allRange f fuel lo len = true → ∀ i, lo ≤ i → i < lo + len → f i = true := by
  intro fuel
  induction fuel with
  | zero =>
    intro lo len hl h i h1 h2
    simp [allRange] at h
    have : len ≤ 1 := by simpa using hl
    rcases h with h | h
    · omega
    · have : i = lo := by omega
      subst this; exact h.2
  | succ n ih =>
    intro lo len hl h i h1 h2
    unfold allRange at h
    split at h
    · rename_i hle
      simp at h
      rcases h with h | h
      · omega
      · have : i = lo := by omega
        subst this; exact h
    · simp only [Bool.and_eq_true] at h
      have hp : 2 ^ (n + 1) = 2 * 2 ^ n := by rw [Nat.pow_succ]; omega
      by_cases hi : i < lo + len / 2
      · exact ih lo (len / 2) (by omega) h.1 i h1 hi
      · exact ih (lo + len / 2) (len - len / 2) (by omega) h.2 i (by omega) (by omega)

end XL
