import XL.Proofs.Rect
/-!
# `Ranges._merge` and `Ranges.simplify` preserve the covered cells and produce no duplicate
-/
namespace XL

/-! ### the stable insertion sort is a sort -/

theorem mergeLe_total (a b : Rect) : mergeLe a b = true ∨ mergeLe b a = true := by
  simp only [mergeLe, Bool.or_eq_true, Bool.and_eq_true, decide_eq_true_eq, beq_iff_eq, ge_iff_le, gt_iff_lt]
  omega

theorem mergeLe_trans (a b c : Rect) (h1 : mergeLe a b = true) (h2 : mergeLe b c = true) :
    mergeLe a c = true := by
  simp only [mergeLe, Bool.or_eq_true, Bool.and_eq_true, decide_eq_true_eq, beq_iff_eq, ge_iff_le, gt_iff_lt] at *
  omega

theorem mem_insertSorted (r x : Rect) (l : List Rect) : x ∈ insertSorted r l ↔ x = r ∨ x ∈ l := by
  induction l with
  | nil => simp [insertSorted]
  | cons y ys ih =>
    simp only [insertSorted]
    split
    · simp only [List.mem_cons, ih]; grind
    · simp only [List.mem_cons]

theorem insertSorted_sorted (r : Rect) (l : List Rect) (h : l.Pairwise (fun a b => mergeLe a b = true)) :
    (insertSorted r l).Pairwise (fun a b => mergeLe a b = true) := by
  induction l with
  | nil => simp [insertSorted]
  | cons y ys ih =>
    have ⟨h1, h2⟩ := List.pairwise_cons.mp h
    simp only [insertSorted]
    split
    · rename_i hle
      rw [List.pairwise_cons]
      refine ⟨?_, ih h2⟩
      intro x hx
      rcases (mem_insertSorted r x ys).mp hx with hx | hx
      · subst hx; exact hle
      · exact h1 x hx
    · rename_i hle
      have hry : mergeLe r y = true := by
        rcases mergeLe_total r y with h | h
        · exact h
        · exact absurd h hle
      rw [List.pairwise_cons]
      refine ⟨?_, h⟩
      intro x hx
      rcases List.mem_cons.mp hx with hx | hx
      · subst hx; exact hry
      · exact mergeLe_trans r y x hry (h1 x hx)

theorem sortRects_aux (l acc : List Rect) (h : acc.Pairwise (fun a b => mergeLe a b = true)) :
    (l.foldl (fun acc r => insertSorted r acc) acc).Pairwise (fun a b => mergeLe a b = true) ∧
    ∀ x, x ∈ l.foldl (fun acc r => insertSorted r acc) acc ↔ x ∈ acc ∨ x ∈ l := by
  induction l generalizing acc with
  | nil => exact ⟨h, by simp⟩
  | cons r l ih =>
    obtain ⟨s, m⟩ := ih (insertSorted r acc) (insertSorted_sorted r acc h)
    refine ⟨s, fun x => ?_⟩
    simp only [List.foldl]
    rw [m x, mem_insertSorted]
    simp only [List.mem_cons]; grind

theorem sortRects_sorted (l : List Rect) : (sortRects l).Pairwise (fun a b => mergeLe a b = true) :=
  (sortRects_aux l [] (by simp)).1

theorem mem_sortRects (l : List Rect) (x : Rect) : x ∈ sortRects l ↔ x ∈ l := by
  have := (sortRects_aux l [] (by simp)).2 x
  simpa [sortRects] using this

theorem covered_sortRects (l : List Rect) (p : Cell) : Covered (sortRects l) p ↔ Covered l p := by
  simp only [Covered, mem_sortRects]

/-- insertion keeps the number of covering areas: sorting is a permutation -/
theorem cover_insertSorted (r : Rect) (l : List Rect) (p : Cell) :
    cover (insertSorted r l) p = cover (r :: l) p := by
  induction l with
  | nil => simp [insertSorted]
  | cons y ys ih =>
    simp only [insertSorted]
    split
    · simp only [cover, List.filter_cons] at ih ⊢
      split <;> split <;> simp_all <;> omega
    · rfl

theorem cover_sortRects_aux (l acc : List Rect) (p : Cell) :
    cover (l.foldl (fun acc r => insertSorted r acc) acc) p = cover acc p + cover l p := by
  induction l generalizing acc with
  | nil => simp [cover]
  | cons r l ih =>
    simp only [List.foldl]
    rw [ih, cover_insertSorted]
    simp only [cover, List.filter_cons]
    split <;> simp <;> omega

theorem cover_sortRects (l : List Rect) (p : Cell) : cover (sortRects l) p = cover l p := by
  have := cover_sortRects_aux l [] p
  simpa [sortRects, cover] using this

theorem cover_cons (r : Rect) (l : List Rect) (p : Cell) :
    cover (r :: l) p = (if r.mem p then 1 else 0) + cover l p := by
  simp only [cover, List.filter_cons]
  by_cases h : r.mem p <;> simp [h] <;> omega

/-- pairwise disjointness, stated through `cover`, is invariant under the sort -/
theorem disjoint_iff_cover (l : List Rect) :
    l.Pairwise Disjoint ↔ ∀ p, cover l p ≤ 1 := by
  constructor
  · exact fun h p => cover_le_one l h p
  · intro h
    induction l with
    | nil => simp
    | cons r l ih =>
      rw [List.pairwise_cons]
      constructor
      · intro q hq p ⟨hr, hqp⟩
        have := h p
        have hc : 0 < cover l p := (cover_pos l p).mpr ⟨q, hq, hqp⟩
        rw [cover_cons, if_pos hr] at this
        omega
      · apply ih
        intro p
        have := h p
        rw [cover_cons] at this
        omega

/-! ### vertical pass: pieces of one column, sorted by (sheet, column, first row) -/

def IsCol (r : Rect) : Prop := r.c1 = r.c2

def VLe (a b : Rect) : Prop :=
  a.sheet < b.sheet ∨ (a.sheet = b.sheet ∧ (a.c1 < b.c1 ∨ (a.c1 = b.c1 ∧ a.r1 ≤ b.r1)))

theorem VLe_of_mergeLe (a b : Rect) (h : mergeLe a b = true) : VLe a b := by
  simp only [mergeLe, Bool.or_eq_true, Bool.and_eq_true, decide_eq_true_eq, beq_iff_eq, ge_iff_le, gt_iff_lt] at h
  unfold VLe; omega

theorem rawOK_iff (cur r : Rect) : rawOK cur r = true ↔
    cur.sheet = r.sheet ∧ cur.c1 = r.c2 ∧ r.r1 ≤ cur.r2 + 1 := by
  simp [rawOK, and_assoc]

theorem vm_inv : ∀ (rest : List Rect) (cur : Rect), cur.WF → IsCol cur →
    (∀ x ∈ rest, x.WF ∧ IsCol x) → (∀ r ∈ rest, VLe cur r) → rest.Pairwise VLe →
    (∀ q ∈ mergeFold rawOK rawUpd cur rest, q.WF) ∧
    (∀ p, Covered (mergeFold rawOK rawUpd cur rest) p ↔ (cur.mem p ∨ Covered rest p)) := by
  intro rest
  induction rest with
  | nil => intro cur hw _ _ _ _; simp [mergeFold, Covered, hw]
  | cons r rest ih =>
    intro cur hw hcol hws hle hs
    have hr := hle r (by simp)
    have hs' := List.pairwise_cons.mp hs
    have hwr := hws r (by simp)
    simp only [mergeFold]
    split
    · rename_i hm
      rw [rawOK_iff] at hm
      unfold IsCol at hcol
      have hrc := hwr.2; unfold IsCol at hrc
      have hle' : ∀ x ∈ rest, VLe (rawUpd cur r) x := by
        intro x hx
        have := hle x (by simp [hx])
        simpa [VLe, rawUpd] using this
      have hw' : (rawUpd cur r).WF := by unfold Rect.WF at *; simp [rawUpd]; omega
      obtain ⟨w, c⟩ := ih (rawUpd cur r) hw' (by simpa [IsCol, rawUpd] using hcol)
        (fun x hx => hws x (by simp [hx])) hle' hs'.2
      refine ⟨w, fun p => ?_⟩
      rw [c p]
      have hr1 : cur.r1 ≤ r.r1 := by unfold VLe at hr; omega
      have hwr1 := hwr.1; unfold Rect.WF at hwr1 hw
      simp only [Covered, List.mem_cons, exists_eq_or_imp, Rect.mem, rawUpd]
      constructor
      · rintro (⟨h0, h1, h2, h3⟩ | h)
        · by_cases hc : p.row ≤ cur.r2
          · exact Or.inl ⟨h0, h1, hc, h3⟩
          · right; left
            refine ⟨by omega, by omega, ?_, by omega⟩
            simp only [Nat.max_def] at h2; split at h2 <;> omega
        · exact Or.inr (Or.inr h)
      · rintro (⟨h0, h1, h2, h3⟩ | ⟨h0, h1, h2, h3⟩ | h)
        · exact Or.inl ⟨h0, h1, by simp only [Nat.max_def]; split <;> omega, h3⟩
        · exact Or.inl ⟨by omega, by omega, by simp only [Nat.max_def]; split <;> omega, by omega⟩
        · exact Or.inr h
    · obtain ⟨w, c⟩ := ih r hwr.1 hwr.2 (fun x hx => hws x (by simp [hx])) hs'.1 hs'.2
      refine ⟨?_, fun p => ?_⟩
      · intro q hq
        rcases List.mem_cons.mp hq with hq | hq
        · subst hq; exact hw
        · exact w q hq
      · have := c p
        simp only [Covered, List.mem_cons, exists_eq_or_imp] at this ⊢
        rw [this]

theorem vm_disjoint : ∀ (rest : List Rect) (cur : Rect), cur.WF → IsCol cur →
    (∀ x ∈ rest, x.WF ∧ IsCol x) → (∀ r ∈ rest, VLe cur r) → rest.Pairwise VLe →
    (mergeFold rawOK rawUpd cur rest).Pairwise Disjoint := by
  intro rest
  induction rest with
  | nil => intro cur _ _ _ _ _; simp [mergeFold]
  | cons r rest ih =>
    intro cur hw hcol hws hle hs
    have hr := hle r (by simp)
    have hs' := List.pairwise_cons.mp hs
    have hwr := hws r (by simp)
    simp only [mergeFold]
    split
    · rename_i hm
      rw [rawOK_iff] at hm
      unfold IsCol at hcol
      have hrc := hwr.2; unfold IsCol at hrc
      have hle' : ∀ x ∈ rest, VLe (rawUpd cur r) x := by
        intro x hx
        have := hle x (by simp [hx])
        simpa [VLe, rawUpd] using this
      have hw' : (rawUpd cur r).WF := by unfold Rect.WF at *; simp [rawUpd]; omega
      exact ih _ hw' (by simpa [IsCol, rawUpd] using hcol) (fun x hx => hws x (by simp [hx])) hle' hs'.2
    · rename_i hnm
      rw [rawOK_iff] at hnm
      rw [List.pairwise_cons]
      refine ⟨?_, ih r hwr.1 hwr.2 (fun x hx => hws x (by simp [hx])) hs'.1 hs'.2⟩
      intro q hq p ⟨hcp, hqp⟩
      have hsrc := ((vm_inv rest r hwr.1 hwr.2 (fun x hx => hws x (by simp [hx])) hs'.1 hs'.2).2 p).mp ⟨q, hq, hqp⟩
      have key : ∀ x, (x = r ∨ x ∈ rest) → ¬ (cur.mem p ∧ x.mem p) := by
        intro x hx ⟨h1, h2⟩
        have hrx : VLe r x ∨ x = r := by
          rcases hx with h | h
          · exact Or.inr h
          · exact Or.inl (hs'.1 x h)
        have hcx := hle x (by rcases hx with h | h <;> simp [h])
        have hxc : IsCol x := by
          rcases hx with h | h
          · subst h; exact hwr.2
          · exact (hws x (by simp [h])).2
        have hrc := hwr.2
        unfold IsCol at hcol hxc hrc
        simp only [Rect.mem] at h1 h2
        simp only [VLe] at hr hcx hrx
        rcases hrx with hrx | hrx
        · omega
        · subst hrx; omega
      rcases hsrc with h | ⟨x, hx, hxp⟩
      · exact key r (Or.inl rfl) ⟨hcp, h⟩
      · exact key x (Or.inr hx) ⟨hcp, hxp⟩

theorem vpass (l : List Rect) (hw : ∀ x ∈ l, x.WF ∧ IsCol x) (hs : l.Pairwise VLe) :
    (∀ q ∈ mergePass rawOK rawUpd l, q.WF) ∧ (mergePass rawOK rawUpd l).Pairwise Disjoint ∧
    ∀ p, Covered (mergePass rawOK rawUpd l) p ↔ Covered l p := by
  cases l with
  | nil => simp [mergePass, Covered]
  | cons r rest =>
    have hs' := List.pairwise_cons.mp hs
    have hr := hw r (by simp)
    obtain ⟨w, c⟩ := vm_inv rest r hr.1 hr.2 (fun x hx => hw x (by simp [hx])) hs'.1 hs'.2
    refine ⟨w, vm_disjoint rest r hr.1 hr.2 (fun x hx => hw x (by simp [hx])) hs'.1 hs'.2, fun p => ?_⟩
    simp only [mergePass]
    rw [c p]; simp [Covered]

/-! ### horizontal pass: union of adjacent pieces with identical row span -/

theorem colOK_iff (cur r : Rect) : colOK cur r = true ↔
    cur.sheet = r.sheet ∧ cur.c2 + 1 = r.c1 ∧ cur.r1 = r.r1 ∧ cur.r2 = r.r2 := by
  simp [colOK, and_assoc]

theorem colUpd_mem (cur r : Rect) (hc : cur.WF) (hr : r.WF) (h : colOK cur r = true) (p : Cell) :
    (colUpd cur r).mem p ↔ cur.mem p ∨ r.mem p := by
  rw [colOK_iff] at h
  unfold Rect.WF at hc hr
  simp only [Rect.mem, colUpd]
  omega

theorem hm_inv : ∀ (rest : List Rect) (cur : Rect), cur.WF → (∀ x ∈ rest, x.WF) →
    (∀ r ∈ rest, Disjoint cur r) → rest.Pairwise Disjoint →
    (mergeFold colOK colUpd cur rest).Pairwise Disjoint ∧
    (∀ p, Covered (mergeFold colOK colUpd cur rest) p ↔ (cur.mem p ∨ Covered rest p)) := by
  intro rest
  induction rest with
  | nil => intro cur _ _ _ _; simp [mergeFold, Covered]
  | cons r rest ih =>
    intro cur hw hws hdc hd
    have hd' := List.pairwise_cons.mp hd
    have hwr := hws r (by simp)
    simp only [mergeFold]
    split
    · rename_i hm
      have hmem := colUpd_mem cur r hw hwr hm
      have hw' : (colUpd cur r).WF := by
        rw [colOK_iff] at hm; unfold Rect.WF at *; simp [colUpd]; omega
      have hdc' : ∀ x ∈ rest, Disjoint (colUpd cur r) x := by
        intro x hx p ⟨h1, h2⟩
        rcases (hmem p).mp h1 with h | h
        · exact hdc x (by simp [hx]) p ⟨h, h2⟩
        · exact hd'.1 x hx p ⟨h, h2⟩
      obtain ⟨d, c⟩ := ih (colUpd cur r) hw' (fun x hx => hws x (by simp [hx])) hdc' hd'.2
      refine ⟨d, fun p => ?_⟩
      rw [c p, hmem p, covered_cons]
      grind
    · obtain ⟨d, c⟩ := ih r hwr (fun x hx => hws x (by simp [hx])) hd'.1 hd'.2
      refine ⟨?_, fun p => ?_⟩
      · rw [List.pairwise_cons]
        refine ⟨?_, d⟩
        intro q hq p ⟨h1, h2⟩
        rcases (c p).mp ⟨q, hq, h2⟩ with h | ⟨x, hx, hxp⟩
        · exact hdc r (by simp) p ⟨h1, h⟩
        · exact hdc x (by simp [hx]) p ⟨h1, hxp⟩
      · rw [covered_cons, c p, covered_cons]

theorem hpass (l : List Rect) (hw : ∀ x ∈ l, x.WF) (hd : l.Pairwise Disjoint) :
    (mergePass colOK colUpd l).Pairwise Disjoint ∧
    ∀ p, Covered (mergePass colOK colUpd l) p ↔ Covered l p := by
  cases l with
  | nil => simp [mergePass, Covered]
  | cons r rest =>
    have hd' := List.pairwise_cons.mp hd
    obtain ⟨d, c⟩ := hm_inv rest r (hw r (by simp)) (fun x hx => hw x (by simp [hx])) hd'.1 hd'.2
    refine ⟨d, fun p => ?_⟩
    simp only [mergePass]
    rw [c p, covered_cons]

/-! ### `_merge` on single-column pieces -/

theorem merge_inv (l : List Rect) (hw : ∀ x ∈ l, x.WF ∧ IsCol x) :
    (merge l).Pairwise Disjoint ∧ ∀ p, Covered (merge l) p ↔ Covered l p := by
  unfold merge
  have hs : (sortRects l).Pairwise VLe :=
    (sortRects_sorted l).imp (fun {a b} h => VLe_of_mergeLe a b h)
  obtain ⟨w1, d1, c1⟩ := vpass (sortRects l) (fun x hx => hw x ((mem_sortRects l x).mp hx)) hs
  have w2 : ∀ x ∈ sortRects (mergePass rawOK rawUpd (sortRects l)), x.WF :=
    fun x hx => w1 x ((mem_sortRects _ x).mp hx)
  have d2 : (sortRects (mergePass rawOK rawUpd (sortRects l))).Pairwise Disjoint := by
    rw [disjoint_iff_cover]
    intro p
    rw [cover_sortRects]
    exact cover_le_one _ d1 p
  obtain ⟨d3, c3⟩ := hpass _ w2 d2
  refine ⟨d3, fun p => ?_⟩
  rw [c3 p, covered_sortRects, c1 p, covered_sortRects]

/-! ### `simplify` -/

theorem mem_insertNat (n x : Nat) (l : List Nat) : x ∈ insertNat n l ↔ x = n ∨ x ∈ l := by
  induction l with
  | nil => simp [insertNat]
  | cons y ys ih =>
    simp only [insertNat]
    split
    · simp
    · split
      · rename_i h; subst h; simp
      · simp only [List.mem_cons, ih]; grind

theorem mem_sheetsOf_aux (l : List Rect) (acc : List Nat) (s : Nat) :
    s ∈ l.foldl (fun acc r => insertNat r.sheet acc) acc ↔ s ∈ acc ∨ ∃ r ∈ l, r.sheet = s := by
  induction l generalizing acc with
  | nil => simp
  | cons r l ih =>
    simp only [List.foldl]
    rw [ih, mem_insertNat]
    simp only [List.mem_cons, exists_eq_or_imp]
    grind

theorem mem_sheetsOf (l : List Rect) (s : Nat) : s ∈ sheetsOf l ↔ ∃ r ∈ l, r.sheet = s := by
  have := mem_sheetsOf_aux l [] s
  simpa [sheetsOf] using this

theorem minC1_le (l : List Rect) (r : Rect) (h : r ∈ l) : minC1 l ≤ r.c1 := by
  induction l with
  | nil => cases h
  | cons x xs ih =>
    cases xs with
    | nil => simp at h; subst h; simp [minC1]
    | cons y ys =>
      simp only [minC1]
      rcases List.mem_cons.mp h with h | h
      · subst h; omega
      · have := ih h; omega

theorem le_maxC2 (l : List Rect) (r : Rect) (h : r ∈ l) : r.c2 ≤ maxC2 l := by
  induction l with
  | nil => cases h
  | cons x xs ih =>
    simp only [maxC2]
    rcases List.mem_cons.mp h with h | h
    · subst h; omega
    · have := ih h; omega

theorem mem_colRects (maxrow sheet lo hi : Nat) (q : Rect) :
    q ∈ colRects maxrow sheet lo hi ↔ ∃ c, lo ≤ c ∧ c ≤ hi ∧ q = ⟨sheet, 0, maxrow, c, c⟩ := by
  simp only [colRects, List.mem_map, List.mem_range]
  constructor
  · rintro ⟨i, hi, rfl⟩; exact ⟨lo + i, by omega, by omega, rfl⟩
  · rintro ⟨c, h1, h2, rfl⟩
    refine ⟨c - lo, by omega, ?_⟩
    have : lo + (c - lo) = c := by omega
    rw [this]

/-- the helper columns of `simplify` -/
def simplifyCols (maxrow : Nat) (l : List Rect) : List Rect :=
  (sheetsOf l).flatMap fun s => colRects maxrow s (max 1 (minC1 l)) (maxC2 l)

theorem mem_simplifyCols (maxrow : Nat) (l : List Rect) (q : Rect) :
    q ∈ simplifyCols maxrow l ↔
      ∃ s c, (∃ r ∈ l, r.sheet = s) ∧ max 1 (minC1 l) ≤ c ∧ c ≤ maxC2 l ∧ q = ⟨s, 0, maxrow, c, c⟩ := by
  simp only [simplifyCols, List.mem_flatMap, mem_sheetsOf, mem_colRects]
  constructor
  · rintro ⟨s, hs, c, h1, h2, rfl⟩; exact ⟨s, c, hs, h1, h2, rfl⟩
  · rintro ⟨s, c, hs, h1, h2, rfl⟩; exact ⟨s, hs, c, h1, h2, rfl⟩

theorem simplify_pieces (maxrow : Nat) (l : List Rect) :
    ∀ x ∈ interAreas l (simplifyCols maxrow l), x.WF ∧ IsCol x := by
  intro x hx
  simp only [interAreas, List.mem_flatMap, List.mem_filterMap] at hx
  obtain ⟨col, hcol, r, _, hi⟩ := hx
  obtain ⟨s, c, _, _, _, rfl⟩ := (mem_simplifyCols maxrow l col).mp hcol
  have hb := inter_some _ _ _ hi
  simp only at hb
  refine ⟨inter_wf _ _ _ hi, ?_⟩
  unfold IsCol; omega

/-- `simplify` never returns a cell twice … -/
theorem simplify_disjoint' (maxrow : Nat) (l : List Rect) (h2 : 2 ≤ l.length) :
    (simplify maxrow l).Pairwise Disjoint := by
  match l, h2 with
  | a :: b :: rest, _ =>
    exact (merge_inv _ (simplify_pieces maxrow (a :: b :: rest))).1

/-- … and covers exactly the real cells (column ≥ 1, row ≤ maxrow) of its operand -/
theorem simplify_cells' (maxrow : Nat) (l : List Rect) (p : Cell) (hc : 1 ≤ p.col) (hr : p.row ≤ maxrow) :
    Covered (simplify maxrow l) p ↔ Covered l p := by
  match l with
  | [] => simp [simplify]
  | [r] => simp [simplify]
  | a :: b :: rest =>
    have := (merge_inv _ (simplify_pieces maxrow (a :: b :: rest))).2 p
    show Covered (merge (interAreas (a :: b :: rest) (simplifyCols maxrow (a :: b :: rest)))) p ↔ _
    rw [this, interAreas_covered]
    constructor
    · exact fun h => h.1
    · intro h
      refine ⟨h, ?_⟩
      obtain ⟨r, hr', hm⟩ := h
      refine ⟨⟨p.sheet, 0, maxrow, p.col, p.col⟩, ?_, by simp [Rect.mem]; omega⟩
      rw [mem_simplifyCols]
      have h1 := minC1_le _ r hr'
      have h2 := le_maxC2 _ r hr'
      unfold Rect.mem at hm
      exact ⟨p.sheet, p.col, ⟨r, hr', by omega⟩, by omega, by omega, rfl⟩

/-- nothing outside the operand is ever added -/
theorem simplify_sub (maxrow : Nat) (l : List Rect) (p : Cell) :
    Covered (simplify maxrow l) p → Covered l p := by
  match l with
  | [] => simp [simplify]
  | [r] => simp [simplify]
  | a :: b :: rest =>
    have := (merge_inv _ (simplify_pieces maxrow (a :: b :: rest))).2 p
    intro h
    have h' : Covered (merge (interAreas (a :: b :: rest) (simplifyCols maxrow (a :: b :: rest)))) p := h
    rw [this, interAreas_covered] at h'
    exact h'.1

end XL
