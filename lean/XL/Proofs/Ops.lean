import XL.Model.Ops
/-!
# Lemmas about the scalar operators, for every number type `F`
-/
set_option linter.unusedSectionVars false
namespace XL
variable {F : Type} [Num F]

/-- a well-formed Excel value: numbers are finite -/
def WF : Val F → Prop
  | .num x => Num.isFinite x = true
  | _ => True

def IsErr : Val F → Prop
  | .err _ => True
  | _ => False

theorem firstErr_none_iff (a b : Val F) : firstErr [a, b] = none ↔ ¬ IsErr a ∧ ¬ IsErr b := by
  cases a <;> cases b <;> simp [firstErr, IsErr]

theorem firstErr_left (e : Err) (b : Val F) : firstErr [.err e, b] = some e := rfl

theorem firstErr_right (a : Val F) (e : Err) (h : ¬ IsErr a) : firstErr [a, .err e] = some e := by
  cases a <;> simp_all [firstErr, IsErr]

theorem convertNan_wf (x : F) : WF (convertNan x) := by
  unfold convertNan; split <;> simp_all [WF]

theorem power_wf (x y : F) : WF (power x y) := by
  unfold power
  split
  · trivial
  · split
    · trivial
    · exact convertNan_wf _

theorem arithRaw_wf (o : AOp) (x y : F) : WF (arithRaw o x y) := by
  cases o <;> simp only [arithRaw]
  · exact convertNan_wf _
  · exact convertNan_wf _
  · exact convertNan_wf _
  · split
    · trivial
    · exact convertNan_wf _
  · exact power_wf x y

theorem arith_wf (o : AOp) (a b : Val F) : WF (arith o a b) := by
  unfold arith
  split
  · trivial
  · split
    · exact arithRaw_wf o _ _
    · trivial
    · trivial

theorem toNum_err_iff (a : Val F) (e : Err) (h : ¬ IsErr a) : toNum a = .error e →
    e = .value ∧ ∃ s, a = .text s ∧ (Num.ofText s : Option F) = none := by
  cases a with
  | num x => simp [toNum]
  | bool b => simp [toNum]
  | blank => simp [toNum]
  | err e' => simp [IsErr] at h
  | text s =>
    simp only [toNum]
    split
    · simp
    · rename_i hs
      intro h'; cases h'; exact ⟨rfl, s, rfl, hs⟩

/-! ### comparisons -/

theorem keyLt_irrefl [LawfulNum F] (a : Val F) : keyLt a a = false := by
  cases a <;> simp [keyLt, ltSame, rank, LawfulNum.lt_irrefl]

/-- values that take part in a comparison after `logic_input_parser`: finite numbers, text, logicals -/
def Comparable : Val F → Prop
  | .num x => Num.isFinite x = true
  | .text _ => True
  | .bool _ => True
  | _ => False

theorem string_tri (s t : String) : (s < t ∧ s ≠ t ∧ ¬ t < s) ∨ (¬ s < t ∧ s = t ∧ ¬ t < s) ∨ (¬ s < t ∧ s ≠ t ∧ t < s) := by
  by_cases h1 : s < t
  · left; exact ⟨h1, fun h => by subst h; exact String.lt_irrefl _ h1, String.lt_asymm h1⟩
  · by_cases h2 : t < s
    · right; right; exact ⟨h1, fun h => by subst h; exact String.lt_irrefl _ h2, h2⟩
    · right; left
      have a : t ≤ s := String.not_lt.mp h1
      have b : s ≤ t := String.not_lt.mp h2
      exact ⟨h1, String.le_antisymm b a, h2⟩

/-- exactly one of `<`, `=`, `>` holds between two comparable keys -/
theorem key_trichotomy [LawfulNum F] (a b : Val F) (ha : Comparable a) (hb : Comparable b) :
    (keyLt a b = true ∧ keyEq a b = false ∧ keyLt b a = false) ∨
    (keyLt a b = false ∧ keyEq a b = true ∧ keyLt b a = false) ∨
    (keyLt a b = false ∧ keyEq a b = false ∧ keyLt b a = true) := by
  cases a <;> cases b <;> simp only [Comparable] at ha hb
  all_goals simp only [keyLt, keyEq, rank, ltSame, eqSame]
  all_goals try (simp; done)
  · rename_i x y
    have := LawfulNum.tri x y ha hb
    simpa using this
  · rename_i s t
    have := string_tri s t
    simp only [Nat.lt_irrefl, decide_false, BEq.rfl, Bool.true_and, Bool.false_or]
    rcases this with ⟨h1, h2, h3⟩ | ⟨h1, h2, h3⟩ | ⟨h1, h2, h3⟩
    · left; simp [h1, h2, h3]
    · right; left; subst h2; simp
    · right; right; simp [h1, h2, h3]
  · rename_i x y
    cases x <;> cases y <;> simp

theorem keyLt_trans [LawfulNum F] (a b c : Val F) (h1 : keyLt a b = true) (h2 : keyLt b c = true) :
    keyLt a c = true := by
  cases a <;> cases b <;> cases c <;> simp_all [keyLt, rank, ltSame]
  · rename_i x y z
    exact LawfulNum.lt_trans x y z h1 h2
  · rename_i s t u
    exact String.lt_trans h1 h2

end XL
