import XL.Model.Circ
import XL.Proofs.Book
/-!
# Proofs about the workbook `solve_circular` leaves behind (`XL.solved`)

* marked addresses read `#CIRC!`;
* **isolation**: a cell from which no marked address and no cut definition can be reached has the
  value it has in the original workbook (hence in the workbook without the cyclic cells);
* **unselected branches are irrelevant**: the value of `IF / IFERROR / IFNA` does not depend on the
  branch its condition does not select, so replacing a reference inside such a branch by the constant
  `#CIRC!` does not change the value of the formula (`guarded_eval`): the ordinary values of the solved
  workbook satisfy the *original* formulas.
-/
namespace XL
variable {F : Type} [Num F]

/-! ### marks -/

theorem lookupOverride_marks (marks : List (Nat × Nat × Nat)) (ov : List ((Nat × Nat × Nat) × Val F)) (s r c : Nat)
    (h : (s, r, c) ∈ marks) :
    lookupOverride (marks.map (fun a => (a, (.err .circ : Val F))) ++ ov) s r c = some (.err .circ) := by
  induction marks with
  | nil => cases h
  | cons a rest ih =>
    obtain ⟨s', r', c'⟩ := a
    simp only [List.map_cons, List.cons_append, lookupOverride]
    by_cases he : s = s' ∧ r = r' ∧ c = c'
    · simp [he]
    · simp only [he, if_false]
      apply ih
      rcases List.mem_cons.mp h with h | h
      · exfalso; apply he; cases h; exact ⟨rfl, rfl, rfl⟩
      · exact h

theorem lookupOverride_not_marked (marks : List (Nat × Nat × Nat)) (ov : List ((Nat × Nat × Nat) × Val F)) (s r c : Nat)
    (h : (s, r, c) ∉ marks) :
    lookupOverride (marks.map (fun a => (a, (.err .circ : Val F))) ++ ov) s r c = lookupOverride ov s r c := by
  induction marks with
  | nil => rfl
  | cons a rest ih =>
    obtain ⟨s', r', c'⟩ := a
    simp only [List.map_cons, List.cons_append, lookupOverride]
    have he : ¬ (s = s' ∧ r = r' ∧ c = c') := by
      intro ⟨h1, h2, h3⟩; apply h; rw [h1, h2, h3]; exact List.mem_cons_self
    simp only [he, if_false]
    exact ih (fun hm => h (List.mem_cons_of_mem _ hm))

/-- a marked address reads `#CIRC!` -/
theorem marked_value (b : Book F) (cuts : List Cut) (marks : List (Nat × Nat × Nat)) (nm : List String) (rm : List RRef)
    (n s r c : Nat) (h : (s, r, c) ∈ marks) : value (solved b cuts marks nm rm) (n + 1) s r c = .err .circ := by
  simp [value, solved, lookupOverride_marks marks b.overrides s r c h]

/-! ### isolation -/

theorem applyCuts_addr (cuts : List Cut) (nm : List String) (rm : List RRef) (d : CellDef F) :
    (applyCuts cuts nm rm d).sheet = d.sheet ∧ (applyCuts cuts nm rm d).row = d.row ∧ (applyCuts cuts nm rm d).col = d.col :=
  ⟨rfl, rfl, rfl⟩

theorem findCell_applyCuts (cuts : List Cut) (nm : List String) (rm : List RRef) (cells : List (CellDef F)) (s r c : Nat)
    (h : ∀ d ∈ cells, d.sheet = s ∧ d.row = r ∧ d.col = c → applyCuts cuts nm rm d = d) :
    findCell (cells.map (applyCuts cuts nm rm)) s r c = findCell cells s r c := by
  induction cells with
  | nil => rfl
  | cons d rest ih =>
    have ih' := ih (fun d' hd' => h d' (List.mem_cons_of_mem _ hd'))
    by_cases hat : d.sheet = s ∧ d.row = r ∧ d.col = c
    · have := h d List.mem_cons_self hat
      simp only [List.map_cons, this, findCell, hat, and_self, if_true, ih']
    · have hat' : ¬ ((applyCuts cuts nm rm d).sheet = s ∧ (applyCuts cuts nm rm d).row = r ∧ (applyCuts cuts nm rm d).col = c) := hat
      simp only [List.map_cons, findCell, hat, hat', if_false, ih']

theorem findSpill_applyCuts (cuts : List Cut) (nm : List String) (rm : List RRef) (cells : List (CellDef F)) (s r c : Nat)
    (h : ∀ d ∈ cells, (∃ R C e, d.content = .arrayFormula R C e ∧ d.sheet = s ∧ d.row ≤ r ∧ r < d.row + R ∧ d.col ≤ c ∧ c < d.col + C) →
      applyCuts cuts nm rm d = d) :
    findSpill (cells.map (applyCuts cuts nm rm)) s r c = findSpill cells s r c := by
  induction cells with
  | nil => rfl
  | cons d rest ih =>
    have ih' := ih (fun d' hd' => h d' (List.mem_cons_of_mem _ hd'))
    cases hc : d.content with
    | const v =>
      have : (applyCuts cuts nm rm d).content = .const v := by simp [applyCuts, hc, cutContent]
      simp only [List.map_cons, findSpill, this, hc, ih']
    | formula e =>
      have : (applyCuts cuts nm rm d).content =
          .formula (cutExpr (refsAt cuts d.sheet d.row d.col) (namesAt cuts d.sheet d.row d.col ++ nm) rm e) := by
        simp [applyCuts, hc, cutContent]
      simp only [List.map_cons, findSpill, this, hc, ih']
    | arrayFormula R C e =>
      by_cases hcov : d.sheet = s ∧ d.row ≤ r ∧ r < d.row + R ∧ d.col ≤ c ∧ c < d.col + C
      · have := h d List.mem_cons_self ⟨R, C, e, hc, hcov⟩
        simp only [List.map_cons, this, findSpill, hc, hcov, and_self, if_true]
      · have hk : (applyCuts cuts nm rm d).content =
            .arrayFormula R C (cutExpr (refsAt cuts d.sheet d.row d.col) (namesAt cuts d.sheet d.row d.col ++ nm) rm e) := by
          simp [applyCuts, hc, cutContent]
        have hcov' : ¬ ((applyCuts cuts nm rm d).sheet = s ∧ (applyCuts cuts nm rm d).row ≤ r ∧ r < (applyCuts cuts nm rm d).row + R ∧
            (applyCuts cuts nm rm d).col ≤ c ∧ c < (applyCuts cuts nm rm d).col + C) := hcov
        simp only [List.map_cons, findSpill, hk, hc, hcov, hcov', if_false, ih']

/-- **isolation**: no marked address and no cut definition within reach — the value is the one of
the original workbook, at every evaluation depth -/
theorem isolated_value (b : Book F) (cuts : List Cut) (marks : List (Nat × Nat × Nat)) (nm : List String) (rm : List RRef)
    (n s r c : Nat)
    (h : ∀ s' r' c', Reaches b (s, r, c) (s', r', c') →
      (s', r', c') ∉ marks ∧ ∀ d ∈ b.cells, RelevantTo d s' r' c' → applyCuts cuts nm rm d = d) :
    value (solved b cuts marks nm rm) n s r c = value b n s r c := by
  symm
  apply value_congr b (solved b cuts marks nm rm) rfl
  intro s' r' c' ht
  obtain ⟨hm, hd⟩ := h s' r' c' ht
  refine ⟨?_, ?_, ?_⟩
  · simp only [solved]
    exact (lookupOverride_not_marked marks b.overrides s' r' c' hm).symm
  · simp only [solved]
    exact (findSpill_applyCuts cuts nm rm b.cells s' r' c' (fun d hd' hh => hd d hd' (Or.inr hh))).symm
  · simp only [solved]
    exact (findCell_applyCuts cuts nm rm b.cells s' r' c' (fun d hd' hh => hd d hd' (Or.inl hh))).symm

/-! ### the unselected branch of a lazy function is irrelevant -/

theorem bget_single {α} (a d : α) (i j : Nat) : Arr.bget [[a]] d i j = a := by
  simp [Arr.bget, Arr.nrows, Arr.ncols]

theorem tabulate_congr' {α} (R C : Nat) (f g : Nat → Nat → α) (h : ∀ i j, f i j = g i j) :
    tabulate R C f = tabulate R C g := by
  have : f = g := by funext i j; exact h i j
  rw [this]

/-- three arguments, a single condition element, the last a single element that the function ignores -/
theorem mapN3_last {α γ} (f : List α → γ) (d : α) (u : α) (X : Arr α) (a b : α)
    (h : ∀ w, f [u, w, a] = f [u, w, b]) : mapN f d [[[u]], X, [[a]]] = mapN f d [[[u]], X, [[b]]] := by
  simp only [mapN, List.map, Arr.nrows, Arr.ncols, List.length_singleton, List.headD_cons]
  split
  · rfl
  · congr 1
    apply tabulate_congr'
    intro i j
    simp only [bget_single]
    exact h _

/-- three arguments, the middle one a single element that the function ignores -/
theorem mapN3_mid {α γ} (f : List α → γ) (d : α) (u : α) (Y : Arr α) (a b : α)
    (h : ∀ w, f [u, a, w] = f [u, b, w]) : mapN f d [[[u]], [[a]], Y] = mapN f d [[[u]], [[b]], Y] := by
  simp only [mapN, List.map, Arr.nrows, Arr.ncols, List.length_singleton, List.headD_cons]
  split
  · rfl
  · congr 1
    apply tabulate_congr'
    intro i j
    simp only [bget_single]
    exact h _

theorem map2_right {α β γ} (f : α → β → γ) (da : α) (db : β) (u : α) (a b : β)
    (h : f u a = f u b) : map2 f da db [[u]] [[a]] = map2 f da db [[u]] [[b]] := by
  simp only [map2, Arr.nrows, Arr.ncols, List.length_singleton, List.headD_cons]
  split
  · rfl
  · congr 1
    apply tabulate_congr'
    intro i j
    simp only [bget_single]
    exact h

theorem blankTo_single (d v : Val F) : blankTo d [[v]] = [[match v with | .blank => d | v => v]] := rfl

/-- `IF(c, x, y)` with a single condition that does not select `y`: `y` may be any single value -/
theorem evalIf_else_irrelevant (c x y y' : Res F) (cv yv yv' : Val F)
    (hc : blankTo (.num Num.zero) c.toArr = [[cv]]) (hsel : ∀ a b b', ifElem cv a b = ifElem cv a b')
    (hy : y.toArr = [[yv]]) (hy' : y'.toArr = [[yv']]) : evalIf [c, x, y] = evalIf [c, x, y'] := by
  simp only [evalIf, hc, hy, hy', blankTo_single]
  congr 1
  apply mapN3_last
  intro w
  exact hsel _ _ _

/-- … and one that does not select `x` -/
theorem evalIf_then_irrelevant (c x x' y : Res F) (cv xv xv' : Val F)
    (hc : blankTo (.num Num.zero) c.toArr = [[cv]]) (hsel : ∀ a a' b, ifElem cv a b = ifElem cv a' b)
    (hx : x.toArr = [[xv]]) (hx' : x'.toArr = [[xv']]) : evalIf [c, x, y] = evalIf [c, x', y] := by
  simp only [evalIf, hc, hx, hx', blankTo_single]
  congr 1
  apply mapN3_mid
  intro w
  exact hsel _ _ _

theorem evalIferror_irrelevant (v d d' : Res F) (vv dv dv' : Val F)
    (hv : blankTo (.num Num.zero) v.toArr = [[vv]]) (hsel : ∀ a a', iferrorElem vv a = iferrorElem vv a')
    (hd : d.toArr = [[dv]]) (hd' : d'.toArr = [[dv']]) : evalIferror [v, d] = evalIferror [v, d'] := by
  simp only [evalIferror, hv, hd, hd', blankTo_single]
  congr 1
  apply map2_right
  exact hsel _ _

theorem evalIfna_irrelevant (v d d' : Res F) (vv dv dv' : Val F)
    (hv : blankTo (.num Num.zero) v.toArr = [[vv]]) (hsel : ∀ a a', ifnaElem vv a = ifnaElem vv a')
    (hd : d.toArr = [[dv]]) (hd' : d'.toArr = [[dv']]) : evalIfna [v, d] = evalIfna [v, d'] := by
  simp only [evalIfna, hv, hd, hd', blankTo_single]
  congr 1
  apply map2_right
  exact hsel _ _

/-! ### expressions whose value is a single element whatever the environment -/

inductive Single : Expr F → Prop
  | lit (v : Val F) : Single (.lit v)
  | cell (s r c : Nat) : Single (.ref ⟨s, r, r, c, c⟩)
  | arr1 (v : Val F) : Single (.array [[v]])
  | bin (o : BinOp) (l r : Expr F) : Single l → Single r → Single (.bin o l r)
  | un (o : UOp) (x : Expr F) : Single x → Single (.un o x)

theorem readRange_cell (env : Env F) (s r c : Nat) : readRange env ⟨s, r, r, c, c⟩ = [[env.cell s r c]] := by
  have h1 : r + 1 - r = 1 := by omega
  have h2 : c + 1 - c = 1 := by omega
  simp [readRange, tabulate, h1, h2, List.range_one]

theorem map2_single {α β γ} (f : α → β → γ) (da : α) (db : β) (a : α) (b : β) :
    map2 f da db [[a]] [[b]] = some [[f a b]] := by
  simp [map2, bshape, bdim, tabulate, Arr.nrows, Arr.ncols, bget_single, List.range_one]

theorem single_eval (env : Env F) (e : Expr F) (h : Single e) : ∃ r v, evalExpr env e = .ok r ∧ r.toArr = [[v]] := by
  induction h with
  | lit v => exact ⟨.scalar v, v, by simp [evalExpr], rfl⟩
  | cell s r c => exact ⟨.arr [[env.cell s r c]], _, by simp [evalExpr, readRange_cell], rfl⟩
  | arr1 v => exact ⟨.arr [[v]], v, by simp [evalExpr], rfl⟩
  | bin o l r _ _ ihl ihr =>
    obtain ⟨rl, vl, hl, hl'⟩ := ihl
    obtain ⟨rr, vr, hr, hr'⟩ := ihr
    refine ⟨.arr [[applyBin o vl vr]], _, ?_, rfl⟩
    simp [evalExpr, hl, hr, evalBin, hl', hr', map2_single]
  | un o x _ ih =>
    obtain ⟨rx, vx, hx, hx'⟩ := ih
    refine ⟨.arr [[unary o vx]], _, ?_, rfl⟩
    simp [evalExpr, hx, evalUn, hx', map1]

theorem circArray_cell (s r c : Nat) : (circArray ⟨s, r, r, c, c⟩ : Expr F) = .array [[.err .circ]] := by
  have h1 : r + 1 - r = 1 := by omega
  have h2 : c + 1 - c = 1 := by omega
  simp [circArray, tabulate, h1, h2, List.range_one]

theorem single_cut (refs : List RRef) (names : List String) (full : List RRef) (e : Expr F) (h : Single e) :
    Single (cutExpr refs names full e) := by
  induction h with
  | lit v => simp only [cutExpr]; exact Single.lit v
  | cell s r c =>
    simp only [cutExpr]
    split
    · exact Single.lit _
    · split
      · rw [circArray_cell]; exact Single.arr1 _
      · exact Single.cell s r c
  | arr1 v => simp only [cutExpr]; exact Single.arr1 v
  | bin o l r _ _ ihl ihr => simp only [cutExpr]; exact Single.bin o _ _ ihl ihr
  | un o x _ ih => simp only [cutExpr]; exact Single.un o _ ih

/-! ### cuts inside unselected branches do not change the value -/

/-- every cut reference of `e` lies in a branch that the (single) condition of its `IF` / `IFERROR` /
`IFNA` does not select under `env`; "does not select" is stated semantically: the element function
ignores that argument at the value of the condition -/
inductive Guarded (env : Env F) (refs : List RRef) (names : List String) (full : List RRef) : Expr F → Prop
  | clean (e : Expr F) : cutExpr refs names full e = e → Guarded env refs names full e
  | bin (o : BinOp) (l r : Expr F) : Guarded env refs names full l → Guarded env refs names full r →
      Guarded env refs names full (.bin o l r)
  | un (o : UOp) (x : Expr F) : Guarded env refs names full x → Guarded env refs names full (.un o x)
  | call (f : String) (args : List (Expr F)) : (∀ a ∈ args, Guarded env refs names full a) →
      Guarded env refs names full (.call f args)
  | ifElse (c x y : Expr F) (rc : Res F) (cv : Val F) : Guarded env refs names full c → Guarded env refs names full x →
      Single y → evalExpr env c = .ok rc → blankTo (.num Num.zero) rc.toArr = [[cv]] →
      (∀ a b b', ifElem cv a b = ifElem cv a b') → Guarded env refs names full (.call "IF" [c, x, y])
  | ifThen (c x y : Expr F) (rc : Res F) (cv : Val F) : Guarded env refs names full c → Guarded env refs names full y →
      Single x → evalExpr env c = .ok rc → blankTo (.num Num.zero) rc.toArr = [[cv]] →
      (∀ a a' b, ifElem cv a b = ifElem cv a' b) → Guarded env refs names full (.call "IF" [c, x, y])
  | iferror (v d : Expr F) (rv : Res F) (vv : Val F) : Guarded env refs names full v → Single d →
      evalExpr env v = .ok rv → blankTo (.num Num.zero) rv.toArr = [[vv]] →
      (∀ a a', iferrorElem vv a = iferrorElem vv a') → Guarded env refs names full (.call "IFERROR" [v, d])
  | ifna (v d : Expr F) (rv : Res F) (vv : Val F) : Guarded env refs names full v → Single d →
      evalExpr env v = .ok rv → blankTo (.num Num.zero) rv.toArr = [[vv]] →
      (∀ a a', ifnaElem vv a = ifnaElem vv a') → Guarded env refs names full (.call "IFNA" [v, d])

theorem evalArgs_cut (env : Env F) (refs : List RRef) (names : List String) (full : List RRef) :
    ∀ (args : List (Expr F)), (∀ a ∈ args, evalExpr env (cutExpr refs names full a) = evalExpr env a) →
      evalArgs env (cutArgs refs names full args) = evalArgs env args
  | [], _ => by simp [cutArgs]
  | a :: as, h => by
    have h1 := h a List.mem_cons_self
    have h2 := evalArgs_cut env refs names full as (fun x hx => h x (List.mem_cons_of_mem _ hx))
    simp only [cutArgs, evalArgs, h1, h2]

/-- **cuts in unselected branches are invisible**: the cut formula has the value of the original one -/
theorem guarded_eval (env : Env F) (refs : List RRef) (names : List String) (full : List RRef) (e : Expr F)
    (h : Guarded env refs names full e) : evalExpr env (cutExpr refs names full e) = evalExpr env e := by
  induction h with
  | clean e he => rw [he]
  | bin o l r _ _ ihl ihr => simp only [cutExpr, evalExpr, ihl, ihr]
  | un o x _ ih => simp only [cutExpr, evalExpr, ih]
  | call f args _ ih =>
    have := evalArgs_cut env refs names full args ih
    simp only [cutExpr, evalExpr, this]
  | ifElse c x y rc cv _ _ hy hc hcv hsel ihc ihx =>
    obtain ⟨ry, yv, hy1, hy2⟩ := single_eval env y hy
    obtain ⟨ry', yv', hy1', hy2'⟩ := single_eval env _ (single_cut refs names full y hy)
    simp only [cutExpr, cutArgs, evalExpr, evalArgs, ihc, ihx, hc, hy1, hy1']
    cases hx : evalExpr env x with
    | error e => rfl
    | ok rx =>
      simp only [String.reduceEq, if_false, if_true]
      rw [evalIf_else_irrelevant rc rx ry' ry cv yv' yv hcv hsel hy2' hy2]
  | ifThen c x y rc cv _ _ hx hc hcv hsel ihc ihy =>
    obtain ⟨rx, xv, hx1, hx2⟩ := single_eval env x hx
    obtain ⟨rx', xv', hx1', hx2'⟩ := single_eval env _ (single_cut refs names full x hx)
    simp only [cutExpr, cutArgs, evalExpr, evalArgs, ihc, ihy, hc, hx1, hx1']
    cases hy : evalExpr env y with
    | error e => rfl
    | ok ry =>
      simp only [String.reduceEq, if_false, if_true]
      rw [evalIf_then_irrelevant rc rx' rx ry cv xv' xv hcv hsel hx2' hx2]
  | iferror v d rv vv _ hd hv hvv hsel ihv =>
    obtain ⟨rd, dv, hd1, hd2⟩ := single_eval env d hd
    obtain ⟨rd', dv', hd1', hd2'⟩ := single_eval env _ (single_cut refs names full d hd)
    simp only [cutExpr, cutArgs, evalExpr, evalArgs, ihv, hv, hd1, hd1', String.reduceEq, if_false, if_true]
    rw [evalIferror_irrelevant rv rd' rd vv dv' dv hvv hsel hd2' hd2]
  | ifna v d rv vv _ hd hv hvv hsel ihv =>
    obtain ⟨rd, dv, hd1, hd2⟩ := single_eval env d hd
    obtain ⟨rd', dv', hd1', hd2'⟩ := single_eval env _ (single_cut refs names full d hd)
    simp only [cutExpr, cutArgs, evalExpr, evalArgs, ihv, hv, hd1, hd1', String.reduceEq, if_false, if_true]
    rw [evalIfna_irrelevant rv rd' rd vv dv' dv hvv hsel hd2' hd2]

theorem fillOf_cut (refs : List RRef) (names : List String) (full : List RRef) (e : Expr F) :
    fillOf (cutExpr refs names full e) = fillOf e := by
  cases e with
  | ref r =>
    simp only [cutExpr]
    split
    · rfl
    · split
      · simp [circArray, fillOf]
      · rfl
  | name n => simp only [cutExpr]; split <;> rfl
  | call f args => simp only [cutExpr, fillOf]
  | lit v => rfl
  | empty => rfl
  | array rows => rfl
  | bin o l r => rfl
  | un o x => rfl

/-- the same for what the cell stores -/
theorem guarded_formulaValue (env : Env F) (refs : List RRef) (names : List String) (full : List RRef) (e : Expr F)
    (R C i j : Nat) (h : Guarded env refs names full e) :
    formulaValue env R C i j (cutExpr refs names full e) = formulaValue env R C i j e := by
  simp only [formulaValue, guarded_eval env refs names full e h, fillOf_cut]

/-! ### the solved workbook stores the cut formula; under `Guarded` its value solves the original equation -/

theorem findCell_map_applyCuts (cuts : List Cut) (nm : List String) (rm : List RRef) (cells : List (CellDef F)) (s r c : Nat) :
    findCell (cells.map (applyCuts cuts nm rm)) s r c =
      (findCell cells s r c).map (cutContent (refsAt cuts s r c) (namesAt cuts s r c ++ nm) rm) := by
  induction cells with
  | nil => rfl
  | cons d rest ih =>
    by_cases hat : d.sheet = s ∧ d.row = r ∧ d.col = c
    · obtain ⟨h1, h2, h3⟩ := hat
      have hat' : (applyCuts cuts nm rm d).sheet = s ∧ (applyCuts cuts nm rm d).row = r ∧ (applyCuts cuts nm rm d).col = c := ⟨h1, h2, h3⟩
      have hk : (applyCuts cuts nm rm d).content = cutContent (refsAt cuts s r c) (namesAt cuts s r c ++ nm) rm d.content := by
        simp [applyCuts, h1, h2, h3]
      simp only [List.map_cons, findCell, hat', h1, h2, h3, and_self, if_true, hk]
      cases d.content with
      | const v => simp [cutContent]
      | formula e => simp [cutContent]
      | arrayFormula R C e => simp only [cutContent]; exact ih
    · have hat' : ¬ ((applyCuts cuts nm rm d).sheet = s ∧ (applyCuts cuts nm rm d).row = r ∧ (applyCuts cuts nm rm d).col = c) := hat
      simp only [List.map_cons, findCell, hat, hat', if_false, ih]

theorem findSpill_map_none (cuts : List Cut) (nm : List String) (rm : List RRef) (cells : List (CellDef F)) (s r c : Nat)
    (h : findSpill cells s r c = none) : findSpill (cells.map (applyCuts cuts nm rm)) s r c = none := by
  induction cells with
  | nil => rfl
  | cons d rest ih =>
    cases hc : d.content with
    | const v =>
      have hk : (applyCuts cuts nm rm d).content = .const v := by simp [applyCuts, hc, cutContent]
      simp only [findSpill, hc] at h
      simp only [List.map_cons, findSpill, hk, ih h]
    | formula e =>
      have hk : (applyCuts cuts nm rm d).content =
          .formula (cutExpr (refsAt cuts d.sheet d.row d.col) (namesAt cuts d.sheet d.row d.col ++ nm) rm e) := by
        simp [applyCuts, hc, cutContent]
      simp only [findSpill, hc] at h
      simp only [List.map_cons, findSpill, hk, ih h]
    | arrayFormula R C e =>
      have hk : (applyCuts cuts nm rm d).content =
          .arrayFormula R C (cutExpr (refsAt cuts d.sheet d.row d.col) (namesAt cuts d.sheet d.row d.col ++ nm) rm e) := by
        simp [applyCuts, hc, cutContent]
      simp only [findSpill, hc] at h
      by_cases hcov : d.sheet = s ∧ d.row ≤ r ∧ r < d.row + R ∧ d.col ≤ c ∧ c < d.col + C
      · simp [hcov] at h
      · simp only [hcov, if_false] at h
        have hcov' : ¬ ((applyCuts cuts nm rm d).sheet = s ∧ (applyCuts cuts nm rm d).row ≤ r ∧ r < (applyCuts cuts nm rm d).row + R ∧
            (applyCuts cuts nm rm d).col ≤ c ∧ c < (applyCuts cuts nm rm d).col + C) := hcov
        simp only [List.map_cons, findSpill, hk, hcov', if_false, ih h]

/-- what an unmarked formula cell of the solved workbook holds: its *cut* formula on the solved values -/
theorem solved_formula_value (b : Book F) (cuts : List Cut) (marks : List (Nat × Nat × Nat)) (nm : List String) (rm : List RRef)
    (n s r c : Nat) (e : Expr F) (hm : (s, r, c) ∉ marks) (ho : lookupOverride b.overrides s r c = none)
    (hs : findSpill b.cells s r c = none) (hc : findCell b.cells s r c = some (.formula e)) :
    value (solved b cuts marks nm rm) (n + 1) s r c =
      formulaValue (mkEnv (value (solved b cuts marks nm rm) n) b.names) 1 1 0 0
        (cutExpr (refsAt cuts s r c) (namesAt cuts s r c ++ nm) rm e) := by
  have h1 : lookupOverride (solved b cuts marks nm rm).overrides s r c = none := by
    simp only [solved]; rw [lookupOverride_not_marked marks b.overrides s r c hm]; exact ho
  have h2 : findSpill (solved b cuts marks nm rm).cells s r c = none := by
    simp only [solved]; exact findSpill_map_none cuts nm rm b.cells s r c hs
  have h3 : findCell (solved b cuts marks nm rm).cells s r c =
      some (.formula (cutExpr (refsAt cuts s r c) (namesAt cuts s r c ++ nm) rm e)) := by
    simp only [solved]; rw [findCell_map_applyCuts, hc]; rfl
  have h4 : (solved b cuts marks nm rm).names = b.names := rfl
  simp only [value, h1, h2, h3, h4]

/-- **the ordinary values of the solved workbook satisfy the original formulas**: where every cut of
a cell lies in a branch that is not selected on the solved values, the cell holds its *original*
formula applied to those values -/
theorem solved_satisfies_original (b : Book F) (cuts : List Cut) (marks : List (Nat × Nat × Nat)) (nm : List String) (rm : List RRef)
    (n s r c : Nat) (e : Expr F) (hm : (s, r, c) ∉ marks) (ho : lookupOverride b.overrides s r c = none)
    (hs : findSpill b.cells s r c = none) (hc : findCell b.cells s r c = some (.formula e))
    (hg : Guarded (mkEnv (value (solved b cuts marks nm rm) n) b.names) (refsAt cuts s r c) (namesAt cuts s r c ++ nm) rm e) :
    value (solved b cuts marks nm rm) (n + 1) s r c =
      formulaValue (mkEnv (value (solved b cuts marks nm rm) n) b.names) 1 1 0 0 e := by
  rw [solved_formula_value b cuts marks nm rm n s r c e hm ho hs hc]
  exact guarded_formulaValue _ _ _ _ e 1 1 0 0 hg

end XL
