import XL.Model.Lex
/-!
# The parser never leaves the formula / syntax-error dichotomy

`escape` results of the model stand for exceptions other than `FormulaError` that the Python code
could raise on this path: a `KeyError` of the precedence table, a function token popped without
its parenthesis (`KeyError: 'n_args'`), a tokeniser iteration that consumes nothing (endless loop).
They are shown unreachable by a stack invariant.
-/
namespace XL

/-- stack invariant: every operator on the stack has a precedence, every function token lies
directly below its opening parenthesis -/
def good : List SItem → Bool
  | [] => true
  | .op n :: r => (precOf n).isSome && good r
  | .lp _ _ _ :: .fn _ :: r => good r
  | .lp _ _ _ :: r => good r
  | .fn _ :: _ => false

def IsEscape {α} : Except PErr α → Prop
  | .error (.escape _) => True
  | _ => False

theorem good_bump (st : List SItem) (h : good st = true) : good (bump st) = true := by
  cases st with
  | nil => simpa [bump] using h
  | cons i r =>
    cases i with
    | op n => simpa [bump] using h
    | fn f => simp [good] at h
    | lp n c b =>
      cases r with
      | nil => simpa [bump, good] using h
      | cons j r' => cases j <;> simpa [bump, good] using h

theorem applyOp_not_escape (n : String) (out : List Ast) : ¬ IsEscape (applyOp n out) := by
  unfold applyOp
  split
  · split <;> simp [IsEscape]
  · simp [IsEscape]

theorem popWhile_good : ∀ (st : List SItem) (p : Nat) (out : List Ast), good st = true →
    ¬ IsEscape (popWhile p st out) ∧ ∀ st' out', popWhile p st out = .ok (st', out') → good st' = true := by
  intro st
  induction st with
  | nil => intro p out _; simp [popWhile, IsEscape, good]
  | cons i r ih =>
    intro p out h
    cases i with
    | lp n c b => simp [popWhile, IsEscape]; exact h
    | fn f => simp [good] at h
    | op n =>
      simp only [good, Bool.and_eq_true] at h
      obtain ⟨hp, hr⟩ := h
      obtain ⟨q, hq⟩ := Option.isSome_iff_exists.mp hp
      simp only [popWhile, hq]
      split
      · refine ⟨by simp [IsEscape], ?_⟩
        intro st' out' he
        cases he
        simp [good, hq, hr]
      · cases ha : applyOp n out with
        | error e =>
          have := applyOp_not_escape n out
          rw [ha] at this
          refine ⟨?_, by simp⟩
          cases e <;> simp_all [IsEscape]
        | ok out'' => exact ih p out'' hr

/-- what `popToStart` leaves on top: nothing or an opening parenthesis -/
def startTop : List SItem → Bool
  | [] => true
  | .lp _ _ _ :: _ => true
  | _ => false

theorem popToStart_good : ∀ (st : List SItem) (out : List Ast), good st = true →
    ¬ IsEscape (popToStart st out) ∧
    ∀ st' out', popToStart st out = .ok (st', out') → good st' = true ∧ startTop st' = true := by
  intro st
  induction st with
  | nil => intro out _; simp [popToStart, IsEscape, good, startTop]
  | cons i r ih =>
    intro out h
    cases i with
    | lp n c b => simp [popToStart, IsEscape, startTop]; exact h
    | fn f => simp [good] at h
    | op n =>
      simp only [good, Bool.and_eq_true] at h
      simp only [popToStart]
      cases ha : applyOp n out with
      | error e =>
        have := applyOp_not_escape n out
        rw [ha] at this
        refine ⟨?_, by simp⟩
        cases e <;> simp_all [IsEscape]
      | ok out'' => exact ih out'' h.2

theorem unionSeps_not_escape : ∀ (k : Nat) (out : List Ast), ¬ IsEscape (unionSeps k out) := by
  intro k
  induction k with
  | zero => intro out; simp [unionSeps, IsEscape]
  | succ k ih =>
    intro out
    simp only [unionSeps]
    cases ha : applyOp "," out with
    | error e =>
      have := applyOp_not_escape "," out
      rw [ha] at this
      cases e <;> simp_all [IsEscape]
    | ok out' => exact ih out'

theorem applyFn_not_escape (f : String) (n : Nat) (out : List Ast) : ¬ IsEscape (applyFn f n out) := by
  unfold applyFn; split <;> simp [IsEscape]

theorem good_tail_lp (n : Nat) (c : Chk) (b : Bool) (rest : List SItem) (h : good (.lp n c b :: rest) = true) :
    (∀ f rest', rest = .fn f :: rest' → good rest' = true) ∧ ((∀ f rest', rest ≠ .fn f :: rest') → good rest = true) := by
  constructor
  · intro f rest' he; subst he; simpa [good] using h
  · intro hne
    cases rest with
    | nil => rfl
    | cons j r' =>
      cases j with
      | fn f => exact absurd rfl (hne f r')
      | op m => simpa [good] using h
      | lp m c' b' => simpa [good] using h

theorem closeParen_good (s : PState) (brace : Bool) (h : good s.st = true) :
    ¬ IsEscape (closeParen s brace) ∧ ∀ s' n, closeParen s brace = .ok (s', n) → good s'.st = true := by
  unfold closeParen
  obtain ⟨h1, h2⟩ := popToStart_good s.st s.out h
  cases hp : popToStart s.st s.out with
  | error e =>
    rw [hp] at h1
    refine ⟨?_, by simp⟩
    cases e <;> simp_all [IsEscape]
  | ok r =>
    obtain ⟨st', out'⟩ := r
    obtain ⟨g, _⟩ := h2 st' out' hp
    simp only
    cases st' with
    | nil => simp [IsEscape]
    | cons i rest =>
      cases i with
      | op m => simp [IsEscape]
      | fn f => simp [IsEscape]
      | lp n c b =>
        simp only
        split
        · simp [IsEscape]
        · split
          · simp [IsEscape]
          · obtain ⟨t1, t2⟩ := good_tail_lp n c b rest g
            cases rest with
            | nil =>
              simp only
              have := unionSeps_not_escape (n - 1) out'
              cases hu : unionSeps (n - 1) out' with
              | error e => rw [hu] at this; refine ⟨?_, by simp⟩; cases e <;> simp_all [IsEscape]
              | ok o => refine ⟨by simp [IsEscape], ?_⟩; intro s' k he; cases he; simp [bump, good]
            | cons j r' =>
              cases j with
              | fn f =>
                simp only
                have := applyFn_not_escape f n out'
                cases hu : applyFn f n out' with
                | error e => rw [hu] at this; refine ⟨?_, by simp⟩; cases e <;> simp_all [IsEscape]
                | ok o =>
                  refine ⟨by simp [IsEscape], ?_⟩
                  intro s' k he; cases he
                  exact good_bump _ (t1 f r' rfl)
              | op m =>
                simp only
                have := unionSeps_not_escape (n - 1) out'
                have gr := t2 (by intro f r'' he; cases he)
                cases hu : unionSeps (n - 1) out' with
                | error e => rw [hu] at this; refine ⟨?_, by simp⟩; cases e <;> simp_all [IsEscape]
                | ok o => refine ⟨by simp [IsEscape], ?_⟩; intro s' k he; cases he; exact good_bump _ gr
              | lp m c' b' =>
                simp only
                have := unionSeps_not_escape (n - 1) out'
                have gr := t2 (by intro f r'' he; cases he)
                cases hu : unionSeps (n - 1) out' with
                | error e => rw [hu] at this; refine ⟨?_, by simp⟩; cases e <;> simp_all [IsEscape]
                | ok o => refine ⟨by simp [IsEscape], ?_⟩; intro s' k he; cases he; exact good_bump _ gr

end XL

namespace XL

theorem pushOperand_good (s : PState) (a : Ast) (h : good s.st = true) : good (pushOperand s a).st = true :=
  good_bump _ h

theorem rparenStep_good (s : PState) (brace : Bool) (h : good s.st = true) :
    ¬ IsEscape (rparenStep s brace) ∧ ∀ s' n, rparenStep s brace = .ok (s', n) → good s'.st = true := by
  unfold rparenStep
  split
  · exact closeParen_good _ brace (pushOperand_good s _ h)
  · exact closeParen_good _ brace h

theorem fnStep_good (s : PState) (name : String) (c : Chk) (b : Bool) (h : good s.st = true) :
    good (fnStep s name c b).st = true := by
  simpa [fnStep, good] using h

/-- operator symbols the tokeniser can produce (the outputs of `_re_process`) -/
def opNames : List String := ["+", "-", "=", "<=", ">=", "<>", "*", "/", "^", "&", "%", ":", "<", ">", " "]

def allPrevs : List Prev := [.operand, .rparen, .lparen, .sep, .percent, .opr]

/-- every symbol, in every context, has an entry in the generated precedence table -/
theorem finalName_known : opNames.all (fun n => allPrevs.all fun p => (precOf (finalName n p)).isSome) = true := by
  decide

theorem prev_mem (p : Prev) : p ∈ allPrevs := by cases p <;> simp [allPrevs]

theorem precOf_finalName (n : String) (hn : n ∈ opNames) (p : Prev) : (precOf (finalName n p)).isSome = true := by
  have := finalName_known
  rw [List.all_eq_true] at this
  have := this n hn
  rw [List.all_eq_true] at this
  exact this p (prev_mem p)

theorem oprStep_good (s : PState) (n : String) (hn : n ∈ opNames) (h : good s.st = true) :
    ¬ IsEscape (oprStep s n) ∧ ∀ s', oprStep s n = .ok s' → good s'.st = true := by
  unfold oprStep
  have hk := precOf_finalName n hn s.prev
  obtain ⟨p, hp⟩ := Option.isSome_iff_exists.mp hk
  simp only [hp]
  have hg : good (if finalName n s.prev = n then s.st else bump s.st) = true := by
    split
    · exact h
    · exact good_bump _ h
  obtain ⟨h1, h2⟩ := popWhile_good _ p s.out hg
  cases hw : popWhile p (if finalName n s.prev = n then s.st else bump s.st) s.out with
  | error e =>
    rw [hw] at h1
    refine ⟨?_, by simp⟩
    cases e <;> simp_all [IsEscape]
  | ok r =>
    obtain ⟨st', out'⟩ := r
    refine ⟨by simp [IsEscape], ?_⟩
    intro s' he
    cases he
    simp [good, hp, h2 st' out' hw]

/-- tokens the tokeniser can produce -/
def TokOk : Tok → Prop
  | .opr n => n ∈ opNames
  | _ => True

theorem step_good (s : PState) (t : Tok) (ht : TokOk t) (h : good s.st = true) :
    ¬ IsEscape (step s t) ∧ ∀ s', step s t = .ok s' → good s'.st = true := by
  cases t with
  | operand k text =>
    simp only [step]
    split
    · simp [IsEscape]
    · refine ⟨by simp [IsEscape], ?_⟩
      intro s' he; cases he; exact pushOperand_good s _ h
  | opr n =>
    simp only [step]
    split
    · simp [IsEscape]
    · split
      · simp [IsEscape]
      · exact oprStep_good s n ht h
  | isect =>
    simp only [step]
    split
    · simp [IsEscape]
    · exact oprStep_good s " " (by simp [opNames]) h
  | sep =>
    simp only [step]
    have hg : good (if s.prev = .sep ∨ s.prev = .lparen then pushOperand s (.operand .empty "") else s).st = true := by
      split
      · exact pushOperand_good s _ h
      · exact h
    obtain ⟨h1, h2⟩ := popToStart_good _ (if s.prev = .sep ∨ s.prev = .lparen then pushOperand s (.operand .empty "") else s).out hg
    cases hw : popToStart (if s.prev = .sep ∨ s.prev = .lparen then pushOperand s (.operand .empty "") else s).st
        (if s.prev = .sep ∨ s.prev = .lparen then pushOperand s (.operand .empty "") else s).out with
    | error e =>
      rw [hw] at h1
      refine ⟨?_, by simp⟩
      cases e <;> simp_all [IsEscape]
    | ok r =>
      obtain ⟨st', out'⟩ := r
      simp only
      split
      · simp [IsEscape]
      · refine ⟨by simp [IsEscape], ?_⟩
        intro s' he; cases he; exact (h2 st' out' hw).1
  | fn name =>
    simp only [step]
    split
    · simp [IsEscape]
    · refine ⟨by simp [IsEscape], ?_⟩
      intro s' he; cases he; exact fnStep_good s name .any false h
  | lp =>
    simp only [step]
    split
    · simp [IsEscape]
    · refine ⟨by simp [IsEscape], ?_⟩
      intro s' he; cases he
      cases hs : s.st with
      | nil => simp [good]
      | cons j r => rw [hs] at h; cases j <;> simp_all [good]
  | rp =>
    simp only [step]
    obtain ⟨h1, h2⟩ := rparenStep_good s false h
    cases hw : rparenStep s false with
    | error e => rw [hw] at h1; refine ⟨?_, by simp [Except.map]⟩; cases e <;> simp_all [IsEscape, Except.map]
    | ok r => refine ⟨by simp [IsEscape, Except.map], ?_⟩; intro s' he; simp [Except.map] at he; subst he; exact h2 r.1 r.2 hw
  | arrStart =>
    simp only [step]
    split
    · simp [IsEscape]
    · refine ⟨by simp [IsEscape], ?_⟩
      intro s' he; cases he
      exact fnStep_good _ _ _ _ (fnStep_good s _ _ _ h)
  | arrSep =>
    simp only [step]
    obtain ⟨h1, h2⟩ := rparenStep_good s true h
    cases hw : rparenStep s true with
    | error e => rw [hw] at h1; refine ⟨?_, by simp⟩; cases e <;> simp_all [IsEscape]
    | ok r =>
      obtain ⟨s1, n⟩ := r
      refine ⟨by simp [IsEscape], ?_⟩
      intro s' he; cases he
      exact fnStep_good _ _ _ _ (h2 s1 n hw)
  | arrEnd =>
    simp only [step]
    obtain ⟨h1, h2⟩ := rparenStep_good s true h
    cases hw : rparenStep s true with
    | error e => rw [hw] at h1; refine ⟨?_, by simp⟩; cases e <;> simp_all [IsEscape]
    | ok r =>
      obtain ⟨s1, n⟩ := r
      simp only
      obtain ⟨g1, g2⟩ := rparenStep_good s1 true (h2 s1 n hw)
      cases hw2 : rparenStep s1 true with
      | error e => rw [hw2] at g1; refine ⟨?_, by simp [Except.map]⟩; cases e <;> simp_all [IsEscape, Except.map]
      | ok r2 => refine ⟨by simp [IsEscape, Except.map], ?_⟩; intro s' he; simp [Except.map] at he; subst he; exact g2 r2.1 r2.2 hw2

end XL

namespace XL

def IsLexEscape {α} : Except LexErr α → Prop
  | .error (.escape _) => True
  | _ => False

/-- what one filter attempt guarantees: no escape, and on success a good stack and progress -/
def AttemptOk (s : List Char) (r : Except LexErr (Option (PState × List Char))) : Prop :=
  ¬ IsLexEscape r ∧ ∀ st' rest, r = .ok (some (st', rest)) → good st'.st = true ∧ rest.length < s.length

theorem tryTok_ok (st : PState) (s : List Char) (m : Match) (hg : good st.st = true)
    (hm : ∀ t rest, m = some (t, rest) → TokOk t) : AttemptOk s (tryTok st s m) := by
  unfold tryTok
  cases m with
  | none => simp [AttemptOk, IsLexEscape]
  | some tr =>
    obtain ⟨t, rest⟩ := tr
    simp only
    split
    · rename_i hlt
      obtain ⟨h1, h2⟩ := step_good st t (hm t rest rfl) hg
      cases hs : step st t with
      | ok st' =>
        refine ⟨by simp [IsLexEscape], ?_⟩
        intro st'' rest' he
        simp at he
        obtain ⟨rfl, rfl⟩ := he
        exact ⟨h2 st' hs, hlt⟩
      | error e =>
        rw [hs] at h1
        cases e <;> simp_all [AttemptOk, IsLexEscape, IsEscape]
    · simp [AttemptOk, IsLexEscape]

theorem processRun_mem (run : List Char) (n : String) (h : processRun run = some n) : n ∈ opNames := by
  unfold processRun at h
  simp only at h
  split at h
  · cases h
  · split at h
    · split at h <;> (cases h; simp [opNames])
    · split at h <;> first | (cases h; simp [opNames]) | cases h

theorem mOperator_tokOk (s : List Char) (t : Tok) (rest : List Char) (h : mOperator s = some (t, rest)) : TokOk t := by
  unfold mOperator at h
  split at h
  · rename_i m r _
    cases hp : processRun m with
    | none => simp [hp] at h
    | some n => simp [hp] at h; rw [← h.1]; exact processRun_mem m n hp
  · split at h
    · simp only at h
      split at h
      · cases h; simp [TokOk, opNames]
      · cases h
    · simp only at h
      split at h
      · cases h
      · rename_i hrun
        cases hp : processRun (s.takeWhile isOpRunChar) with
        | none => simp [hp] at h
        | some n => simp [hp] at h; rw [← h.1]; exact processRun_mem _ n hp

theorem not_opr_tokOk (t : Tok) (h : ∀ n, t ≠ .opr n) : TokOk t := by
  cases t <;> simp_all [TokOk]

theorem mError_tokOk (s : List Char) (t : Tok) (rest : List Char) (h : mError s = some (t, rest)) : TokOk t := by
  unfold mError at h; split at h <;> simp at h; rw [← h.1]; trivial

theorem mString_tokOk (s : List Char) (t : Tok) (rest : List Char) (h : mString s = some (t, rest)) : TokOk t := by
  unfold mString at h
  split at h
  · simp only [Option.map_eq_some_iff] at h
    obtain ⟨⟨a, b⟩, _, he⟩ := h
    simp at he
    rw [← he.1]; trivial
  · cases h

theorem mNumber_tokOk (s : List Char) (t : Tok) (rest : List Char) (h : mNumber s = some (t, rest)) : TokOk t := by
  unfold mNumber at h
  repeat' split at h
  all_goals first | (cases h; trivial) | cases h

theorem mSeparator_tokOk (s : List Char) (t : Tok) (rest : List Char) (h : mSeparator s = some (t, rest)) : TokOk t := by
  unfold mSeparator at h; split at h <;> simp at h; rw [← h.1]; trivial

theorem mFunction_tokOk (s : List Char) (t : Tok) (rest : List Char) (h : mFunction s = some (t, rest)) : TokOk t := by
  unfold mFunction at h
  simp only at h
  split at h
  · split at h <;> simp at h; rw [← h.1]; trivial
  · cases h

theorem mArray_tokOk (s : List Char) (t : Tok) (rest : List Char) (h : mArray s = some (t, rest)) : TokOk t := by
  unfold mArray at h; split at h <;> simp at h <;> (rw [← h.1]; trivial)

theorem mParen_tokOk (s : List Char) (t : Tok) (rest : List Char) (h : mParen s = some (t, rest)) : TokOk t := by
  unfold mParen at h; split at h <;> simp at h <;> (rw [← h.1]; trivial)

theorem mIntersect_tokOk (s : List Char) (t : Tok) (rest : List Char) (h : mIntersect s = some (t, rest)) : TokOk t := by
  unfold mIntersect at h
  split at h
  · split at h <;> simp at h; rw [← h.1]; trivial
  · cases h

theorem mRange_tokOk (s : List Char) (t : Tok) (rest : List Char) (h : mRange s = .tok t rest) :
    ∃ k text, t = .operand k text := by
  unfold mRange at h
  simp only at h
  repeat' split at h
  all_goals first | (cases h; exact ⟨_, _, rfl⟩) | cases h

theorem rangeTry_ok (st : PState) (s : List Char) (hg : good st.st = true) : AttemptOk s (rangeTry st s) ∨
    rangeTry st s = .error .outOfDomain := by
  unfold rangeTry
  cases hr : mRange s with
  | outOfDomain => right; rfl
  | noMatch => left; simp [AttemptOk, IsLexEscape]
  | tok t rest =>
    left
    obtain ⟨k, text, rfl⟩ := mRange_tokOk s t rest hr
    exact tryTok_ok st s _ hg (by intro t' r' he; cases he; trivial)

theorem firstOk_ok (s : List Char) (fs : List (Unit → Except LexErr (Option (PState × List Char))))
    (h : ∀ f ∈ fs, AttemptOk s (f ()) ∨ f () = .error .outOfDomain) :
    ¬ IsLexEscape (firstOk fs) ∧ ∀ st' rest, firstOk fs = .ok (st', rest) → good st'.st = true ∧ rest.length < s.length := by
  induction fs with
  | nil => simp [firstOk, IsLexEscape]
  | cons f fs ih =>
    have hf := h f (by simp)
    have ih' := ih (fun g hg => h g (by simp [hg]))
    simp only [firstOk]
    rcases hf with ⟨h1, h2⟩ | hf
    · cases hr : f () with
      | error e => rw [hr] at h1; cases e <;> simp_all [IsLexEscape]
      | ok o =>
        cases o with
        | none => exact ih'
        | some r =>
          obtain ⟨st', rest⟩ := r
          refine ⟨by simp [IsLexEscape], ?_⟩
          intro st'' rest' he
          simp at he
          obtain ⟨rfl, rfl⟩ := he
          exact h2 st' rest hr
    · rw [hf]; simp [IsLexEscape]

theorem lexStep_ok (st : PState) (s : List Char) (hg : good st.st = true) :
    ¬ IsLexEscape (lexStep st s) ∧ ∀ st' rest, lexStep st s = .ok (st', rest) → good st'.st = true ∧ rest.length < s.length := by
  unfold lexStep
  apply firstOk_ok
  intro f hf
  simp only [List.mem_cons, List.not_mem_nil, or_false] at hf
  rcases hf with rfl | rfl | rfl | rfl | rfl | rfl | rfl | rfl | rfl | rfl
  · left; exact tryTok_ok st s _ hg (mError_tokOk s)
  · left; exact tryTok_ok st s _ hg (mString_tokOk s)
  · left; exact tryTok_ok st s _ hg (mNumber_tokOk s)
  · exact rangeTry_ok st s hg
  · left; exact tryTok_ok st s _ hg (mOperator_tokOk s)
  · left; exact tryTok_ok st s _ hg (mSeparator_tokOk s)
  · left; exact tryTok_ok st s _ hg (mFunction_tokOk s)
  · left; exact tryTok_ok st s _ hg (mArray_tokOk s)
  · left; exact tryTok_ok st s _ hg (mParen_tokOk s)
  · left; exact tryTok_ok st s _ hg (mIntersect_tokOk s)

theorem lexLoop_ok : ∀ (fuel : Nat) (st : PState) (s : List Char), s.length < fuel → good st.st = true →
    ¬ IsLexEscape (lexLoop fuel st s) ∧ ∀ st', lexLoop fuel st s = .ok st' → good st'.st = true := by
  intro fuel
  induction fuel with
  | zero => intro st s h; omega
  | succ fuel ih =>
    intro st s hlen hg
    simp only [lexLoop]
    split
    · exact ⟨by simp [IsLexEscape], by intro st' he; cases he; exact hg⟩
    · obtain ⟨h1, h2⟩ := lexStep_ok st s hg
      cases hs : lexStep st s with
      | error e => rw [hs] at h1; refine ⟨?_, by simp⟩; cases e <;> simp_all [IsLexEscape]
      | ok r =>
        obtain ⟨st', rest⟩ := r
        obtain ⟨g, hl⟩ := h2 st' rest hs
        simp only
        split
        · simp [IsLexEscape]
        · exact ih st' rest (by omega) g

theorem finish_ok (s : PState) (h : good s.st = true) : ¬ IsEscape (finish s) := by
  unfold finish
  obtain ⟨h1, _⟩ := rparenStep_good s false h
  cases hr : rparenStep s false with
  | error e => rw [hr] at h1; cases e <;> simp_all [IsEscape]
  | ok r =>
    simp only
    split <;> simp [IsEscape]

theorem parseFormulaBody_no_escape (body : List Char) : ¬ IsLexEscape (parseFormulaBody body) := by
  unfold parseFormulaBody
  obtain ⟨h1, h2⟩ := lexLoop_ok (body.length + 1) initState body (by omega) (by decide)
  cases hl : lexLoop (body.length + 1) initState body with
  | error e => rw [hl] at h1; cases e <;> simp_all [IsLexEscape]
  | ok st =>
    simp only
    have := finish_ok st (h2 st hl)
    cases hf : finish st with
    | ok t => simp [IsLexEscape]
    | error e => rw [hf] at this; cases e <;> simp_all [IsLexEscape, IsEscape]

/-- **no exception other than the formula-syntax error can escape from the parser** -/
theorem parseString_no_escape (s : List Char) : ¬ IsLexEscape (parseString s) := by
  unfold parseString
  split
  · simp [IsLexEscape]
  · split
    · split
      · simp [IsLexEscape]
      · exact parseFormulaBody_no_escape _
    · simp [IsLexEscape]
    · simp [IsLexEscape]
    · simp [IsLexEscape]

end XL
