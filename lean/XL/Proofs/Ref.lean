import XL.Model.Ref
import Mathlib.Data.List.Induction
/-!
# Lemmas for column letters and canonical reference names
-/
namespace XL

/-! ### bijective base 26 -/

theorem letterVal_letter : ∀ k : Fin 26, letterVal (Char.ofNat (65 + k.val)) = k.val + 1 := by decide
theorem isUpper_letter : ∀ k : Fin 26, isUpperAZ (Char.ofNat (65 + k.val)) = true := by decide
theorem notDigit_letter : ∀ k : Fin 26, (Char.ofNat (65 + k.val)).isDigit = false := by decide
theorem letter_of_val : ∀ k : Fin 26,
    Char.ofNat (65 + (letterVal (Char.ofNat (65 + k.val)) - 1) % 26) = Char.ofNat (65 + k.val) := by decide

theorem colIndex_append (a : List Char) (d : Char) :
    colIndex (a ++ [d]) = colIndex a * 26 + letterVal d := by
  simp [colIndex, List.foldl_append]

theorem colIndex_colLetters (n : Nat) : colIndex (colLetters n) = n := by
  induction n using Nat.strongRecOn with
  | _ n ih =>
    cases n with
    | zero => simp [colLetters, colIndex]
    | succ m =>
      rw [colLetters, colIndex_append, ih (m / 26) (by omega)]
      have := letterVal_letter ⟨m % 26, by omega⟩
      simp only at this
      rw [this]; omega

theorem upper_char (c : Char) (h : isUpperAZ c = true) : ∃ k : Fin 26, c = Char.ofNat (65 + k.val) := by
  unfold isUpperAZ at h
  simp at h
  refine ⟨⟨c.toNat - 65, by omega⟩, ?_⟩
  have : 65 + (c.toNat - 65) = c.toNat := by omega
  simp only [this, Char.ofNat_toNat]

theorem colLetters_colIndex (s : List Char) (h : ∀ c ∈ s, isUpperAZ c = true) :
    colLetters (colIndex s) = s := by
  induction s using List.reverseRecOn with
  | nil => simp [colIndex, colLetters]
  | append_singleton a d ih =>
    have ha : ∀ c ∈ a, isUpperAZ c = true := fun x hx => h x (by simp [hx])
    obtain ⟨k, hk⟩ := upper_char d (h d (by simp))
    rw [colIndex_append]
    have hv : letterVal d = k.val + 1 := by rw [hk]; exact letterVal_letter k
    rw [hv]
    have hk26 := k.isLt
    obtain ⟨m, hm⟩ : ∃ m, colIndex a * 26 + (k.val + 1) = m + 1 := ⟨colIndex a * 26 + k.val, by omega⟩
    rw [hm, colLetters]
    have h1 : m / 26 = colIndex a := by omega
    have h2 : m % 26 = k.val := by omega
    rw [h1, h2, ih ha, hk]

theorem colLetters_upper (n : Nat) : ∀ c ∈ colLetters n, isUpperAZ c = true := by
  induction n using Nat.strongRecOn with
  | _ n ih =>
    cases n with
    | zero => simp [colLetters]
    | succ m =>
      rw [colLetters]
      intro c hc
      rcases List.mem_append.mp hc with hc | hc
      · exact ih (m / 26) (by omega) c hc
      · simp at hc; subst hc; exact isUpper_letter ⟨m % 26, by omega⟩

theorem colLetters_ne_nil (n : Nat) (h : 0 < n) : colLetters n ≠ [] := by
  cases n with
  | zero => omega
  | succ m => rw [colLetters]; simp

theorem colLetters_inj (a b : Nat) (h : colLetters a = colLetters b) : a = b := by
  have := congrArg colIndex h
  simpa [colIndex_colLetters] using this

/-! ### `spanP` -/

theorem spanP_append (p : Char → Bool) (a rest : List Char) (ha : ∀ c ∈ a, p c = true)
    (hr : ∀ c r, rest = c :: r → p c = false) : spanP p (a ++ rest) = (a, rest) := by
  induction a with
  | nil =>
    cases rest with
    | nil => simp [spanP]
    | cons c r => simp [spanP, hr c r rfl]
  | cons x xs ih =>
    have hx := ha x (by simp)
    have := ih (fun c hc => ha c (by simp [hc]))
    simp [spanP, hx, this]

theorem upper_not_digit (c : Char) (h : isUpperAZ c = true) : c.isDigit = false := by
  obtain ⟨k, hk⟩ := upper_char c h
  rw [hk]; exact notDigit_letter k

theorem digit_not_upper (c : Char) (h : c.isDigit = true) : isUpperAZ c = false := by
  cases hu : isUpperAZ c with
  | false => rfl
  | true => have := upper_not_digit c hu; rw [h] at this; cases this

theorem rowChars_digits (n : Nat) : ∀ c ∈ rowChars n, c.isDigit = true :=
  fun _ hc => Nat.isDigit_of_mem_toDigits (by decide) (by decide) hc

theorem rowChars_ne_nil (n : Nat) : rowChars n ≠ [] := Nat.toDigits_ne_nil

theorem digitsVal_rowChars (n : Nat) : digitsVal (rowChars n) = n := Nat.ofDigitChars_ten_toDigits

/-- a corner `letters ++ digits ++ rest` is read back as its three parts when `rest` is empty
or starts with `':'` -/
theorem corner_spec (l d rest : List Char) (hl : ∀ c ∈ l, isUpperAZ c = true)
    (hd : ∀ c ∈ d, c.isDigit = true) (hr : rest = [] ∨ ∃ r, rest = ':' :: r) :
    corner (l ++ d ++ rest) = (l, d, rest) := by
  have h1 : spanP isUpperAZ (l ++ (d ++ rest)) = (l, d ++ rest) := by
    apply spanP_append _ _ _ hl
    intro c r hcr
    cases d with
    | nil =>
      simp at hcr
      rcases hr with hr | ⟨r', hr'⟩
      · rw [hr] at hcr; cases hcr
      · rw [hr'] at hcr; cases hcr; decide
    | cons x xs =>
      simp at hcr
      rw [← hcr.1]; exact digit_not_upper x (hd x (by simp))
  have h2 : spanP Char.isDigit (d ++ rest) = (d, rest) := by
    apply spanP_append _ _ _ hd
    intro c r hcr
    rcases hr with hr | ⟨r', hr'⟩
    · rw [hr] at hcr; cases hcr
    · rw [hr'] at hcr; cases hcr; decide
  unfold corner
  rw [List.append_assoc, h1]
  simp only
  rw [h2]

end XL

namespace XL

/-! ### canonical names read back -/

def Plain (maxrow maxcol : Nat) (r : Rect) : Prop :=
  1 ≤ r.c1 ∧ r.c1 ≤ r.c2 ∧ r.c2 < maxcol ∧ 1 ≤ r.r1 ∧ r.r1 ≤ r.r2 ∧ r.r2 < maxrow
def WholeCols (maxrow maxcol : Nat) (r : Rect) : Prop :=
  r.r1 = 0 ∧ r.r2 = maxrow ∧ 1 ≤ r.c1 ∧ r.c1 ≤ r.c2 ∧ r.c2 < maxcol
def WholeRows (maxrow maxcol : Nat) (r : Rect) : Prop :=
  r.c1 = 0 ∧ r.c2 = maxcol ∧ 1 ≤ r.r1 ∧ r.r1 ≤ r.r2 ∧ r.r2 < maxrow

/-- the rectangles whose name the code builds without dropping a real coordinate -/
def Nameable (maxrow maxcol : Nat) (r : Rect) : Prop :=
  Plain maxrow maxcol r ∨ WholeCols maxrow maxcol r ∨ WholeRows maxrow maxcol r

instance (maxrow maxcol : Nat) (r : Rect) : Decidable (Nameable maxrow maxcol r) := by
  unfold Nameable Plain WholeCols WholeRows; infer_instance

theorem corner_cell (c r : Nat) :
    corner (colLetters c ++ rowChars r) = (colLetters c, rowChars r, []) := by
  have := corner_spec (colLetters c) (rowChars r) [] (colLetters_upper c) (rowChars_digits r) (Or.inl rfl)
  simpa using this

theorem cell_inj (c r c' r' : Nat) (h : colLetters c ++ rowChars r = colLetters c' ++ rowChars r') :
    c = c' ∧ r = r' := by
  have h1 := corner_cell c r
  rw [h, corner_cell c' r'] at h1
  simp only [Prod.mk.injEq] at h1
  refine ⟨colLetters_inj _ _ h1.1.symm, ?_⟩
  have := congrArg digitsVal h1.2.1
  simpa [digitsVal_rowChars] using this.symm

theorem readBack_refName (maxrow maxcol : Nat) (r : Rect) (h : Nameable maxrow maxcol r) :
    readBack maxrow maxcol (refName maxrow maxcol r) = some (r.r1, r.r2, r.c1, r.c2) := by
  rcases h with h | h | h
  · -- plain rectangle
    obtain ⟨h1, h2, h3, h4, h5, h6⟩ := h
    have e1 : celCol maxcol r.c1 = colLetters r.c1 := by simp [celCol]; omega
    have e2 : celCol maxcol r.c2 = colLetters r.c2 := by simp [celCol]; omega
    have e3 : celRow maxrow r.r1 = rowChars r.r1 := by simp [celRow]; omega
    have e4 : celRow maxrow r.r2 = rowChars r.r2 := by simp [celRow]; omega
    unfold refName
    rw [e1, e2, e3, e4]
    split
    · rename_i hc
      obtain ⟨hc1, hc2⟩ := cell_inj _ _ _ _ hc.1
      unfold readBack
      rw [corner_cell]
      simp [colLetters_ne_nil r.c2 (by omega), rowChars_ne_nil, digitsVal_rowChars, colIndex_colLetters, hc1, hc2]
    · unfold readBack
      have := corner_spec (colLetters r.c1) (rowChars r.r1) (':' :: (colLetters r.c2 ++ rowChars r.r2))
        (colLetters_upper _) (rowChars_digits _) (Or.inr ⟨_, rfl⟩)
      simp only [List.append_assoc, List.singleton_append] at this ⊢
      rw [this]
      simp only
      rw [corner_cell]
      simp [colLetters_ne_nil r.c1 h1, colLetters_ne_nil r.c2 (by omega), rowChars_ne_nil,
        digitsVal_rowChars, colIndex_colLetters]
  · -- whole columns
    obtain ⟨h1, h2, h3, h4, h5⟩ := h
    have e1 : celCol maxcol r.c1 = colLetters r.c1 := by simp [celCol]; omega
    have e2 : celCol maxcol r.c2 = colLetters r.c2 := by simp [celCol]; omega
    have e3 : celRow maxrow r.r1 = [] := by simp [celRow, h1]
    have e4 : celRow maxrow r.r2 = [] := by simp [celRow, h2]
    unfold refName
    rw [e1, e2, e3, e4]
    simp only [List.append_nil, ne_eq, not_true_eq_false, and_false, if_false]
    unfold readBack
    have := corner_spec (colLetters r.c1) [] (':' :: colLetters r.c2) (colLetters_upper _) (by simp) (Or.inr ⟨_, rfl⟩)
    simp only [List.append_nil, List.append_assoc, List.singleton_append] at this ⊢
    rw [this]
    simp only
    have h2' := corner_spec (colLetters r.c2) [] [] (colLetters_upper _) (by simp) (Or.inl rfl)
    simp only [List.append_nil] at h2'
    rw [h2']
    simp [colLetters_ne_nil r.c1 h3, colLetters_ne_nil r.c2 (by omega), colIndex_colLetters, h1, h2]
  · -- whole rows
    obtain ⟨h1, h2, h3, h4, h5⟩ := h
    have e1 : celCol maxcol r.c1 = [] := by simp [celCol, h1, colLetters]
    have e2 : celCol maxcol r.c2 = [] := by simp [celCol, h2]
    have e3 : celRow maxrow r.r1 = rowChars r.r1 := by simp [celRow]; omega
    have e4 : celRow maxrow r.r2 = rowChars r.r2 := by simp [celRow]; omega
    unfold refName
    rw [e1, e2, e3, e4]
    simp only [List.nil_append, ne_eq, not_true_eq_false, false_and, and_false, if_false]
    unfold readBack
    have := corner_spec [] (rowChars r.r1) (':' :: rowChars r.r2) (by simp) (rowChars_digits _) (Or.inr ⟨_, rfl⟩)
    simp only [List.nil_append, List.append_assoc, List.singleton_append] at this ⊢
    rw [this]
    simp only
    have h2' := corner_spec [] (rowChars r.r2) [] (by simp) (rowChars_digits _) (Or.inl rfl)
    simp only [List.nil_append, List.append_nil] at h2'
    rw [h2']
    simp [rowChars_ne_nil, digitsVal_rowChars, h1, h2]

/-- distinct nameable rectangles on one sheet never share a name -/
theorem refName_inj (maxrow maxcol : Nat) (a b : Rect) (ha : Nameable maxrow maxcol a)
    (hb : Nameable maxrow maxcol b) (hs : a.sheet = b.sheet)
    (h : refName maxrow maxcol a = refName maxrow maxcol b) : a = b := by
  have h1 := readBack_refName maxrow maxcol a ha
  rw [h, readBack_refName maxrow maxcol b hb] at h1
  simp only [Option.some.injEq, Prod.mk.injEq] at h1
  cases a; cases b; simp_all

end XL

namespace XL

/-! ### sheet qualification -/

theorem bang_split (a a' b b' : List Char) (ha : '!' ∉ a) (ha' : '!' ∉ a')
    (h : a ++ '!' :: b = a' ++ '!' :: b') : a = a' ∧ b = b' := by
  induction a generalizing a' with
  | nil =>
    cases a' with
    | nil => simpa using h
    | cons x xs =>
      simp at h
      exact absurd (h.1 ▸ List.mem_cons_self) ha'
  | cons y ys ih =>
    cases a' with
    | nil =>
      simp at h
      exact absurd (h.1 ▸ List.mem_cons_self) ha
    | cons x xs =>
      simp at h
      obtain ⟨h1, h2⟩ := ih xs (fun hm => ha (List.mem_cons_of_mem _ hm))
        (fun hm => ha' (List.mem_cons_of_mem _ hm)) h.2
      exact ⟨by rw [h.1, h1], h2⟩

/-- `_build_id` is injective on (sheet id, reference) pairs that do not contain `!` -/
theorem buildId_inj (r r' s s' : List Char) (hr : '!' ∉ r) (hr' : '!' ∉ r') (hs : '!' ∉ s) (hs' : '!' ∉ s')
    (h : buildId r s = buildId r' s') : r = r' ∧ s = s' := by
  unfold buildId at h
  split at h <;> split at h
  · rename_i h1 h2; exact ⟨h, h1.trans h2.symm⟩
  · rename_i h1 h2
    exfalso; apply hr; rw [h]; simp
  · rename_i h1 h2
    exfalso; apply hr'; rw [← h]; simp
  · simp only [List.append_assoc, List.singleton_append] at h
    have := bang_split s s' r r' hs hs' h
    exact ⟨this.2, this.1⟩

theorem refName_no_bang (maxrow maxcol : Nat) (r : Rect) : '!' ∉ refName maxrow maxcol r := by
  have hc : ∀ c, '!' ∉ celCol maxcol c := by
    intro c hm
    unfold celCol at hm
    split at hm
    · cases hm
    · have := colLetters_upper c _ hm; revert this; decide
  have hr : ∀ n, '!' ∉ celRow maxrow n := by
    intro n hm
    unfold celRow at hm
    split at hm
    · cases hm
    · have := rowChars_digits n _ hm; revert this; decide
  unfold refName
  split <;> simp [hc, hr]

end XL
