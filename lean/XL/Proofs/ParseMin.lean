import XL.Proofs.ParseRender
/-!
# Precedence and associativity determine the tree: every sufficiently parenthesised spelling

`Sp t ts q` — the token list `ts` is a spelling of the tree `t` whose outermost operator binds with
strength `q` (9 for an operand, a call, or anything inside parentheses).  Parentheses may be placed
anywhere; they *must* be placed where the grammar needs them:

* the left operand of a binary operator of strength `p` is spelled with `q ≥ p`  (left-associative:
  an operand of the same strength needs no parentheses on the left),
* its right operand with `q > p`,
* the operand of `%` (strength 6) with `q ≥ 6`, the operand of a prefix sign (strength 7) with `q > 7`.

Main theorem `parse_spelling : Sp t ts q → parseToks ts = .ok t`, by induction on the derivation: for
trees of any size and nesting depth, any mixture of operators, any amount of redundant parentheses.
`toksM` is the spelling with the fewest parentheses (`parse_min`).

The proof describes the state of the shunting-yard after the tokens of a sub-tree: the operators of
its right spine wait on the stack (`sp`), their left operands and the last operand on the builder
(`it`); the next weaker operator, separator or closing parenthesis applies them innermost first and
leaves exactly the sub-tree (`Done`).
-/
namespace XL

/-- binding strength of an operator name (generated table) -/
def prec (name : String) : Nat := (precOf name).getD 0

def joinSep : List (List Tok) → List Tok
  | [] => []
  | [a] => a
  | a :: rest => a ++ .sep :: joinSep rest

inductive Sp : Ast → List Tok → Nat → Prop
  | operand (k : OKind) (text : String) : Sp (.operand k text) [.operand k text] 9
  | paren (t : Ast) (ts : List Tok) (q : Nat) : Sp t ts q → Sp t (.lp :: (ts ++ [.rp])) 9
  | bin (name : String) (a b : Ast) (ta tb : List Tok) (qa qb : Nat) : name ∈ binNames → Sp a ta qa → Sp b tb qb →
      prec name ≤ qa → prec name < qb → Sp (.op name [a, b]) (ta ++ .opr name :: tb) (prec name)
  | percent (a : Ast) (ta : List Tok) (qa : Nat) : Sp a ta qa → 6 ≤ qa → Sp (.op "%" [a]) (ta ++ [.opr "%"]) 6
  | sign (name : String) (a : Ast) (ta : List Tok) (qa : Nat) : name ∈ signNames → Sp a ta qa → 7 < qa →
      Sp (.op name [a]) (.opr (signSym name) :: ta) 7
  | call (name : String) (l : List (Ast × List Tok × Nat)) :
      (∀ x ∈ l, x.2.1 ≠ [] → Sp x.1 x.2.1 x.2.2) →             -- an argument is a spelling of its tree …
      (∀ x ∈ l, x.2.1 = [] → x.1 = .operand .empty "") →         -- … or nothing at all: the empty argument
      (∀ x, l = [x] → x.2.1 ≠ []) →                               -- (`F()` has no argument, not one empty argument)
      Sp (.call name (l.map (·.1))) (.fn name :: (joinSep (l.map (·.2.1)) ++ [.rp])) 9

/-- an operator of strength `q` arriving now stops at the top of this stack -/
def StopsAt (q : Nat) : List SItem → Prop
  | .lp _ _ _ :: _ => True
  | .op m :: _ => ∃ pm, precOf m = some pm ∧ pm < q
  | _ => False

theorem stops_mono (q q' : Nat) (st : List SItem) (h : StopsAt q st) (hq : q ≤ q') : StopsAt q' st := by
  cases st with
  | nil => exact h
  | cons x rest =>
    cases x with
    | lp n c b => trivial
    | fn f => exact h
    | op m =>
      obtain ⟨pm, h1, h2⟩ := h
      exact ⟨pm, h1, by omega⟩

theorem stops_topLO (q : Nat) (st : List SItem) (h : StopsAt q st) : TopLO st := by
  cases st with
  | nil => exact h
  | cons x rest => cases x <;> simp_all [StopsAt, TopLO]

theorem popWhile_stops (p : Nat) (st : List SItem) (h : StopsAt p st) (out : List Ast) :
    popWhile p (bump st) out = .ok (bump st, out) := by
  cases st with
  | nil => exact absurd h (by simp [StopsAt])
  | cons x rest =>
    cases x with
    | lp n c b => simp only [bump]; exact popWhile_lp p (n + 1) c b rest out
    | fn f => exact absurd h (by simp [StopsAt])
    | op m =>
      obtain ⟨pm, h1, h2⟩ := h
      simp only [bump]
      unfold popWhile
      have : p > pm := by omega
      simp [h1, this]

/-- what the tokens `ts` of the tree `t` (outermost strength `q`) do to every admissible state -/
def Done (t : Ast) (ts : List Tok) (q : Nat) : Prop :=
  ∃ (sp : List String) (it : List Ast) (pv : Prev),
    (pv = .operand ∨ pv = .rparen ∨ pv = .percent) ∧
    (∀ p', p' ≤ q → ∀ st0 out, popWhile p' (sp.map SItem.op ++ st0) (it ++ out) = popWhile p' st0 (t :: out)) ∧
    (∀ st0 out, popToStart (sp.map SItem.op ++ st0) (it ++ out) = popToStart st0 (t :: out)) ∧
    (∀ s : PState, Expects s.prev → StopsAt q s.st →
      runToks ts s = .ok ⟨sp.map SItem.op ++ bump s.st, it ++ s.out, pv⟩)

theorem done_operand (k : OKind) (text : String) : Done (.operand k text) [.operand k text] 9 := by
  refine ⟨[], [.operand k text], .operand, Or.inl rfl, ?_, ?_, ?_⟩
  · intro p' _ st0 out; rfl
  · intro st0 out; rfl
  · intro s he hs
    have h1 := not_operand_rparen_percent s.prev he
    apply runToks_single
    · simp [step, h1, pushOperand]
    · simpa using topLO_ne s.st (stops_topLO _ _ hs)

theorem done_paren (t : Ast) (ts : List Tok) (q : Nat) (h : Done t ts q) : Done t (.lp :: (ts ++ [.rp])) 9 := by
  obtain ⟨sp, it, pv, hpv, _, f2, r⟩ := h
  refine ⟨[], [t], .rparen, Or.inr (Or.inl rfl), ?_, ?_, ?_⟩
  · intro p' _ st0 out; rfl
  · intro st0 out; rfl
  · intro s he hs
    have ht := stops_topLO _ _ hs
    have h1 := not_operand_rparen_percent s.prev he
    have hst : s.st ≠ [] := by
      intro h; rw [h] at ht; simp [TopLO] at ht
    have hlp : step s .lp = .ok ⟨.lp 0 .pos false :: s.st, s.out, .lparen⟩ := by simp [step, h1]
    rw [runToks_cons _ _ _ _ hlp (by simp)]
    have ha := r ⟨.lp 0 .pos false :: s.st, s.out, .lparen⟩ (Or.inl rfl) (by simp [StopsAt])
    rw [runToks_append _ _ _ _ ha]
    apply runToks_single
    · have hnsep : (pv = Prev.sep) = False := by
        rcases hpv with h | h | h <;> simp [h]
      simp only [step, rparenStep, hnsep, if_false, closeParen, bump, f2, popToStart_lp]
      cases hs' : s.st with
      | nil => exact absurd hs' hst
      | cons x rest =>
        rw [hs'] at ht
        cases x with
        | fn f => simp [TopLO] at ht
        | lp n c bb => simp [chkOk, unionSeps, Except.map]
        | op nm => simp [chkOk, unionSeps, Except.map]
    · simpa using topLO_ne s.st ht

theorem prec_bin (name : String) (hn : name ∈ binNames) : precOf name = some (prec name) ∧ prec name ≤ 5 := by
  obtain ⟨⟨p, hp, hp5⟩, _⟩ := bin_facts name hn
  simp [prec, hp, hp5]

theorem done_bin (name : String) (a b : Ast) (ta tb : List Tok) (qa qb : Nat) (hn : name ∈ binNames)
    (ha : Done a ta qa) (hb : Done b tb qb) (hqa : prec name ≤ qa) (hqb : prec name < qb) :
    Done (.op name [a, b]) (ta ++ .opr name :: tb) (prec name) := by
  obtain ⟨spa, ita, pva, hpva, f1a, _, ra⟩ := ha
  obtain ⟨spb, itb, pvb, hpvb, f1b, f2b, rb⟩ := hb
  obtain ⟨hp, hp5⟩ := prec_bin name hn
  obtain ⟨_, har, hrg, hnp, hns⟩ := bin_facts name hn
  refine ⟨spb ++ [name], itb ++ [a], pvb, hpvb, ?_, ?_, ?_⟩
  · intro p' hp' st0 out
    have e1 : (spb ++ [name]).map SItem.op ++ st0 = spb.map SItem.op ++ (.op name :: st0) := by simp
    have e2 : (itb ++ [a]) ++ out = itb ++ (a :: out) := by simp
    rw [e1, e2, f1b p' (by omega)]
    conv => lhs; unfold popWhile
    have : ¬ (p' > prec name) := by omega
    simp only [hp, this, if_false, applyOp_binary name a b out har hrg]
  · intro st0 out
    have e1 : (spb ++ [name]).map SItem.op ++ st0 = spb.map SItem.op ++ (.op name :: st0) := by simp
    have e2 : (itb ++ [a]) ++ out = itb ++ (a :: out) := by simp
    rw [e1, e2, f2b]
    conv => lhs; unfold popToStart
    simp only [applyOp_binary name a b out har hrg]
  · intro s he hs
    have h1 := ra s he (stops_mono _ _ _ hs hqa)
    rw [runToks_append _ _ _ _ h1]
    have hfn := finalName_bin name pva hpva
    have hop : step ⟨spa.map SItem.op ++ bump s.st, ita ++ s.out, pva⟩ (.opr name) =
        .ok ⟨.op name :: bump s.st, a :: s.out, .opr⟩ := by
      simp only [step, hpva, not_true_eq_false, and_false, if_false, hnp, bin_not_range name hn, false_and, oprStep, hfn, hp, if_true, f1a (prec name) hqa,
        popWhile_stops (prec name) s.st hs]
    rw [runToks_cons _ _ _ _ hop (by simp)]
    have h2 := rb ⟨.op name :: bump s.st, a :: s.out, .opr⟩ (Or.inr (Or.inr rfl)) ⟨prec name, hp, hqb⟩
    rw [h2]
    simp [bump]

theorem done_percent (a : Ast) (ta : List Tok) (qa : Nat) (ha : Done a ta qa) (hqa : 6 ≤ qa) :
    Done (.op "%" [a]) (ta ++ [.opr "%"]) 6 := by
  obtain ⟨spa, ita, pva, hpva, f1a, _, ra⟩ := ha
  obtain ⟨h1, h2, h3⟩ := percent_facts
  refine ⟨["%"], [a], .percent, Or.inr (Or.inr rfl), ?_, ?_, ?_⟩
  · intro p' hp' st0 out
    simp only [List.map_cons, List.map_nil, List.cons_append, List.nil_append]
    conv => lhs; unfold popWhile
    have : ¬ (p' > 6) := by omega
    simp only [h1, this, if_false, applyOp_unary "%" a out h2 h3]
  · intro st0 out
    simp only [List.map_cons, List.map_nil, List.cons_append, List.nil_append]
    conv => lhs; unfold popToStart
    simp only [applyOp_unary "%" a out h2 h3]
  · intro s he hs
    have hr := ra s he (stops_mono _ _ _ hs hqa)
    rw [runToks_append _ _ _ _ hr]
    apply runToks_single
    · have hfn : finalName "%" pva = "%" := by simp [finalName]
      simp only [step, hpva, not_true_eq_false, and_false, if_false, oprStep, hfn, h1, if_true,
        f1a 6 hqa, popWhile_stops 6 s.st hs]
      simp
    · simp

theorem done_sign (name : String) (a : Ast) (ta : List Tok) (qa : Nat) (hn : name ∈ signNames)
    (ha : Done a ta qa) (hqa : 7 < qa) : Done (.op name [a]) (.opr (signSym name) :: ta) 7 := by
  obtain ⟨spa, ita, pva, hpva, f1a, f2a, ra⟩ := ha
  obtain ⟨h1, h2, h3, h4⟩ := sign_facts name hn
  refine ⟨spa ++ [name], ita, pva, hpva, ?_, ?_, ?_⟩
  · intro p' hp' st0 out
    have e1 : (spa ++ [name]).map SItem.op ++ st0 = spa.map SItem.op ++ (.op name :: st0) := by simp
    rw [e1, f1a p' (by omega)]
    conv => lhs; unfold popWhile
    have : ¬ (p' > 7) := by omega
    simp only [h1, this, if_false, applyOp_unary name a out h2 h3]
  · intro st0 out
    have e1 : (spa ++ [name]).map SItem.op ++ st0 = spa.map SItem.op ++ (.op name :: st0) := by simp
    rw [e1, f2a]
    conv => lhs; unfold popToStart
    simp only [applyOp_unary name a out h2 h3]
  · intro s he hs
    obtain ⟨g1, g2, g3⟩ := finalName_sign name hn s.prev he
    have hne : name ≠ signSym name := by
      have := g3; rw [g1] at this; exact this
    have hstep : step s (.opr (signSym name)) = .ok ⟨.op name :: bump s.st, s.out, .opr⟩ := by
      simp only [step, signSym_pm name, signSym_not_range name, false_and, if_false, oprStep, g1, h1, hne, popWhile_stops 7 s.st hs s.out, h4]
    rw [runToks_cons _ _ _ _ hstep (by simp)]
    have := ra ⟨.op name :: bump s.st, s.out, .opr⟩ (Or.inr (Or.inr rfl)) ⟨7, h1, hqa⟩
    rw [this]
    simp [bump]


/-- one argument followed by a separator -/
theorem arg_sep (x : Ast × List Tok × Nat) (hd : x.2.1 ≠ [] → Done x.1 x.2.1 x.2.2)
    (he : x.2.1 = [] → x.1 = .operand .empty "")
    (k : Nat) (c : Chk) (bb : Bool) (st0 : List SItem) (out : List Ast) (pv : Prev) (hpv : pv = .lparen ∨ pv = .sep)
    (rest : List Tok) :
    runToks (x.2.1 ++ .sep :: rest) ⟨.lp k c bb :: st0, out, pv⟩ = runToks rest ⟨.lp (k + 1) c bb :: st0, x.1 :: out, .sep⟩ := by
  by_cases hx : x.2.1 = []
  · have hsep : step ⟨.lp k c bb :: st0, out, pv⟩ .sep = .ok ⟨.lp (k + 1) c bb :: st0, x.1 :: out, .sep⟩ := by
      have : (pv = Prev.sep ∨ pv = Prev.lparen) := hpv.symm
      simp only [step, this, if_true, pushOperand, bump, popToStart_lp, he hx]
      simp
    rw [hx, List.nil_append, runToks_cons _ _ _ _ hsep (by simp)]
  · obtain ⟨sp, it, pl, hpl, _, f2, r⟩ := hd hx
    have hx' := r ⟨.lp k c bb :: st0, out, pv⟩ (by rcases hpv with h | h <;> simp [Expects, h]) (by simp [StopsAt])
    rw [runToks_append _ _ _ _ hx']
    have hns : (pl = Prev.sep ∨ pl = Prev.lparen) = False := by
      rcases hpl with h | h | h <;> simp [h]
    have hsep : step ⟨sp.map SItem.op ++ bump (.lp k c bb :: st0), it ++ out, pl⟩ .sep =
        .ok ⟨.lp (k + 1) c bb :: st0, x.1 :: out, .sep⟩ := by
      simp only [step, hns, if_false, bump, f2, popToStart_lp]
      simp
    rw [runToks_cons _ _ _ _ hsep (by simp)]

/-- the last argument, up to the closing parenthesis: the parenthesis closes as if the argument's tree lay
on the builder -/
theorem arg_last (x : Ast × List Tok × Nat) (hd : x.2.1 ≠ [] → Done x.1 x.2.1 x.2.2)
    (he : x.2.1 = [] → x.1 = .operand .empty "")
    (k : Nat) (c : Chk) (bb : Bool) (st0 : List SItem) (out : List Ast) (pv : Prev) (hpv : pv = .lparen ∨ pv = .sep)
    (hfirst : x.2.1 = [] → pv = .sep) :
    ∃ s', runToks x.2.1 ⟨.lp k c bb :: st0, out, pv⟩ = .ok s' ∧ s'.st ≠ [] ∧
      ∀ brace, rparenStep s' brace = closeParen ⟨.lp (k + 1) c bb :: st0, x.1 :: out, .operand⟩ brace := by
  by_cases hx : x.2.1 = []
  · refine ⟨⟨.lp k c bb :: st0, out, pv⟩, by rw [hx]; rfl, by simp, ?_⟩
    intro brace
    simp only [rparenStep, hfirst hx, if_true, pushOperand, bump, he hx]
  · obtain ⟨sp, it, pl, hpl, _, f2, r⟩ := hd hx
    have hx' := r ⟨.lp k c bb :: st0, out, pv⟩ (by rcases hpv with h | h <;> simp [Expects, h]) (by simp [StopsAt])
    refine ⟨_, hx', by simp [bump], ?_⟩
    intro brace
    have hnsep : (pl = Prev.sep) = False := by
      rcases hpl with h | h | h <;> simp [h]
    simp only [rparenStep, hnsep, if_false, closeParen, bump, f2]

/-- the arguments of a call, one after the other, up to the closing parenthesis -/
theorem run_args_sp : ∀ (l : List (Ast × List Tok × Nat)), l ≠ [] → (∀ x ∈ l, x.2.1 ≠ [] → Done x.1 x.2.1 x.2.2) →
    (∀ x ∈ l, x.2.1 = [] → x.1 = .operand .empty "") →
    ∀ (k : Nat) (c : Chk) (bb : Bool) (st0 : List SItem) (out : List Ast) (pv : Prev), (pv = .lparen ∨ pv = .sep) →
      ((∀ x, l = [x] → x.2.1 ≠ []) ∨ pv = .sep) →
      ∃ s', runToks (joinSep (l.map (·.2.1))) ⟨.lp k c bb :: st0, out, pv⟩ = .ok s' ∧ s'.st ≠ [] ∧
        ∀ brace, rparenStep s' brace =
          closeParen ⟨.lp (k + l.length) c bb :: st0, (l.map (·.1)).reverse ++ out, .operand⟩ brace
  | [], h, _, _ => absurd rfl h
  | [x], _, hd, he => by
    intro k c bb st0 out pv hpv hone
    have hfirst : x.2.1 = [] → pv = .sep := by
      intro hx
      rcases hone with h | h
      · exact absurd hx (h x rfl)
      · exact h
    obtain ⟨s', h1, h2, h3⟩ := arg_last x (hd x (by simp)) (he x (by simp)) k c bb st0 out pv hpv hfirst
    exact ⟨s', by simpa [joinSep] using h1, h2, by simpa using h3⟩
  | x :: y :: rest, _, hd, he => by
    intro k c bb st0 out pv hpv _
    have htoks : joinSep ((x :: y :: rest).map (·.2.1)) = x.2.1 ++ (.sep :: joinSep ((y :: rest).map (·.2.1))) := by
      simp [joinSep]
    rw [htoks, arg_sep x (hd x (by simp)) (he x (by simp)) k c bb st0 out pv hpv]
    obtain ⟨s', h1, h2, h3⟩ := run_args_sp (y :: rest) (by simp) (fun z hz => hd z (by simp [hz])) (fun z hz => he z (by simp [hz]))
      (k + 1) c bb st0 (x.1 :: out) .sep (Or.inr rfl) (Or.inr rfl)
    refine ⟨s', h1, h2, ?_⟩
    intro brace
    rw [h3 brace]
    have e1 : k + 1 + (y :: rest).length = k + (x :: y :: rest).length := by simp; omega
    have e2 : ((y :: rest).map (·.1)).reverse ++ x.1 :: out = ((x :: y :: rest).map (·.1)).reverse ++ out := by simp
    rw [e1, e2]

theorem done_call (name : String) (l : List (Ast × List Tok × Nat)) (hd : ∀ x ∈ l, x.2.1 ≠ [] → Done x.1 x.2.1 x.2.2)
    (he : ∀ x ∈ l, x.2.1 = [] → x.1 = .operand .empty "") (hone : ∀ x, l = [x] → x.2.1 ≠ []) :
    Done (.call name (l.map (·.1))) (.fn name :: (joinSep (l.map (·.2.1)) ++ [.rp])) 9 := by
  refine ⟨[], [.call name (l.map (·.1))], .rparen, Or.inr (Or.inl rfl), ?_, ?_, ?_⟩
  · intro p' _ st0 out; rfl
  · intro st0 out; rfl
  · intro s hexp hs
    have ht := stops_topLO _ _ hs
    have h1 := not_operand_rparen_percent s.prev hexp
    have hst : s.st ≠ [] := by
      intro h; rw [h] at ht; simp [TopLO] at ht
    have hfn : step s (.fn name) = .ok ⟨.lp 0 .any false :: .fn name :: s.st, s.out, .lparen⟩ := by simp [step, h1, fnStep]
    rw [runToks_cons _ _ _ _ hfn (by simp)]
    cases hl : l with
    | nil =>
      simp only [List.map_nil, joinSep, List.nil_append]
      apply runToks_single
      · simp [step, rparenStep, closeParen, popToStart_lp, chkOk, applyFn, Except.map]
      · simpa using topLO_ne s.st ht
    | cons x0 rest0 =>
      obtain ⟨s', hrun, hne, hclose⟩ :=
        run_args_sp l (by simp [hl]) hd he 0 .any false (.fn name :: s.st) s.out .lparen (Or.inl rfl) (Or.inl hone)
      rw [← hl, runToks_append _ _ _ _ hrun]
      apply runToks_single
      · simp only [step, hclose, closeParen, popToStart_lp, Nat.zero_add]
        have hlen : l.length ≤ ((l.map (·.1)).reverse ++ s.out).length := by simp
        have hdrop : ((l.map (·.1)).reverse ++ s.out).drop l.length = s.out := by
          rw [List.drop_left' (by simp)]
        simp [chkOk, applyFn, hdrop, Except.map]
      · simpa using topLO_ne s.st ht

/-- **what the state machine has done after any spelling of a tree** -/
theorem sp_done (t : Ast) (ts : List Tok) (q : Nat) (h : Sp t ts q) : Done t ts q := by
  induction h with
  | operand k text => exact done_operand k text
  | paren t ts q _ ih => exact done_paren t ts q ih
  | bin name a b ta tb qa qb hn _ _ hqa hqb iha ihb => exact done_bin name a b ta tb qa qb hn iha ihb hqa hqb
  | percent a ta qa _ hqa ih => exact done_percent a ta qa ih hqa
  | sign name a ta qa hn _ hqa ih => exact done_sign name a ta qa hn ih hqa
  | call name l _ he hone ih => exact done_call name l ih he hone

/-- **every sufficiently parenthesised spelling of a tree is read back as that tree** -/
theorem parse_spelling (t : Ast) (ts : List Tok) (q : Nat) (h : Sp t ts q) : parseToks ts = .ok t := by
  obtain ⟨sp, it, pv, hpv, _, f2, r⟩ := sp_done t ts q h
  have hr := r initState (Or.inl rfl) (by simp [initState, StopsAt])
  simp only [parseToks, hr]
  have hnsep : (pv = Prev.sep) = False := by
    rcases hpv with h | h | h <;> simp [h]
  simp only [finish, rparenStep, initState, hnsep, if_false, closeParen, bump, f2, popToStart_lp]
  simp [chkOk, unionSeps]

/-- a token list spells at most one tree -/
theorem spelling_unique (t t' : Ast) (ts : List Tok) (q q' : Nat) (h : Sp t ts q) (h' : Sp t' ts q') : t = t' := by
  have h1 := parse_spelling t ts q h
  have h2 := parse_spelling t' ts q' h'
  rw [h1] at h2
  exact Except.ok.inj h2

/-! ### the spelling with the fewest parentheses -/

/-- strength of the outermost operator of a tree; 9 for operands and calls -/
def rootPrec : Ast → Nat
  | .op name _ => prec name
  | _ => 9

def wrapT (c : Bool) (ts : List Tok) : List Tok := if c then .lp :: (ts ++ [.rp]) else ts

/-- the empty argument of a call (`F(1,,2)`): the parser inserts it, no token stands for it -/
def isEmptyArg : Ast → Bool
  | .operand .empty _ => true
  | _ => false

mutual
/-- parentheses only where precedence and (left) associativity require them -/
def toksM : Ast → List Tok
  | .operand k text => [.operand k text]
  | .op name [a] =>
    if name = "%" then wrapT (decide (rootPrec a < 6)) (toksM a) ++ [.opr "%"]
    else .opr (signSym name) :: wrapT (decide (rootPrec a ≤ 7)) (toksM a)
  | .op name [a, b] =>
    wrapT (decide (rootPrec a < prec name)) (toksM a) ++ .opr name :: wrapT (decide (rootPrec b ≤ prec name)) (toksM b)
  | .op _ _ => []
  | .call name args => .fn name :: (toksMSep args ++ [.rp])
def toksMSep : List Ast → List Tok
  | [] => []
  | [a] => if isEmptyArg a then [] else toksM a
  | a :: b :: rest => (if isEmptyArg a then [] else toksM a) ++ .sep :: toksMSep (b :: rest)
end

/-- tokens of one argument -/
def argM (a : Ast) : List Tok := if isEmptyArg a then [] else toksM a

/-- trees the parser can build from operators, signs, percentages and calls (with empty arguments) -/
inductive WFTree : Ast → Prop
  | operand (k : OKind) (text : String) : WFTree (.operand k text)
  | bin (name : String) (a b : Ast) : name ∈ binNames → WFTree a → WFTree b → WFTree (.op name [a, b])
  | sign (name : String) (a : Ast) : name ∈ signNames → WFTree a → WFTree (.op name [a])
  | percent (a : Ast) : WFTree a → WFTree (.op "%" [a])
  | call (name : String) (args : List Ast) : (∀ a ∈ args, isEmptyArg a = false → WFTree a) →
      (∀ a ∈ args, isEmptyArg a = true → a = .operand .empty "") → (∀ a, args = [a] → isEmptyArg a = false) →
      WFTree (.call name args)

theorem wrapT_ne_nil (c : Bool) (ts : List Tok) (h : ts ≠ []) : wrapT c ts ≠ [] := by
  cases c <;> simp [wrapT, h]

theorem toksM_ne_nil (t : Ast) (h : WFTree t) : toksM t ≠ [] := by
  cases h with
  | operand k text => simp [toksM]
  | bin name a b _ _ _ => simp [toksM]
  | sign name a hn _ =>
    obtain ⟨_, _, _, h4⟩ := sign_facts name hn
    simp [toksM, h4]
  | percent a _ => simp [toksM]
  | call name args _ _ _ => simp [toksM]

theorem sp_wrap (t : Ast) (ts : List Tok) (q p : Nat) (c : Bool) (h : Sp t ts q) (hp : p ≤ 9) (hc : c = false → p ≤ q) :
    ∃ q', Sp t (wrapT c ts) q' ∧ p ≤ q' := by
  cases c with
  | true => exact ⟨9, Sp.paren t ts q h, hp⟩
  | false => exact ⟨q, h, hc rfl⟩

theorem toksMSep_eq (args : List Ast) : toksMSep args = joinSep (args.map argM) := by
  match args with
  | [] => simp [toksMSep, joinSep]
  | [a] => simp [toksMSep, joinSep, argM]
  | a :: b :: rest =>
    have ih := toksMSep_eq (b :: rest)
    simp only [toksMSep, List.map_cons, joinSep, argM] at ih ⊢
    rw [ih]

/-- the minimal spelling is a spelling -/
theorem toksM_sp (t : Ast) (h : WFTree t) : Sp t (toksM t) (rootPrec t) := by
  induction h with
  | operand k text => simp only [toksM, rootPrec]; exact Sp.operand k text
  | bin name a b hn _ _ iha ihb =>
    obtain ⟨hp, hp5⟩ := prec_bin name hn
    simp only [toksM, rootPrec]
    obtain ⟨qa, ha, hqa⟩ := sp_wrap a (toksM a) (rootPrec a) (prec name) (decide (rootPrec a < prec name)) iha (by omega)
      (by intro h; simp at h; exact h)
    obtain ⟨qb, hb, hqb⟩ := sp_wrap b (toksM b) (rootPrec b) (prec name + 1) (decide (rootPrec b ≤ prec name)) ihb (by omega)
      (by intro h; simp at h; omega)
    exact Sp.bin name a b _ _ qa qb hn ha hb hqa (by omega)
  | sign name a hn _ ih =>
    obtain ⟨_, _, _, h4⟩ := sign_facts name hn
    have h7 : prec name = 7 := by
      simp only [signNames, List.mem_cons, List.not_mem_nil, or_false] at hn
      rcases hn with rfl | rfl <;> decide
    simp only [toksM, rootPrec, h4, if_false, h7]
    obtain ⟨qa, ha, hqa⟩ := sp_wrap a (toksM a) (rootPrec a) 8 (decide (rootPrec a ≤ 7)) ih (by omega)
      (by intro h; simp at h; omega)
    exact Sp.sign name a _ qa hn ha (by omega)
  | percent a _ ih =>
    have h6 : prec "%" = 6 := by decide
    simp only [toksM, rootPrec, if_true, h6]
    obtain ⟨qa, ha, hqa⟩ := sp_wrap a (toksM a) (rootPrec a) 6 (decide (rootPrec a < 6)) ih (by omega)
      (by intro h; simp at h; exact h)
    exact Sp.percent a _ qa ha hqa
  | call name args hw he hone ih =>
    simp only [toksM, rootPrec, toksMSep_eq]
    have := Sp.call name (args.map (fun a => (a, argM a, rootPrec a)))
      (by
        intro x hx hne
        obtain ⟨a, ha, rfl⟩ := List.mem_map.mp hx
        have hea : isEmptyArg a = false := by
          cases h : isEmptyArg a with
          | false => rfl
          | true => simp [argM, h] at hne
        have : argM a = toksM a := by simp [argM, hea]
        simp only [this]
        exact ih a ha hea)
      (by
        intro x hx hnil
        obtain ⟨a, ha, rfl⟩ := List.mem_map.mp hx
        cases h : isEmptyArg a with
        | true => exact he a ha h
        | false =>
          have : argM a = toksM a := by simp [argM, h]
          simp only [this] at hnil
          exact absurd hnil (toksM_ne_nil a (hw a ha h)))
      (by
        intro x hl
        cases args with
        | nil => simp at hl
        | cons a rest =>
          cases rest with
          | cons b r => simp at hl
          | nil =>
            simp only [List.map_cons, List.map_nil, List.cons.injEq, and_true] at hl
            subst hl
            have hea := hone a rfl
            have : argM a = toksM a := by simp [argM, hea]
            simp only [this]
            exact toksM_ne_nil a (hw a (by simp) hea))
    simpa [List.map_map, Function.comp_def] using this

/-- **precedence and associativity determine the tree**: the spelling with the fewest parentheses of any
well-formed tree is read back as that tree -/
theorem parse_min (t : Ast) (h : WFTree t) : parseToks (toksM t) = .ok t :=
  parse_spelling t (toksM t) (rootPrec t) (toksM_sp t h)

end XL
