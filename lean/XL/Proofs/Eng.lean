import XL.Model.Eng
/-!
# Positional notation round trip for every base 2 ≤ b ≤ 16
-/
namespace XL

theorem valOf_digitOf : ∀ d : Fin 16, valOf (digitOf d.val) = d.val := by decide

theorem ofBase_append (b : Nat) (a : List Char) (c : Char) :
    ofBase b (a ++ [c]) = ofBase b a * b + valOf c := by
  simp [ofBase, List.foldl_append]

theorem ofBase_toBase (b : Nat) (hb : 2 ≤ b) (hb' : b ≤ 16) (n : Nat) : ofBase b (toBase b n) = n := by
  induction n using Nat.strongRecOn with
  | _ n ih =>
    rw [toBase]
    split
    · rename_i h
      have hlt : n / b < n := Nat.div_lt_self (by omega) (by omega)
      rw [ofBase_append, ih (n / b) hlt]
      have hm : n % b < 16 := by
        have := Nat.mod_lt n (show 0 < b by omega); omega
      have := valOf_digitOf ⟨n % b, hm⟩
      simp only at this
      rw [this]
      exact Nat.div_add_mod' n b
    · rename_i h
      have hn : n < 16 := by omega
      have := valOf_digitOf ⟨n, hn⟩
      simp only at this
      simp [ofBase, this]

theorem toBase_valid (b : Nat) (hb : 2 ≤ b) (hb' : b ≤ 16) (n : Nat) :
    ∀ c ∈ toBase b n, valOf c < b := by
  induction n using Nat.strongRecOn with
  | _ n ih =>
    rw [toBase]
    split
    · rename_i h
      have hlt : n / b < n := Nat.div_lt_self (by omega) (by omega)
      intro c hc
      rcases List.mem_append.mp hc with hc | hc
      · exact ih (n / b) hlt c hc
      · simp at hc; subst hc
        have hm : n % b < b := Nat.mod_lt n (by omega)
        have := valOf_digitOf ⟨n % b, by omega⟩
        simp only at this
        rw [this]; exact hm
    · rename_i h
      intro c hc
      simp at hc; subst hc
      have hn : n < b := by omega
      have := valOf_digitOf ⟨n, by omega⟩
      simp only at this
      rw [this]; exact hn

theorem toBase_ne_nil (b n : Nat) : toBase b n ≠ [] := by
  rw [toBase]; split <;> simp

/-- number of digits: `n < b ^ k → length ≤ k` (for `k ≥ 1`) -/
theorem toBase_length (b : Nat) (hb : 2 ≤ b) (k : Nat) : ∀ n, n < b ^ (k + 1) → (toBase b n).length ≤ k + 1 := by
  induction k with
  | zero =>
    intro n hn
    rw [toBase]
    have : ¬ (2 ≤ b ∧ b ≤ n) := by simp at hn; omega
    simp [this]
  | succ k ih =>
    intro n hn
    rw [toBase]
    split
    · rename_i h
      have : n / b < b ^ (k + 1) := by
        rw [Nat.div_lt_iff_lt_mul (by omega)]
        rw [Nat.pow_succ] at hn; exact hn
      have := ih (n / b) this
      simp; omega
    · simp

end XL
