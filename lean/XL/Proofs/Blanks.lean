import XL.Model.Blanks
/-!
# Range assembly lists the same blank cells under every schedule

`Run c rs L L'`: from the listing `L`, some sequence of ranges of `rs`, each with at most `c`
pending cells at its turn, has listed its pending cells, giving `L'`.  `Stable c rs L`: no range
can add anything any more.  Every stable result of every run from `L` has the same members
(`schedule_independent`): it is the least stable listing above `L`.  The executable `closure` is
one such run and its result is stable, hence a fixed point (`closure_idem`): exporting the listing,
importing it and assembling again lists nothing new.
-/
namespace XL.Blanks

def Stable (c : Nat) (rs : List (List Nat)) (L : List Nat) : Prop :=
  ∀ r ∈ rs, pending r L = [] ∨ c < (pending r L).length

inductive Run (c : Nat) (rs : List (List Nat)) : List Nat → List Nat → Prop
  | refl (L : List Nat) : Run c rs L L
  | step (L r L' : List Nat) : r ∈ rs → (pending r L).length ≤ c → Run c rs (fire L r) L' → Run c rs L L'

theorem mem_pending (x : Nat) (r L : List Nat) : x ∈ pending r L ↔ x ∈ r ∧ x ∉ L := by
  simp [pending]

theorem filter_length_le (l : List Nat) (p q : Nat → Bool) (h : ∀ x, p x = true → q x = true) :
    (l.filter p).length ≤ (l.filter q).length := by
  induction l with
  | nil => simp
  | cons a t ih =>
    simp only [List.filter_cons]
    by_cases hp : p a = true
    · simp only [hp, h a hp, if_true, List.length_cons]; omega
    · simp only [hp]
      by_cases hq : q a = true
      · simp only [hq, if_true, List.length_cons]
        simp only [Bool.false_eq_true, if_false]; omega
      · simp only [hq]; simpa using ih

theorem pending_length_mono (r L S : List Nat) (h : ∀ x, x ∈ L → x ∈ S) :
    (pending r S).length ≤ (pending r L).length := by
  apply filter_length_le
  intro x hx
  simp only [decide_eq_true_eq] at hx ⊢
  exact fun hl => hx (h x hl)

theorem sub_fire (L r : List Nat) : ∀ x, x ∈ L → x ∈ fire L r := by
  intro x hx; simp [fire, hx]

theorem run_mono (c : Nat) (rs : List (List Nat)) (L L' : List Nat) (h : Run c rs L L') : ∀ x, x ∈ L → x ∈ L' := by
  induction h with
  | refl L => intro x hx; exact hx
  | step L r L' _ _ _ ih => intro x hx; exact ih x (sub_fire L r x hx)

/-- a run stays below every stable listing above its start -/
theorem run_sub_stable (c : Nat) (rs : List (List Nat)) (L L' : List Nat) (h : Run c rs L L') :
    ∀ S, Stable c rs S → (∀ x, x ∈ L → x ∈ S) → ∀ x, x ∈ L' → x ∈ S := by
  induction h with
  | refl L => intro S _ hs x hx; exact hs x hx
  | step L r L' hr hlen _ ih =>
    intro S hS hs
    apply ih S hS
    intro x hx
    simp only [fire, List.mem_append] at hx
    rcases hx with hx | hx
    · exact hs x hx
    · -- `r` could fire at `L`, so it is not above the limit at `S`: all its cells are in `S`
      have hle := pending_length_mono r L S hs
      rcases hS r hr with h0 | hgt
      · obtain ⟨hxr, _⟩ := (mem_pending x r L).mp hx
        by_cases hxs : x ∈ S
        · exact hxs
        · have : x ∈ pending r S := (mem_pending x r S).mpr ⟨hxr, hxs⟩
          rw [h0] at this; simp at this
      · omega

/-- **every schedule lists the same cells** -/
theorem schedule_independent (c : Nat) (rs : List (List Nat)) (L L1 L2 : List Nat)
    (h1 : Run c rs L L1) (s1 : Stable c rs L1) (h2 : Run c rs L L2) (s2 : Stable c rs L2) :
    ∀ x, x ∈ L1 ↔ x ∈ L2 := by
  intro x
  exact ⟨run_sub_stable c rs L L1 h1 L2 s2 (run_mono c rs L L2 h2) x,
         run_sub_stable c rs L L2 h2 L1 s1 (run_mono c rs L L1 h1) x⟩

/-- `Run` and `Stable` depend on the set of ranges only, not on their order or multiplicity -/
theorem run_congr (c : Nat) (rs rs' : List (List Nat)) (hrs : ∀ r, r ∈ rs ↔ r ∈ rs') (L L' : List Nat)
    (h : Run c rs L L') : Run c rs' L L' := by
  induction h with
  | refl L => exact Run.refl L
  | step L r L' hr hlen _ ih => exact Run.step L r L' ((hrs r).mp hr) hlen ih

theorem stable_congr (c : Nat) (rs rs' : List (List Nat)) (hrs : ∀ r, r ∈ rs ↔ r ∈ rs') (L : List Nat)
    (h : Stable c rs L) : Stable c rs' L := fun r hr => h r ((hrs r).mpr hr)

/-! ### the executable closure -/

theorem firable_spec (c : Nat) (L r : List Nat) :
    firable c L r = true ↔ pending r L ≠ [] ∧ (pending r L).length ≤ c := by
  simp [firable]

theorem stable_of_find_none (c : Nat) (rs : List (List Nat)) (L : List Nat) (h : rs.find? (firable c L) = none) :
    Stable c rs L := by
  intro r hr
  have := List.find?_eq_none.mp h r hr
  rw [firable_spec] at this
  by_cases h0 : pending r L = []
  · exact Or.inl h0
  · right
    have : ¬ (pending r L).length ≤ c := fun hle => this ⟨h0, hle⟩
    omega

theorem closureAux_run (c : Nat) (rs : List (List Nat)) : ∀ (fuel : Nat) (L : List Nat), Run c rs L (closureAux c rs fuel L)
  | 0, L => Run.refl L
  | fuel + 1, L => by
    simp only [closureAux]
    cases h : rs.find? (firable c L) with
    | none => exact Run.refl L
    | some r =>
      have hr := List.mem_of_find?_eq_some h
      have hf := List.find?_some h
      rw [firable_spec] at hf
      exact Run.step L r _ hr hf.2 (closureAux_run c rs fuel (fire L r))

/-- ranges that still have pending cells -/
def unsat (rs : List (List Nat)) (L : List Nat) : Nat := (rs.filter (fun r => !(pending r L).isEmpty)).length

theorem pending_nil_mono (r L S : List Nat) (h : ∀ x, x ∈ L → x ∈ S) (h0 : pending r L = []) : pending r S = [] := by
  have := pending_length_mono r L S h
  rw [h0] at this
  exact List.eq_nil_of_length_eq_zero (by simpa using this)

theorem pending_fire_self (L r : List Nat) : pending r (fire L r) = [] := by
  apply List.eq_nil_iff_forall_not_mem.mpr
  intro x hx
  obtain ⟨hxr, hxn⟩ := (mem_pending x r _).mp hx
  apply hxn
  simp only [fire, List.mem_append]
  by_cases hl : x ∈ L
  · exact Or.inl hl
  · exact Or.inr ((mem_pending x r L).mpr ⟨hxr, hl⟩)

theorem filter_length_lt (l : List (List Nat)) (p q : List Nat → Bool) (h : ∀ x, p x = true → q x = true)
    (a : List Nat) (ha : a ∈ l) (hq : q a = true) (hp : p a = false) : (l.filter p).length < (l.filter q).length := by
  induction l with
  | nil => simp at ha
  | cons b t ih =>
    simp only [List.mem_cons] at ha
    simp only [List.filter_cons]
    rcases ha with rfl | ha
    · simp only [hp, hq, if_true, List.length_cons, Bool.false_eq_true, if_false]
      have : (t.filter p).length ≤ (t.filter q).length := by
        clear ih
        induction t with
        | nil => simp
        | cons d u ihu =>
          simp only [List.filter_cons]
          by_cases hpd : p d = true
          · simp only [hpd, h d hpd, if_true, List.length_cons]; omega
          · by_cases hqd : q d = true
            · simp only [hpd, hqd, if_true, List.length_cons, Bool.false_eq_true, if_false]; omega
            · simp only [hpd, hqd, Bool.false_eq_true, if_false]; exact ihu
      omega
    · have := ih ha
      by_cases hpb : p b = true
      · simp only [hpb, h b hpb, if_true, List.length_cons]; omega
      · by_cases hqb : q b = true
        · simp only [hpb, hqb, if_true, List.length_cons, Bool.false_eq_true, if_false]; omega
        · simp only [hpb, hqb, Bool.false_eq_true, if_false]; exact this

theorem unsat_fire_lt (rs : List (List Nat)) (L r : List Nat) (hr : r ∈ rs) (hne : pending r L ≠ []) :
    unsat rs (fire L r) < unsat rs L := by
  apply filter_length_lt rs _ _ _ r hr
  · simp [hne]
  · simp [pending_fire_self]
  · intro x hx
    simp only [Bool.not_eq_true', List.isEmpty_eq_false_iff] at hx ⊢
    intro h0
    exact hx (pending_nil_mono x L (fire L r) (sub_fire L r) h0)

theorem closureAux_stable (c : Nat) (rs : List (List Nat)) :
    ∀ (fuel : Nat) (L : List Nat), unsat rs L ≤ fuel → Stable c rs (closureAux c rs fuel L)
  | 0, L, h => by
    simp only [closureAux]
    intro r hr
    left
    have h0 : unsat rs L = 0 := by omega
    simp only [unsat, List.length_eq_zero_iff, List.filter_eq_nil_iff] at h0
    have := h0 r hr
    simpa [List.isEmpty_iff] using this
  | fuel + 1, L, h => by
    simp only [closureAux]
    cases hf : rs.find? (firable c L) with
    | none => exact stable_of_find_none c rs L hf
    | some r =>
      have hr := List.mem_of_find?_eq_some hf
      have hfs := List.find?_some hf
      rw [firable_spec] at hfs
      have := unsat_fire_lt rs L r hr hfs.1
      exact closureAux_stable c rs fuel (fire L r) (by omega)

theorem unsat_le (rs : List (List Nat)) (L : List Nat) : unsat rs L ≤ rs.length := List.length_filter_le _ _

theorem closure_run (c : Nat) (rs : List (List Nat)) (L : List Nat) : Run c rs L (closure c rs L) :=
  closureAux_run c rs rs.length L

theorem closure_stable (c : Nat) (rs : List (List Nat)) (L : List Nat) : Stable c rs (closure c rs L) :=
  closureAux_stable c rs rs.length L (unsat_le rs L)

theorem closureAux_of_stable (c : Nat) (rs : List (List Nat)) (L : List Nat) (h : Stable c rs L) :
    ∀ fuel, closureAux c rs fuel L = L
  | 0 => rfl
  | fuel + 1 => by
    simp only [closureAux]
    have : rs.find? (firable c L) = none := by
      apply List.find?_eq_none.mpr
      intro r hr hf
      rw [firable_spec] at hf
      rcases h r hr with h0 | hgt
      · exact hf.1 h0
      · omega
    rw [this]

/-- assembling again changes nothing -/
theorem closure_idem (c : Nat) (rs : List (List Nat)) (L : List Nat) :
    closure c rs (closure c rs L) = closure c rs L :=
  closureAux_of_stable c rs _ (closure_stable c rs L) _

/-- **the listing is the least stable one above the start** — a description that mentions neither the
order of the ranges nor the order in which cells were listed before -/
theorem closure_least (c : Nat) (rs : List (List Nat)) (L : List Nat) (x : Nat) :
    x ∈ closure c rs L ↔ ∀ S, Stable c rs S → (∀ y, y ∈ L → y ∈ S) → x ∈ S := by
  constructor
  · intro hx S hS hL
    exact run_sub_stable c rs L _ (closure_run c rs L) S hS hL x hx
  · intro h
    exact h _ (closure_stable c rs L) (run_mono c rs L _ (closure_run c rs L))

end XL.Blanks
