import XL.Model.Lex
import XL.Model.Syntax
/-!
# From tokens to text: the tokeniser loop on compact formula text

`TS` are the tokens of a compact spelling (no blanks) together with their characters: unsigned integer
literals, cell names, string literals without embedded quotes, operator symbols, signs, `%`, commas,
function names with their parenthesis, parentheses.  `SafeT ss tail` says that every token is well
formed and that the text after it starts with a character that delimits it (an operand is followed by an
operator symbol, `%`, `)` or `,`; an operator by the start of an operand; `+`/`-` not by another
sign — the pinned code folds sign runs; `%` not by `%`).

`lexStep_ts`: one iteration of the tokeniser loop of `Parser.ast` (the ten filters in their order, each
with its regular expression as modelled in `XL.Model.Lex`) cuts off exactly the next token.
`lexLoop_text`: the whole loop does on the text what `runToks` does on the token list.
`parse_text`: if the token list parses to `t`, so does the formula text.
-/
namespace XL.LexText
open XL

def digitsL : List Char := "0123456789".toList
def upperL : List Char := "ABCDEFGHIJKLMNOPQRSTUVWXYZ".toList
/-- first letters of supported function names: not `T`, `F` (the Number filter tries `TRUE` / `FALSE` first) -/
def fnFirstL : List Char := "ABCDEGHIJKLMNOPQRSUVWXYZ".toList
/-- characters allowed inside a string literal (no quote) -/
def strL : List Char := "ABCDEFGHIJKLMNOPQRSTUVWXYZabcdefghijklmnopqrstuvwxyz0123456789 ._+-*/^&<>=%,(){};:$#!?".toList
/-- what may follow an operand: an operator symbol, `%`, `)`, `,` -/
def afterOperand : List Char := ['+','-','*','/','^','&','<','>','=','%',')',',']
/-- what an operand starts with (no sign) -/
def startAtom : List Char := upperL ++ digitsL ++ ['"', '(']

def OkAfter (rest : List Char) : Prop := rest = [] ∨ ∃ c r, rest = c :: r ∧ c ∈ afterOperand

macro "charfacts" l:term "," p:term : term => `(List.all_eq_true.mp (by decide : List.all $l $p = true))

theorem digit_facts (c : Char) (h : c ∈ digitsL) :
    c.isDigit = true ∧ isWs c = false ∧ c ≠ '"' ∧ c ≠ '.' ∧ c ≠ '#' ∧ c.toUpper ≠ '#' ∧ c.toUpper = c ∧ c.isAlpha = false ∧ isWordChar c = true := by
  have := List.all_eq_true.mp (by decide : digitsL.all (fun c => c.isDigit && !isWs c && c != '"' && c != '.' && c != '#' &&
    c.toUpper != '#' && c.toUpper == c && !c.isAlpha && isWordChar c) = true) c h
  simpa [and_assoc] using this

theorem after_facts (c : Char) (h : c ∈ afterOperand) :
    c.isDigit = false ∧ c.isAlpha = false ∧ isWs c = false ∧ c ≠ '.' ∧ c ≠ ':' ∧ c ≠ 'E' ∧ c ≠ 'e' ∧ isWordChar c = false ∧ c ≠ '(' ∧ c ≠ '#' ∧ c ≠ '"' := by
  have := List.all_eq_true.mp (by decide : afterOperand.all (fun c => !c.isDigit && !c.isAlpha && !isWs c && c != '.' && c != ':' && c != 'E' && c != 'e'
    && !isWordChar c && c != '(' && c != '#' && c != '"') = true) c h
  simpa [and_assoc] using this

theorem upper_facts (c : Char) (h : c ∈ upperL) :
    c.isAlpha = true ∧ isLetter c = true ∧ c.isDigit = false ∧ isWs c = false ∧ c ≠ '"' ∧ c ≠ '.' ∧ c ≠ '$' ∧ c.toUpper = c ∧ c.toUpper ≠ '#' ∧
    isWordChar c = true ∧ c.isAlphanum = true ∧ isOpRunChar c = false ∧ c ≠ '%' := by
  have := List.all_eq_true.mp (by decide : upperL.all (fun c => c.isAlpha && isLetter c && !c.isDigit && !isWs c && c != '"' && c != '.' && c != '$' &&
    c.toUpper == c && c.toUpper != '#' && isWordChar c && c.isAlphanum && !isOpRunChar c && c != '%') = true) c h
  simpa [and_assoc] using this


theorem skipWs_cons (c : Char) (r : List Char) (h : isWs c = false) : skipWs (c :: r) = c :: r := by
  simp [skipWs, List.dropWhile, h]

theorem errorLits_hash : ∀ p ∈ errorLiterals, ∃ ps, p = '#' :: ps := by
  intro p hp
  have := List.all_eq_true.mp (by decide : errorLiterals.all (fun p => p.head? == some '#') = true) p hp
  cases p with
  | nil => simp at this
  | cons x ps => simp at this; exact ⟨ps, by rw [this]⟩

theorem mError_none (c : Char) (r : List Char) (hw : isWs c = false) (h : c.toUpper ≠ '#') : mError (c :: r) = none := by
  have : matchErrorLit (c :: r) = none := by
    unfold matchErrorLit
    apply List.findSome?_eq_none_iff.mpr
    intro p hp
    obtain ⟨ps, rfl⟩ := errorLits_hash p hp
    simp [stripPrefixCI, h]
  simp [mError, skipWs_cons c r hw, this]

theorem mString_none (c : Char) (r : List Char) (hw : isWs c = false) (h : c ≠ '"') : mString (c :: r) = none := by
  simp only [mString, skipWs_cons c r hw]
  split
  · rename_i heq; simp at heq; exact absurd heq.1 h
  · rfl


theorem numLiteral_none (c : Char) (r : List Char) (hd : c.isDigit = false) (h : c ≠ '.') : numLiteral (c :: r) = none := by
  unfold numLiteral
  have : (takeDigits (c :: r)).1 = [] := by simp [takeDigits, List.takeWhile, hd]
  simp [h, this]

theorem mNumber_none_of (c : Char) (r : List Char) (hw : isWs c = false) (hd : c.isDigit = false) (hdot : c ≠ '.')
    (hT : stripPrefixCI ['T', 'R', 'U', 'E'] (c :: r) = none) (hF : stripPrefixCI ['F', 'A', 'L', 'S', 'E'] (c :: r) = none) :
    mNumber (c :: r) = none := by
  simp [mNumber, skipWs_cons c r hw, numLiteral_none c r hd hdot, hT, hF]

theorem strip_first (p0 : Char) (ps : List Char) (c : Char) (r : List Char) (h : c.toUpper ≠ p0) :
    stripPrefixCI (p0 :: ps) (c :: r) = none := by
  simp [stripPrefixCI, h]

/-- a prefix of letters cannot match when a character that is no letter of the pattern comes too early -/
theorem strip_none : ∀ (p ls : List Char) (x : Char) (r : List Char), ls.length < p.length → (∀ q ∈ p, x.toUpper ≠ q) →
    stripPrefixCI p (ls ++ x :: r) = none
  | [], ls, x, r, hlen, _ => by simp at hlen
  | q :: ps, [], x, r, _, hx => by
    simp [stripPrefixCI, hx q (by simp)]
  | q :: ps, l :: ls, x, r, hlen, hx => by
    simp only [List.cons_append, stripPrefixCI]
    split
    · have := strip_none ps ls x r (by simpa using hlen) (fun q' hq' => hx q' (by simp [hq']))
      simp [this]
    · rfl


theorem takeDigits_append (d rest : List Char) (hd : ∀ c ∈ d, c ∈ digitsL) (hr : OkAfter rest) :
    takeDigits (d ++ rest) = (d, rest) := by
  have hall : ∀ c ∈ d, c.isDigit = true := fun c hc => (digit_facts c (hd c hc)).1
  have hrest : rest.takeWhile Char.isDigit = [] ∧ rest.dropWhile Char.isDigit = rest := by
    rcases hr with rfl | ⟨c, r, rfl, hc⟩
    · simp
    · have := (after_facts c hc).1
      simp [List.takeWhile, List.dropWhile, this]
  simp only [takeDigits]
  rw [List.takeWhile_append_of_pos hall, List.dropWhile_append_of_pos hall, hrest.1, hrest.2]
  simp

theorem numLiteral_digits (d rest : List Char) (hne : d ≠ []) (hd : ∀ c ∈ d, c ∈ digitsL) (hr : OkAfter rest) :
    numLiteral (d ++ rest) = some (d, rest) := by
  have htd := takeDigits_append d rest hd hr
  cases d with
  | nil => exact absurd rfl hne
  | cons c0 d' =>
    have hc0 := digit_facts c0 (hd c0 (by simp))
    have h1 : ¬ (c0 = '.') := hc0.2.2.2.1
    unfold numLiteral
    rcases hr with rfl | ⟨c, r, rfl, hc⟩
    · simp only [List.append_nil] at htd ⊢
      simp [htd, h1]
    · have hf := after_facts c hc
      simp only [List.cons_append] at htd ⊢
      simp only [htd]
      simp [h1, hf]
      cases r with
      | nil => rfl
      | cons sg r' => simp [hf]

theorem skipWs_okAfter (rest : List Char) (hr : OkAfter rest) : skipWs rest = rest := by
  rcases hr with rfl | ⟨c, r, rfl, hc⟩
  · rfl
  · exact skipWs_cons c r (after_facts c hc).2.2.1

theorem lookahead_okAfter (rest : List Char) (hr : OkAfter rest) : numLookaheadOk rest = true := by
  rcases hr with rfl | ⟨c, r, rfl, hc⟩
  · rfl
  · have hf := after_facts c hc
    simp only [numLookaheadOk, skipWs_cons c r hf.2.2.1]
    simp [hf]

/-- the Number filter reads an unsigned integer literal -/
theorem mNumber_digits (d rest : List Char) (hne : d ≠ []) (hd : ∀ c ∈ d, c ∈ digitsL) (hr : OkAfter rest) :
    mNumber (d ++ rest) = some (.operand .num (String.ofList d), rest) := by
  cases d with
  | nil => exact absurd rfl hne
  | cons c0 d' =>
    have hc0 := digit_facts c0 (hd c0 (by simp))
    have hs : skipWs (c0 :: d' ++ rest) = c0 :: d' ++ rest := skipWs_cons c0 _ hc0.2.1
    simp only [mNumber, hs, numLiteral_digits (c0 :: d') rest hne hd hr, lookahead_okAfter rest hr, skipWs_okAfter rest hr]
    simp


theorem mRange_nonword (c : Char) (r : List Char) (h : isWordChar c = false) (hc : c ≠ ':') : mRange (c :: r) = .noMatch := by
  unfold mRange
  simp [List.takeWhile, h, hc]

theorem upper_word (name : List Char) (hn : ∀ c ∈ name, c ∈ upperL) : ∀ c ∈ name, isWordChar c = true :=
  fun c hc => (upper_facts c (hn c hc)).2.2.2.2.2.2.2.2.2.1

theorem mRange_fn (name rest : List Char) (hne : name ≠ []) (hn : ∀ c ∈ name, c ∈ upperL) :
    mRange (name ++ '(' :: rest) = .noMatch := by
  unfold mRange
  have hw := upper_word name hn
  have hp : isWordChar '(' = false := by decide
  have h1 : (name ++ '(' :: rest).takeWhile isWordChar = name := by
    rw [List.takeWhile_append_of_pos hw]; simp [List.takeWhile, hp]
  have h2 : (name ++ '(' :: rest).dropWhile isWordChar = '(' :: rest := by
    rw [List.dropWhile_append_of_pos hw]; simp [List.dropWhile, hp]
  have h3 : name.isEmpty = false := by cases name with | nil => exact absurd rfl hne | cons _ _ => rfl
  simp only [h1, h2, h3]
  simp


/-- a cell name: 1–3 capital letters, then digits without a leading zero -/
structure CellName (ls ds : List Char) : Prop where
  letters : ∀ c ∈ ls, c ∈ upperL
  nLetters : 1 ≤ ls.length ∧ ls.length ≤ 3
  digits : ∀ c ∈ ds, c ∈ digitsL
  nDigits : ds ≠ []
  noZero : ds.head? ≠ some '0'

theorem cellName_ok (ls ds : List Char) (h : CellName ls ds) : cellName? (ls ++ ds) = some (ls ++ ds) := by
  have hl : ∀ c ∈ ls, isLetter c = true := fun c hc => (upper_facts c (h.letters c hc)).2.1
  have hup : ls.map Char.toUpper = ls := by
    have : ∀ (l : List Char), (∀ c ∈ l, c.toUpper = c) → l.map Char.toUpper = l := by
      intro l; induction l with
      | nil => intro _; rfl
      | cons a t ih => intro hh; simp [hh a (by simp), ih (fun c hc => hh c (by simp [hc]))]
    exact this ls (fun c hc => (upper_facts c (h.letters c hc)).2.2.2.2.2.2.2.1)
  obtain ⟨d0, ds', rfl⟩ : ∃ d0 ds', ds = d0 :: ds' := by
    cases ds with | nil => exact absurd rfl h.nDigits | cons a b => exact ⟨a, b, rfl⟩
  have hd0 := digit_facts d0 (h.digits d0 (by simp))
  have hd0l : isLetter d0 = false := by simpa [isLetter] using hd0.2.2.2.2.2.2.2.1
  have hdol : d0 ≠ '$' := by
    intro e; rw [e] at hd0; simp at hd0
  obtain ⟨l0, ls', rfl⟩ : ∃ l0 ls', ls = l0 :: ls' := by
    cases ls with | nil => have := h.nLetters.1; simp at this | cons a b => exact ⟨a, b, rfl⟩
  have hl0 : l0 ≠ '$' := (upper_facts l0 (h.letters l0 (by simp))).2.2.2.2.2.2.1
  have htw : (l0 :: (ls' ++ d0 :: ds')).takeWhile isLetter = l0 :: ls' := by
    rw [← List.cons_append, List.takeWhile_append_of_pos hl]; simp [List.takeWhile, hd0l]
  have hdw : (l0 :: (ls' ++ d0 :: ds')).dropWhile isLetter = d0 :: ds' := by
    rw [← List.cons_append, List.dropWhile_append_of_pos hl]; simp [List.dropWhile, hd0l]
  have hall : (d0 :: ds').all Char.isDigit = true := by
    apply List.all_eq_true.mpr
    intro c hc
    exact (digit_facts c (h.digits c hc)).1
  have hz : d0 ≠ '0' := by
    intro e; apply h.noZero; simp [e]
  have e1 : dropDollar (l0 :: (ls' ++ d0 :: ds')) = l0 :: (ls' ++ d0 :: ds') := by
    unfold dropDollar
    split
    · rename_i heq; simp at heq; exact absurd heq.1 hl0
    · rfl
  have e2 : dropDollar (d0 :: ds') = d0 :: ds' := by
    unfold dropDollar
    split
    · rename_i heq; simp at heq; exact absurd heq.1 hdol
    · rfl
  simp only [cellName?, List.cons_append, e1, htw, hdw, e2]
  have hlen := h.nLetters
  simp only [List.length_cons] at hlen
  simp [hall, hz, hup, hlen]


theorem cell_word (ls ds : List Char) (h : CellName ls ds) : ∀ c ∈ ls ++ ds, isWordChar c = true := by
  intro c hc
  rcases List.mem_append.mp hc with h1 | h1
  · exact (upper_facts c (h.letters c h1)).2.2.2.2.2.2.2.2.2.1
  · exact (digit_facts c (h.digits c h1)).2.2.2.2.2.2.2.2

theorem cell_nodollar (ls ds : List Char) (h : CellName ls ds) : (ls ++ ds).any (· == '$') = false := by
  apply List.any_eq_false.mpr
  intro c hc
  rcases List.mem_append.mp hc with h1 | h1
  · simpa using (upper_facts c (h.letters c h1)).2.2.2.2.2.2.1
  · have := digit_facts c (h.digits c h1)
    have : c ≠ '$' := by intro e; rw [e] at this; simp at this
    simpa using this

theorem rest_split (rest : List Char) (hr : OkAfter rest) :
    rest.takeWhile isWordChar = [] ∧ rest.dropWhile isWordChar = rest := by
  rcases hr with rfl | ⟨c, r, rfl, hc⟩
  · simp
  · have := (after_facts c hc).2.2.2.2.2.2.2.1
    simp [List.takeWhile, List.dropWhile, this]

/-- the Range filter reads a cell name -/
theorem mRange_cell (ls ds rest : List Char) (h : CellName ls ds) (hr : OkAfter rest) :
    mRange (ls ++ ds ++ rest) = .tok (.operand .range (String.ofList (ls ++ ds))) rest := by
  have hw := cell_word ls ds h
  have h1 : (ls ++ ds ++ rest).takeWhile isWordChar = ls ++ ds := by
    rw [List.takeWhile_append_of_pos hw, (rest_split rest hr).1]; simp
  have h2 : (ls ++ ds ++ rest).dropWhile isWordChar = rest := by
    rw [List.dropWhile_append_of_pos hw, (rest_split rest hr).2]
  have h3 : (ls ++ ds).isEmpty = false := by
    cases ls with
    | nil => have := h.nLetters.1; simp at this
    | cons _ _ => rfl
  unfold mRange
  simp only [h1, h2, h3]
  rcases hr with rfl | ⟨c, r, rfl, hc⟩
  · simp [cell_nodollar ls ds h, cellName_ok ls ds h]
  · have hf := after_facts c hc
    simp [hf, cell_nodollar ls ds h, cellName_ok ls ds h]

theorem mNumber_cell (ls ds rest : List Char) (h : CellName ls ds) : mNumber (ls ++ ds ++ rest) = none := by
  obtain ⟨l0, ls', rfl⟩ : ∃ l0 ls', ls = l0 :: ls' := by
    cases ls with | nil => have := h.nLetters.1; simp at this | cons a b => exact ⟨a, b, rfl⟩
  obtain ⟨d0, ds', rfl⟩ : ∃ d0 ds', ds = d0 :: ds' := by
    cases ds with | nil => exact absurd rfl h.nDigits | cons a b => exact ⟨a, b, rfl⟩
  have hl0 := upper_facts l0 (h.letters l0 (by simp))
  have hd0 := digit_facts d0 (h.digits d0 (by simp))
  have hlen := h.nLetters.2
  have hx : ∀ (p : List Char), (∀ q ∈ p, q ∈ upperL) → ∀ q ∈ p, d0.toUpper ≠ q := by
    intro p hp q hq e
    have hq' := upper_facts q (hp q hq)
    rw [hd0.2.2.2.2.2.2.1] at e
    rw [e] at hd0
    simp [hq'.1] at hd0
  have e : (l0 :: ls') ++ (d0 :: ds') ++ rest = (l0 :: ls') ++ d0 :: (ds' ++ rest) := by simp
  rw [e]
  have hT := strip_none ['T', 'R', 'U', 'E'] (l0 :: ls') d0 (ds' ++ rest) (by simp at hlen ⊢; omega) (hx _ (by decide))
  have hF := strip_none ['F', 'A', 'L', 'S', 'E'] (l0 :: ls') d0 (ds' ++ rest) (by simp at hlen ⊢; omega) (hx _ (by decide))
  exact mNumber_none_of l0 _ hl0.2.2.2.1 hl0.2.2.1 hl0.2.2.2.2.2.1 hT hF


theorem str_facts (c : Char) (h : c ∈ strL) : c ≠ '"' ∧ inAlphabet c = true := by
  have := List.all_eq_true.mp (by decide : strL.all (fun c => c != '"' && inAlphabet c) = true) c h
  simpa using this

theorem strBody_plain : ∀ (body rest acc : List Char), (∀ c ∈ body, c ≠ '"') → OkAfter rest →
    strBody (body ++ '"' :: rest) acc = some (acc.reverse ++ body, rest)
  | [], rest, acc, _, hr => by
    rcases hr with rfl | ⟨c, r, rfl, hc⟩
    · simp [strBody]
    · have hq : c ≠ '"' := (after_facts c hc).2.2.2.2.2.2.2.2.2.2
      simp only [List.nil_append]
      rw [strBody.eq_def]
      simp [hq]
  | b :: body, rest, acc, hb, hr => by
    have hq : b ≠ '"' := hb b (by simp)
    have ih := strBody_plain body rest (b :: acc) (fun c hc => hb c (by simp [hc])) hr
    simp only [List.cons_append]
    rw [strBody.eq_def]
    simp [hq]
    simpa using ih


/-- the String filter reads a literal without embedded quotes -/
theorem mString_plain (body rest : List Char) (hb : ∀ c ∈ body, c ∈ strL) (hr : OkAfter rest) :
    mString ('"' :: (body ++ '"' :: rest)) = some (.operand .str (String.ofList body), rest) := by
  have hq : isWs '"' = false := by decide
  simp only [mString, skipWs_cons '"' _ hq]
  rw [strBody_plain body rest [] (fun c hc => (str_facts c (hb c hc)).1) hr]
  simp [skipWs_okAfter rest hr]

/-! ### operators -/

theorem opCand_none (c : Char) (r : List Char) (ho : isOpRunChar c = false) : opCand (c :: r) = none := by
  have hne : c ≠ '<' ∧ c ≠ '>' ∧ c ≠ '*' ∧ c ≠ '/' ∧ c ≠ '^' ∧ c ≠ '&' ∧ c ≠ '=' := by
    refine ⟨?_, ?_, ?_, ?_, ?_, ?_, ?_⟩ <;> (intro e; rw [e] at ho; simp [isOpRunChar] at ho)
  unfold opCand
  split
  · rename_i heq; simp at heq; exact absurd heq.1 hne.1
  · rename_i heq; simp at heq; exact absurd heq.1 hne.2.1
  · rename_i heq; simp at heq; exact absurd heq.1 hne.1
  · rename_i heq; simp at heq
    obtain ⟨rfl, rfl⟩ := heq
    simp [hne]
  · rename_i heq; simp at heq

theorem mOperator_none (c : Char) (r : List Char) (hw : isWs c = false) (ho : isOpRunChar c = false) (hp : c ≠ '%') :
    mOperator (c :: r) = none := by
  have hcand : opBeforeSign (c :: r) = none := by
    simp [opBeforeSign, skipWs_cons c r hw, opCand_none c r ho]
  simp only [mOperator, hcand, skipWs_cons c r hw]
  split
  · rename_i heq; simp at heq; exact absurd heq.1 hp
  · simp [List.takeWhile, ho]

theorem mSeparator_none (c : Char) (r : List Char) (hw : isWs c = false) (h : c ≠ ',') : mSeparator (c :: r) = none := by
  simp only [mSeparator, skipWs_cons c r hw]
  split
  · rename_i heq; simp at heq; exact absurd heq.1 h
  · rfl

theorem mArray_none (c : Char) (r : List Char) (hw : isWs c = false) (h : c ≠ '{' ∧ c ≠ '}' ∧ c ≠ ';') : mArray (c :: r) = none := by
  simp only [mArray, skipWs_cons c r hw]
  split
  · rename_i heq; simp at heq; exact absurd heq.1 h.1
  · rename_i heq; simp at heq; exact absurd heq.1 h.2.1
  · rename_i heq; simp at heq; exact absurd heq.1 h.2.2
  · rfl

theorem mFunction_none (c : Char) (r : List Char) (hw : isWs c = false) (h : c.isAlphanum = false ∧ c ≠ '_' ∧ c ≠ '.') :
    mFunction (c :: r) = none := by
  have h1 : (c == '_') = false := by simp [h.2.1]
  have h2 : (c == '.') = false := by simp [h.2.2]
  simp only [mFunction, skipWs_cons c r hw]
  simp [List.takeWhile, h.1, h1, h2]


/-- binary operators other than `+` and `-` -/
def opsNoPM : List String := ["*", "/", "^", "&", "=", "<", ">", "<=", ">=", "<>"]

/-- the characters of an operator symbol -/
def opText : String → List Char
  | "*" => ['*'] | "/" => ['/'] | "^" => ['^'] | "&" => ['&'] | "=" => ['='] | "<" => ['<'] | ">" => ['>']
  | "<=" => ['<', '='] | ">=" => ['>', '='] | "<>" => ['<', '>'] | "+" => ['+'] | "-" => ['-'] | "%" => ['%']
  | _ => []

theorem opText_toList : ∀ n ∈ opsNoPM ++ ["+", "-", "%"], opText n = n.toList := by decide

theorem atom_facts (c : Char) (h : c ∈ startAtom) :
    isOpRunChar c = false ∧ isWs c = false ∧ c ≠ '=' ∧ c ≠ '>' ∧ c ≠ '+' ∧ c ≠ '-' ∧ c ≠ '%' := by
  have := List.all_eq_true.mp (by decide : startAtom.all (fun c => !isOpRunChar c && !isWs c && c != '=' && c != '>' && c != '+' && c != '-' && c != '%') = true) c h
  simpa [and_assoc] using this

theorem signAhead_atom (c : Char) (r : List Char) (h : c ∈ startAtom) : signAhead (c :: r) = false := by
  have hf := atom_facts c h
  simp [signAhead, skipWs_cons c r hf.2.1, hf]

/-- an operator run `m` (no blanks) in front of a character that does not continue it -/
theorem mOperator_run (m : List Char) (name : String) (c : Char) (r : List Char)
    (hm : ∀ x ∈ m, isOpRunChar x = true) (h0 : ∃ x t, m = x :: t ∧ isWs x = false ∧ x ≠ '%')
    (hc : isOpRunChar c = false) (hcand : opBeforeSign (m ++ c :: r) = none) (hproc : processRun m = some name) :
    mOperator (m ++ c :: r) = some (.opr name, c :: r) := by
  obtain ⟨x, t, rfl, hxw, hxp⟩ := h0
  have h1 : ((x :: t) ++ c :: r).takeWhile isOpRunChar = x :: t := by
    rw [List.takeWhile_append_of_pos hm]; simp [List.takeWhile, hc]
  have h2 : ((x :: t) ++ c :: r).dropWhile isOpRunChar = c :: r := by
    rw [List.dropWhile_append_of_pos hm]; simp [List.dropWhile, hc]
  simp only [mOperator, hcand]
  have hs : skipWs ((x :: t) ++ c :: r) = (x :: t) ++ c :: r := skipWs_cons x _ hxw
  rw [hs]
  split
  · rename_i heq; simp at heq; exact absurd heq.1 hxp
  · simp only [h1, h2, hproc]
    simp

/-- an operator symbol followed by the start of an operand (no sign) -/
theorem mOperator_bin_atom (name : String) (hn : name ∈ opsNoPM) (c : Char) (r : List Char) (h : c ∈ startAtom) :
    mOperator (opText name ++ c :: r) = some (.opr name, c :: r) := by
  have hf := atom_facts c h
  have hsa := signAhead_atom c r h
  have hw : ∀ (x : Char) (t : List Char), isWs x = false → skipWs (x :: t) = x :: t := fun x t hx => skipWs_cons x t hx
  simp only [opsNoPM, List.mem_cons, List.not_mem_nil, or_false] at hn
  rcases hn with rfl | rfl | rfl | rfl | rfl | rfl | rfl | rfl | rfl | rfl
  all_goals
    apply mOperator_run _ _ c r (by decide) ⟨_, _, rfl, by decide, by decide⟩ hf.1 _ (by decide)
  all_goals
    simp [opText, opBeforeSign, opCand, skipWs, List.dropWhile, isWs, hsa, hf]


/-- an operator symbol directly before a sign (first alternative of the operator expression) -/
theorem mOperator_bin_sign (name : String) (hn : name ∈ opsNoPM) (sg : Char) (hsg : sg = '+' ∨ sg = '-') (r : List Char) :
    mOperator (opText name ++ sg :: r) = some (.opr name, sg :: r) := by
  have hsa : signAhead (sg :: r) = true := by
    rcases hsg with rfl | rfl <;> simp [signAhead, skipWs, isWs]
  simp only [opsNoPM, List.mem_cons, List.not_mem_nil, or_false] at hn
  rcases hn with rfl | rfl | rfl | rfl | rfl | rfl | rfl | rfl | rfl | rfl <;>
    rcases hsg with rfl | rfl <;>
    simp [opText, mOperator, opBeforeSign, opCand, skipWs, isWs, hsa, processRun]

/-- `+` or `-` before the start of an operand -/
theorem mOperator_pm (sg : Char) (hsg : sg = '+' ∨ sg = '-') (c : Char) (r : List Char) (h : c ∈ startAtom) :
    mOperator (sg :: c :: r) = some (.opr (if sg = '-' then "-" else "+"), c :: r) := by
  have hf := atom_facts c h
  have := mOperator_run [sg] (if sg = '-' then "-" else "+") c r
    (by rcases hsg with rfl | rfl <;> decide) ⟨sg, [], rfl, by rcases hsg with rfl | rfl <;> decide, by rcases hsg with rfl | rfl <;> decide⟩ hf.1
    (by rcases hsg with rfl | rfl <;> simp [opBeforeSign, opCand, skipWs, isWs])
    (by rcases hsg with rfl | rfl <;> decide)
  simpa using this

/-- a single `%` -/
theorem mOperator_pct (rest : List Char) (h : ∀ c r, rest = c :: r → c ≠ '%') :
    mOperator ('%' :: rest) = some (.opr "%", rest) := by
  have hc : opBeforeSign ('%' :: rest) = none := by simp [opBeforeSign, opCand, skipWs, isWs]
  simp only [mOperator, hc]
  have hs : skipWs ('%' :: rest) = '%' :: rest := skipWs_cons '%' rest (by decide)
  rw [hs]
  cases rest with
  | nil => simp [List.takeWhile]
  | cons c r =>
    have := h c r rfl
    have hb : (c == '%') = false := by simp [this]
    simp [List.takeWhile, hb]


/-! ### separators, calls, parentheses -/

def NoWsHead (rest : List Char) : Prop := ∀ c r, rest = c :: r → isWs c = false

theorem skipWs_noWs (rest : List Char) (h : NoWsHead rest) : skipWs rest = rest := by
  cases rest with
  | nil => rfl
  | cons c r => exact skipWs_cons c r (h c r rfl)

theorem mSeparator_ok (rest : List Char) (h : NoWsHead rest) : mSeparator (',' :: rest) = some (.sep, rest) := by
  simp [mSeparator, skipWs_cons ',' rest (by decide), skipWs_noWs rest h]

theorem mParen_lp (rest : List Char) (h : NoWsHead rest) : mParen ('(' :: rest) = some (.lp, rest) := by
  simp [mParen, skipWs_cons '(' rest (by decide), skipWs_noWs rest h]

theorem mParen_rp (rest : List Char) : mParen (')' :: rest) = some (.rp, rest) := by
  simp [mParen, skipWs_cons ')' rest (by decide)]

theorem upper_map (name : List Char) (hn : ∀ c ∈ name, c ∈ upperL) : name.map Char.toUpper = name := by
  induction name with
  | nil => rfl
  | cons a t ih =>
    simp [(upper_facts a (hn a (by simp))).2.2.2.2.2.2.2.1, ih (fun c hc => hn c (by simp [hc]))]

theorem mFunction_ok (name rest : List Char) (hne : name ≠ []) (hn : ∀ c ∈ name, c ∈ upperL) (h : NoWsHead rest) :
    mFunction (name ++ '(' :: rest) = some (.fn (String.ofList name), rest) := by
  obtain ⟨n0, nt, rfl⟩ : ∃ n0 nt, name = n0 :: nt := by
    cases name with | nil => exact absurd rfl hne | cons a b => exact ⟨a, b, rfl⟩
  have hn0 := upper_facts n0 (hn n0 (by simp))
  have hp : ∀ c ∈ n0 :: nt, (c.isAlphanum || c == '_' || c == '.') = true := by
    intro c hc; simp [(upper_facts c (hn c hc)).2.2.2.2.2.2.2.2.2.2.1]
  have hq : ('('.isAlphanum || '(' == '_' || '(' == '.') = false := by decide
  have h1 : ((n0 :: nt) ++ '(' :: rest).takeWhile (fun c => c.isAlphanum || c == '_' || c == '.') = n0 :: nt := by
    rw [List.takeWhile_append_of_pos hp]; simp [List.takeWhile, hq]
  have h2 : ((n0 :: nt) ++ '(' :: rest).dropWhile (fun c => c.isAlphanum || c == '_' || c == '.') = '(' :: rest := by
    rw [List.dropWhile_append_of_pos hp]; simp [List.dropWhile, hq]
  have hs : skipWs ((n0 :: nt) ++ '(' :: rest) = (n0 :: nt) ++ '(' :: rest := skipWs_cons n0 _ hn0.2.2.2.1
  simp only [mFunction, hs, h1, h2]
  simp [hn0.1, upperS, upper_map (n0 :: nt) hn, skipWs_noWs rest h]


/-! ### one iteration of the tokeniser loop -/

theorem tryTok_some (st : PState) (s : List Char) (t : Tok) (rest : List Char) (st1 : PState)
    (hlen : rest.length < s.length) (hstep : step st t = .ok st1) : tryTok st s (some (t, rest)) = .ok (some (st1, rest)) := by
  simp [tryTok, hlen, hstep]

theorem tryTok_none (st : PState) (s : List Char) : tryTok st s none = .ok none := rfl

theorem rangeTry_noMatch (st : PState) (s : List Char) (h : mRange s = .noMatch) : rangeTry st s = .ok none := by
  simp [rangeTry, h]

theorem lexStep_number (st : PState) (s : List Char) (t : Tok) (rest : List Char) (st1 : PState)
    (hE : mError s = none) (hS : mString s = none) (hN : mNumber s = some (t, rest))
    (hlen : rest.length < s.length) (hstep : step st t = .ok st1) : lexStep st s = .ok (st1, rest) := by
  simp [lexStep, firstOk, hE, hS, hN, tryTok_some st s t rest st1 hlen hstep, tryTok_none]

theorem lexStep_string (st : PState) (s : List Char) (t : Tok) (rest : List Char) (st1 : PState)
    (hE : mError s = none) (hS : mString s = some (t, rest))
    (hlen : rest.length < s.length) (hstep : step st t = .ok st1) : lexStep st s = .ok (st1, rest) := by
  simp [lexStep, firstOk, hE, hS, tryTok_some st s t rest st1 hlen hstep, tryTok_none]

theorem lexStep_range (st : PState) (s : List Char) (t : Tok) (rest : List Char) (st1 : PState)
    (hE : mError s = none) (hS : mString s = none) (hN : mNumber s = none) (hR : mRange s = .tok t rest)
    (hlen : rest.length < s.length) (hstep : step st t = .ok st1) : lexStep st s = .ok (st1, rest) := by
  simp [lexStep, firstOk, hE, hS, hN, rangeTry, hR, tryTok_some st s t rest st1 hlen hstep, tryTok_none]

theorem lexStep_operator (st : PState) (s : List Char) (t : Tok) (rest : List Char) (st1 : PState)
    (hE : mError s = none) (hS : mString s = none) (hN : mNumber s = none) (hR : mRange s = .noMatch)
    (hO : mOperator s = some (t, rest))
    (hlen : rest.length < s.length) (hstep : step st t = .ok st1) : lexStep st s = .ok (st1, rest) := by
  simp [lexStep, firstOk, hE, hS, hN, rangeTry, hR, hO, tryTok_some st s t rest st1 hlen hstep, tryTok_none]

theorem lexStep_separator (st : PState) (s : List Char) (t : Tok) (rest : List Char) (st1 : PState)
    (hE : mError s = none) (hS : mString s = none) (hN : mNumber s = none) (hR : mRange s = .noMatch)
    (hO : mOperator s = none) (hP : mSeparator s = some (t, rest))
    (hlen : rest.length < s.length) (hstep : step st t = .ok st1) : lexStep st s = .ok (st1, rest) := by
  simp [lexStep, firstOk, hE, hS, hN, rangeTry, hR, hO, hP, tryTok_some st s t rest st1 hlen hstep, tryTok_none]

theorem lexStep_function (st : PState) (s : List Char) (t : Tok) (rest : List Char) (st1 : PState)
    (hE : mError s = none) (hS : mString s = none) (hN : mNumber s = none) (hR : mRange s = .noMatch)
    (hO : mOperator s = none) (hP : mSeparator s = none) (hF : mFunction s = some (t, rest))
    (hlen : rest.length < s.length) (hstep : step st t = .ok st1) : lexStep st s = .ok (st1, rest) := by
  simp [lexStep, firstOk, hE, hS, hN, rangeTry, hR, hO, hP, hF, tryTok_some st s t rest st1 hlen hstep, tryTok_none]

theorem lexStep_paren (st : PState) (s : List Char) (t : Tok) (rest : List Char) (st1 : PState)
    (hE : mError s = none) (hS : mString s = none) (hN : mNumber s = none) (hR : mRange s = .noMatch)
    (hO : mOperator s = none) (hP : mSeparator s = none) (hF : mFunction s = none) (hA : mArray s = none)
    (hL : mParen s = some (t, rest))
    (hlen : rest.length < s.length) (hstep : step st t = .ok st1) : lexStep st s = .ok (st1, rest) := by
  simp [lexStep, firstOk, hE, hS, hN, rangeTry, hR, hO, hP, hF, hA, hL, tryTok_some st s t rest st1 hlen hstep, tryTok_none]


/-! ### compact text of a token list -/

/-- the tokens of the compact spelling, with their characters -/
inductive TS
  | num (d : List Char)              -- unsigned integer literal
  | cell (ls ds : List Char)         -- cell name
  | str (body : List Char)           -- string literal without embedded quotes
  | bin (name : String)              -- binary operator
  | sign (minus : Bool)              -- prefix sign
  | pct | sep
  | fn (name : List Char)            -- function name, with its opening parenthesis
  | lp | rp

def TS.tok : TS → Tok
  | .num d => .operand .num (String.ofList d)
  | .cell ls ds => .operand .range (String.ofList (ls ++ ds))
  | .str body => .operand .str (String.ofList body)
  | .bin name => .opr name
  | .sign m => .opr (if m then "-" else "+")
  | .pct => .opr "%"
  | .sep => .sep
  | .fn name => .fn (String.ofList name)
  | .lp => .lp
  | .rp => .rp

def TS.text : TS → List Char
  | .num d => d
  | .cell ls ds => ls ++ ds
  | .str body => '"' :: (body ++ ['"'])
  | .bin name => opText name
  | .sign m => [if m then '-' else '+']
  | .pct => ['%']
  | .sep => [',']
  | .fn name => name ++ ['(']
  | .lp => ['(']
  | .rp => [')']

def TS.WF : TS → Prop
  | .num d => d ≠ [] ∧ ∀ c ∈ d, c ∈ digitsL
  | .cell ls ds => CellName ls ds
  | .str body => ∀ c ∈ body, c ∈ strL
  | .bin name => name ∈ opsNoPM ∨ name = "+" ∨ name = "-"
  | .fn name => (∃ n0 nt, name = n0 :: nt ∧ n0 ∈ fnFirstL) ∧ ∀ c ∈ name, c ∈ upperL
  | _ => True

/-- what may start an operand position: an atom or a sign -/
def StartsOperand (rest : List Char) : Prop := ∃ c r, rest = c :: r ∧ (c ∈ startAtom ∨ c = '+' ∨ c = '-')
def StartsAtom (rest : List Char) : Prop := ∃ c r, rest = c :: r ∧ c ∈ startAtom

/-- what the text after a token must look like for the tokeniser to cut the token off exactly -/
def TS.okNext : TS → List Char → Prop
  | .num _, rest => OkAfter rest
  | .cell _ _, rest => OkAfter rest
  | .str _, rest => OkAfter rest
  | .rp, rest => OkAfter rest
  | .pct, rest => OkAfter rest ∧ ∀ c r, rest = c :: r → c ≠ '%'
  | .bin name, rest => if name = "+" ∨ name = "-" then StartsAtom rest else StartsOperand rest
  | .sign _, rest => StartsAtom rest
  | .sep, rest => StartsOperand rest ∨ ∃ r, rest = ',' :: r ∨ rest = ')' :: r
  | .fn _, rest => StartsOperand rest ∨ ∃ r, rest = ',' :: r ∨ rest = ')' :: r
  | .lp, rest => StartsOperand rest


def punctL : List Char := ['*', '/', '^', '&', '=', '<', '>', '+', '-', '%', ',', '(', ')', '"']

theorem punct_facts (c : Char) (h : c ∈ punctL) :
    isWs c = false ∧ c.toUpper ≠ '#' ∧ c.isDigit = false ∧ c ≠ '.' ∧ c.toUpper ≠ 'T' ∧ c.toUpper ≠ 'F' ∧ isWordChar c = false ∧ c ≠ ':' := by
  have := List.all_eq_true.mp (by decide : punctL.all (fun c => !isWs c && c.toUpper != '#' && !c.isDigit && c != '.' && c.toUpper != 'T' &&
    c.toUpper != 'F' && !isWordChar c && c != ':') = true) c h
  simpa [and_assoc] using this

/-- the filters before `OperatorToken` do not take a punctuation character -/
theorem punct_before_operator (c : Char) (r : List Char) (h : c ∈ punctL) (hq : c ≠ '"') :
    mError (c :: r) = none ∧ mString (c :: r) = none ∧ mNumber (c :: r) = none ∧ mRange (c :: r) = .noMatch := by
  have hf := punct_facts c h
  exact ⟨mError_none c r hf.1 hf.2.1, mString_none c r hf.1 hq,
    mNumber_none_of c r hf.1 hf.2.2.1 hf.2.2.2.1 (strip_first _ _ c r hf.2.2.2.2.1) (strip_first _ _ c r hf.2.2.2.2.2.1),
    mRange_nonword c r hf.2.2.2.2.2.2.1 hf.2.2.2.2.2.2.2⟩

theorem fnFirst_facts (c : Char) (h : c ∈ fnFirstL) : c ∈ upperL ∧ c.toUpper ≠ 'T' ∧ c.toUpper ≠ 'F' := by
  have := List.all_eq_true.mp (by decide : fnFirstL.all (fun c => upperL.contains c && c.toUpper != 'T' && c.toUpper != 'F') = true) c h
  simpa [and_assoc] using this

theorem startsOperand_noWs (rest : List Char) (h : StartsOperand rest ∨ ∃ r, rest = ',' :: r ∨ rest = ')' :: r) : NoWsHead rest := by
  intro c r hr
  rcases h with ⟨c', r', rfl, hc⟩ | ⟨r', rfl | rfl⟩
  · simp at hr; obtain ⟨rfl, rfl⟩ := hr
    rcases hc with hc | rfl | rfl
    · exact (atom_facts _ hc).2.1
    · decide
    · decide
  · simp at hr; rw [← hr.1]; decide
  · simp at hr; rw [← hr.1]; decide

theorem length_lt_append (a rest : List Char) (h : a ≠ []) : rest.length < (a ++ rest).length := by
  cases a with
  | nil => exact absurd rfl h
  | cons x t => simp; omega

/-- **one iteration of the tokeniser loop cuts off exactly the next token of the compact text** -/
theorem lexStep_ts (tk : TS) (rest : List Char) (st st1 : PState) (hwf : tk.WF) (hn : tk.okNext rest)
    (hstep : step st tk.tok = .ok st1) : lexStep st (tk.text ++ rest) = .ok (st1, rest) := by
  cases tk with
  | num d =>
    obtain ⟨hne, hd⟩ := hwf
    obtain ⟨d0, dt, rfl⟩ : ∃ d0 dt, d = d0 :: dt := by
      cases d with | nil => exact absurd rfl hne | cons a b => exact ⟨a, b, rfl⟩
    have hd0 := digit_facts d0 (hd d0 (by simp))
    exact lexStep_number st _ _ rest st1 (mError_none d0 _ hd0.2.1 hd0.2.2.2.2.2.1) (mString_none d0 _ hd0.2.1 hd0.2.2.1)
      (mNumber_digits (d0 :: dt) rest hne hd hn) (length_lt_append _ rest hne) hstep
  | cell ls ds =>
    obtain ⟨l0, lt, rfl⟩ : ∃ l0 lt, ls = l0 :: lt := by
      cases ls with | nil => have := hwf.nLetters.1; simp at this | cons a b => exact ⟨a, b, rfl⟩
    have hl0 := upper_facts l0 (hwf.letters l0 (by simp))
    have e : TS.text (.cell (l0 :: lt) ds) ++ rest = l0 :: (lt ++ ds ++ rest) := by simp [TS.text]
    have hE : mError (TS.text (.cell (l0 :: lt) ds) ++ rest) = none := by rw [e]; exact mError_none l0 _ hl0.2.2.2.1 hl0.2.2.2.2.2.2.2.2.1
    have hS : mString (TS.text (.cell (l0 :: lt) ds) ++ rest) = none := by rw [e]; exact mString_none l0 _ hl0.2.2.2.1 hl0.2.2.2.2.1
    exact lexStep_range st _ _ rest st1 hE hS (mNumber_cell (l0 :: lt) ds rest hwf) (mRange_cell (l0 :: lt) ds rest hwf hn)
      (length_lt_append _ rest (by simp [TS.text])) hstep
  | str body =>
    have e : TS.text (.str body) ++ rest = '"' :: (body ++ '"' :: rest) := by simp [TS.text]
    rw [e]
    exact lexStep_string st _ _ rest st1 (mError_none '"' _ (by decide) (by decide)) (mString_plain body rest hwf hn)
      (by simp; omega) hstep
  | bin name =>
    simp only [TS.okNext] at hn
    simp only [TS.WF] at hwf
    rcases hwf with hops | rfl | rfl
    · -- an operator other than + and -
      have hnpm : ¬ (name = "+" ∨ name = "-") := by
        simp only [opsNoPM, List.mem_cons, List.not_mem_nil, or_false] at hops
        rcases hops with rfl | rfl | rfl | rfl | rfl | rfl | rfl | rfl | rfl | rfl <;> decide
      simp only [hnpm, if_false] at hn
      obtain ⟨c, r, rfl, hc⟩ := hn
      have hx : ∃ x t, opText name = x :: t ∧ x ∈ punctL ∧ x ≠ '"' := by
        simp only [opsNoPM, List.mem_cons, List.not_mem_nil, or_false] at hops
        rcases hops with rfl | rfl | rfl | rfl | rfl | rfl | rfl | rfl | rfl | rfl <;> exact ⟨_, _, rfl, by decide, by decide⟩
      obtain ⟨x, t, hxt, hxp, hxq⟩ := hx
      have hO : mOperator (opText name ++ c :: r) = some (.opr name, c :: r) := by
        rcases hc with hc | rfl | rfl
        · exact mOperator_bin_atom name hops c r hc
        · exact mOperator_bin_sign name hops '+' (Or.inl rfl) r
        · exact mOperator_bin_sign name hops '-' (Or.inr rfl) r
      have hb := punct_before_operator x (t ++ c :: r) hxp hxq
      simp only [TS.text, TS.tok] at hstep ⊢
      rw [hxt] at hO ⊢
      simp only [List.cons_append] at hO ⊢
      exact lexStep_operator st _ _ _ st1 hb.1 hb.2.1 hb.2.2.1 hb.2.2.2 hO (by simp; omega) hstep
    · simp only [true_or, if_true] at hn
      obtain ⟨c, r, rfl, hc⟩ := hn
      have hO := mOperator_pm '+' (Or.inl rfl) c r hc
      have hb := punct_before_operator '+' (c :: r) (by decide) (by decide)
      simp only [TS.text, TS.tok, opText] at hstep ⊢
      exact lexStep_operator st _ _ _ st1 hb.1 hb.2.1 hb.2.2.1 hb.2.2.2 (by simpa using hO) (by simp) hstep
    · simp only [or_true, if_true] at hn
      obtain ⟨c, r, rfl, hc⟩ := hn
      have hO := mOperator_pm '-' (Or.inr rfl) c r hc
      have hb := punct_before_operator '-' (c :: r) (by decide) (by decide)
      simp only [TS.text, TS.tok, opText] at hstep ⊢
      exact lexStep_operator st _ _ _ st1 hb.1 hb.2.1 hb.2.2.1 hb.2.2.2 (by simpa using hO) (by simp) hstep
  | sign m =>
    obtain ⟨c, r, rfl, hc⟩ := hn
    cases m with
    | true =>
      have hO := mOperator_pm '-' (Or.inr rfl) c r hc
      have hb := punct_before_operator '-' (c :: r) (by decide) (by decide)
      simp only [TS.text, TS.tok] at hstep ⊢
      exact lexStep_operator st _ _ _ st1 hb.1 hb.2.1 hb.2.2.1 hb.2.2.2 (by simpa using hO) (by simp) hstep
    | false =>
      have hO := mOperator_pm '+' (Or.inl rfl) c r hc
      have hb := punct_before_operator '+' (c :: r) (by decide) (by decide)
      simp only [TS.text, TS.tok] at hstep ⊢
      exact lexStep_operator st _ _ _ st1 hb.1 hb.2.1 hb.2.2.1 hb.2.2.2 (by simpa using hO) (by simp) hstep
  | pct =>
    obtain ⟨_, hp⟩ := hn
    have hb := punct_before_operator '%' rest (by decide) (by decide)
    simp only [TS.text, TS.tok] at hstep ⊢
    exact lexStep_operator st _ _ _ st1 hb.1 hb.2.1 hb.2.2.1 hb.2.2.2 (mOperator_pct rest hp) (by simp) hstep
  | sep =>
    have hb := punct_before_operator ',' rest (by decide) (by decide)
    simp only [TS.text, TS.tok] at hstep ⊢
    exact lexStep_separator st _ _ _ st1 hb.1 hb.2.1 hb.2.2.1 hb.2.2.2 (mOperator_none ',' rest (by decide) (by decide) (by decide))
      (mSeparator_ok rest (startsOperand_noWs rest hn)) (by simp) hstep
  | fn name =>
    obtain ⟨⟨n0, nt, rfl, hn0⟩, hall⟩ := hwf
    have hf0 := fnFirst_facts n0 hn0
    have hu0 := upper_facts n0 hf0.1
    have e : TS.text (.fn (n0 :: nt)) ++ rest = n0 :: (nt ++ '(' :: rest) := by simp [TS.text]
    have e' : TS.text (.fn (n0 :: nt)) ++ rest = (n0 :: nt) ++ '(' :: rest := by simp [TS.text]
    have hE : mError (n0 :: (nt ++ '(' :: rest)) = none := mError_none n0 _ hu0.2.2.2.1 hu0.2.2.2.2.2.2.2.2.1
    have hS : mString (n0 :: (nt ++ '(' :: rest)) = none := mString_none n0 _ hu0.2.2.2.1 hu0.2.2.2.2.1
    have hN : mNumber (n0 :: (nt ++ '(' :: rest)) = none :=
      mNumber_none_of n0 _ hu0.2.2.2.1 hu0.2.2.1 hu0.2.2.2.2.2.1 (strip_first _ _ n0 _ hf0.2.1) (strip_first _ _ n0 _ hf0.2.2)
    have hR : mRange (n0 :: (nt ++ '(' :: rest)) = .noMatch := by
      have := mRange_fn (n0 :: nt) rest (by simp) hall
      simpa using this
    have hO : mOperator (n0 :: (nt ++ '(' :: rest)) = none := mOperator_none n0 _ hu0.2.2.2.1 hu0.2.2.2.2.2.2.2.2.2.2.2.1 hu0.2.2.2.2.2.2.2.2.2.2.2.2
    have hP : mSeparator (n0 :: (nt ++ '(' :: rest)) = none := mSeparator_none n0 _ hu0.2.2.2.1 (by
      intro e2; rw [e2] at hu0; simp at hu0)
    have hF : mFunction (n0 :: (nt ++ '(' :: rest)) = some (.fn (String.ofList (n0 :: nt)), rest) := by
      have := mFunction_ok (n0 :: nt) rest (by simp) hall (startsOperand_noWs rest hn)
      simpa using this
    rw [e]
    exact lexStep_function st _ _ rest st1 hE hS hN hR hO hP hF (by simp; omega) hstep
  | lp =>
    have hb := punct_before_operator '(' rest (by decide) (by decide)
    simp only [TS.text, TS.tok] at hstep ⊢
    exact lexStep_paren st _ _ _ st1 hb.1 hb.2.1 hb.2.2.1 hb.2.2.2 (mOperator_none '(' rest (by decide) (by decide) (by decide))
      (mSeparator_none '(' rest (by decide) (by decide)) (mFunction_none '(' rest (by decide) (by decide)) (mArray_none '(' rest (by decide) (by decide))
      (mParen_lp rest (startsOperand_noWs rest (Or.inl hn))) (by simp) hstep
  | rp =>
    have hb := punct_before_operator ')' rest (by decide) (by decide)
    simp only [TS.text, TS.tok] at hstep ⊢
    exact lexStep_paren st _ _ _ st1 hb.1 hb.2.1 hb.2.2.1 hb.2.2.2 (mOperator_none ')' rest (by decide) (by decide) (by decide))
      (mSeparator_none ')' rest (by decide) (by decide)) (mFunction_none ')' rest (by decide) (by decide)) (mArray_none ')' rest (by decide) (by decide))
      (mParen_rp rest) (by simp) hstep


/-! ### the whole loop -/

def textOf : List TS → List Char
  | [] => []
  | tk :: ss => tk.text ++ textOf ss

/-- every token is well formed and is followed by text that delimits it (`tail`: what follows the list) -/
inductive SafeT : List TS → List Char → Prop
  | nil (tail : List Char) : SafeT [] tail
  | cons (tk : TS) (ss : List TS) (tail : List Char) : tk.WF → tk.okNext (textOf ss ++ tail) → SafeT ss tail → SafeT (tk :: ss) tail

abbrev Safe (ss : List TS) : Prop := SafeT ss []

theorem opText_ne (name : String) (h : name ∈ opsNoPM ∨ name = "+" ∨ name = "-") : opText name ≠ [] := by
  rcases h with h | rfl | rfl
  · simp only [opsNoPM, List.mem_cons, List.not_mem_nil, or_false] at h
    rcases h with rfl | rfl | rfl | rfl | rfl | rfl | rfl | rfl | rfl | rfl <;> simp [opText]
  · simp [opText]
  · simp [opText]

theorem text_ne (tk : TS) (h : tk.WF) : tk.text ≠ [] := by
  cases tk with
  | num d => exact h.1
  | cell ls ds =>
    intro e
    have := h.nLetters.1
    simp only [TS.text, List.append_eq_nil_iff] at e
    rw [e.1] at this; simp at this
  | str body => simp [TS.text]
  | bin name => exact opText_ne name h
  | sign m => simp [TS.text]
  | pct => simp [TS.text]
  | sep => simp [TS.text]
  | fn name => simp [TS.text]
  | lp => simp [TS.text]
  | rp => simp [TS.text]

/-- **the tokeniser loop on the compact text does what the token list does** -/
theorem lexLoop_text : ∀ (ss : List TS) (st st' : PState) (fuel : Nat), Safe ss → (textOf ss).length < fuel →
    runToks (ss.map TS.tok) st = .ok st' → lexLoop fuel st (textOf ss) = .ok st'
  | [], st, st', fuel, _, hf, hr => by
    cases fuel with
    | zero => simp at hf
    | succ n =>
      simp only [List.map_nil, runToks] at hr
      cases hr
      simp [lexLoop, textOf]
  | tk :: ss, st, st', fuel, hs, hf, hr => by
    cases hs with
    | cons _ _ _ hwf hnext hrest =>
    simp only [List.append_nil] at hnext
    cases fuel with
    | zero => simp at hf
    | succ n =>
      simp only [List.map_cons, runToks] at hr
      cases hstep : step st tk.tok with
      | error e =>
        rw [hstep] at hr
        cases e <;> simp at hr
      | ok st1 =>
        rw [hstep] at hr
        simp only at hr
        split at hr
        · cases hr
        · rename_i hne
          have hl := lexStep_ts tk (textOf ss) st st1 hwf hnext hstep
          have hne' : (tk.text ++ textOf ss).isEmpty = false := by
            have := text_ne tk hwf
            cases h : tk.text with
            | nil => exact absurd h this
            | cons _ _ => rfl
          have hlen : (textOf ss).length < (tk.text ++ textOf ss).length := length_lt_append _ _ (text_ne tk hwf)
          simp only [textOf, lexLoop, hne', hl, hne, hlen]
          simp only [Bool.false_eq_true, if_false, if_true]
          apply lexLoop_text ss st1 st' n hrest _ hr
          simp only [textOf] at hf
          omega


/-! ### the text is inside the modelled alphabet -/

/-- characters outside string literals: letters, digits, operator symbols, parentheses, comma -/
def plainL : List Char := upperL ++ digitsL ++ ['*', '/', '^', '&', '=', '<', '>', '+', '-', '%', ',', '(', ')']

theorem plain_facts (c : Char) (h : c ∈ plainL) : c ≠ '"' ∧ c ≠ '#' ∧ c ≠ '!' ∧ c ≠ '?' ∧ inAlphabet c = true := by
  have := List.all_eq_true.mp (by decide : plainL.all (fun c => c != '"' && c != '#' && c != '!' && c != '?' && inAlphabet c) = true) c h
  simpa [and_assoc] using this

theorem scan_plain : ∀ (l rest : List Char) (pw : Bool), (∀ c ∈ l, c ∈ plainL) →
    ∃ pw', domainScan (l ++ rest) 0 false pw = domainScan rest 0 false pw'
  | [], rest, pw, _ => ⟨pw, rfl⟩
  | c :: l, rest, pw, h => by
    have hf := plain_facts c (h c (by simp))
    obtain ⟨pw', ih⟩ := scan_plain l rest (isWordChar c) (fun x hx => h x (by simp [hx]))
    refine ⟨pw', ?_⟩
    have h1 : (c == '"') = false := by simp [hf.1]
    have h2 : (c == '#') = false := by simp [hf.2.1]
    have h3 : (c == '!') = false := by simp [hf.2.2.1]
    have h4 : (c == '?') = false := by simp [hf.2.2.2.1]
    simp only [List.cons_append, domainScan, h1, h2, h3, h4, hf.2.2.2.2, Bool.false_eq_true, if_false, Bool.or_self, Bool.true_and]
    exact ih

theorem scan_string : ∀ (body rest : List Char), (∀ c ∈ body, c ∈ strL) →
    domainScan (body ++ '"' :: rest) 0 true false = domainScan rest 0 false false
  | [], rest, _ => by
    have : inAlphabet '"' = true := by decide
    simp [domainScan, this]
  | c :: body, rest, h => by
    have hf := str_facts c (h c (by simp))
    have h1 : (c != '"') = true := by simp [hf.1]
    simp only [List.cons_append, domainScan, hf.2, h1, Bool.true_and]
    exact scan_string body rest (fun x hx => h x (by simp [hx]))

theorem opText_plain (name : String) (h : name ∈ opsNoPM ∨ name = "+" ∨ name = "-") : ∀ c ∈ opText name, c ∈ plainL := by
  rcases h with h | rfl | rfl
  · simp only [opsNoPM, List.mem_cons, List.not_mem_nil, or_false] at h
    rcases h with rfl | rfl | rfl | rfl | rfl | rfl | rfl | rfl | rfl | rfl <;> decide
  · decide
  · decide

theorem upper_plain (c : Char) (h : c ∈ upperL) : c ∈ plainL := by simp [plainL, h]
theorem digit_plain (c : Char) (h : c ∈ digitsL) : c ∈ plainL := by simp [plainL, h]

theorem scan_ts (tk : TS) (hwf : tk.WF) (rest : List Char) (pw : Bool) :
    ∃ pw', domainScan (tk.text ++ rest) 0 false pw = domainScan rest 0 false pw' := by
  cases tk with
  | num d => exact scan_plain d rest pw (fun c hc => digit_plain c (hwf.2 c hc))
  | cell ls ds =>
    exact scan_plain (ls ++ ds) rest pw (fun c hc => by
      rcases List.mem_append.mp hc with h | h
      · exact upper_plain c (hwf.letters c h)
      · exact digit_plain c (hwf.digits c h))
  | str body =>
    refine ⟨false, ?_⟩
    have e : TS.text (.str body) ++ rest = '"' :: (body ++ '"' :: rest) := by simp [TS.text]
    rw [e]
    simp only [domainScan, beq_self_eq_true, if_true]
    exact scan_string body rest hwf
  | bin name => exact scan_plain (opText name) rest pw (opText_plain name hwf)
  | sign m => exact scan_plain _ rest pw (by cases m <;> decide)
  | pct => exact scan_plain ['%'] rest pw (by decide)
  | sep => exact scan_plain [','] rest pw (by decide)
  | fn name =>
    exact scan_plain (name ++ ['(']) rest pw (fun c hc => by
      rcases List.mem_append.mp hc with h | h
      · exact upper_plain c (hwf.2 c h)
      · simp at h; rw [h]; decide)
  | lp => exact scan_plain ['('] rest pw (by decide)
  | rp => exact scan_plain [')'] rest pw (by decide)

theorem scan_text : ∀ (ss : List TS), Safe ss → ∀ pw, domainScan (textOf ss) 0 false pw = true
  | [], _, pw => by simp [textOf, domainScan]
  | tk :: ss, hs, pw => by
    cases hs with
    | cons _ _ _ hwf _ hrest =>
      obtain ⟨pw', h⟩ := scan_ts tk hwf (textOf ss) pw
      simp only [textOf]
      rw [h]
      exact scan_text ss hrest pw'


theorem text_head_noWs (tk : TS) (hwf : tk.WF) (rest : List Char) : ∃ c r, tk.text ++ rest = c :: r ∧ isWs c = false := by
  cases tk with
  | num d =>
    obtain ⟨hne, hd⟩ := hwf
    cases d with
    | nil => exact absurd rfl hne
    | cons a b => exact ⟨a, b ++ rest, rfl, (digit_facts a (hd a (by simp))).2.1⟩
  | cell ls ds =>
    cases ls with
    | nil => have := hwf.nLetters.1; simp at this
    | cons a b => exact ⟨a, b ++ ds ++ rest, by simp [TS.text], (upper_facts a (hwf.letters a (by simp))).2.2.2.1⟩
  | str body => exact ⟨'"', body ++ '"' :: rest, by simp [TS.text], by decide⟩
  | bin name =>
    have hx : ∃ x t, opText name = x :: t ∧ isWs x = false := by
      rcases hwf with h | rfl | rfl
      · simp only [opsNoPM, List.mem_cons, List.not_mem_nil, or_false] at h
        rcases h with rfl | rfl | rfl | rfl | rfl | rfl | rfl | rfl | rfl | rfl <;> exact ⟨_, _, rfl, by decide⟩
      · exact ⟨_, _, rfl, by decide⟩
      · exact ⟨_, _, rfl, by decide⟩
    obtain ⟨x, t, hxt, hxw⟩ := hx
    exact ⟨x, t ++ rest, by simp [TS.text, hxt], hxw⟩
  | sign m => exact ⟨_, rest, rfl, by cases m <;> decide⟩
  | pct => exact ⟨'%', rest, rfl, by decide⟩
  | sep => exact ⟨',', rest, rfl, by decide⟩
  | fn name =>
    obtain ⟨⟨n0, nt, rfl, hn0⟩, _⟩ := hwf
    exact ⟨n0, nt ++ '(' :: rest, by simp [TS.text], (upper_facts n0 (fnFirst_facts n0 hn0).1).2.2.2.1⟩
  | lp => exact ⟨'(', rest, rfl, by decide⟩
  | rp => exact ⟨')', rest, rfl, by decide⟩

theorem text_last_noWs (tk : TS) (hwf : tk.WF) : ∃ init c, tk.text = init ++ [c] ∧ isWs c = false := by
  cases tk with
  | num d =>
    obtain ⟨hne, hd⟩ := hwf
    refine ⟨d.dropLast, d.getLast hne, (List.dropLast_concat_getLast hne).symm, ?_⟩
    exact (digit_facts _ (hd _ (List.getLast_mem hne))).2.1
  | cell ls ds =>
    have hne := hwf.nDigits
    refine ⟨ls ++ ds.dropLast, ds.getLast hne, ?_, ?_⟩
    · simp [TS.text, List.dropLast_concat_getLast hne]
    · exact (digit_facts _ (hwf.digits _ (List.getLast_mem hne))).2.1
  | str body => exact ⟨'"' :: body, '"', by simp [TS.text], by decide⟩
  | bin name =>
    rcases hwf with h | rfl | rfl
    · simp only [opsNoPM, List.mem_cons, List.not_mem_nil, or_false] at h
      rcases h with rfl | rfl | rfl | rfl | rfl | rfl | rfl | rfl | rfl | rfl
      · exact ⟨[], '*', rfl, by decide⟩
      · exact ⟨[], '/', rfl, by decide⟩
      · exact ⟨[], '^', rfl, by decide⟩
      · exact ⟨[], '&', rfl, by decide⟩
      · exact ⟨[], '=', rfl, by decide⟩
      · exact ⟨[], '<', rfl, by decide⟩
      · exact ⟨[], '>', rfl, by decide⟩
      · exact ⟨['<'], '=', rfl, by decide⟩
      · exact ⟨['>'], '=', rfl, by decide⟩
      · exact ⟨['<'], '>', rfl, by decide⟩
    · exact ⟨[], '+', rfl, by decide⟩
    · exact ⟨[], '-', rfl, by decide⟩
  | sign m => cases m <;> exact ⟨[], _, rfl, by decide⟩
  | pct => exact ⟨[], '%', rfl, by decide⟩
  | sep => exact ⟨[], ',', rfl, by decide⟩
  | fn name => exact ⟨name, '(', rfl, by decide⟩
  | lp => exact ⟨[], '(', rfl, by decide⟩
  | rp => exact ⟨[], ')', rfl, by decide⟩

theorem textOf_last_noWs : ∀ (ss : List TS) (tail : List Char), SafeT ss tail → ss ≠ [] →
    ∃ init c, textOf ss = init ++ [c] ∧ isWs c = false
  | [], _, _, h => absurd rfl h
  | [tk], tail, hs, _ => by
    cases hs with
    | cons _ _ _ hwf _ _ =>
      obtain ⟨init, c, h1, h2⟩ := text_last_noWs tk hwf
      exact ⟨init, c, by simp [textOf, h1], h2⟩
  | tk :: tk2 :: ss, tail, hs, _ => by
    cases hs with
    | cons _ _ _ _ _ hrest =>
      obtain ⟨init, c, h1, h2⟩ := textOf_last_noWs (tk2 :: ss) tail hrest (by simp)
      exact ⟨tk.text ++ init, c, by simp only [textOf] at h1 ⊢; rw [h1]; simp, h2⟩

theorem strip_trailing (l : List Char) (h : ∃ init c, l = init ++ [c] ∧ isWs c = false) :
    (l.reverse.dropWhile isWs).reverse = l := by
  obtain ⟨init, c, rfl, hc⟩ := h
  simp [List.dropWhile, hc]

/-- **from tokens to text**: if the token list of a delimited compact spelling parses to `t`, the formula text
`=` followed by the characters of the tokens parses to `t` -/
theorem parse_text (ss : List TS) (hs : Safe ss) (hne : ss ≠ []) (t : Ast)
    (h : parseToks (ss.map TS.tok) = .ok t) : parseString ('=' :: textOf ss) = .ok t := by
  obtain ⟨tk, ss', rfl⟩ : ∃ tk ss', ss = tk :: ss' := by
    cases ss with | nil => exact absurd rfl hne | cons a b => exact ⟨a, b, rfl⟩
  have hwf : tk.WF := by cases hs with | cons _ _ _ h _ _ => exact h
  obtain ⟨c, r, hcr, hcw⟩ := text_head_noWs tk hwf (textOf ss')
  -- the token-level run
  simp only [parseToks] at h
  cases hrun : runToks ((tk :: ss').map TS.tok) initState with
  | error e => rw [hrun] at h; cases h
  | ok s =>
    rw [hrun] at h
    simp only at h
    have hloop := lexLoop_text (tk :: ss') initState s ((textOf (tk :: ss')).length + 1) hs (by omega) hrun
    -- the alphabet
    have hdom : inDomain ('=' :: textOf (tk :: ss')) = true := by
      obtain ⟨pw', hsc⟩ := scan_plain ['='] (textOf (tk :: ss')) false (by decide)
      simp only [inDomain]
      have : '=' :: textOf (tk :: ss') = ['='] ++ textOf (tk :: ss') := rfl
      rw [this, hsc]
      exact scan_text (tk :: ss') hs pw'
    have hbody : textOf (tk :: ss') = c :: r := by simp only [textOf]; exact hcr
    have hstrip : skipWs ((skipWs (textOf (tk :: ss'))).reverse.dropWhile isWs).reverse = textOf (tk :: ss') := by
      rw [hbody, skipWs_cons c r hcw, ← hbody, strip_trailing _ (textOf_last_noWs (tk :: ss') [] hs (by simp)), hbody,
        skipWs_cons c r hcw]
    simp only [parseString, hdom, Bool.not_true, Bool.false_eq_true, if_false, skipWs_cons '=' _ (by decide : isWs '=' = false),
      hstrip]
    rw [hbody]
    simp only [parseFormulaBody]
    rw [← hbody, hloop]
    simp only [h]

end XL.LexText
