import XL.Model.Look
/-!
# Proofs about the scans of MATCH

The key type is abstract: `lt`, `le`, `eq` are the comparisons the code applies (`<`, `<=`, `==` of
Python on two values of one type) and `KeyLaws` are the order facts used.  They hold for finite
doubles, strings and logicals (strict total orders); that is assumed of `Float`, not proved.
-/
namespace XL

structure KeyLaws {α : Type} (lt le eq : α → α → Bool) : Prop where
  /-- `a > c`, `a < b` ⇒ `b > c` -/
  asc_cut : ∀ a b c, le a c = false → lt a b = true → le b c = false
  /-- `a = c`, `a < b` ⇒ `b > c` -/
  eq_cut : ∀ a b c, eq a c = true → lt a b = true → le b c = false
  /-- `a < c`, `b < a` ⇒ `b < c` -/
  desc_cut : ∀ a b c, lt a c = true → lt b a = true → lt b c = true
  /-- `a = c`, `b < a` ⇒ `b < c` -/
  eq_desc : ∀ a b c, eq a c = true → lt b a = true → lt b c = true

variable {α : Type}

/-- number of leading elements that are `≤ val` -/
def cntLe (le : α → α → Bool) (val : α) (xs : List α) : Nat := (xs.takeWhile fun x => le x val).length

/-- number of leading elements that are not `< val` -/
def cntGe (lt : α → α → Bool) (val : α) (xs : List α) : Nat := (xs.takeWhile fun x => !lt x val).length

theorem all_gt_of_first_gt (lt le eq : α → α → Bool) (h : KeyLaws lt le eq) (val x : α) (xs : List α)
    (hx : le x val = false) (hs : (x :: xs).Pairwise (fun a b => lt a b = true)) : ∀ y ∈ xs, le y val = false := by
  intro y hy
  have := List.rel_of_pairwise_cons hs hy
  exact h.asc_cut x y val hx this

theorem cntLe_zero_of_all_gt (le : α → α → Bool) (val : α) (xs : List α) (h : ∀ y ∈ xs, le y val = false) :
    cntLe le val xs = 0 := by
  cases xs with
  | nil => rfl
  | cons y ys => simp [cntLe, List.takeWhile, h y List.mem_cons_self]

/-- **approximate match on ascending keys**: from position `j ≥ 2`, the scan returns the position of the
last key `≤ val` among the remaining ones, or what it had -/
theorem scanAsc_sorted (lt le eq : α → α → Bool) (h : KeyLaws lt le eq) (val : α) :
    ∀ (xs : List α) (j : Nat) (r : Option Nat), 1 < j → xs.Pairwise (fun a b => lt a b = true) →
      scanAsc le eq val (indexedFrom j xs) r =
        if cntLe le val xs = 0 then r else some (j + cntLe le val xs - 1)
  | [], j, r, _, _ => by simp [indexedFrom, scanAsc, cntLe]
  | x :: xs, j, r, hj, hs => by
    have hs' : xs.Pairwise (fun a b => lt a b = true) := (List.pairwise_cons.mp hs).2
    simp only [indexedFrom, scanAsc]
    by_cases hle : le x val = true
    · simp only [hle, if_true]
      by_cases heq : eq x val = true
      · have hj' : decide (j > 1) = true := by simp [hj]
        simp only [heq, hj', Bool.and_self, if_true]
        have hall : ∀ y ∈ xs, le y val = false := by
          intro y hy
          exact h.eq_cut x y val heq (List.rel_of_pairwise_cons hs hy)
        have h0 := cntLe_zero_of_all_gt le val xs hall
        have : cntLe le val (x :: xs) = 1 := by
          simp only [cntLe, List.takeWhile, hle] at h0 ⊢
          simp [h0]
        simp [this]
      · have heq' : eq x val = false := by simpa using heq
        simp only [heq', Bool.false_and]
        rw [scanAsc_sorted lt le eq h val xs (j + 1) (some j) (by omega) hs']
        have : cntLe le val (x :: xs) = cntLe le val xs + 1 := by simp [cntLe, List.takeWhile, hle]
        rw [this]
        by_cases h0 : cntLe le val xs = 0
        · simp [h0]
        · simp only [h0, if_false, Nat.succ_ne_zero]
          simp only [Bool.false_eq_true, if_false, Option.some.injEq]; omega
    · have hle' : le x val = false := by simpa using hle
      have hj' : j > 1 := hj
      simp only [hle', hj', if_true]
      have : cntLe le val (x :: xs) = 0 := by simp [cntLe, List.takeWhile, hle']
      simp [this]

/-- … and from position 1 (where the code never stops early) the same holds -/
theorem scanAsc_sorted_from_one (lt le eq : α → α → Bool) (h : KeyLaws lt le eq) (val : α) (xs : List α)
    (hs : xs.Pairwise (fun a b => lt a b = true)) :
    scanAsc le eq val (indexed xs) none = if cntLe le val xs = 0 then none else some (cntLe le val xs) := by
  cases xs with
  | nil => simp [indexed, indexedFrom, scanAsc, cntLe]
  | cons x xs =>
    have hs' : xs.Pairwise (fun a b => lt a b = true) := (List.pairwise_cons.mp hs).2
    simp only [indexed, indexedFrom, scanAsc]
    by_cases hle : le x val = true
    · have hd : decide (1 > 1) = false := by decide
      simp only [hle, if_true, hd, Bool.and_false]
      rw [scanAsc_sorted lt le eq h val xs 2 (some 1) (by omega) hs']
      have : cntLe le val (x :: xs) = cntLe le val xs + 1 := by simp [cntLe, List.takeWhile, hle]
      rw [this]
      by_cases h0 : cntLe le val xs = 0
      · simp [h0]
      · simp only [h0, if_false, Nat.succ_ne_zero]
        simp only [Bool.false_eq_true, if_false, Option.some.injEq]; omega
    · have hle' : le x val = false := by simpa using hle
      have h1 : ¬ (1 > 1) := by omega
      simp only [hle', h1, if_false]
      rw [scanAsc_sorted lt le eq h val xs 2 none (by omega) hs']
      have hall := all_gt_of_first_gt lt le eq h val x xs hle' hs
      have h0 := cntLe_zero_of_all_gt le val xs hall
      have : cntLe le val (x :: xs) = 0 := by simp [cntLe, List.takeWhile, hle']
      simp [h0, this]

/-- on ascending keys the keys `≤ val` are exactly the first `cntLe` ones: the position returned is that
of the **last key not greater than the value** -/
theorem cntLe_spec (lt le eq : α → α → Bool) (h : KeyLaws lt le eq) (val : α) :
    ∀ (xs : List α), xs.Pairwise (fun a b => lt a b = true) →
      (∀ x ∈ xs.take (cntLe le val xs), le x val = true) ∧ (∀ x ∈ xs.drop (cntLe le val xs), le x val = false)
  | [], _ => by simp [cntLe]
  | x :: xs, hs => by
    have hs' : xs.Pairwise (fun a b => lt a b = true) := (List.pairwise_cons.mp hs).2
    by_cases hle : le x val = true
    · have : cntLe le val (x :: xs) = cntLe le val xs + 1 := by simp [cntLe, List.takeWhile, hle]
      rw [this]
      obtain ⟨h1, h2⟩ := cntLe_spec lt le eq h val xs hs'
      constructor
      · intro y hy
        simp only [List.take_succ_cons, List.mem_cons] at hy
        rcases hy with rfl | hy
        · exact hle
        · exact h1 y hy
      · intro y hy
        simp only [List.drop_succ_cons] at hy
        exact h2 y hy
    · have hle' : le x val = false := by simpa using hle
      have : cntLe le val (x :: xs) = 0 := by simp [cntLe, List.takeWhile, hle']
      rw [this]
      constructor
      · intro y hy; simp at hy
      · intro y hy
        simp only [List.drop_zero, List.mem_cons] at hy
        rcases hy with rfl | hy
        · exact hle'
        · exact all_gt_of_first_gt lt le eq h val x xs hle' hs y hy

/-- **approximate match on descending keys**: the position of the last key not smaller than the value -/
theorem scanDesc_sorted (lt le eq : α → α → Bool) (h : KeyLaws lt le eq) (val : α) :
    ∀ (xs : List α) (j : Nat) (r : Option Nat), xs.Pairwise (fun a b => lt b a = true) →
      scanDesc lt eq val (indexedFrom j xs) r =
        if cntGe lt val xs = 0 then r else some (j + cntGe lt val xs - 1)
  | [], j, r, _ => by simp [indexedFrom, scanDesc, cntGe]
  | x :: xs, j, r, hs => by
    have hs' : xs.Pairwise (fun a b => lt b a = true) := (List.pairwise_cons.mp hs).2
    simp only [indexedFrom, scanDesc]
    by_cases hlt : lt x val = true
    · have : cntGe lt val (x :: xs) = 0 := by simp [cntGe, List.takeWhile, hlt]
      simp [hlt, this]
    · have hlt' : lt x val = false := by simpa using hlt
      simp only [hlt', Bool.false_eq_true, if_false]
      have hc : cntGe lt val (x :: xs) = cntGe lt val xs + 1 := by simp [cntGe, List.takeWhile, hlt']
      by_cases heq : eq x val = true
      · simp only [heq, if_true]
        have hall : ∀ y ∈ xs, lt y val = true := by
          intro y hy
          exact h.eq_desc x y val heq (List.rel_of_pairwise_cons hs hy)
        have h0 : cntGe lt val xs = 0 := by
          cases xs with
          | nil => rfl
          | cons y ys => simp [cntGe, List.takeWhile, hall y List.mem_cons_self]
        simp [hc, h0]
      · have heq' : eq x val = false := by simpa using heq
        simp only [heq', Bool.false_eq_true, if_false]
        rw [scanDesc_sorted lt le eq h val xs (j + 1) (some j) hs', hc]
        by_cases h0 : cntGe lt val xs = 0
        · simp [h0]
        · simp only [h0, if_false, Nat.succ_ne_zero]
          simp only [Bool.false_eq_true, if_false, Option.some.injEq]; omega

/-- **exact match**: the position of the first key that satisfies the test, `none` when there is none -/
theorem scanFirst_spec (test : α → Bool) :
    ∀ (xs : List α) (j : Nat),
      scanFirst test (indexedFrom j xs) =
        if xs.all (fun x => !test x) then none else some (j + (xs.takeWhile fun x => !test x).length)
  | [], j => by simp [indexedFrom, scanFirst]
  | x :: xs, j => by
    simp only [indexedFrom, scanFirst]
    by_cases ht : test x = true
    · simp [ht, List.takeWhile]
    · have ht' : test x = false := by simpa using ht
      simp only [ht', Bool.false_eq_true, if_false, List.all_cons, Bool.not_false, Bool.true_and, List.takeWhile]
      rw [scanFirst_spec test xs (j + 1)]
      split
      · rfl
      · simp only [List.length_cons]; congr 1; omega

/-- exact match among the candidates of one type: positions are those of the whole vector -/
theorem scanFirst_filter_spec (test keep : α → Bool) :
    ∀ (xs : List α) (j : Nat),
      scanFirst test ((indexedFrom j xs).filter fun p => keep p.2) =
        if xs.all (fun x => !(keep x && test x)) then none
        else some (j + (xs.takeWhile fun x => !(keep x && test x)).length)
  | [], j => by simp [indexedFrom, scanFirst]
  | x :: xs, j => by
    have ih := scanFirst_filter_spec test keep xs (j + 1)
    by_cases hk : keep x = true
    · by_cases ht : test x = true
      · simp [indexedFrom, hk, scanFirst, ht]
      · have ht' : test x = false := by simpa using ht
        simp only [indexedFrom, List.filter, hk, scanFirst, ht', ih, Bool.false_eq_true, if_false,
          List.all_cons, Bool.and_false, Bool.not_false, Bool.true_and, List.takeWhile]
        split
        · rfl
        · simp only [List.length_cons]; congr 1; omega
    · have hk' : keep x = false := by simpa using hk
      simp only [indexedFrom, List.filter, hk', ih, List.all_cons, Bool.false_and, Bool.not_false,
        Bool.true_and, List.takeWhile]
      split
      · rfl
      · simp only [List.length_cons]; congr 1; omega


/-- the element after the longest prefix satisfying `q` fails `q`; everything before satisfies it -/
theorem takeWhile_first (q : α → Bool) : ∀ (l : List α), l.all q = false →
    (∃ k, l[(l.takeWhile q).length]? = some k ∧ q k = false) ∧
    ∀ i k, i < (l.takeWhile q).length → l[i]? = some k → q k = true
  | [], h => by simp at h
  | x :: xs, h => by
    by_cases hx : q x = true
    · have hxs : xs.all q = false := by simpa [List.all_cons, hx] using h
      obtain ⟨⟨k, hk1, hk2⟩, hall⟩ := takeWhile_first q xs hxs
      refine ⟨⟨k, ?_, hk2⟩, ?_⟩
      · simpa [List.takeWhile, hx] using hk1
      · intro i k' hi hk'
        simp only [List.takeWhile, hx, List.length_cons] at hi
        cases i with
        | zero => simp at hk'; rw [← hk']; exact hx
        | succ i => exact hall i k' (by omega) (by simpa using hk')
    · have hx' : q x = false := by simpa using hx
      refine ⟨⟨x, by simp [List.takeWhile, hx'], hx'⟩, ?_⟩
      intro i k hi
      simp [List.takeWhile, hx'] at hi

/-! ### wildcards -/

theorem wmatch_star (s : List Char) : wmatch [.any] s = true := by
  induction s with
  | nil => simp [wmatch]
  | cons x s ih => simp [wmatch, ih]

/-- a pattern without wildcards matches exactly itself -/
theorem wmatch_literal : ∀ (p s : List Char), wmatch (p.map Pat.lit) s = (p == s)
  | [], [] => by simp [wmatch]
  | [], _ :: _ => by simp [wmatch]
  | _ :: _, [] => by simp [wmatch]
  | c :: p, x :: s => by
    simp only [List.map_cons, wmatch, wmatch_literal p s]
    by_cases h : c = x
    · subst h; simp
    · simp [h]

/-- `?` consumes exactly one character -/
theorem wmatch_one (p : List Pat) (x : Char) (s : List Char) : wmatch (.one :: p) (x :: s) = wmatch p s := by
  simp [wmatch]

theorem wmatch_one_nil (p : List Pat) : wmatch (.one :: p) [] = false := by simp [wmatch]

/-- `*` consumes nothing or one more character -/
theorem wmatch_any (p : List Pat) (x : Char) (s : List Char) :
    wmatch (.any :: p) (x :: s) = (wmatch p (x :: s) || wmatch (.any :: p) s) := by
  simp [wmatch]

end XL
