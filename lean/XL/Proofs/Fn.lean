import XL.Model.Fn
/-!
# Proofs about the reference definitions of the function library
-/
namespace XL

/-! ### decimal rounding -/

/-- `m = q·p + r`, `r < p` -/
theorem natAbs_split (m p : Nat) (hp : 0 < p) : m = m / p * p + m % p ∧ m % p < p :=
  ⟨by rw [Nat.mul_comm]; exact (Nat.div_add_mod m p).symm, Nat.mod_lt m hp⟩

/-- half-up rounding picks a nearest multiple: the error is at most half a unit -/
theorem roundQ_halfUp_nearest (m p : Nat) (hp : 0 < p) :
    2 * (roundQ .halfUp (m / p) (m % p) p * p - m) ≤ p ∧ 2 * (m - roundQ .halfUp (m / p) (m % p) p * p) ≤ p := by
  obtain ⟨h1, h2⟩ := natAbs_split m p hp
  simp only [roundQ]
  generalize m / p = q at *
  generalize m % p = r at *
  split
  · rename_i h
    have : (q + 1) * p = q * p + p := by rw [Nat.add_mul, Nat.one_mul]
    rw [this, h1]
    constructor <;> omega
  · rename_i h
    rw [h1]
    constructor <;> omega

/-- rounding away from zero never decreases the magnitude and adds less than one unit -/
theorem roundQ_away_bounds (m p : Nat) (hp : 0 < p) :
    m ≤ roundQ .away (m / p) (m % p) p * p ∧ roundQ .away (m / p) (m % p) p * p < m + p := by
  obtain ⟨h1, h2⟩ := natAbs_split m p hp
  simp only [roundQ]
  generalize m / p = q at *
  generalize m % p = r at *
  split
  · have : (q + 1) * p = q * p + p := by rw [Nat.add_mul, Nat.one_mul]
    rw [this, h1]
    constructor <;> omega
  · rw [h1]
    constructor <;> omega

/-- rounding toward zero never increases the magnitude and removes less than one unit -/
theorem roundQ_toward_bounds (m p : Nat) (hp : 0 < p) :
    roundQ .toward (m / p) (m % p) p * p ≤ m ∧ m < roundQ .toward (m / p) (m % p) p * p + p := by
  obtain ⟨h1, h2⟩ := natAbs_split m p hp
  simp only [roundQ]
  generalize m / p = q at *
  generalize m % p = r at *
  rw [h1]
  constructor <;> omega

/-- a number already on the grid is left alone, by every mode -/
theorem roundQ_exact (mode : RMode) (q p : Nat) (hp : 0 < p) : roundQ mode q 0 p = q := by
  cases mode
  · simp only [roundQ]; split <;> omega
  · simp [roundQ]
  · simp [roundQ]

/-- rounding is symmetric in the sign: `ROUND(-x) = -ROUND(x)` -/
theorem roundDec_neg (mode : RMode) (m e d : Int) (hm : m ≠ 0) :
    roundDec mode (-m) e d = (-(roundDec mode m e d).1, (roundDec mode m e d).2) := by
  simp only [roundDec]
  split
  · rfl
  · simp only [Int.natAbs_neg]
    by_cases h : m < 0
    · have h' : ¬ (-m < 0) := by omega
      simp only [h, h', if_true, if_false, Int.neg_neg]
    · have h' : -m < 0 := by omega
      simp only [h, h', if_true, if_false]

/-! ### EVEN / ODD on the integer ceiling of the magnitude -/

theorem even_step (a : Int) (ha : 0 ≤ a) :
    let v := if a % 2 = 0 then a else a + 1
    v % 2 = 0 ∧ a ≤ v ∧ v < a + 2 := by
  simp only
  split <;> omega

theorem odd_step (a : Int) (ha : 0 ≤ a) :
    let v := if a % 2 = 1 then a else a + 1
    v % 2 = 1 ∧ a ≤ v ∧ v < a + 2 := by
  simp only
  split <;> omega

/-! ### CEILING / FLOOR on aligned integers, positive significance -/

theorem ceiling_pos (X S : Int) (hS : 0 < S) :
    let q' := if X % S = 0 then X / S else X / S + 1
    X ≤ q' * S ∧ q' * S < X + S := by
  simp only
  have h1 := Int.emod_add_mul_ediv X S
  have h2 := Int.emod_nonneg X (by omega : S ≠ 0)
  have h3 := Int.emod_lt_of_pos X hS
  split
  · rename_i h
    have : X / S * S = X := by rw [Int.mul_comm]; omega
    omega
  · have : (X / S + 1) * S = S * (X / S) + S := by rw [Int.add_mul, Int.one_mul, Int.mul_comm]
    omega

theorem floor_pos (X S : Int) (hS : 0 < S) : X / S * S ≤ X ∧ X < X / S * S + S := by
  have h1 := Int.emod_add_mul_ediv X S
  have h2 := Int.emod_nonneg X (by omega : S ≠ 0)
  have h3 := Int.emod_lt_of_pos X hS
  have : X / S * S = S * (X / S) := Int.mul_comm _ _
  omega

/-! ### folds over permutations -/

theorem foldl_perm {α β : Type} (f : β → α → β) (hf : ∀ b x y, f (f b x) y = f (f b y) x) (l l' : List α) (h : l.Perm l') :
    ∀ b, l.foldl f b = l'.foldl f b := by
  induction h with
  | nil => intro b; rfl
  | cons x _ ih => intro b; simp only [List.foldl_cons]; exact ih _
  | swap x y l => intro b; simp only [List.foldl_cons]; rw [hf]
  | trans _ _ ih1 ih2 => intro b; rw [ih1, ih2]

/-! ### text -/

theorem findFrom_sound (pat s : List Char) (start i : Nat) (h : findFrom pat s start = some i) :
    pat.isPrefixOf (s.drop i) = true ∧ start ≤ i ∧ i ≤ s.length := by
  simp only [findFrom] at h
  have := List.find?_some h
  have hm := List.mem_of_find?_eq_some h
  simp only [List.mem_map, List.mem_range] at hm
  obtain ⟨k, hk, rfl⟩ := hm
  exact ⟨this, by omega, by omega⟩

end XL
