import XL.Proofs.Book
/-!
# Compiled functions: pre-evaluated (frozen) nodes are unobservable; formula-level substitution
-/
namespace XL
variable {F : Type} [Num F]

def withOverrides (b : Book F) (l : List ((Nat × Nat × Nat) × Val F)) : Book F :=
  { b with overrides := l ++ b.overrides }

theorem lookupOverride_append_none (l ov : List ((Nat × Nat × Nat) × Val F)) (s r c : Nat)
    (h : ∀ x ∈ l, x.1 ≠ (s, r, c)) : lookupOverride (l ++ ov) s r c = lookupOverride ov s r c := by
  induction l with
  | nil => rfl
  | cons x rest ih =>
    obtain ⟨⟨xs, xr, xc⟩, v⟩ := x
    have hx := h ((xs, xr, xc), v) (by simp)
    simp only [List.cons_append, lookupOverride]
    have : ¬ (s = xs ∧ r = xr ∧ c = xc) := by
      intro ⟨a, b, c'⟩; apply hx; simp [a, b, c']
    simp only [this, if_false]
    exact ih (fun y hy => h y (List.mem_cons_of_mem _ hy))

/-- a cell that reaches none of the overridden addresses keeps its value -/
theorem overrides_independent (b : Book F) (l : List ((Nat × Nat × Nat) × Val F)) (n s r c : Nat)
    (hind : ∀ x ∈ l, ¬ Reaches b (s, r, c) x.1) :
    value (withOverrides b l) n s r c = value b n s r c := by
  symm
  apply value_congr b (withOverrides b l) rfl
  intro s' r' c' ht
  refine ⟨?_, rfl, rfl⟩
  simp only [withOverrides]
  symm
  apply lookupOverride_append_none
  intro x hx e
  apply hind x hx
  rw [e]; exact ht

/-- evaluation with a table of pre-computed values consulted before a cell's own definition
(`ExcelModel.compile`: nodes not downstream of the inputs are frozen to their pre-evaluated value) -/
def valueT (b : Book F) (T : Nat → Nat → Nat → Option (Val F)) : Nat → Nat → Nat → Nat → Val F
  | 0, _, _, _ => .err .na
  | fuel + 1, s, r, c =>
    match lookupOverride b.overrides s r c with
    | some v => v
    | none =>
      match T s r c with
      | some v => v
      | none =>
        match findSpill b.cells s r c with
        | some (R, C, i, j, e) => formulaValue (mkEnv (valueT b T fuel) b.names) R C i j e
        | none =>
          match findCell b.cells s r c with
          | some (.const v) => v
          | some (.formula e) => formulaValue (mkEnv (valueT b T fuel) b.names) 1 1 0 0 e
          | _ => .blank

/-- **freezing is unobservable**: if every frozen entry is the cell's value in the un-overridden book
and the cell does not depend on any input, then evaluating with the frozen table under any
argument tuple gives exactly what a full calculation with those inputs gives -/
theorem freeze_sound (b : Book F) (rank : Nat → Nat → Nat → Nat) (l : List ((Nat × Nat × Nat) × Val F))
    (T : Nat → Nat → Nat → Option (Val F))
    (hb : Acyclic (withOverrides b l) rank)
    (hT : ∀ s r c v, T s r c = some v →
        (∀ x ∈ l, ¬ Reaches b (s, r, c) x.1) ∧ ∀ n, rank s r c < n → v = value b n s r c) :
    ∀ n s r c, rank s r c < n → valueT (withOverrides b l) T n s r c = value (withOverrides b l) n s r c := by
  intro n
  induction n with
  | zero => intro s r c h; omega
  | succ n ih =>
    intro s r c hlt
    simp only [valueT, value]
    cases ho : lookupOverride (withOverrides b l).overrides s r c with
    | some v => rfl
    | none =>
      simp only
      cases hTt : T s r c with
      | some v =>
        obtain ⟨h1, h2⟩ := hT s r c v hTt
        have e1 := h2 (n + 1) hlt
        have e2 := overrides_independent b l (n + 1) s r c h1
        simp only
        rw [e1, ← e2]
        simp only [value, ho]
      | none =>
        simp only
        cases hs : findSpill (withOverrides b l).cells s r c with
        | some t =>
          obtain ⟨R, C, i, j, e⟩ := t
          simp only
          apply formulaValue_congr
          intro q hq s' r' c' hh
          have hr : Reads (withOverrides b l) s r c s' r' c' := ⟨e, by simp [formulaAt, ho, hs], q, hq, hh⟩
          have := hb s r c s' r' c' hr
          exact ih s' r' c' (by omega)
        | none =>
          simp only
          cases hc : findCell (withOverrides b l).cells s r c with
          | none => rfl
          | some k' =>
            cases k' with
            | const v => rfl
            | arrayFormula _ _ _ => rfl
            | formula e =>
              simp only
              apply formulaValue_congr
              intro q hq s' r' c' hh
              have hr : Reads (withOverrides b l) s r c s' r' c' := ⟨e, by simp [formulaAt, ho, hs, hc], q, hq, hh⟩
              have := hb s r c s' r' c' hr
              exact ih s' r' c' (by omega)

/-! ### a compiled single formula: arguments written in as literals -/

mutual
/-- replace every reference by the array of the values it denotes -/
def substRefs (look : RRef → List (List (Val F))) : Expr F → Expr F
  | .ref q => .array (look q)
  | .bin o l r => .bin o (substRefs look l) (substRefs look r)
  | .un o x => .un o (substRefs look x)
  | .call f args => .call f (substArgs look args)
  | e => e
def substArgs (look : RRef → List (List (Val F))) : List (Expr F) → List (Expr F)
  | [] => []
  | a :: as => substRefs look a :: substArgs look as
end

mutual
theorem evalExpr_subst (env env0 : Env F) (hn : env.name = env0.name) : ∀ (e : Expr F),
    evalExpr env e = evalExpr env0 (substRefs (readRange env) e)
  | .lit v => by simp [evalExpr, substRefs]
  | .empty => by simp [evalExpr, substRefs]
  | .array rows => by simp [evalExpr, substRefs]
  | .ref q => by simp [evalExpr, substRefs]
  | .name n => by simp [evalExpr, substRefs, hn]
  | .bin o l r => by
    simp only [evalExpr, substRefs, evalExpr_subst env env0 hn l, evalExpr_subst env env0 hn r]
  | .un o x => by
    simp only [evalExpr, substRefs, evalExpr_subst env env0 hn x]
  | .call f args => by
    simp only [evalExpr, substRefs, evalArgs_subst env env0 hn args]
theorem evalArgs_subst (env env0 : Env F) (hn : env.name = env0.name) : ∀ (args : List (Expr F)),
    evalArgs env args = evalArgs env0 (substArgs (readRange env) args)
  | [] => by simp [evalArgs, substArgs]
  | a :: as => by
    simp only [evalArgs, substArgs, evalExpr_subst env env0 hn a, evalArgs_subst env env0 hn as]
end

end XL
