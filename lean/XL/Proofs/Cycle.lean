import XL.Model.Cycle
import Mathlib.Data.List.Nodup
import Batteries.Data.List.Perm
/-!
# The specification enumerator returns exactly the elementary cycles, each once
-/
namespace XL

/-- reversed path: head is the newest vertex -/
inductive RPath (adj : Nat → List Nat) : List Nat → Prop
  | single (v : Nat) : RPath adj [v]
  | cons (w v : Nat) (rest : List Nat) : w ∈ adj v → RPath adj (v :: rest) → RPath adj (w :: v :: rest)

/-- `p` (reversed) is an elementary cycle through `s` whose other vertices are all larger than `s` -/
structure RCycle (adj : Nat → List Nat) (s : Nat) (p : List Nat) : Prop where
  path : RPath adj p
  nodup : p.Nodup
  last : p.getLast? = some s
  close : ∀ h, s ∈ adj (p.head h)
  min : ∀ v ∈ p, v = s ∨ s < v

/-- state invariant of the search -/
structure Good (adj : Nat → List Nat) (s : Nat) (p : List Nat) : Prop where
  path : RPath adj p
  nodup : p.Nodup
  last : p.getLast? = some s
  min : ∀ v ∈ p, v = s ∨ s < v

theorem good_step {adj s w cur path} (g : Good adj s (cur :: path)) (hw : w ∈ adj cur)
    (hsw : s < w) (hn : w ∉ cur :: path) : Good adj s (w :: cur :: path) where
  path := RPath.cons w cur path hw g.path
  nodup := List.nodup_cons.mpr ⟨hn, g.nodup⟩
  last := by simpa [List.getLast?_cons_cons] using g.last
  min := by
    intro v hv
    rcases List.mem_cons.mp hv with h | h
    · subst h; exact Or.inr hsw
    · exact g.min v h

/-- soundness -/
theorem dfs_sound (adj : Nat → List Nat) (s : Nat) : ∀ (fuel : Nat) (p : List Nat), Good adj s p →
    ∀ c ∈ dfs adj s fuel p, ∃ q, c = q.reverse ∧ RCycle adj s q := by
  intro fuel
  induction fuel with
  | zero => intro p _ c hc; simp [dfs] at hc
  | succ n ih =>
    intro p g c hc
    cases p with
    | nil => simp [dfs] at hc
    | cons cur path =>
      simp only [dfs, List.mem_flatMap] at hc
      obtain ⟨w, hw, hc⟩ := hc
      by_cases h1 : w = s
      · simp only [h1, if_true, List.mem_singleton] at hc
        refine ⟨cur :: path, hc, ⟨g.path, g.nodup, g.last, ?_, g.min⟩⟩
        intro _; simpa [h1] using hw
      · simp only [h1, if_false] at hc
        split at hc
        · rename_i h2
          exact ih _ (good_step g hw h2.1 h2.2) c hc
        · simp at hc

/-- completeness: any extension `ext` (oldest first) of the current path that closes a cycle is found -/
theorem dfs_complete (adj : Nat → List Nat) (s : Nat) : ∀ (ext : List Nat) (fuel : Nat) (cur : Nat) (path : List Nat),
    ext.length < fuel →
    RCycle adj s (ext.reverse ++ cur :: path) →
    (ext.reverse ++ cur :: path).reverse ∈ dfs adj s fuel (cur :: path) := by
  intro ext
  induction ext with
  | nil =>
    intro fuel cur path hf hc
    cases fuel with
    | zero => simp at hf
    | succ n =>
      simp only [List.reverse_nil, List.nil_append, dfs, List.mem_flatMap]
      refine ⟨s, ?_, by simp⟩
      have := hc.close (by simp)
      simpa using this
  | cons w ext ih =>
    intro fuel cur path hf hc
    cases fuel with
    | zero => simp at hf
    | succ n =>
      have heq : (w :: ext).reverse ++ cur :: path = ext.reverse ++ w :: cur :: path := by simp
      rw [heq] at hc ⊢
      have hrec := ih n w (cur :: path) (by simp at hf; omega) hc
      simp only [dfs, List.mem_flatMap]
      -- facts about w from the cycle structure
      have hnd := hc.nodup
      have hsub : (w :: cur :: path).Nodup := (List.nodup_append.mp hnd).2.1
      have hwn : w ∉ cur :: path := (List.nodup_cons.mp hsub).1
      have hwmem : w ∈ ext.reverse ++ w :: cur :: path := by simp
      have hlast : (cur :: path).getLast? = some s := by
        have := hc.last
        simpa [List.getLast?_append, List.getLast?_cons_cons] using this
      have hs_in : s ∈ cur :: path := by
        have := List.mem_of_getLast? hlast; exact this
      have hws : w ≠ s := by intro e; subst e; exact hwn hs_in
      have hsw : s < w := by
        rcases hc.min w hwmem with h | h
        · exact absurd h hws
        · exact h
      -- edge cur → w from the path structure
      have hedge : w ∈ adj cur := by
        have hp := hc.path
        clear hrec hnd hsub hwn hwmem hlast hs_in hws hsw heq hc hf ih
        generalize ext.reverse = e at hp
        induction e with
        | nil => cases hp with | cons _ _ _ h _ => exact h
        | cons x e ihe =>
          cases e with
          | nil => cases hp with | cons _ _ _ _ h => cases h with | cons _ _ _ h _ => exact h
          | cons y e => cases hp with | cons _ _ _ _ h => exact ihe h
      refine ⟨w, hedge, ?_⟩
      simp only [hws, if_false, hsw, hwn, not_false_eq_true, and_self, if_true]
      exact hrec

/-- every result extends the current path -/
theorem dfs_prefix (adj : Nat → List Nat) (s : Nat) : ∀ (fuel : Nat) (p : List Nat),
    ∀ c ∈ dfs adj s fuel p, p.reverse <+: c := by
  intro fuel
  induction fuel with
  | zero => intro p c hc; simp [dfs] at hc
  | succ n ih =>
    intro p c hc
    cases p with
    | nil => simp [dfs] at hc
    | cons cur path =>
      simp only [dfs, List.mem_flatMap] at hc
      obtain ⟨w, _, hc⟩ := hc
      by_cases h1 : w = s
      · simp only [h1, if_true, List.mem_singleton] at hc
        subst hc; exact List.prefix_refl _
      · simp only [h1, if_false] at hc
        split at hc
        · have := ih _ c hc
          refine List.IsPrefix.trans ?_ this
          simp
        · simp at hc

/-- no cycle is reported twice -/
theorem dfs_nodup (adj : Nat → List Nat) (hadj : ∀ v, (adj v).Nodup) (s : Nat) :
    ∀ (fuel : Nat) (p : List Nat), (dfs adj s fuel p).Nodup := by
  intro fuel
  induction fuel with
  | zero => intro p; simp [dfs]
  | succ n ih =>
    intro p
    cases p with
    | nil => simp [dfs]
    | cons cur path =>
      simp only [dfs]
      rw [List.nodup_flatMap]
      refine ⟨?_, ?_⟩
      · intro w _
        by_cases h1 : w = s
        · simp [h1]
        · simp only [h1, if_false]
          split
          · exact ih _
          · simp
      · refine List.Pairwise.imp_of_mem ?_ (hadj cur)
        intro a b _ _ hab
        intro c hca hcb
        -- classify c by which neighbour produced it
        have key : ∀ w, c ∈ (if w = s then [(cur :: path).reverse]
              else if s < w ∧ w ∉ cur :: path then dfs adj s n (w :: cur :: path) else []) →
            (w = s ∧ c = (cur :: path).reverse) ∨ (w ≠ s ∧ (w :: cur :: path).reverse <+: c) := by
          intro w hc
          by_cases h1 : w = s
          · simp only [h1, if_true, List.mem_singleton] at hc
            exact Or.inl ⟨h1, hc⟩
          · simp only [h1, if_false] at hc
            split at hc
            · exact Or.inr ⟨h1, dfs_prefix adj s n _ c hc⟩
            · simp at hc
        rcases key a hca with ⟨ha, hca'⟩ | ⟨ha, hpa⟩ <;> rcases key b hcb with ⟨hb, hcb'⟩ | ⟨hb, hpb⟩
        · exact hab (ha.trans hb.symm)
        · -- c = path.reverse but also has a longer prefix
          have hl := hpb.length_le
          rw [hca'] at hl; simp at hl
        · have hl := hpa.length_le
          rw [hcb'] at hl; simp at hl
        · -- both prefixes of c of the same length: equal, hence a = b
          have h1 : (a :: cur :: path).reverse = (b :: cur :: path).reverse :=
            List.prefix_of_prefix_length_le hpa hpb (by simp) |>.eq_of_length (by simp)
          have : a :: cur :: path = b :: cur :: path := List.reverse_injective h1
          exact hab (List.cons.inj this).1


end XL

namespace XL

theorem good_init (adj : Nat → List Nat) (s : Nat) : Good adj s [s] where
  path := RPath.single s
  nodup := by simp
  last := by simp
  min := by intro v hv; simp at hv; exact Or.inl hv

/-- every reported list is an elementary cycle (given as the reversal of a reversed cycle through its
smallest vertex) -/
theorem cycles_sound (adj : Nat → List Nat) (n : Nat) (c : List Nat) (h : c ∈ cycles adj n) :
    ∃ s q, s < n ∧ c = q.reverse ∧ RCycle adj s q := by
  simp only [cycles, List.mem_flatMap, List.mem_range, cyclesFrom] at h
  obtain ⟨s, hs, hc⟩ := h
  obtain ⟨q, hq, hr⟩ := dfs_sound adj s n [s] (good_init adj s) c hc
  exact ⟨s, q, hs, hq, hr⟩

theorem head_of_result (adj : Nat → List Nat) (s : Nat) (fuel : Nat) (c : List Nat)
    (h : c ∈ dfs adj s fuel [s]) : c.head? = some s := by
  have := dfs_prefix adj s fuel [s] c h
  obtain ⟨t, ht⟩ := this
  simp at ht
  rw [← ht]; rfl

/-- no cycle is reported twice (adjacency lists without repetition) -/
theorem cycles_nodup (adj : Nat → List Nat) (hadj : ∀ v, (adj v).Nodup) (n : Nat) : (cycles adj n).Nodup := by
  unfold cycles
  rw [List.nodup_flatMap]
  refine ⟨fun s _ => dfs_nodup adj hadj s n [s], ?_⟩
  refine List.Pairwise.imp_of_mem ?_ (List.nodup_range (n := n))
  intro a b _ _ hab c hca hcb
  have h1 := head_of_result adj a n c hca
  have h2 := head_of_result adj b n c hcb
  rw [h1] at h2
  exact hab (Option.some.inj h2)

/-- every elementary cycle whose vertices are below `n` is reported (as the rotation that starts at
its smallest vertex `s`) -/
theorem cycles_complete (adj : Nat → List Nat) (n s : Nat) (q : List Nat) (hs : s < n)
    (hq : RCycle adj s q) (hlen : q.length ≤ n) : q.reverse ∈ cycles adj n := by
  simp only [cycles, List.mem_flatMap, List.mem_range, cyclesFrom]
  refine ⟨s, hs, ?_⟩
  -- q = ext.reverse ++ [s]
  have hne : q ≠ [] := by
    intro e; have := hq.last; simp [e] at this
  obtain ⟨ext', hext⟩ : ∃ e, q = e ++ [s] := by
    have hl := hq.last
    refine ⟨q.dropLast, ?_⟩
    have := List.dropLast_append_getLast hne
    rw [← this]
    congr 1
    simp
    have h2 : q.getLast? = some (q.getLast hne) := List.getLast?_eq_some_getLast hne
    rw [h2] at hl
    simpa using hl
  have hq' : RCycle adj s (ext'.reverse.reverse ++ s :: []) := by simpa [hext] using hq
  have := dfs_complete adj s ext'.reverse n s [] (by
    have : q.length = ext'.length + 1 := by simp [hext]
    simp; omega) hq'
  simpa [hext] using this

end XL

namespace XL

/-- an elementary cycle over vertices `< n` has at most `n` vertices -/
theorem cycle_length_le (n : Nat) (q : List Nat) (hnd : q.Nodup) (hlt : ∀ v ∈ q, v < n) : q.length ≤ n := by
  have := (List.subperm_of_subset hnd (fun v hv => List.mem_range.mpr (hlt v hv))).length_le
  simpa using this

/-- completeness without the length hypothesis -/
theorem cycles_complete' (adj : Nat → List Nat) (n s : Nat) (q : List Nat) (hs : s < n)
    (hq : RCycle adj s q) (hlt : ∀ v ∈ q, v < n) : q.reverse ∈ cycles adj n :=
  cycles_complete adj n s q hs hq (cycle_length_le n q hq.nodup hlt)

end XL
