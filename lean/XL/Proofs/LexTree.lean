import XL.Proofs.LexText
import XL.Proofs.ParseMin
/-!
# Precedence and associativity determine the tree — on the formula text

`CT` are compact formula trees: unsigned integer literals, cell names, string literals without embedded
quotes, the twelve binary operators, prefix signs, `%`, calls of functions whose name consists of capital
letters (not starting with `T` or `F`: the Number filter tries `TRUE`/`FALSE` first).  `CT.spec` is their
compact spelling — no blanks, parentheses where precedence and left-to-right grouping need them, and in the two
places where the *text* needs more than the token grammar: around a percentage of a percentage (`%%` is not
an operator), and around an operand of `+`/`-` that begins with a sign (the pinned code folds sign runs by
parity: known finding `sign-run`).

`spec_sp`: the compact spelling is a spelling (`XL.Sp`).  `safe_spec`: every token in it is delimited by
what follows.  `compact_text_parses`: the parser model reads the text back as the tree.
-/
namespace XL.LexText
open XL

/-- compact formula trees: what the text-level theorem quantifies over -/
inductive CT
  | num (d : List Char)
  | cell (ls ds : List Char)
  | str (body : List Char)
  | bin (name : String) (a b : CT)
  | neg (minus : Bool) (a : CT)
  | pct (a : CT)
  | call (name : List Char) (args : List CT)

def signName (m : Bool) : String := if m then "u-" else "u+"

mutual
def CT.toAst : CT → Ast
  | .num d => .operand .num (String.ofList d)
  | .cell ls ds => .operand .range (String.ofList (ls ++ ds))
  | .str body => .operand .str (String.ofList body)
  | .bin name a b => .op name [a.toAst, b.toAst]
  | .neg m a => .op (signName m) [a.toAst]
  | .pct a => .op "%" [a.toAst]
  | .call name args => .call (String.ofList name) (CT.toAsts args)
def CT.toAsts : List CT → List Ast
  | [] => []
  | a :: rest => a.toAst :: CT.toAsts rest
end

/-- strength of the outermost operator -/
def CT.q : CT → Nat
  | .bin name _ _ => prec name
  | .neg _ _ => 7
  | .pct _ => 6
  | _ => 9

/-- the minimal spelling would begin with a sign -/
def CT.startsSign : CT → Bool
  | .neg _ _ => true
  | .pct a => decide (6 < a.q) && a.startsSign
  | .bin name a _ => decide (prec name ≤ a.q) && a.startsSign
  | _ => false

def wrapS (c : Bool) (ss : List TS) : List TS := if c then TS.lp :: (ss ++ [TS.rp]) else ss

mutual
/-- the compact spelling: parentheses where precedence and left-to-right grouping need them, around a
percentage of a percentage, and around an operand of `+`/`-` that begins with a sign -/
def CT.spec : CT → List TS
  | .num d => [.num d]
  | .cell ls ds => [.cell ls ds]
  | .str body => [.str body]
  | .bin name a b =>
    wrapS (decide (a.q < prec name)) a.spec ++ TS.bin name ::
      wrapS (decide (b.q ≤ prec name) || ((name == "+" || name == "-") && b.startsSign)) b.spec
  | .neg m a => TS.sign m :: wrapS (decide (a.q ≤ 7)) a.spec
  | .pct a => wrapS (decide (a.q ≤ 6)) a.spec ++ [TS.pct]
  | .call name args => TS.fn name :: (CT.specArgs args ++ [TS.rp])
def CT.specArgs : List CT → List TS
  | [] => []
  | [a] => a.spec
  | a :: b :: rest => a.spec ++ TS.sep :: CT.specArgs (b :: rest)
end

inductive CT.WF : CT → Prop
  | num (d : List Char) : d ≠ [] → (∀ c ∈ d, c ∈ digitsL) → CT.WF (.num d)
  | cell (ls ds : List Char) : CellName ls ds → CT.WF (.cell ls ds)
  | str (body : List Char) : (∀ c ∈ body, c ∈ strL) → CT.WF (.str body)
  | bin (name : String) (a b : CT) : name ∈ binNames → CT.WF a → CT.WF b → CT.WF (.bin name a b)
  | neg (m : Bool) (a : CT) : CT.WF a → CT.WF (.neg m a)
  | pct (a : CT) : CT.WF a → CT.WF (.pct a)
  | call (name : List Char) (args : List CT) : (∃ n0 nt, name = n0 :: nt ∧ n0 ∈ fnFirstL) → (∀ c ∈ name, c ∈ upperL) →
      (∀ a ∈ args, CT.WF a) → CT.WF (.call name args)


/-! ### the compact spelling is a spelling (token level) -/

theorem map_wrapS (c : Bool) (ss : List TS) : (wrapS c ss).map TS.tok = wrapT c (ss.map TS.tok) := by
  cases c <;> simp [wrapS, wrapT, TS.tok]

theorem spec_ne_nil (ct : CT) : ct.spec ≠ [] := by
  cases ct <;> simp [CT.spec]

theorem q_le (ct : CT) (h : CT.WF ct) : ct.q ≤ 9 := by
  cases h with
  | bin name a b hn _ _ => have := (prec_bin name hn).2; simp [CT.q]; omega
  | _ => simp [CT.q]

theorem specArgs_map (args : List CT) :
    (CT.specArgs args).map TS.tok = joinSep (args.map fun a => a.spec.map TS.tok) := by
  match args with
  | [] => simp [CT.specArgs, joinSep]
  | [a] => simp [CT.specArgs, joinSep]
  | a :: b :: rest =>
    have ih := specArgs_map (b :: rest)
    simp only [CT.specArgs, List.map_append, List.map_cons, joinSep, TS.tok] at ih ⊢
    rw [ih]

theorem toAsts_map (args : List CT) : CT.toAsts args = args.map CT.toAst := by
  induction args with
  | nil => rfl
  | cons a t ih => simp [CT.toAsts, ih]

theorem sp_wrapS (t : Ast) (ss : List TS) (q p : Nat) (c : Bool) (h : Sp t (ss.map TS.tok) q) (hp : p ≤ 9) (hc : c = false → p ≤ q) :
    ∃ q', Sp t ((wrapS c ss).map TS.tok) q' ∧ p ≤ q' := by
  rw [map_wrapS]
  exact sp_wrap t _ q p c h hp hc

theorem spec_sp (ct : CT) (h : CT.WF ct) : Sp ct.toAst (ct.spec.map TS.tok) ct.q := by
  induction h with
  | num d _ _ => simp only [CT.toAst, CT.spec, CT.q, List.map_cons, List.map_nil, TS.tok]; exact Sp.operand _ _
  | cell ls ds _ => simp only [CT.toAst, CT.spec, CT.q, List.map_cons, List.map_nil, TS.tok]; exact Sp.operand _ _
  | str body _ => simp only [CT.toAst, CT.spec, CT.q, List.map_cons, List.map_nil, TS.tok]; exact Sp.operand _ _
  | bin name a b hn _ _ iha ihb =>
    obtain ⟨_, hp5⟩ := prec_bin name hn
    simp only [CT.toAst, CT.spec, CT.q, List.map_append, List.map_cons, TS.tok]
    obtain ⟨qa, ha, hqa⟩ := sp_wrapS a.toAst a.spec a.q (prec name) (decide (a.q < prec name)) iha (by omega)
      (by intro h; simp at h; exact h)
    obtain ⟨qb, hb, hqb⟩ := sp_wrapS b.toAst b.spec b.q (prec name + 1)
      (decide (b.q ≤ prec name) || ((name == "+" || name == "-") && b.startsSign)) ihb (by omega)
      (by intro h; simp at h; omega)
    exact Sp.bin name _ _ _ _ qa qb hn ha hb hqa (by omega)
  | neg m a _ ih =>
    have hs : signName m ∈ signNames := by cases m <;> simp [signName, signNames]
    have hsym : TS.tok (.sign m) = .opr (signSym (signName m)) := by cases m <;> simp [TS.tok, signName, signSym]
    simp only [CT.toAst, CT.spec, CT.q, List.map_cons, hsym]
    obtain ⟨qa, ha, hqa⟩ := sp_wrapS a.toAst a.spec a.q 8 (decide (a.q ≤ 7)) ih (by omega) (by intro h; simp at h; omega)
    exact Sp.sign _ _ _ qa hs ha (by omega)
  | pct a _ ih =>
    simp only [CT.toAst, CT.spec, CT.q, List.map_append, List.map_cons, List.map_nil, TS.tok]
    obtain ⟨qa, ha, hqa⟩ := sp_wrapS a.toAst a.spec a.q 7 (decide (a.q ≤ 6)) ih (by omega) (by intro h; simp at h; omega)
    exact Sp.percent _ _ qa ha (by omega)
  | call name args _ _ _ ih =>
    simp only [CT.toAst, CT.spec, CT.q, List.map_cons, List.map_append, List.map_nil, TS.tok, specArgs_map, toAsts_map]
    have := Sp.call (String.ofList name) (args.map fun a => (a.toAst, a.spec.map TS.tok, a.q))
      (by
        intro x hx _
        obtain ⟨a, ha, rfl⟩ := List.mem_map.mp hx
        exact ih a ha)
      (by
        intro x hx hnil
        obtain ⟨a, ha, rfl⟩ := List.mem_map.mp hx
        simp only [List.map_eq_nil_iff] at hnil
        exact absurd hnil (spec_ne_nil a))
      (by
        intro x hl
        cases args with
        | nil => simp at hl
        | cons a rest =>
          cases rest with
          | cons b r => simp at hl
          | nil =>
            simp only [List.map_cons, List.map_nil, List.cons.injEq, and_true] at hl
            subst hl
            simp [spec_ne_nil a])
    simpa [List.map_map, Function.comp_def] using this


/-! ### the compact spelling is delimited (character level) -/

theorem textOf_append (a b : List TS) : textOf (a ++ b) = textOf a ++ textOf b := by
  induction a with
  | nil => rfl
  | cons x t ih => simp [textOf, ih]

theorem safeT_append (a b : List TS) (tail : List Char) (ha : SafeT a (textOf b ++ tail)) (hb : SafeT b tail) :
    SafeT (a ++ b) tail := by
  induction a with
  | nil => exact hb
  | cons x t ih =>
    cases ha with
    | cons _ _ _ hwf hnext hrest =>
      refine SafeT.cons x (t ++ b) tail hwf ?_ (ih hrest)
      rw [textOf_append, List.append_assoc]
      exact hnext

theorem atom_digit (c : Char) (h : c ∈ digitsL) : c ∈ startAtom := by simp [startAtom, h]
theorem atom_upper (c : Char) (h : c ∈ upperL) : c ∈ startAtom := by simp [startAtom, h]

theorem atom_q (ct : CT) (h : CT.WF ct) (hq : 7 < ct.q) : ct.startsSign = false := by
  cases h with
  | bin name a b hn _ _ => have := (prec_bin name hn).2; simp [CT.q] at hq; omega
  | neg m a _ => simp [CT.q] at hq
  | pct a _ => simp [CT.q] at hq
  | _ => rfl

/-- the compact spelling starts an operand; with an atom unless it begins with a sign -/
theorem starts (ct : CT) (h : CT.WF ct) : ∀ rest, StartsOperand (textOf ct.spec ++ rest) ∧
    (ct.startsSign = false → StartsAtom (textOf ct.spec ++ rest)) := by
  induction h with
  | num d hne hd =>
    intro rest
    cases d with
    | nil => exact absurd rfl hne
    | cons a b =>
      have := atom_digit a (hd a (by simp))
      exact ⟨⟨a, b ++ rest, by simp [CT.spec, textOf, TS.text], Or.inl this⟩, fun _ => ⟨a, b ++ rest, by simp [CT.spec, textOf, TS.text], this⟩⟩
  | cell ls ds hc =>
    intro rest
    cases ls with
    | nil => have := hc.nLetters.1; simp at this
    | cons a b =>
      have := atom_upper a (hc.letters a (by simp))
      exact ⟨⟨a, b ++ ds ++ rest, by simp [CT.spec, textOf, TS.text], Or.inl this⟩, fun _ => ⟨a, b ++ ds ++ rest, by simp [CT.spec, textOf, TS.text], this⟩⟩
  | str body _ =>
    intro rest
    have : '"' ∈ startAtom := by decide
    exact ⟨⟨'"', body ++ '"' :: rest, by simp [CT.spec, textOf, TS.text], Or.inl this⟩, fun _ => ⟨'"', body ++ '"' :: rest, by simp [CT.spec, textOf, TS.text], this⟩⟩
  | bin name a b _ _ _ iha _ =>
    intro rest
    have hlp : '(' ∈ startAtom := by decide
    by_cases hw : a.q < prec name
    · have e : textOf (CT.spec (.bin name a b)) ++ rest = '(' :: (textOf a.spec ++ ')' :: (opText name ++ textOf (wrapS (decide (b.q ≤ prec name) || ((name == "+" || name == "-") && b.startsSign)) b.spec) ++ rest)) := by
        simp [CT.spec, wrapS, hw, textOf, textOf_append, TS.text]
      rw [e]
      exact ⟨⟨'(', _, rfl, Or.inl hlp⟩, fun _ => ⟨'(', _, rfl, hlp⟩⟩
    · have e : textOf (CT.spec (.bin name a b)) ++ rest = textOf a.spec ++ (opText name ++ textOf (wrapS (decide (b.q ≤ prec name) || ((name == "+" || name == "-") && b.startsSign)) b.spec) ++ rest) := by
        simp [CT.spec, wrapS, hw, textOf, textOf_append, TS.text]
      rw [e]
      have hs : CT.startsSign (.bin name a b) = a.startsSign := by
        have : prec name ≤ a.q := by omega
        simp [CT.startsSign, this]
      rw [hs]
      exact iha _
  | neg m a _ _ =>
    intro rest
    have e : textOf (CT.spec (.neg m a)) ++ rest = (if m then '-' else '+') :: (textOf (wrapS (decide (a.q ≤ 7)) a.spec) ++ rest) := by
      simp [CT.spec, textOf, TS.text]
    refine ⟨⟨if m then '-' else '+', _, e, ?_⟩, fun h => by simp [CT.startsSign] at h⟩
    cases m <;> simp
  | pct a _ iha =>
    intro rest
    have hlp : '(' ∈ startAtom := by decide
    by_cases hw : a.q ≤ 6
    · have e : textOf (CT.spec (.pct a)) ++ rest = '(' :: (textOf a.spec ++ ')' :: '%' :: rest) := by
        simp [CT.spec, wrapS, hw, textOf, textOf_append, TS.text]
      rw [e]
      exact ⟨⟨'(', _, rfl, Or.inl hlp⟩, fun _ => ⟨'(', _, rfl, hlp⟩⟩
    · have e : textOf (CT.spec (.pct a)) ++ rest = textOf a.spec ++ ('%' :: rest) := by
        simp [CT.spec, wrapS, hw, textOf, textOf_append, TS.text]
      rw [e]
      have hs : CT.startsSign (.pct a) = a.startsSign := by
        have : 6 < a.q := by omega
        simp [CT.startsSign, this]
      rw [hs]
      exact iha _
  | call name args hname hall _ _ =>
    intro rest
    obtain ⟨n0, nt, rfl, hn0⟩ := hname
    have := atom_upper n0 (hall n0 (by simp))
    have e : textOf (CT.spec (.call (n0 :: nt) args)) ++ rest = n0 :: (nt ++ '(' :: (textOf (CT.specArgs args ++ [TS.rp]) ++ rest)) := by
      simp [CT.spec, textOf, TS.text]
    exact ⟨⟨n0, _, e, Or.inl this⟩, fun _ => ⟨n0, _, e, this⟩⟩


theorem okAfter_cons (c : Char) (r : List Char) (h : c ∈ afterOperand) : OkAfter (c :: r) := Or.inr ⟨c, r, rfl, h⟩

theorem opText_head (name : String) (hn : name ∈ binNames) :
    ∃ x t, opText name = x :: t ∧ x ∈ afterOperand ∧ x ≠ '%' := by
  simp only [binNames, List.mem_cons, List.not_mem_nil, or_false] at hn
  rcases hn with rfl | rfl | rfl | rfl | rfl | rfl | rfl | rfl | rfl | rfl | rfl | rfl <;>
    exact ⟨_, _, rfl, by decide, by decide⟩

theorem bin_wf (name : String) (hn : name ∈ binNames) : (TS.bin name).WF := by
  simp only [binNames, List.mem_cons, List.not_mem_nil, or_false] at hn
  simp only [TS.WF, opsNoPM, List.mem_cons, List.not_mem_nil, or_false]
  rcases hn with rfl | rfl | rfl | rfl | rfl | rfl | rfl | rfl | rfl | rfl | rfl | rfl <;> simp

/-- what the delimiting of a sub-tree needs from the text behind it -/
def TailOK (ct : CT) (tail : List Char) : Prop := OkAfter tail ∧ ∀ r, tail = '%' :: r → 6 < ct.q

/-- a parenthesised sub-tree -/
theorem safe_wrapped (a : CT) (ha : CT.WF a) (ih : ∀ tail, TailOK a tail → SafeT a.spec tail) (tail : List Char) (ht : OkAfter tail) :
    SafeT (wrapS true a.spec) tail := by
  simp only [wrapS, if_true]
  refine SafeT.cons .lp _ tail trivial ?_ ?_
  · simp only [TS.okNext, textOf_append, List.append_assoc]
    exact (starts a ha _).1
  · apply safeT_append
    · apply ih
      refine ⟨?_, ?_⟩
      · simp only [textOf, TS.text, List.append_nil, List.cons_append, List.nil_append]
        exact okAfter_cons ')' tail (by decide)
      · intro r hr
        simp [textOf, TS.text] at hr
    · exact SafeT.cons .rp [] tail trivial (by simpa [TS.okNext, textOf] using ht) (SafeT.nil tail)

/-- a sub-tree in parentheses or, when its own strength allows it, bare -/
theorem safe_wrapS (c : Bool) (a : CT) (ha : CT.WF a) (ih : ∀ tail, TailOK a tail → SafeT a.spec tail) (tail : List Char)
    (ht : OkAfter tail) (hbare : c = false → ∀ r, tail = '%' :: r → 6 < a.q) : SafeT (wrapS c a.spec) tail := by
  cases c with
  | true => exact safe_wrapped a ha ih tail ht
  | false => simp only [wrapS]; exact ih tail ⟨ht, hbare rfl⟩


/-- the arguments of a call, each delimited by the comma or the closing parenthesis behind it -/
theorem safe_args : ∀ (args : List CT), (∀ a ∈ args, CT.WF a) → (∀ a ∈ args, ∀ tail, TailOK a tail → SafeT a.spec tail) →
    ∀ tail, SafeT (CT.specArgs args) (')' :: tail)
  | [], _, _, tail => SafeT.nil _
  | [a], _, ih, tail => by
    simp only [CT.specArgs]
    exact ih a (by simp) _ ⟨okAfter_cons ')' tail (by decide), by intro r hr; simp at hr⟩
  | a :: b :: rest, hw, ih, tail => by
    simp only [CT.specArgs]
    apply safeT_append
    · apply ih a (by simp)
      refine ⟨?_, ?_⟩
      · simp only [textOf, TS.text, List.cons_append, List.nil_append]
        exact okAfter_cons ',' _ (by decide)
      · intro r hr; simp [textOf, TS.text] at hr
    · refine SafeT.cons .sep _ _ trivial ?_ (safe_args (b :: rest) (fun x hx => hw x (by simp [hx])) (fun x hx => ih x (by simp [hx])) tail)
      simp only [TS.okNext]
      left
      have : ∃ ss, CT.specArgs (b :: rest) = b.spec ++ ss := by
        cases rest with
        | nil => exact ⟨[], by simp [CT.specArgs]⟩
        | cons c r => exact ⟨TS.sep :: CT.specArgs (c :: r), by simp [CT.specArgs]⟩
      obtain ⟨ss, hss⟩ := this
      rw [hss, textOf_append, List.append_assoc]
      exact (starts b (hw b (by simp)) _).1

/-- **the compact spelling of every well-formed tree is delimited** -/
theorem safe_spec (ct : CT) (h : CT.WF ct) : ∀ tail, TailOK ct tail → SafeT ct.spec tail := by
  induction h with
  | num d hne hd =>
    intro tail ht
    exact SafeT.cons (.num d) [] tail ⟨hne, hd⟩ (by simpa [TS.okNext, textOf] using ht.1) (SafeT.nil _)
  | cell ls ds hc =>
    intro tail ht
    exact SafeT.cons (.cell ls ds) [] tail hc (by simpa [TS.okNext, textOf] using ht.1) (SafeT.nil _)
  | str body hb =>
    intro tail ht
    exact SafeT.cons (.str body) [] tail hb (by simpa [TS.okNext, textOf] using ht.1) (SafeT.nil _)
  | bin name a b hn ha hb iha ihb =>
    intro tail ht
    obtain ⟨x, t, hxt, hxa, hxp⟩ := opText_head name hn
    have hp5 := (prec_bin name hn).2
    simp only [CT.spec]
    apply safeT_append
    · -- the left operand, in front of the operator symbol
      apply safe_wrapS _ a ha iha
      · simp only [textOf, TS.text, hxt, List.cons_append]
        exact okAfter_cons x _ hxa
      · intro _ r hr
        simp only [textOf, TS.text, hxt, List.cons_append, List.cons.injEq] at hr
        exact absurd hr.1 hxp
    · refine SafeT.cons (.bin name) _ tail (bin_wf name hn) ?_ ?_
      · -- the operator symbol, in front of the right operand
        simp only [TS.okNext]
        by_cases hw : (decide (b.q ≤ prec name) || ((name == "+" || name == "-") && b.startsSign)) = true
        · have hlp : '(' ∈ startAtom := by decide
          have e : textOf (wrapS (decide (b.q ≤ prec name) || ((name == "+" || name == "-") && b.startsSign)) b.spec) ++ tail =
              '(' :: (textOf b.spec ++ ')' :: tail) := by
            simp [wrapS, hw, textOf, textOf_append, TS.text]
          rw [e]
          split
          · exact ⟨'(', _, rfl, hlp⟩
          · exact ⟨'(', _, rfl, Or.inl hlp⟩
        · have hw' : (decide (b.q ≤ prec name) || ((name == "+" || name == "-") && b.startsSign)) = false := by
            cases hh : (decide (b.q ≤ prec name) || ((name == "+" || name == "-") && b.startsSign)) with
            | true => exact absurd hh hw
            | false => rfl
          simp only [hw', wrapS, Bool.false_eq_true, if_false]
          split
          · rename_i hpm
            have hss : b.startsSign = false := by
              have hpm' : (name == "+" || name == "-") = true := by
                rcases hpm with rfl | rfl <;> decide
              simp only [Bool.or_eq_false_iff, hpm', Bool.true_and] at hw'
              exact hw'.2
            exact (starts b hb tail).2 hss
          · exact (starts b hb tail).1
      · -- the right operand
        apply safe_wrapS _ b hb ihb tail ht.1
        intro _ r hr
        have := ht.2 r hr
        simp only [CT.q] at this
        omega
  | neg m a ha iha =>
    intro tail ht
    simp only [CT.spec]
    refine SafeT.cons (.sign m) _ tail trivial ?_ ?_
    · simp only [TS.okNext]
      by_cases hw : a.q ≤ 7
      · have hlp : '(' ∈ startAtom := by decide
        have e : textOf (wrapS (decide (a.q ≤ 7)) a.spec) ++ tail = '(' :: (textOf a.spec ++ ')' :: tail) := by
          simp [wrapS, hw, textOf, textOf_append, TS.text]
        rw [e]
        exact ⟨'(', _, rfl, hlp⟩
      · simp only [wrapS, hw, decide_false, Bool.false_eq_true, if_false]
        exact (starts a ha tail).2 (atom_q a ha (by omega))
    · apply safe_wrapS _ a ha iha tail ht.1
      intro hc r _
      simp at hc
      omega
  | pct a ha iha =>
    intro tail ht
    simp only [CT.spec]
    apply safeT_append
    · apply safe_wrapS _ a ha iha
      · simp only [textOf, TS.text, List.cons_append, List.nil_append]
        exact okAfter_cons '%' _ (by decide)
      · intro hc r _
        simp at hc
        omega
    · refine SafeT.cons .pct [] tail trivial ?_ (SafeT.nil _)
      simp only [TS.okNext, textOf, List.nil_append]
      refine ⟨ht.1, ?_⟩
      intro c r hr hc
      subst hc
      have := ht.2 r hr
      simp [CT.q] at this
  | call name args hname hall hw ih =>
    intro tail ht
    simp only [CT.spec]
    refine SafeT.cons (.fn name) _ tail ⟨hname, hall⟩ ?_ ?_
    · simp only [TS.okNext]
      cases args with
      | nil => right; exact ⟨tail, Or.inr (by simp [CT.specArgs, textOf, TS.text])⟩
      | cons a rest =>
        left
        have : ∃ ss, CT.specArgs (a :: rest) = a.spec ++ ss := by
          cases rest with
          | nil => exact ⟨[], by simp [CT.specArgs]⟩
          | cons c r => exact ⟨TS.sep :: CT.specArgs (c :: r), by simp [CT.specArgs]⟩
        obtain ⟨ss, hss⟩ := this
        rw [hss, List.append_assoc, textOf_append, List.append_assoc]
        exact (starts a (hw a (by simp)) _).1
    · apply safeT_append
      · have := safe_args args hw ih tail
        simpa [textOf, TS.text] using this
      · exact SafeT.cons .rp [] tail trivial (by simpa [TS.okNext, textOf] using ht.1) (SafeT.nil _)


/-- the characters of the compact spelling -/
def CT.text (ct : CT) : List Char := '=' :: textOf ct.spec

/-- **precedence and associativity determine the tree, on the formula text**: the parser model — the
tokeniser loop with its ten filters and the shunting-yard they drive — reads the compact spelling of every
well-formed tree back as that tree -/
theorem compact_text_parses (ct : CT) (h : CT.WF ct) : parseString ct.text = .ok ct.toAst :=
  parse_text ct.spec (safe_spec ct h [] ⟨Or.inl rfl, by intro r hr; cases hr⟩) (spec_ne_nil ct) _
    (parse_spelling _ _ _ (spec_sp ct h))

end XL.LexText
