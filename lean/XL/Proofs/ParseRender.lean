import XL.Model.Syntax
/-!
# The parser reads back the fully parenthesised token rendering of every canonical tree

`toks t` is the token form of `render t` (what `set_expr` exports): a binary operator with its
operands in parentheses, a prefix sign directly before its operand, `%` directly after, a call with
its arguments separated by commas.  `Canon t` describes the trees the parser can build from such
text: a sign applies to an operand, a parenthesised expression or a call (never directly to another
sign or to a percentage — `--x` and `-x%` group differently, the known findings `sign-run` and the
`(−x)%` reading), `%` applies to anything.

Main theorem: `parseToks (toks t) = .ok t` for every canonical tree, by induction on the tree
(`run_toks`: what the state machine has done after the tokens of a sub-tree).
-/
namespace XL

def binNames : List String := ["+", "-", "*", "/", "^", "&", "=", "<>", "<", "<=", ">", ">="]
def signNames : List String := ["u-", "u+"]

/-- symbol written for a sign -/
def signSym (n : String) : String := if n = "u-" then "-" else "+"

mutual
def toks : Ast → List Tok
  | .operand k text => [.operand k text]
  | .op name args =>
    if name = "%" then toksArgsPlain args ++ [.opr "%"]
    else if name ∈ signNames then .opr (signSym name) :: toksArgsPlain args
    else .lp :: toksBin name args ++ [.rp]
  | .call name args => .fn name :: toksSep args ++ [.rp]
/-- the single operand of a unary operator -/
def toksArgsPlain : List Ast → List Tok
  | [] => []
  | a :: rest => toks a ++ toksArgsPlain rest
/-- `a op b` -/
def toksBin (name : String) : List Ast → List Tok
  | [] => []
  | [a] => toks a
  | a :: rest => toks a ++ [.opr name] ++ toksBin name rest
/-- arguments separated by commas -/
def toksSep : List Ast → List Tok
  | [] => []
  | [a] => toks a
  | a :: rest => toks a ++ [.sep] ++ toksSep rest
end

def isAtom : Ast → Bool
  | .operand _ _ => true
  | .call _ _ => true
  | .op name _ => name ∈ binNames

inductive Canon : Ast → Prop
  | operand (k : OKind) (text : String) : Canon (.operand k text)
  | bin (name : String) (a b : Ast) : name ∈ binNames → Canon a → Canon b → Canon (.op name [a, b])
  | sign (name : String) (a : Ast) : name ∈ signNames → Canon a → isAtom a = true → Canon (.op name [a])
  | percent (a : Ast) : Canon a → Canon (.op "%" [a])
  | call (name : String) (args : List Ast) : (∀ a ∈ args, Canon a) → Canon (.call name args)

/-- operators left on the stack after the tokens of a tree (applied later, innermost first) -/
def pend : Ast → List String
  | .op name _ => if name = "%" then ["%"] else if name ∈ signNames then [name] else []
  | _ => []

/-- what lies on the builder after the tokens of a tree -/
def core : Ast → Ast
  | .op name [a] => if name = "%" ∨ name ∈ signNames then a else .op name [a]
  | t => t

def prevAfter : Ast → Prev
  | .operand _ _ => .operand
  | .call _ _ => .rparen
  | .op name [a] => if name = "%" then .percent else if name ∈ signNames then prevAfter a else .rparen
  | .op _ _ => .rparen

/-- the state expects an operand -/
def Expects (p : Prev) : Prop := p = .lparen ∨ p = .sep ∨ p = .opr

/-- the top of the stack does not capture a sign: an opening parenthesis or a binary operator -/
def okTop : List SItem → Prop
  | .lp _ _ _ :: _ => True
  | .op n :: _ => n ∈ binNames
  | _ => False

end XL

namespace XL

/-! ### running token lists -/

theorem runToks_append (xs ys : List Tok) : ∀ (s s1 : PState), runToks xs s = .ok s1 → runToks (xs ++ ys) s = runToks ys s1 := by
  induction xs with
  | nil => intro s s1 h; simp only [runToks] at h; cases h; rfl
  | cons t ts ih =>
    intro s s1 h
    simp only [List.cons_append, runToks] at h ⊢
    cases hs : step s t with
    | error e => rw [hs] at h; cases e <;> simp at h
    | ok s' =>
      rw [hs] at h
      simp only at h ⊢
      split at h
      · cases h
      · rename_i hne
        simp only [hne]
        exact ih s' s1 h

theorem runToks_single (t : Tok) (s s1 : PState) (h : step s t = .ok s1) (hne : s1.st ≠ []) : runToks [t] s = .ok s1 := by
  simp only [runToks, h]
  have : s1.st.isEmpty = false := by cases hs : s1.st with | nil => exact absurd hs hne | cons _ _ => rfl
  simp [this]

/-! ### facts read off the generated tables -/

theorem bin_table : binNames.all (fun n => (match precOf n with | some p => decide (p ≤ 5) | none => false) &&
    decide (arityOf n = 2) && !isRangeOp n && decide (n ≠ "%") && decide (n ∉ signNames)) = true := by decide

theorem bin_facts (n : String) (h : n ∈ binNames) :
    (∃ p, precOf n = some p ∧ p ≤ 5) ∧ arityOf n = 2 ∧ isRangeOp n = false ∧ n ≠ "%" ∧ n ∉ signNames := by
  have := List.all_eq_true.mp bin_table n h
  simp only [Bool.and_eq_true, decide_eq_true_eq, Bool.not_eq_true'] at this
  obtain ⟨⟨⟨⟨h1, h2⟩, h3⟩, h4⟩, h5⟩ := this
  refine ⟨?_, h2, h3, h4, h5⟩
  cases hp : precOf n with
  | none => simp [hp] at h1
  | some p => simp [hp] at h1; exact ⟨p, rfl, h1⟩

theorem bin_not_range (n : String) (h : n ∈ binNames) : (n = " " ∨ n = ":") = False := by
  simp only [binNames, List.mem_cons, List.not_mem_nil, or_false] at h
  rcases h with rfl | rfl | rfl | rfl | rfl | rfl | rfl | rfl | rfl | rfl | rfl | rfl <;> decide

theorem signSym_not_range (n : String) : (signSym n = " " ∨ signSym n = ":") = False := by
  unfold signSym; split <;> decide

theorem sign_facts (n : String) (h : n ∈ signNames) : precOf n = some 7 ∧ arityOf n = 1 ∧ isRangeOp n = false ∧ n ≠ "%" := by
  simp only [signNames, List.mem_cons, List.not_mem_nil, or_false] at h
  rcases h with rfl | rfl <;> decide

theorem percent_facts : precOf "%" = some 6 ∧ arityOf "%" = 1 ∧ isRangeOp "%" = false := by decide

end XL

namespace XL

/-! ### pending operators are applied by the next lower operator, separator or parenthesis -/

theorem pend_core_atom (a : Ast) (hc : Canon a) (ha : isAtom a = true) : pend a = [] ∧ core a = a := by
  cases hc with
  | operand k text => exact ⟨rfl, rfl⟩
  | bin name x y hn _ _ =>
    obtain ⟨_, _, _, h4, h5⟩ := bin_facts name hn
    simp [pend, core, h4, h5]
  | sign name x hn _ _ =>
    obtain ⟨_, _, _, _⟩ := sign_facts name hn
    simp only [isAtom] at ha
    have : name ∉ binNames := by
      simp only [signNames, List.mem_cons, List.not_mem_nil, or_false] at hn
      rcases hn with rfl | rfl <;> decide
    simp [this] at ha
  | percent x _ => simp [isAtom, binNames] at ha
  | call name args _ => exact ⟨rfl, rfl⟩

theorem applyOp_unary (name : String) (x : Ast) (out : List Ast) (h1 : arityOf name = 1) (h2 : isRangeOp name = false) :
    applyOp name (x :: out) = .ok (.op name [x] :: out) := by
  simp [applyOp, h1, h2]

theorem applyOp_binary (name : String) (x y : Ast) (out : List Ast) (h1 : arityOf name = 2) (h2 : isRangeOp name = false) :
    applyOp name (y :: x :: out) = .ok (.op name [x, y] :: out) := by
  simp [applyOp, h1, h2]

theorem flush_popWhile (a : Ast) (hc : Canon a) (p : Nat) (hp : p ≤ 6) (st0 : List SItem) (out : List Ast) :
    popWhile p ((pend a).map SItem.op ++ st0) (core a :: out) = popWhile p st0 (a :: out) := by
  cases hc with
  | operand k text => rfl
  | bin name x y hn hx hy =>
    obtain ⟨h1, h2⟩ := pend_core_atom _ (Canon.bin name x y hn hx hy) (by simp [isAtom, hn])
    rw [h1, h2]; rfl
  | call name args h =>
    rfl
  | sign name x hn hx hxa =>
    obtain ⟨h1, h2, h3, h4⟩ := sign_facts name hn
    have hpend : pend (.op name [x]) = [name] := by simp [pend, h4, hn]
    have hcore : core (.op name [x]) = x := by simp [core, hn]
    rw [hpend, hcore]
    simp only [List.map_cons, List.map_nil, List.cons_append, List.nil_append]
    conv => lhs; unfold popWhile
    have : ¬ (p > 7) := by omega
    simp only [h1, this, if_false, applyOp_unary name x out h2 h3]
  | percent x hx =>
    obtain ⟨h1, h2, h3⟩ := percent_facts
    have hpend : pend (.op "%" [x]) = ["%"] := by simp [pend]
    have hcore : core (.op "%" [x]) = x := by simp [core]
    rw [hpend, hcore]
    simp only [List.map_cons, List.map_nil, List.cons_append, List.nil_append]
    conv => lhs; unfold popWhile
    have : ¬ (p > 6) := by omega
    simp only [h1, this, if_false, applyOp_unary "%" x out h2 h3]

theorem flush_popToStart (a : Ast) (hc : Canon a) (st0 : List SItem) (out : List Ast) :
    popToStart ((pend a).map SItem.op ++ st0) (core a :: out) = popToStart st0 (a :: out) := by
  cases hc with
  | operand k text => rfl
  | bin name x y hn hx hy =>
    obtain ⟨h1, h2⟩ := pend_core_atom _ (Canon.bin name x y hn hx hy) (by simp [isAtom, hn])
    rw [h1, h2]; rfl
  | call name args h => rfl
  | sign name x hn hx hxa =>
    obtain ⟨h1, h2, h3, h4⟩ := sign_facts name hn
    have hpend : pend (.op name [x]) = [name] := by simp [pend, h4, hn]
    have hcore : core (.op name [x]) = x := by simp [core, hn]
    rw [hpend, hcore]
    simp only [List.map_cons, List.map_nil, List.cons_append, List.nil_append]
    conv => lhs; unfold popToStart
    simp only [applyOp_unary name x out h2 h3]
  | percent x hx =>
    obtain ⟨h1, h2, h3⟩ := percent_facts
    have hpend : pend (.op "%" [x]) = ["%"] := by simp [pend]
    have hcore : core (.op "%" [x]) = x := by simp [core]
    rw [hpend, hcore]
    simp only [List.map_cons, List.map_nil, List.cons_append, List.nil_append]
    conv => lhs; unfold popToStart
    simp only [applyOp_unary "%" x out h2 h3]

/-- after a canonical tree the previous token is an operand, a `)` or a `%` -/
theorem prevAfter_ok (a : Ast) (hc : Canon a) : prevAfter a = .operand ∨ prevAfter a = .rparen ∨ prevAfter a = .percent := by
  induction hc with
  | operand k text => exact Or.inl rfl
  | bin name x y hn _ _ _ _ => exact Or.inr (Or.inl rfl)
  | call name args _ _ => exact Or.inr (Or.inl rfl)
  | sign name x hn _ _ ih =>
    obtain ⟨_, _, _, h4⟩ := sign_facts name hn
    simp only [prevAfter, h4, if_false, hn, if_true]
    exact ih
  | percent x _ _ => right; right; simp [prevAfter]

end XL

namespace XL

/-! ### the main induction -/

def TopLO : List SItem → Prop
  | .lp _ _ _ :: _ => True
  | .op _ :: _ => True
  | _ => False

theorem topLO_ne (st : List SItem) (h : TopLO st) : bump st ≠ [] := by
  cases st with
  | nil => exact absurd h (by simp [TopLO])
  | cons x rest => cases x <;> simp [bump]

theorem runToks_cons (t : Tok) (ts : List Tok) (s s1 : PState) (h : step s t = .ok s1) (hne : s1.st ≠ []) :
    runToks (t :: ts) s = runToks ts s1 := by
  simp only [runToks, h]
  have : s1.st.isEmpty = false := by cases hs : s1.st with | nil => exact absurd hs hne | cons _ _ => rfl
  simp [this]

theorem popWhile_lp (p n : Nat) (c : Chk) (b : Bool) (st : List SItem) (out : List Ast) :
    popWhile p (.lp n c b :: st) out = .ok (.lp n c b :: st, out) := by
  unfold popWhile; rfl

theorem popWhile_okTop (p : Nat) (hp : 6 ≤ p) (st : List SItem) (h : okTop st) (out : List Ast) :
    popWhile p (bump st) out = .ok (bump st, out) := by
  cases st with
  | nil => exact absurd h (by simp [okTop])
  | cons x rest =>
    cases x with
    | lp n c b => simp only [bump]; exact popWhile_lp p (n + 1) c b rest out
    | fn f => exact absurd h (by simp [okTop])
    | op name =>
      simp only [okTop] at h
      obtain ⟨⟨q, hq, hq5⟩, _⟩ := bin_facts name h
      simp only [bump]
      unfold popWhile
      have : p > q := by omega
      simp [hq, this]

theorem popToStart_lp (n : Nat) (c : Chk) (b : Bool) (st : List SItem) (out : List Ast) :
    popToStart (.lp n c b :: st) out = .ok (.lp n c b :: st, out) := by
  unfold popToStart; rfl

/-- the state the tokens of `t` lead to -/
def after (t : Ast) (s : PState) : PState :=
  ⟨(pend t).map SItem.op ++ bump s.st, core t :: s.out, prevAfter t⟩

def Goal (t : Ast) : Prop :=
  ∀ s : PState, Expects s.prev → TopLO s.st → (isAtom t = true ∨ okTop s.st) → runToks (toks t) s = .ok (after t s)

theorem not_operand_rparen (p : Prev) (h : Expects p) : ¬ (p = .operand ∨ p = .rparen) := by
  rcases h with h | h | h <;> simp [h]

theorem not_operand_rparen_percent (p : Prev) (h : Expects p) : ¬ (p = .operand ∨ p = .rparen ∨ p = .percent) := by
  rcases h with h | h | h <;> simp [h]

theorem goal_operand (k : OKind) (text : String) : Goal (.operand k text) := by
  intro s he ht _
  have h1 := not_operand_rparen_percent s.prev he
  apply runToks_single
  · simp [step, h1, after, pushOperand, pend, core, prevAfter]
  · exact topLO_ne s.st ht

theorem finalName_sign (name : String) (hn : name ∈ signNames) (p : Prev) (h : Expects p) :
    finalName (signSym name) p = name ∧ signSym name ≠ "%" ∧ finalName (signSym name) p ≠ signSym name := by
  simp only [signNames, List.mem_cons, List.not_mem_nil, or_false] at hn
  rcases h with h | h | h <;> rcases hn with rfl | rfl <;> subst h <;> decide

theorem signSym_pm (name : String) :
    ¬ (signSym name ≠ "+" ∧ signSym name ≠ "-" ∧ signSym name ≠ " " ∧ signSym name ≠ "," ∧ signSym name ≠ ":") := by
  unfold signSym; split <;> simp

theorem goal_sign (name : String) (a : Ast) (hn : name ∈ signNames) (hca : Canon a) (haa : isAtom a = true) (iha : Goal a) :
    Goal (.op name [a]) := by
  intro s he ht hok
  obtain ⟨h1, h2, h3, h4⟩ := sign_facts name hn
  have hnb : name ∉ binNames := by
    simp only [signNames, List.mem_cons, List.not_mem_nil, or_false] at hn
    rcases hn with rfl | rfl <;> decide
  have hok' : okTop s.st := by
    rcases hok with h | h
    · simp [isAtom, hnb] at h
    · exact h
  obtain ⟨f1, f2, f3⟩ := finalName_sign name hn s.prev he
  have htoks : toks (.op name [a]) = .opr (signSym name) :: toks a := by
    simp [toks, h4, hn, toksArgsPlain]
  rw [htoks]
  -- the sign goes onto the stack
  have hne : name ≠ signSym name := by
    have := f3; rw [f1] at this; exact this
  have hstep : step s (.opr (signSym name)) = .ok ⟨.op name :: bump s.st, s.out, .opr⟩ := by
    simp only [step, signSym_pm name, signSym_not_range name, false_and, if_false, oprStep, f1, h1, hne, popWhile_okTop 7 (by omega) s.st hok' s.out, h4]
  rw [runToks_cons _ _ _ _ hstep (by simp)]
  have := iha ⟨.op name :: bump s.st, s.out, .opr⟩ (Or.inr (Or.inr rfl)) (by simp [TopLO]) (Or.inl haa)
  rw [this]
  obtain ⟨p1, p2⟩ := pend_core_atom a hca haa
  have hprev : prevAfter (.op name [a]) = prevAfter a := by simp only [prevAfter, h4, if_false, hn, if_true]
  have hpend : pend (.op name [a]) = [name] := by simp [pend, h4, hn]
  have hcore : core (.op name [a]) = a := by simp [core, hn]
  simp only [after, p1, p2, hprev, hpend, hcore, bump, List.map_nil, List.nil_append, List.map_cons, List.cons_append]

theorem goal_percent (a : Ast) (hca : Canon a) (iha : Goal a) : Goal (.op "%" [a]) := by
  intro s he ht hok
  have hok' : okTop s.st := by
    rcases hok with h | h
    · simp [isAtom, binNames] at h
    · exact h
  obtain ⟨h1, h2, h3⟩ := percent_facts
  have htoks : toks (.op "%" [a]) = toks a ++ [.opr "%"] := by simp [toks, toksArgsPlain]
  rw [htoks]
  have ha := iha s he ht (Or.inr hok')
  rw [runToks_append _ _ _ _ ha]
  apply runToks_single
  · have hp := prevAfter_ok a hca
    have hfn : finalName "%" (prevAfter a) = "%" := by simp [finalName]
    simp only [step, after, hp, not_true_eq_false, and_false, if_false, oprStep, hfn, h1, if_true,
      flush_popWhile a hca 6 (by omega), popWhile_okTop 6 (by omega) s.st hok']
    simp [pend, core, prevAfter]
  · simp [after, pend]

end XL

namespace XL

theorem finalName_bin (name : String) (p : Prev) (hp : p = .operand ∨ p = .rparen ∨ p = .percent) : finalName name p = name := by
  unfold finalName
  split
  · rcases hp with h | h | h <;> simp [h]
  · rfl

theorem goal_bin (name : String) (a b : Ast) (hn : name ∈ binNames) (hca : Canon a) (hcb : Canon b)
    (iha : Goal a) (ihb : Goal b) : Goal (.op name [a, b]) := by
  intro s he ht _
  obtain ⟨⟨p, hp, hp5⟩, har, hrg, hnp, hns⟩ := bin_facts name hn
  have h1 := not_operand_rparen_percent s.prev he
  have htoks : toks (.op name [a, b]) = .lp :: (toks a ++ (.opr name :: (toks b ++ [.rp]))) := by
    simp [toks, toksBin, hnp, hns]
  rw [htoks]
  -- `(`
  have hlp : step s .lp = .ok ⟨.lp 0 .pos false :: s.st, s.out, .lparen⟩ := by simp [step, h1]
  rw [runToks_cons _ _ _ _ hlp (by simp)]
  -- left operand
  have ha := iha ⟨.lp 0 .pos false :: s.st, s.out, .lparen⟩ (Or.inl rfl) (by simp [TopLO]) (Or.inr (by simp [okTop]))
  rw [runToks_append _ _ _ _ ha]
  -- the operator: pending signs / percent of `a` are applied, the operator waits above the parenthesis
  have hpa := prevAfter_ok a hca
  have hop : step (after a ⟨.lp 0 .pos false :: s.st, s.out, .lparen⟩) (.opr name) =
      .ok ⟨.op name :: .lp 1 .pos false :: s.st, a :: s.out, .opr⟩ := by
    have hfn := finalName_bin name (prevAfter a) hpa
    simp only [step, hpa, not_true_eq_false, and_false, if_false, hnp, bin_not_range name hn, false_and, oprStep, after, hfn, hp, if_true, bump,
      flush_popWhile a hca p (by omega), popWhile_lp]
  rw [runToks_cons _ _ _ _ hop (by simp)]
  -- right operand
  have hb := ihb ⟨.op name :: .lp 1 .pos false :: s.st, a :: s.out, .opr⟩ (Or.inr (Or.inr rfl)) (by simp [TopLO]) (Or.inr (by simp [okTop, hn]))
  rw [runToks_append _ _ _ _ hb]
  -- `)`
  apply runToks_single
  · have hpb := prevAfter_ok b hcb
    have hnsep : (prevAfter b = Prev.sep) = False := by
      rcases hpb with h | h | h <;> simp [h]
    have hst : s.st ≠ [] := by
      intro h; rw [h] at ht; simp [TopLO] at ht
    simp only [step, rparenStep, after, hnsep, if_false, closeParen, bump, flush_popToStart b hcb]
    -- pop the operator, reach the parenthesis
    have : popToStart (.op name :: .lp 1 .pos false :: s.st) (b :: a :: s.out) =
        .ok (.lp 1 .pos false :: s.st, .op name [a, b] :: s.out) := by
      unfold popToStart
      simp only [applyOp_binary name a b s.out har hrg, popToStart_lp]
    simp only [this]
    -- the parenthesis is a plain one: no function below it
    cases hs : s.st with
    | nil => exact absurd hs hst
    | cons x rest =>
      rw [hs] at ht
      cases x with
      | fn f => simp [TopLO] at ht
      | lp n c bb =>
        simp [chkOk, unionSeps, Except.map, pend, core, prevAfter, hnp, hns]
      | op nm =>
        simp [chkOk, unionSeps, Except.map, pend, core, prevAfter, hnp, hns]
  · simp [after, pend, hnp, hns]
    exact topLO_ne s.st ht

end XL

namespace XL

/-- the arguments of a call, one after the other: after the last one its pending operators are still on
the stack, the others have been flushed by the separators -/
theorem run_args : ∀ (args : List Ast), args ≠ [] → (∀ a ∈ args, Canon a) → (∀ a ∈ args, Goal a) →
    ∀ (k : Nat) (c : Chk) (bb : Bool) (st0 : List SItem) (out : List Ast) (pv : Prev), Expects pv →
      ∃ last o, Canon last ∧
        runToks (toksSep args) ⟨.lp k c bb :: st0, out, pv⟩ =
          .ok ⟨(pend last).map SItem.op ++ .lp (k + args.length) c bb :: st0, core last :: o, prevAfter last⟩ ∧
        last :: o = args.reverse ++ out
  | [], h, _, _ => absurd rfl h
  | [a], _, hc, hg => by
    intro k c bb st0 out pv hpv
    refine ⟨a, out, hc a (by simp), ?_, by simp⟩
    have := hg a (by simp) ⟨.lp k c bb :: st0, out, pv⟩ hpv (by simp [TopLO]) (Or.inr (by simp [okTop]))
    simpa [toksSep, after, bump] using this
  | a :: b :: rest, _, hc, hg => by
    intro k c bb st0 out pv hpv
    have hca := hc a (by simp)
    have ha := hg a (by simp) ⟨.lp k c bb :: st0, out, pv⟩ hpv (by simp [TopLO]) (Or.inr (by simp [okTop]))
    have htoks : toksSep (a :: b :: rest) = toks a ++ (.sep :: toksSep (b :: rest)) := by simp [toksSep]
    rw [htoks, runToks_append _ _ _ _ ha]
    -- the separator flushes what is pending
    have hpa := prevAfter_ok a hca
    have hns : (prevAfter a = Prev.sep ∨ prevAfter a = Prev.lparen) = False := by
      rcases hpa with h | h | h <;> simp [h]
    have hsep : step (after a ⟨.lp k c bb :: st0, out, pv⟩) .sep = .ok ⟨.lp (k + 1) c bb :: st0, a :: out, .sep⟩ := by
      simp only [step, after, hns, if_false, bump, flush_popToStart a hca, popToStart_lp]
      simp
    rw [runToks_cons _ _ _ _ hsep (by simp)]
    obtain ⟨last, o, hl, hrun, ho⟩ := run_args (b :: rest) (by simp) (fun x hx => hc x (by simp [hx])) (fun x hx => hg x (by simp [hx]))
      (k + 1) c bb st0 (a :: out) .sep (Or.inr (Or.inl rfl))
    refine ⟨last, o, hl, ?_, ?_⟩
    · rw [hrun]
      have : k + 1 + (b :: rest).length = k + (a :: b :: rest).length := by simp; omega
      rw [this]
    · rw [ho]; simp

theorem goal_call (name : String) (args : List Ast) (hc : ∀ a ∈ args, Canon a) (hg : ∀ a ∈ args, Goal a) :
    Goal (.call name args) := by
  intro s he ht _
  have h1 := not_operand_rparen_percent s.prev he
  have hst : s.st ≠ [] := by
    intro h; rw [h] at ht; simp [TopLO] at ht
  have htoks : toks (.call name args) = .fn name :: (toksSep args ++ [.rp]) := by simp [toks]
  rw [htoks]
  have hfn : step s (.fn name) = .ok ⟨.lp 0 .any false :: .fn name :: s.st, s.out, .lparen⟩ := by simp [step, h1, fnStep]
  rw [runToks_cons _ _ _ _ hfn (by simp)]
  cases hargs : args with
  | nil =>
    -- `F()`
    simp only [toksSep, List.nil_append]
    apply runToks_single
    · simp [step, rparenStep, closeParen, popToStart_lp, chkOk, applyFn, Except.map, after, pend, core, prevAfter]
    · simp [after, pend]; exact topLO_ne s.st ht
  | cons a0 rest0 =>
    obtain ⟨last, o, hl, hrun, ho⟩ := run_args args (by simp [hargs]) hc hg 0 .any false (.fn name :: s.st) s.out .lparen (Or.inl rfl)
    rw [← hargs, runToks_append _ _ _ _ hrun]
    apply runToks_single
    · have hpl := prevAfter_ok last hl
      have hnsep : (prevAfter last = Prev.sep) = False := by
        rcases hpl with h | h | h <;> simp [h]
      simp only [step, rparenStep, hnsep, if_false, closeParen, flush_popToStart last hl, popToStart_lp, Nat.zero_add]
      have hlen : args.length ≤ (last :: o).length := by rw [ho]; simp
      have htake : ((last :: o).take args.length).reverse = args := by
        rw [ho, List.take_left' (by simp)]; simp
      have hdrop : (last :: o).drop args.length = s.out := by
        rw [ho, List.drop_left' (by simp)]
      have hlen' : args.length ≤ o.length + 1 := by simpa using hlen
      simp [chkOk, applyFn, hlen', htake, hdrop, Except.map, after, pend, core, prevAfter]
    · simp [after, pend]; exact topLO_ne s.st ht

/-- **what the state machine has done after the tokens of a canonical tree** -/
theorem run_toks (t : Ast) (hc : Canon t) : Goal t := by
  induction hc with
  | operand k text => exact goal_operand k text
  | bin name a b hn ha hb iha ihb => exact goal_bin name a b hn ha hb iha ihb
  | sign name a hn ha haa iha => exact goal_sign name a hn ha haa iha
  | percent a ha iha => exact goal_percent a ha iha
  | call name args h ih => exact goal_call name args h ih

/-- **the parser reads back the token rendering of every canonical tree** -/
theorem parse_toks (t : Ast) (hc : Canon t) : parseToks (toks t) = .ok t := by
  have h := run_toks t hc initState (Or.inl rfl) (by simp [initState, TopLO]) (Or.inr (by simp [initState, okTop]))
  simp only [parseToks, h]
  have hp := prevAfter_ok t hc
  have hnsep : (prevAfter t = Prev.sep) = False := by
    rcases hp with h | h | h <;> simp [h]
  simp only [finish, rparenStep, after, initState, hnsep, if_false, closeParen, bump, flush_popToStart t hc, popToStart_lp]
  simp [chkOk, unionSeps]

end XL

namespace XL

/-- **redundant parentheses are transparent**: the tokens of a canonical tree inside an extra pair of
parentheses leave exactly that tree on the builder -/
theorem paren_transparent (t : Ast) (hc : Canon t) (s : PState) (he : Expects s.prev) (ht : TopLO s.st) :
    runToks (.lp :: (toks t ++ [.rp])) s = .ok ⟨bump s.st, t :: s.out, .rparen⟩ := by
  have h1 := not_operand_rparen_percent s.prev he
  have hst : s.st ≠ [] := by
    intro h; rw [h] at ht; simp [TopLO] at ht
  have hlp : step s .lp = .ok ⟨.lp 0 .pos false :: s.st, s.out, .lparen⟩ := by simp [step, h1]
  rw [runToks_cons _ _ _ _ hlp (by simp)]
  have ha := run_toks t hc ⟨.lp 0 .pos false :: s.st, s.out, .lparen⟩ (Or.inl rfl) (by simp [TopLO]) (Or.inr (by simp [okTop]))
  rw [runToks_append _ _ _ _ ha]
  apply runToks_single
  · have hp := prevAfter_ok t hc
    have hnsep : (prevAfter t = Prev.sep) = False := by
      rcases hp with h | h | h <;> simp [h]
    simp only [step, rparenStep, after, hnsep, if_false, closeParen, bump, flush_popToStart t hc, popToStart_lp]
    cases hs : s.st with
    | nil => exact absurd hs hst
    | cons x rest =>
      rw [hs] at ht
      cases x with
      | fn f => simp [TopLO] at ht
      | lp n c bb => simp [chkOk, unionSeps, Except.map]
      | op nm => simp [chkOk, unionSeps, Except.map]
  · exact topLO_ne s.st ht

/-- at top level: `=(t)` parses to the tree of `=t` -/
theorem parse_extra_parens (t : Ast) (hc : Canon t) : parseToks (.lp :: (toks t ++ [.rp])) = .ok t := by
  have h := paren_transparent t hc initState (Or.inl rfl) (by simp [initState, TopLO])
  simp only [parseToks, h]
  simp [finish, rparenStep, closeParen, initState, bump, popToStart_lp, chkOk, unionSeps]

end XL
