import XL.Model.Book
/-!
# Workbook evaluation: locality, fuel independence, fixed point, overrides, sub-models
-/
namespace XL
variable {F : Type} [Num F]

/-! ### an expression only reads the cells of its references and the names it mentions -/

mutual
def refsOf : Expr F → List RRef
  | .ref r => [r]
  | .bin _ l r => refsOf l ++ refsOf r
  | .un _ x => refsOf x
  | .call _ args => refsOfArgs args
  | _ => []
def refsOfArgs : List (Expr F) → List RRef
  | [] => []
  | a :: as => refsOf a ++ refsOfArgs as
end

mutual
def namesOf : Expr F → List String
  | .name n => [n]
  | .bin _ l r => namesOf l ++ namesOf r
  | .un _ x => namesOf x
  | .call _ args => namesOfArgs args
  | _ => []
def namesOfArgs : List (Expr F) → List String
  | [] => []
  | a :: as => namesOf a ++ namesOfArgs as
end

/-- the address `(s, r, c)` lies in the rectangle -/
def RRef.has (q : RRef) (s r c : Nat) : Prop := s = q.sheet ∧ q.r1 ≤ r ∧ r ≤ q.r2 ∧ q.c1 ≤ c ∧ c ≤ q.c2

/-- two environments agree on everything the expression can read -/
def AgreeOn (env env' : Env F) (refs : List RRef) (names : List String) : Prop :=
  (∀ q ∈ refs, ∀ s r c, q.has s r c → env.cell s r c = env'.cell s r c) ∧ (∀ n ∈ names, env.name n = env'.name n)

theorem tabulate_congr {α} (R C : Nat) (f g : Nat → Nat → α) (h : ∀ i j, i < R → j < C → f i j = g i j) :
    tabulate R C f = tabulate R C g := by
  unfold tabulate
  apply List.map_congr_left
  intro i hi
  apply List.map_congr_left
  intro j hj
  exact h i j (List.mem_range.mp hi) (List.mem_range.mp hj)

theorem readRange_congr (env env' : Env F) (q : RRef)
    (h : ∀ s r c, q.has s r c → env.cell s r c = env'.cell s r c) : readRange env q = readRange env' q := by
  unfold readRange
  apply tabulate_congr
  intro i j hi hj
  apply h
  unfold RRef.has
  omega

mutual
theorem evalExpr_congr (env env' : Env F) : ∀ (e : Expr F), AgreeOn env env' (refsOf e) (namesOf e) →
    evalExpr env e = evalExpr env' e
  | .lit v, _ => by simp [evalExpr]
  | .empty, _ => by simp [evalExpr]
  | .array rows, _ => by simp [evalExpr]
  | .ref q, h => by
    simp only [evalExpr]
    rw [readRange_congr env env' q (h.1 q (by simp [refsOf]))]
  | .name n, h => by
    simp only [evalExpr]
    rw [h.2 n (by simp [namesOf])]
  | .bin o l r, h => by
    have hl := evalExpr_congr env env' l ⟨fun q hq => h.1 q (by simp [refsOf, hq]), fun n hn => h.2 n (by simp [namesOf, hn])⟩
    have hr := evalExpr_congr env env' r ⟨fun q hq => h.1 q (by simp [refsOf, hq]), fun n hn => h.2 n (by simp [namesOf, hn])⟩
    simp only [evalExpr, hl, hr]
  | .un o x, h => by
    have hx := evalExpr_congr env env' x ⟨fun q hq => h.1 q (by simp [refsOf, hq]), fun n hn => h.2 n (by simp [namesOf, hn])⟩
    simp only [evalExpr, hx]
  | .call f args, h => by
    have ha := evalArgs_congr env env' args ⟨fun q hq => h.1 q (by simp [refsOf, hq]), fun n hn => h.2 n (by simp [namesOf, hn])⟩
    simp only [evalExpr, ha]
theorem evalArgs_congr (env env' : Env F) : ∀ (args : List (Expr F)), AgreeOn env env' (refsOfArgs args) (namesOfArgs args) →
    evalArgs env args = evalArgs env' args
  | [], _ => by simp [evalArgs]
  | a :: as, h => by
    have h1 := evalExpr_congr env env' a ⟨fun q hq => h.1 q (by simp [refsOfArgs, hq]), fun n hn => h.2 n (by simp [namesOfArgs, hn])⟩
    have h2 := evalArgs_congr env env' as ⟨fun q hq => h.1 q (by simp [refsOfArgs, hq]), fun n hn => h.2 n (by simp [namesOfArgs, hn])⟩
    simp only [evalArgs, h1, h2]
end

end XL

namespace XL
variable {F : Type} [Num F]

/-! ### dependencies and acyclicity -/

/-- the expression that governs an address: the array formula spilling over it, else its own formula -/
def formulaAt (b : Book F) (s r c : Nat) : Option (Expr F) :=
  match lookupOverride b.overrides s r c with
  | some _ => none
  | none =>
    match findSpill b.cells s r c with
    | some (_, _, _, _, e) => some e
    | none =>
      match findCell b.cells s r c with
      | some (.formula e) => some e
      | _ => none

/-- rectangles a formula reads, directly or through the defined names it mentions -/
def depsOf (b : Book F) (e : Expr F) : List RRef :=
  refsOf e ++ (namesOf e).flatMap fun n => match lookupName b.names n with | some e' => refsOf e' | none => []

/-- address `(s', r', c')` is read by the formula governing `(s, r, c)` -/
def Reads (b : Book F) (s r c s' r' c' : Nat) : Prop :=
  ∃ e, formulaAt b s r c = some e ∧ ∃ q ∈ depsOf b e, q.has s' r' c'

/-- acyclicity witness: every formula only reads addresses of strictly smaller rank -/
def Acyclic (b : Book F) (rank : Nat → Nat → Nat → Nat) : Prop :=
  ∀ s r c s' r' c', Reads b s r c s' r' c' → rank s' r' c' < rank s r c

theorem mkEnv_congr (f g : Nat → Nat → Nat → Val F) (names : List (String × Expr F)) (e : Expr F)
    (h : ∀ q ∈ refsOf e ++ (namesOf e).flatMap (fun n => match lookupName names n with | some e' => refsOf e' | none => []),
        ∀ s r c, q.has s r c → f s r c = g s r c) :
    evalExpr (mkEnv f names) e = evalExpr (mkEnv g names) e := by
  apply evalExpr_congr
  constructor
  · intro q hq s r c hh
    exact h q (List.mem_append_left _ hq) s r c hh
  · intro n hn
    simp only [mkEnv]
    cases hl : lookupName names n with
    | none => rfl
    | some e' =>
      simp only [Option.bind]
      have : evalExpr (⟨f, fun _ => none⟩ : Env F) e' = evalExpr ⟨g, fun _ => none⟩ e' := by
        apply evalExpr_congr
        constructor
        · intro q hq s r c hh
          apply h q _ s r c hh
          apply List.mem_append_right
          rw [List.mem_flatMap]
          exact ⟨n, hn, by simp [hl, hq]⟩
        · intro m _; rfl
      rw [this]

theorem formulaValue_congr (f g : Nat → Nat → Nat → Val F) (names : List (String × Expr F)) (R C i j : Nat) (e : Expr F)
    (h : ∀ q ∈ refsOf e ++ (namesOf e).flatMap (fun n => match lookupName names n with | some e' => refsOf e' | none => []),
        ∀ s r c, q.has s r c → f s r c = g s r c) :
    formulaValue (mkEnv f names) R C i j e = formulaValue (mkEnv g names) R C i j e := by
  unfold formulaValue
  rw [mkEnv_congr f g names e h]

/-- **fuel independence**: any fuel above the rank of the cell gives the same value -/
theorem value_fuel (b : Book F) (rank : Nat → Nat → Nat → Nat) (h : Acyclic b rank) :
    ∀ (n s r c k : Nat), rank s r c < n → rank s r c < k → value b n s r c = value b k s r c := by
  intro n
  induction n with
  | zero => intro s r c k h1; omega
  | succ n ih =>
    intro s r c k h1 h2
    cases k with
    | zero => omega
    | succ k =>
      simp only [value]
      cases ho : lookupOverride b.overrides s r c with
      | some v => rfl
      | none =>
        simp only
        cases hs : findSpill b.cells s r c with
        | some t =>
          obtain ⟨R, C, i, j, e⟩ := t
          simp only
          apply formulaValue_congr
          intro q hq s' r' c' hh
          have hr : Reads b s r c s' r' c' := ⟨e, by simp [formulaAt, ho, hs], q, hq, hh⟩
          have := h s r c s' r' c' hr
          exact ih s' r' c' k (by omega) (by omega)
        | none =>
          simp only
          cases hc : findCell b.cells s r c with
          | none => rfl
          | some k' =>
            cases k' with
            | const v => rfl
            | arrayFormula _ _ _ => rfl
            | formula e =>
              simp only
              apply formulaValue_congr
              intro q hq s' r' c' hh
              have hr : Reads b s r c s' r' c' := ⟨e, by simp [formulaAt, ho, hs, hc], q, hq, hh⟩
              have := h s r c s' r' c' hr
              exact ih s' r' c' k (by omega) (by omega)

/-- the value of a cell with enough fuel -/
def val (b : Book F) (rank : Nat → Nat → Nat → Nat) (s r c : Nat) : Val F := value b (rank s r c + 1) s r c

/-- what the fixed-point equations demand of an assignment `σ` at one address -/
def Equation (b : Book F) (σ : Nat → Nat → Nat → Val F) (s r c : Nat) : Val F :=
  match lookupOverride b.overrides s r c with
  | some v => v
  | none =>
    match findSpill b.cells s r c with
    | some (R, C, i, j, e) => formulaValue (mkEnv σ b.names) R C i j e
    | none =>
      match findCell b.cells s r c with
      | some (.const v) => v
      | some (.formula e) => formulaValue (mkEnv σ b.names) 1 1 0 0 e
      | _ => .blank

/-- **C03**: the calculated values satisfy every cell's own equation — a formula cell holds its
formula applied to the values of the cells it refers to, an array-formula cell the element of the
fitted result, a constant its value, an unpopulated cell is blank -/
theorem val_fixpoint (b : Book F) (rank : Nat → Nat → Nat → Nat) (h : Acyclic b rank) (s r c : Nat) :
    val b rank s r c = Equation b (val b rank) s r c := by
  simp only [val, value, Equation]
  cases ho : lookupOverride b.overrides s r c with
  | some v => rfl
  | none =>
    simp only
    cases hs : findSpill b.cells s r c with
    | some t =>
      obtain ⟨R, C, i, j, e⟩ := t
      simp only
      apply formulaValue_congr
      intro q hq s' r' c' hh
      have hr : Reads b s r c s' r' c' := ⟨e, by simp [formulaAt, ho, hs], q, hq, hh⟩
      have := h s r c s' r' c' hr
      exact value_fuel b rank h _ s' r' c' _ (by omega) (by omega)
    | none =>
      simp only
      cases hc : findCell b.cells s r c with
      | none => rfl
      | some k' =>
        cases k' with
        | const v => rfl
        | arrayFormula _ _ _ => rfl
        | formula e =>
          simp only
          apply formulaValue_congr
          intro q hq s' r' c' hh
          have hr : Reads b s r c s' r' c' := ⟨e, by simp [formulaAt, ho, hs, hc], q, hq, hh⟩
          have := h s r c s' r' c' hr
          exact value_fuel b rank h _ s' r' c' _ (by omega) (by omega)

/-- **uniqueness**: any assignment that satisfies the equations is the calculated one -/
theorem val_unique (b : Book F) (rank : Nat → Nat → Nat → Nat) (h : Acyclic b rank) (σ : Nat → Nat → Nat → Val F)
    (hσ : ∀ s r c, σ s r c = Equation b σ s r c) :
    ∀ n s r c, rank s r c < n → σ s r c = val b rank s r c := by
  intro n
  induction n with
  | zero => intro s r c h1; omega
  | succ n ih =>
    intro s r c h1
    rw [hσ s r c, val_fixpoint b rank h s r c]
    simp only [Equation]
    cases ho : lookupOverride b.overrides s r c with
    | some v => rfl
    | none =>
      simp only
      cases hs : findSpill b.cells s r c with
      | some t =>
        obtain ⟨R, C, i, j, e⟩ := t
        simp only
        apply formulaValue_congr
        intro q hq s' r' c' hh
        have hr : Reads b s r c s' r' c' := ⟨e, by simp [formulaAt, ho, hs], q, hq, hh⟩
        have := h s r c s' r' c' hr
        exact ih s' r' c' (by omega)
      | none =>
        simp only
        cases hc : findCell b.cells s r c with
        | none => rfl
        | some k' =>
          cases k' with
          | const v => rfl
          | arrayFormula _ _ _ => rfl
          | formula e =>
            simp only
            apply formulaValue_congr
            intro q hq s' r' c' hh
            have hr : Reads b s r c s' r' c' := ⟨e, by simp [formulaAt, ho, hs, hc], q, hq, hh⟩
            have := h s r c s' r' c' hr
            exact ih s' r' c' (by omega)

end XL

namespace XL
variable {F : Type} [Num F]

/-! ### locality: a cell only depends on what it can reach -/

inductive Reaches (b : Book F) : (Nat × Nat × Nat) → (Nat × Nat × Nat) → Prop
  | refl (a : Nat × Nat × Nat) : Reaches b a a
  | step (s r c s' r' c' : Nat) (t : Nat × Nat × Nat) :
      Reads b s r c s' r' c' → Reaches b (s', r', c') t → Reaches b (s, r, c) t

/-- two books define the address in the same way -/
def SameAt (b b' : Book F) (s r c : Nat) : Prop :=
  lookupOverride b.overrides s r c = lookupOverride b'.overrides s r c ∧
  findSpill b.cells s r c = findSpill b'.cells s r c ∧ findCell b.cells s r c = findCell b'.cells s r c

/-- **evaluation locality**: two books with the same names that define every address reachable
from a cell in the same way give that cell the same value -/
theorem value_congr (b b' : Book F) (hn : b.names = b'.names) :
    ∀ (n s r c : Nat), (∀ s' r' c', Reaches b (s, r, c) (s', r', c') → SameAt b b' s' r' c') →
      value b n s r c = value b' n s r c := by
  intro n
  induction n with
  | zero => intro s r c _; rfl
  | succ n ih =>
    intro s r c hag
    obtain ⟨h1, h2, h3⟩ := hag s r c (Reaches.refl _)
    simp only [value, ← h1, ← h2, ← h3, ← hn]
    cases ho : lookupOverride b.overrides s r c with
    | some v => rfl
    | none =>
      simp only
      cases hs : findSpill b.cells s r c with
      | some t =>
        obtain ⟨R, C, i, j, e⟩ := t
        simp only
        apply formulaValue_congr
        intro q hq s' r' c' hh
        have hr : Reads b s r c s' r' c' := ⟨e, by simp [formulaAt, ho, hs], q, hq, hh⟩
        exact ih s' r' c' (fun s2 r2 c2 ht => hag s2 r2 c2 (Reaches.step s r c s' r' c' _ hr ht))
      | none =>
        simp only
        cases hc : findCell b.cells s r c with
        | none => rfl
        | some k' =>
          cases k' with
          | const v => rfl
          | arrayFormula _ _ _ => rfl
          | formula e =>
            simp only
            apply formulaValue_congr
            intro q hq s' r' c' hh
            have hr : Reads b s r c s' r' c' := ⟨e, by simp [formulaAt, ho, hs, hc], q, hq, hh⟩
            exact ih s' r' c' (fun s2 r2 c2 ht => hag s2 r2 c2 (Reaches.step s r c s' r' c' _ hr ht))

/-- supplying an input: the overridden address reads the supplied value -/
def withOverride (b : Book F) (s r c : Nat) (v : Val F) : Book F :=
  { b with overrides := ((s, r, c), v) :: b.overrides }

theorem lookupOverride_cons_ne (ov : List ((Nat × Nat × Nat) × Val F)) (x : Nat × Nat × Nat) (v : Val F) (s r c : Nat)
    (h : (s, r, c) ≠ x) : lookupOverride ((x, v) :: ov) s r c = lookupOverride ov s r c := by
  obtain ⟨xs, xr, xc⟩ := x
  simp only [lookupOverride]
  have : ¬ (s = xs ∧ r = xr ∧ c = xc) := by
    intro ⟨a, b', c'⟩; apply h; rw [a, b', c']
  simp [this]

/-- **C07**: an overridden cell holds exactly the supplied value (its own formula is not evaluated) … -/
theorem override_value (b : Book F) (s r c : Nat) (v : Val F) (n : Nat) :
    value (withOverride b s r c v) (n + 1) s r c = v := by
  simp [value, withOverride, lookupOverride]

/-- … and **cells that do not depend on it keep their values** -/
theorem override_independent (b : Book F) (xs xr xc : Nat) (v : Val F) (n s r c : Nat)
    (hind : ¬ Reaches b (s, r, c) (xs, xr, xc)) :
    value (withOverride b xs xr xc v) n s r c = value b n s r c := by
  symm
  apply value_congr b (withOverride b xs xr xc v) rfl
  intro s' r' c' ht
  refine ⟨?_, rfl, rfl⟩
  have hne : (s', r', c') ≠ (xs, xr, xc) := by
    intro e; rw [e] at ht; exact hind ht
  simp only [withOverride]
  exact (lookupOverride_cons_ne b.overrides (xs, xr, xc) v s' r' c' hne).symm

/-- **C14 (fault locality)** / general form: changing how one address is defined (an unknown function,
a missing reference, …) does not change any cell that does not depend on it -/
theorem change_local (b b' : Book F) (hn : b.names = b'.names) (xs xr xc : Nat)
    (hsame : ∀ s r c, (s, r, c) ≠ (xs, xr, xc) → SameAt b b' s r c) (n s r c : Nat)
    (hind : ¬ Reaches b (s, r, c) (xs, xr, xc)) : value b n s r c = value b' n s r c := by
  apply value_congr b b' hn
  intro s' r' c' ht
  apply hsame
  intro e; rw [e] at ht; exact hind ht

/-! ### sub-models (C15) -/

def restrictBook (b : Book F) (keep : CellDef F → Bool) : Book F := { b with cells := b.cells.filter keep }

theorem findCell_filter (cells : List (CellDef F)) (keep : CellDef F → Bool) (s r c : Nat)
    (h : ∀ d ∈ cells, d.sheet = s ∧ d.row = r ∧ d.col = c → keep d = true) :
    findCell (cells.filter keep) s r c = findCell cells s r c := by
  induction cells with
  | nil => rfl
  | cons d rest ih =>
    have ih' := ih (fun d' hd' => h d' (List.mem_cons_of_mem _ hd'))
    by_cases hk : keep d = true
    · simp only [List.filter_cons, hk, if_true, findCell]
      split
      · split
        · exact ih'
        · rfl
      · exact ih'
    · have hat : ¬ (d.sheet = s ∧ d.row = r ∧ d.col = c) := fun hh => hk (h d (by simp) hh)
      simp only [List.filter_cons, hk, findCell]
      simp [hat, ih']

theorem findSpill_filter (cells : List (CellDef F)) (keep : CellDef F → Bool) (s r c : Nat)
    (h : ∀ d ∈ cells, (∃ R C e, d.content = .arrayFormula R C e ∧ d.sheet = s ∧ d.row ≤ r ∧ r < d.row + R ∧ d.col ≤ c ∧ c < d.col + C) →
      keep d = true) :
    findSpill (cells.filter keep) s r c = findSpill cells s r c := by
  induction cells with
  | nil => rfl
  | cons d rest ih =>
    have ih' := ih (fun d' hd' => h d' (List.mem_cons_of_mem _ hd'))
    by_cases hk : keep d = true
    · simp only [List.filter_cons, hk, if_true, findSpill]
      split
      · split
        · rfl
        · exact ih'
      · exact ih'
    · simp only [List.filter_cons, hk, findSpill]
      cases hc : d.content with
      | const v => simp [ih']
      | formula e => simp [ih']
      | arrayFormula R C e =>
        have : ¬ (d.sheet = s ∧ d.row ≤ r ∧ r < d.row + R ∧ d.col ≤ c ∧ c < d.col + C) := by
          intro hh; exact hk (h d (by simp) ⟨R, C, e, hc, hh⟩)
        simp [this, ih']

/-- a definition is relevant to an address: it sits there, or it is an array formula covering it -/
def RelevantTo (d : CellDef F) (s r c : Nat) : Prop :=
  (d.sheet = s ∧ d.row = r ∧ d.col = c) ∨
  ∃ R C e, d.content = .arrayFormula R C e ∧ d.sheet = s ∧ d.row ≤ r ∧ r < d.row + R ∧ d.col ≤ c ∧ c < d.col + C

/-- **C15**: a model that keeps every definition relevant to the addresses an output reaches computes
the same value for that output as the full model — nothing it omits matters -/
theorem sub_eq_full (b : Book F) (keep : CellDef F → Bool) (n s r c : Nat)
    (hclosed : ∀ s' r' c', Reaches b (s, r, c) (s', r', c') → ∀ d ∈ b.cells, RelevantTo d s' r' c' → keep d = true) :
    value (restrictBook b keep) n s r c = value b n s r c := by
  symm
  apply value_congr b (restrictBook b keep) rfl
  intro s' r' c' ht
  refine ⟨rfl, ?_, ?_⟩
  · simp only [restrictBook]
    exact (findSpill_filter b.cells keep s' r' c' (fun d hd hh => hclosed s' r' c' ht d hd (Or.inr hh))).symm
  · simp only [restrictBook]
    exact (findCell_filter b.cells keep s' r' c' (fun d hd hh => hclosed s' r' c' ht d hd (Or.inl hh))).symm

end XL

namespace XL
variable {F : Type} [Num F]

/-! ### independence from the order in which cells were added -/

def IsArrayF (k : Content F) : Prop := ∃ R C e, k = .arrayFormula R C e

def AtAddr (d : CellDef F) (s r c : Nat) : Prop := d.sheet = s ∧ d.row = r ∧ d.col = c

def Covers (d : CellDef F) (s r c : Nat) (R C : Nat) (e : Expr F) : Prop :=
  d.content = .arrayFormula R C e ∧ d.sheet = s ∧ d.row ≤ r ∧ r < d.row + R ∧ d.col ≤ c ∧ c < d.col + C

/-- no address is defined twice: at most one non-array definition sits at it and at most one array
formula spills over it -/
def Unambiguous (cells : List (CellDef F)) : Prop :=
  (∀ d ∈ cells, ∀ d' ∈ cells, ∀ s r c, AtAddr d s r c → AtAddr d' s r c → ¬ IsArrayF d.content → ¬ IsArrayF d'.content →
      d.content = d'.content) ∧
  (∀ d ∈ cells, ∀ d' ∈ cells, ∀ s r c R C e R' C' e', Covers d s r c R C e → Covers d' s r c R' C' e' → d = d')

theorem findCell_some (cells : List (CellDef F)) (s r c : Nat) (k : Content F) (h : findCell cells s r c = some k) :
    ∃ d ∈ cells, AtAddr d s r c ∧ d.content = k ∧ ¬ IsArrayF k := by
  induction cells with
  | nil => simp [findCell] at h
  | cons d rest ih =>
    simp only [findCell] at h
    split at h
    · rename_i hat
      split at h
      · obtain ⟨d', hd', hh⟩ := ih h
        exact ⟨d', List.mem_cons_of_mem _ hd', hh⟩
      · rename_i k' hk'
        cases h
        refine ⟨d, by simp, hat, rfl, ?_⟩
        rintro ⟨R, C, e, he⟩
        exact hk' R C e he
    · obtain ⟨d', hd', hh⟩ := ih h
      exact ⟨d', List.mem_cons_of_mem _ hd', hh⟩

theorem findCell_of_mem (cells : List (CellDef F)) (s r c : Nat) (d : CellDef F) (hd : d ∈ cells) (hat : AtAddr d s r c)
    (hna : ¬ IsArrayF d.content)
    (hu : ∀ d' ∈ cells, AtAddr d' s r c → ¬ IsArrayF d'.content → d'.content = d.content) :
    findCell cells s r c = some d.content := by
  induction cells with
  | nil => cases hd
  | cons x rest ih =>
    simp only [findCell]
    by_cases hx : AtAddr x s r c
    · simp only [AtAddr] at hx
      simp only [hx, and_self, if_true]
      split
      · rename_i R C e he
        rcases List.mem_cons.mp hd with rfl | hd'
        · exact absurd ⟨R, C, e, he⟩ hna
        · exact ih hd' (fun d' hd'' => hu d' (List.mem_cons_of_mem _ hd''))
      · rename_i k hk
        have : ¬ IsArrayF x.content := by rintro ⟨R, C, e, he⟩; exact hk R C e he
        rw [hu x (by simp) hx this]
    · have hx' : ¬ (x.sheet = s ∧ x.row = r ∧ x.col = c) := hx
      simp only [hx', if_false]
      rcases List.mem_cons.mp hd with rfl | hd'
      · exact absurd hat hx
      · exact ih hd' (fun d' hd'' => hu d' (List.mem_cons_of_mem _ hd''))

theorem findCell_perm (l l' : List (CellDef F)) (hp : l.Perm l') (hu : Unambiguous l) (s r c : Nat) :
    findCell l s r c = findCell l' s r c := by
  cases h : findCell l s r c with
  | some k =>
    obtain ⟨d, hd, hat, hk, hna⟩ := findCell_some l s r c k h
    subst hk
    symm
    apply findCell_of_mem l' s r c d (hp.mem_iff.mp hd) hat hna
    intro d' hd' hat' hna'
    exact hu.1 d' (hp.mem_iff.mpr hd') d hd s r c hat' hat hna' hna
  | none =>
    cases h' : findCell l' s r c with
    | none => rfl
    | some k =>
      obtain ⟨d, hd, hat, hk, hna⟩ := findCell_some l' s r c k h'
      subst hk
      have := findCell_of_mem l s r c d (hp.mem_iff.mpr hd) hat hna
        (fun d' hd' hat' hna' => hu.1 d' hd' d (hp.mem_iff.mpr hd) s r c hat' hat hna' hna)
      rw [h] at this; cases this

theorem findSpill_some (cells : List (CellDef F)) (s r c : Nat) (t : Nat × Nat × Nat × Nat × Expr F)
    (h : findSpill cells s r c = some t) :
    ∃ d ∈ cells, Covers d s r c t.1 t.2.1 t.2.2.2.2 ∧ t.2.2.1 = r - d.row ∧ t.2.2.2.1 = c - d.col := by
  induction cells with
  | nil => simp [findSpill] at h
  | cons d rest ih =>
    simp only [findSpill] at h
    split at h
    · rename_i R C e he
      split at h
      · rename_i hc
        cases h
        exact ⟨d, by simp, ⟨he, hc⟩, rfl, rfl⟩
      · obtain ⟨d', hd', hh⟩ := ih h
        exact ⟨d', List.mem_cons_of_mem _ hd', hh⟩
    · obtain ⟨d', hd', hh⟩ := ih h
      exact ⟨d', List.mem_cons_of_mem _ hd', hh⟩

theorem findSpill_of_mem (cells : List (CellDef F)) (s r c : Nat) (d : CellDef F) (R C : Nat) (e : Expr F)
    (hd : d ∈ cells) (hc : Covers d s r c R C e)
    (hu : ∀ d' ∈ cells, ∀ R' C' e', Covers d' s r c R' C' e' → d' = d) :
    findSpill cells s r c = some (R, C, r - d.row, c - d.col, e) := by
  induction cells with
  | nil => cases hd
  | cons x rest ih =>
    simp only [findSpill]
    split
    · rename_i R' C' e' he'
      split
      · rename_i hcx
        have : x = d := hu x (by simp) R' C' e' ⟨he', hcx⟩
        subst this
        have := hc.1
        rw [he'] at this
        cases this; rfl
      · rename_i hcx
        rcases List.mem_cons.mp hd with rfl | hd'
        · exfalso; apply hcx
          have := hc.1; rw [he'] at this; cases this
          exact hc.2
        · exact ih hd' (fun d' hd'' => hu d' (List.mem_cons_of_mem _ hd''))
    · rename_i hnot
      rcases List.mem_cons.mp hd with rfl | hd'
      · exact absurd hc.1 (hnot R C e)
      · exact ih hd' (fun d' hd'' => hu d' (List.mem_cons_of_mem _ hd''))

theorem findSpill_perm (l l' : List (CellDef F)) (hp : l.Perm l') (hu : Unambiguous l) (s r c : Nat) :
    findSpill l s r c = findSpill l' s r c := by
  cases h : findSpill l s r c with
  | some t =>
    obtain ⟨R, C, i, j, e⟩ := t
    obtain ⟨d, hd, hc, hi, hj⟩ := findSpill_some l s r c _ h
    simp only at hc hi hj
    symm
    rw [hi, hj]
    apply findSpill_of_mem l' s r c d R C e (hp.mem_iff.mp hd) hc
    intro d' hd' R' C' e' hc'
    exact hu.2 d' (hp.mem_iff.mpr hd') d hd s r c R' C' e' R C e hc' hc
  | none =>
    cases h' : findSpill l' s r c with
    | none => rfl
    | some t =>
      obtain ⟨R, C, i, j, e⟩ := t
      obtain ⟨d, hd, hc, hi, hj⟩ := findSpill_some l' s r c _ h'
      simp only at hc
      have := findSpill_of_mem l s r c d R C e (hp.mem_iff.mpr hd) hc
        (fun d' hd' R' C' e' hc' => hu.2 d' hd' d (hp.mem_iff.mpr hd) s r c R' C' e' R C e hc' hc)
      rw [h] at this; cases this

/-- **C03 (order independence)**: a workbook whose cells were added in another order computes the same
value for every cell, with any fuel -/
theorem value_perm (b b' : Book F) (hn : b.names = b'.names) (ho : b.overrides = b'.overrides)
    (hp : b.cells.Perm b'.cells) (hu : Unambiguous b.cells) (n s r c : Nat) :
    value b n s r c = value b' n s r c := by
  apply value_congr b b' hn
  intro s' r' c' _
  exact ⟨by rw [ho], findSpill_perm _ _ hp hu s' r' c', findCell_perm _ _ hp hu s' r' c'⟩

end XL
