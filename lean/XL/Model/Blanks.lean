/-!
# XL.Model.Blanks — which unpopulated cells range assembly lists as nodes

`ExcelModel._assemble_ranges` / `RangesAssembler.add` (`excel/__init__.py`, `cell.py`): a range whose
unpopulated, not yet listed cells number at most `compact` lists them as data nodes (blank default
values, exported by `to_dict` as `#EMPTY`); listing them can bring another range under the limit.
The code takes the closure with a work list; this model takes it by repeatedly firing the first
range that can fire.  `XL.Proofs.Blanks` shows that every schedule ends in the same set.

Cells are numbers; a range is the list of its unpopulated cells.
-/
namespace XL.Blanks

/-- cells of the range not yet listed -/
def pending (r L : List Nat) : List Nat := r.filter (fun c => decide (c ∉ L))

/-- the range lists its pending cells -/
def fire (L r : List Nat) : List Nat := L ++ pending r L

/-- the range has pending cells, and few enough to list them -/
def firable (c : Nat) (L r : List Nat) : Bool := !(pending r L).isEmpty && decide ((pending r L).length ≤ c)

def closureAux (c : Nat) (rs : List (List Nat)) : Nat → List Nat → List Nat
  | 0, L => L
  | fuel + 1, L =>
    match rs.find? (firable c L) with
    | none => L
    | some r => closureAux c rs fuel (fire L r)

/-- the listed cells after range assembly (each firing satisfies one more range for good, so
`rs.length` firings suffice: `closure_stable`) -/
def closure (c : Nat) (rs : List (List Nat)) (L : List Nat) : List Nat := closureAux c rs rs.length L

end XL.Blanks
