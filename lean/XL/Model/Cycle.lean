/-!
# XL.Model.Cycle — specification-level enumeration of elementary cycles

`formulas/excel/cycle.py` is Johnson's algorithm with blocking sets on top of Tarjan's strongly
connected components.  The blocking optimisation is **not** modelled: the claim "every elementary
cycle is reported exactly once" is proved of this specification enumerator (for each start vertex
`s`, depth-first search through vertices `> s`) and `simple_cycles` is tied to it by comparing the
two outputs as sets of canonical rotations (exhaustively on all small digraphs).
-/
namespace XL

/-- DFS from `s` through vertices `> s`; `path` is the current reversed simple path (non-empty) -/
def dfs (adj : Nat → List Nat) (s : Nat) : Nat → List Nat → List (List Nat)
  | 0, _ => []
  | _, [] => []
  | fuel + 1, cur :: path =>
    (adj cur).flatMap fun w =>
      if w = s then [(cur :: path).reverse]
      else if s < w ∧ w ∉ cur :: path then dfs adj s fuel (w :: cur :: path)
      else []

def cyclesFrom (adj : Nat → List Nat) (n s : Nat) : List (List Nat) := dfs adj s n [s]
def cycles (adj : Nat → List Nat) (n : Nat) : List (List Nat) := (List.range n).flatMap (cyclesFrom adj n)

/-- canonical rotation of a cycle: start at its smallest vertex -/
def rotateToMin (c : List Nat) : List Nat :=
  match c.min? with
  | none => []
  | some m => c.dropWhile (· != m) ++ c.takeWhile (· != m)

end XL
