import XL.Proofs.LexTree
/-!
# XL.Model.CText — driver command `ctext`: the compact text of a tree and what the parser model makes of it

Request: `ctext <prefix code>` with `N<digits>`, `C<letters>.<digits>`, `S<u-coded body>`, `B<op> a b`,
`M a` (−a), `P a` (+a), `% a`, `F<NAME> <k> a₁ … a_k`.  Answer: `<u-coded text> <u-coded rendering of the parse>`
or `notwf`.  (Imports a proof module only for the definitions `CT`, `CT.text`; nothing here is used by proofs.)
-/
namespace XL.CTextProto
open XL XL.LexText

def decodeU (s : String) : List Char :=
  if s.length ≤ 1 then [] else ((s.drop 1).toString.splitOn ".").filterMap fun x => x.toNat?.map Char.ofNat

def encodeU (l : List Char) : String := "u" ++ ".".intercalate (l.map fun c => toString c.toNat)

def parseCT : Nat → List String → Option (CT × List String)
  | 0, _ => none
  | _, [] => none
  | fuel + 1, w :: rest =>
    match w.toList with
    | 'N' :: d => some (.num d, rest)
    | 'C' :: r =>
      let ls := r.takeWhile (· != '.')
      let ds := (r.dropWhile (· != '.')).drop 1
      some (.cell ls ds, rest)
    | 'S' :: b => some (.str (decodeU (String.ofList b)), rest)
    | 'B' :: op => do
      let (a, r1) ← parseCT fuel rest
      let (b, r2) ← parseCT fuel r1
      pure (.bin (String.ofList op) a b, r2)
    | ['M'] => do let (a, r1) ← parseCT fuel rest; pure (.neg true a, r1)
    | ['P'] => do let (a, r1) ← parseCT fuel rest; pure (.neg false a, r1)
    | ['%'] => do let (a, r1) ← parseCT fuel rest; pure (.pct a, r1)
    | 'F' :: name =>
      match rest with
      | k :: r0 => do
        let n ← k.toNat?
        let rec args : Nat → Nat → List String → Option (List CT × List String)
          | _, 0, r => some ([], r)
          | 0, _, _ => none
          | f + 1, m + 1, r => do
            let (a, r1) ← parseCT fuel r
            let (as, r2) ← args f m r1
            pure (a :: as, r2)
        let (as, r1) ← args (fuel + 1) n r0
        pure (.call name as, r1)
      | [] => none
    | _ => none

def answerCText (args : List String) : Option String := do
  let (ct, _) ← parseCT (args.length + 1) args
  let txt := ct.text
  let res := match parseString txt with
    | .ok a => "ok " ++ encodeU (render a).toList
    | .error .formula => "error"
    | .error .outOfDomain => "ood"
    | .error (.escape w) => "escape:" ++ w
  pure (encodeU txt ++ " " ++ res ++ " " ++ encodeU (render ct.toAst).toList)

end XL.CTextProto
