import XL.Model.Proto
/-!
# Request dispatcher of the executable model
-/
namespace XL
open XL.Proto

def answerRect (cmd : String) (args : List String) : Option String :=
  match cmd, args with
  | "inter", [a, b] => do
      let x ← parseRect? a; let y ← parseRect? b
      pure (showOptRect (inter x y))
  | "split", [a, b] => do
      let x ← parseRect? a; let y ← parseRect? b
      pure (showRects (split x y))
  | "bbox", [a, b] => do
      let x ← parseRects? a; let y ← parseRects? b
      pure (showOptRect (bbox x y))
  | "and", [a, b] => do
      let x ← parseRects? a; let y ← parseRects? b
      pure (showRects (interAreas x y))
  | "sub", [a, b] => do
      let x ← parseRects? a; let y ← parseRects? b
      pure (showRects (sub x y))
  | "merge", [a] => do
      let x ← parseRects? a
      pure (showRects (merge x))
  | "simplify", [m, a] => do
      let mr ← parseNat? m; let x ← parseRects? a
      pure (showRects (simplify mr x))
  | _, _ => none

def answer (line : String) : String :=
  match (line.trimAscii.toString.splitOn " ").filter (· ≠ "") with
  | [] => "bad-request"
  | cmd :: args =>
    match answerRect cmd args with
    | some r => r
    | none => "bad-request"

end XL
