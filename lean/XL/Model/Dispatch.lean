import XL.Model.Proto
import XL.Model.Ref
import XL.Model.Cal
import XL.Model.Eng
import XL.Generated.Tables
import XL.Model.Ops
import XL.Model.FloatNum
import XL.Model.Lex
import XL.Model.BookProto
import XL.Model.Circ
import XL.Model.Look
import XL.Model.Fn
import XL.Model.Blanks
import XL.Model.CText
import XL.Model.RText
/-!
# Request dispatcher of the executable model
-/
namespace XL
open XL.Proto

def answerRect (cmd : String) (args : List String) : Option String :=
  match cmd, args with
  | "inter", [a, b] => do
      let x ← parseRect? a; let y ← parseRect? b
      pure (showOptRect (inter x y))
  | "split", [a, b] => do
      let x ← parseRect? a; let y ← parseRect? b
      pure (showRects (split x y))
  | "bbox", [a, b] => do
      let x ← parseRects? a; let y ← parseRects? b
      pure (showOptRect (bbox x y))
  | "and", [a, b] => do
      let x ← parseRects? a; let y ← parseRects? b
      pure (showRects (interAreas x y))
  | "sub", [a, b] => do
      let x ← parseRects? a; let y ← parseRects? b
      pure (showRects (sub x y))
  | "merge", [a] => do
      let x ← parseRects? a
      pure (showRects (merge x))
  | "simplify", [m, a] => do
      let mr ← parseNat? m; let x ← parseRects? a
      pure (showRects (simplify mr x))
  | _, _ => none

/-- strings travel as `u` followed by the code points in decimal, separated by `.` (`u` = empty) -/
def decodeStr (s : String) : List Char :=
  match s.toList with
  | 'u' :: rest =>
    if rest.isEmpty then [] else
      ((String.ofList rest).splitOn ".").filterMap fun t => t.toNat?.map Char.ofNat
  | _ => []

def encodeStr (l : List Char) : String :=
  "u" ++ ".".intercalate (l.map fun c => toString c.toNat)

def showOpt4 : Option (Nat × Nat × Nat × Nat) → String
  | none => "none"
  | some (a, b, c, d) => s!"{a},{b},{c},{d}"

def answerRef (cmd : String) (args : List String) : Option String :=
  match cmd, args with
  | "col", [n] => do let k ← parseNat? n; pure (encodeStr (colLetters k))
  | "colidx", [s] => pure (toString (colIndex (decodeStr s)))
  | "refname", [mr, mc, r] => do
      let a ← parseNat? mr; let b ← parseNat? mc; let x ← parseRect? r
      pure (encodeStr (refName a b x))
  | "cellname", [mr, mc, r, c] => do
      let a ← parseNat? mr; let b ← parseNat? mc; let x ← parseNat? r; let y ← parseNat? c
      pure (encodeStr (cellName a b x y))
  | "readback", [mr, mc, s] => do
      let a ← parseNat? mr; let b ← parseNat? mc
      pure (showOpt4 (readBack a b (decodeStr s)))
  | "sheetid", [sh, d, f] => pure (encodeStr (buildSheetId (decodeStr sh) (decodeStr d) (decodeStr f)))
  | "buildid", [r, s] => pure (encodeStr (buildId (decodeStr r) (decodeStr s)))
  | "relabs", [h, o] => do let a ← parseNat? h; let b ← parseInt? o; pure (toString (relAbs a b))
  | _, _ => none

def showDErr : DErr → String
  | .num => "#NUM!"
  | .value => "#VALUE!"

def showEErr : EErr → String
  | .num => "#NUM!"
  | .value => "#VALUE!"

def answerCal (cmd : String) (args : List String) : Option String :=
  match cmd, args with
  | "int2date", [n] => do
      let k ← parseInt? n
      pure (match int2date 2958465 k with
        | .ok (y, m, d) => s!"{y},{m},{d}"
        | .error e => showDErr e)
  | "xdate", [y, m, d] => do
      let a ← parseInt? y; let b ← parseInt? m; let c ← parseInt? d
      pure (match xdate pyFuel a b c with
        | .ok v => toString v
        | .error e => showDErr e)
  | "weekday", [n, m] => do
      let a ← parseInt? n; let b ← parseInt? m
      pure (match xweekday 2958465 a b with
        | .ok v => toString v
        | .error e => showDErr e)
  | "hms", [h, m, x] => do
      let a ← parseInt? h; let b ← parseInt? m; let c ← parseInt? x
      pure (match hmsOfTime a b c with | (hh, mm, ss) => s!"{hh},{mm},{ss}")
  | "dec2x", [b, n] => do
      let base ← parseNat? b; let k ← parseInt? n
      let mask ← (Generated.xmask.find? (·.1 == base)).map (·.2)
      pure (match dec2x mask base k with
        | .ok s => encodeStr s
        | .error e => showEErr e)
  | "dec2xp", [b, n, pl] => do
      let base ← parseNat? b; let k ← parseInt? n; let p ← parseInt? pl
      let mask ← (Generated.xmask.find? (·.1 == base)).map (·.2)
      pure (match dec2xP mask base k p with
        | .ok s => encodeStr s
        | .error e => showEErr e)
  | "x2dec", [b, s] => do
      let base ← parseNat? b
      let mask ← (Generated.xmask.find? (·.1 == base)).map (·.2)
      pure (match x2dec mask base (decodeStr s) with
        | .ok v => toString v
        | .error e => showEErr e)
  | "roman", [n, f] => do
      let k ← parseNat? n; let form ← parseNat? f
      let tbl ← Generated.romanTables[form]?
      pure (encodeStr (romanGo (tbl.map fun (v, s) => (v, s.toList)) k))
  | "arabic", [s] =>
      pure (match arabic (decodeStr s) with
        | some v => toString v
        | none => "#VALUE!")
  | _, _ => none

/-! values: `n<hex bits>` number, `t<u-string>` text, `b1`/`b0` logical, `_` blank, `x<#ERR>` error -/

def hexVal (c : Char) : Option Nat :=
  if c.isDigit then some (c.toNat - 48)
  else if 'a' ≤ c ∧ c ≤ 'f' then some (c.toNat - 87)
  else if 'A' ≤ c ∧ c ≤ 'F' then some (c.toNat - 55) else none

def parseHex? (s : List Char) : Option Nat :=
  if s.isEmpty then none else s.foldlM (fun a c => (hexVal c).map (a * 16 + ·)) 0

def parseVal? (s : String) : Option (Val Float) :=
  match s.toList with
  | ['_'] => some .blank
  | 'n' :: h => (parseHex? h).map fun b => .num (Float.ofBits b.toUInt64)
  | 't' :: r => some (.text (String.ofList (decodeStr (String.ofList r))))
  | ['b', '1'] => some (.bool true)
  | ['b', '0'] => some (.bool false)
  | 'x' :: r => (Err.ofString? (String.ofList r)).map .err
  | _ => none

def hexDigits (n : Nat) : String := String.ofList (Nat.toDigits 16 n)

def showVal : Val Float → String
  | .blank => "_"
  | .num x => if x.isNaN then "nNaN" else "n" ++ hexDigits x.toBits.toNat
  | .text s => "t" ++ encodeStr s.toList
  | .bool b => if b then "b1" else "b0"
  | .err e => "x" ++ e.toString

def parseAOp? : String → Option AOp
  | "add" => some .add | "sub" => some .sub | "mul" => some .mul | "div" => some .div | "pow" => some .pow | _ => none
def parseCOp? : String → Option COp
  | "ge" => some .ge | "le" => some .le | "ne" => some .ne | "lt" => some .lt | "gt" => some .gt | "eq" => some .eq | _ => none
def parseUOp? : String → Option UOp
  | "plus" => some .plus | "minus" => some .minus | "percent" => some .percent | _ => none

def answerOps (cmd : String) (args : List String) : Option String :=
  match cmd, args with
  | "arith", [o, a, b] => do
      let op ← parseAOp? o; let x ← parseVal? a; let y ← parseVal? b
      pure (showVal (arith op x y))
  | "cmp", [o, a, b] => do
      let op ← parseCOp? o; let x ← parseVal? a; let y ← parseVal? b
      pure (showVal (cmp op x y))
  | "concat", [a, b] => do
      let x ← parseVal? a; let y ← parseVal? b
      pure (showVal (concat x y))
  | "unary", [o, a] => do
      let op ← parseUOp? o; let x ← parseVal? a
      pure (showVal (unary op x))
  | "float", [t] => pure (match floatOfText (String.ofList (decodeStr t)) with
      | some x => "n" ++ hexDigits x.toBits.toNat
      | none => "none")
  | "display", [a] => do
      let x ← parseVal? a
      pure ("t" ++ encodeStr (displayVal x).toList)
  | _, _ => none

def answerParse (cmd : String) (args : List String) : Option String :=
  match cmd, args with
  | "book", _ => BookProto.answerBook args
  | "cbook", _ => CircProto.answerCBook args
  | "cycles", _ => CircProto.answerCycles args
  | "ctext", _ => CTextProto.answerCText args
  | "rtext", _ => CTextProto.answerRText args
  | "blanks", c :: nl :: rest => do
      -- `blanks compact nL L… (len cell…)*` : the listed cells after range assembly, in listing order
      let c' ← c.toNat?; let n ← nl.toNat?
      let (l, r1) ← CircProto.takeNats n rest
      let rec ranges : Nat → List String → Option (List (List Nat))
        | 0, _ => some []
        | fuel + 1, k :: r => do
            let k' ← k.toNat?
            let (cells, r') ← CircProto.takeNats k' r
            let more ← ranges fuel r'
            pure (cells :: more)
        | _, [] => some []
      let rs ← ranges (r1.length + 1) r1
      let res := Blanks.closure c' rs l
      pure (if res.isEmpty then "-" else " ".intercalate (res.map toString))
  | "fit", R :: C :: r :: c :: vals => do
      -- `fit R C r c v…` : an r × c value stored into R × C cells, row-major
      let R' ← R.toNat?; let C' ← C.toNat?; let r' ← r.toNat?; let c' ← c.toNat?
      let (vs, _) ← BookProto.takeVals (r' * c') vals
      let v := BookProto.chunk c' r' vs
      pure (" ".intercalate ((fit (.err .na) R' C' v).flatten.map BookProto.showVal))
  | "parse", [t] =>
      pure (match parseString (decodeStr t) with
        | .ok a => "ok " ++ encodeStr (render a).toList
        | .error .formula => "error"
        | .error .outOfDomain => "ood"
        | .error (.escape w) => "escape:" ++ w)
  | _, _ => none

def parseVals (ts : List String) : Option (List (Val Float)) := ts.mapM BookProto.parseVal?

def parseMode (s : String) : Option Int :=
  match s with
  | "-1" => some (-1) | "0" => some 0 | "1" => some 1 | _ => none

/-- `match mode key v…`, `lookup mode key n k… r…`, `vlookup t key R C v… col approx`, `index R C v… row col`,
`countif crit v…`, `sumif crit n t… o…`, `averageif crit n t… o…` -/
def answerLook (cmd : String) (args : List String) : Option String :=
  match cmd, args with
  | "match", m :: k :: vs => do
      let mode ← parseMode m; let key ← BookProto.parseVal? k; let keys ← parseVals vs
      pure (BookProto.showVal (xmatch mode key keys))
  | "lookup", m :: k :: n :: rest => do
      let mode ← parseMode m; let key ← BookProto.parseVal? k; let cnt ← n.toNat?
      let keys ← parseVals (rest.take cnt); let res ← parseVals (rest.drop cnt)
      pure (BookProto.showVal (xlookup mode key keys res))
  | "vlookup", t :: k :: R :: C :: rest => do
      let key ← BookProto.parseVal? k; let r ← R.toNat?; let c ← C.toNat?
      let vs ← parseVals (rest.take (r * c))
      match rest.drop (r * c) with
      | [col, ap] => do
        let cn ← col.toNat?
        pure (BookProto.showVal (xvlookup (t == "1") key (BookProto.chunk c r vs) cn (ap == "1")))
      | _ => none
  | "index", R :: C :: rest => do
      let r ← R.toNat?; let c ← C.toNat?
      let vs ← parseVals (rest.take (r * c))
      match rest.drop (r * c) with
      | [row, col] => do
        let i ← row.toNat?; let j ← col.toNat?
        pure (BookProto.showVal (xindex (BookProto.chunk c r vs) i j))
      | _ => none
  | "countif", k :: vs => do
      let crit ← BookProto.parseVal? k; let test ← parseVals vs
      pure (BookProto.showVal (countIf crit test))
  | "sumif", k :: n :: rest => do
      let crit ← BookProto.parseVal? k; let cnt ← n.toNat?
      let test ← parseVals (rest.take cnt); let op ← parseVals (rest.drop cnt)
      pure (BookProto.showVal (sumIf crit test op))
  | "averageif", k :: n :: rest => do
      let crit ← BookProto.parseVal? k; let cnt ← n.toNat?
      let test ← parseVals (rest.take cnt); let op ← parseVals (rest.drop cnt)
      pure (BookProto.showVal (averageIf crit test op))
  | _, _ => none

/-- arguments of `fn`: `s val` (typed directly) or `a R C val…` (range / array) -/
def takeArgs : Nat → List String → Option (List (Res Float) × List String)
  | 0, ts => some ([], ts)
  | n + 1, "s" :: v :: rest => do
      let x ← BookProto.parseVal? v
      let (as, r) ← takeArgs n rest
      pure (.scalar x :: as, r)
  | n + 1, "a" :: R :: C :: rest => do
      let r ← R.toNat?; let c ← C.toNat?
      let (vs, r1) ← BookProto.takeVals (r * c) rest
      let (as, r2) ← takeArgs n r1
      pure (.arr (BookProto.chunk c r vs) :: as, r2)
  | _, _ => none

/-- `fn NAME nargs arg…` → `R C v…` | `notfn` | `broadcast` -/
def answerFn (cmd : String) (args : List String) : Option String :=
  match cmd, args with
  | "fn", name :: n :: rest => do
      let k ← n.toNat?
      let (as, _) ← takeArgs k rest
      match libFn name as with
      | none => pure "notfn"
      | some (.error _) => pure "broadcast"
      | some (.ok r) =>
        let a := r.toArr
        pure (s!"{a.nrows} {a.ncols} " ++ " ".intercalate (a.flatten.map BookProto.showVal))
  | _, _ => none

def answer (line : String) : String :=
  match (line.trimAscii.toString.splitOn " ").filter (· ≠ "") with
  | [] => "bad-request"
  | cmd :: args =>
    match ((((((answerRect cmd args).orElse (fun _ => answerRef cmd args)).orElse (fun _ => answerCal cmd args)).orElse (fun _ => answerOps cmd args)).orElse (fun _ => answerParse cmd args)).orElse (fun _ => answerLook cmd args)).orElse (fun _ => answerFn cmd args) with
    | some r => r
    | none => "bad-request"

end XL
