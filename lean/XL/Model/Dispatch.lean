import XL.Model.Proto
import XL.Model.Ref
import XL.Model.Cal
import XL.Model.Eng
import XL.Generated.Tables
/-!
# Request dispatcher of the executable model
-/
namespace XL
open XL.Proto

def answerRect (cmd : String) (args : List String) : Option String :=
  match cmd, args with
  | "inter", [a, b] => do
      let x ← parseRect? a; let y ← parseRect? b
      pure (showOptRect (inter x y))
  | "split", [a, b] => do
      let x ← parseRect? a; let y ← parseRect? b
      pure (showRects (split x y))
  | "bbox", [a, b] => do
      let x ← parseRects? a; let y ← parseRects? b
      pure (showOptRect (bbox x y))
  | "and", [a, b] => do
      let x ← parseRects? a; let y ← parseRects? b
      pure (showRects (interAreas x y))
  | "sub", [a, b] => do
      let x ← parseRects? a; let y ← parseRects? b
      pure (showRects (sub x y))
  | "merge", [a] => do
      let x ← parseRects? a
      pure (showRects (merge x))
  | "simplify", [m, a] => do
      let mr ← parseNat? m; let x ← parseRects? a
      pure (showRects (simplify mr x))
  | _, _ => none

/-- strings travel as `u` followed by the code points in decimal, separated by `.` (`u` = empty) -/
def decodeStr (s : String) : List Char :=
  match s.toList with
  | 'u' :: rest =>
    if rest.isEmpty then [] else
      ((String.ofList rest).splitOn ".").filterMap fun t => t.toNat?.map Char.ofNat
  | _ => []

def encodeStr (l : List Char) : String :=
  "u" ++ ".".intercalate (l.map fun c => toString c.toNat)

def showOpt4 : Option (Nat × Nat × Nat × Nat) → String
  | none => "none"
  | some (a, b, c, d) => s!"{a},{b},{c},{d}"

def answerRef (cmd : String) (args : List String) : Option String :=
  match cmd, args with
  | "col", [n] => do let k ← parseNat? n; pure (encodeStr (colLetters k))
  | "colidx", [s] => pure (toString (colIndex (decodeStr s)))
  | "refname", [mr, mc, r] => do
      let a ← parseNat? mr; let b ← parseNat? mc; let x ← parseRect? r
      pure (encodeStr (refName a b x))
  | "cellname", [mr, mc, r, c] => do
      let a ← parseNat? mr; let b ← parseNat? mc; let x ← parseNat? r; let y ← parseNat? c
      pure (encodeStr (cellName a b x y))
  | "readback", [mr, mc, s] => do
      let a ← parseNat? mr; let b ← parseNat? mc
      pure (showOpt4 (readBack a b (decodeStr s)))
  | "sheetid", [sh, d, f] => pure (encodeStr (buildSheetId (decodeStr sh) (decodeStr d) (decodeStr f)))
  | "buildid", [r, s] => pure (encodeStr (buildId (decodeStr r) (decodeStr s)))
  | "relabs", [h, o] => do let a ← parseNat? h; let b ← parseInt? o; pure (toString (relAbs a b))
  | _, _ => none

def showDErr : DErr → String
  | .num => "#NUM!"
  | .value => "#VALUE!"

def showEErr : EErr → String
  | .num => "#NUM!"
  | .value => "#VALUE!"

def answerCal (cmd : String) (args : List String) : Option String :=
  match cmd, args with
  | "int2date", [n] => do
      let k ← parseInt? n
      pure (match int2date 2958465 k with
        | .ok (y, m, d) => s!"{y},{m},{d}"
        | .error e => showDErr e)
  | "xdate", [y, m, d] => do
      let a ← parseInt? y; let b ← parseInt? m; let c ← parseInt? d
      pure (match xdate pyFuel a b c with
        | .ok v => toString v
        | .error e => showDErr e)
  | "weekday", [n, m] => do
      let a ← parseInt? n; let b ← parseInt? m
      pure (match xweekday 2958465 a b with
        | .ok v => toString v
        | .error e => showDErr e)
  | "dec2x", [b, n] => do
      let base ← parseNat? b; let k ← parseInt? n
      let mask ← (Generated.xmask.find? (·.1 == base)).map (·.2)
      pure (match dec2x mask base k with
        | .ok s => encodeStr s
        | .error e => showEErr e)
  | "x2dec", [b, s] => do
      let base ← parseNat? b
      let mask ← (Generated.xmask.find? (·.1 == base)).map (·.2)
      pure (match x2dec mask base (decodeStr s) with
        | .ok v => toString v
        | .error e => showEErr e)
  | "roman", [n, f] => do
      let k ← parseNat? n; let form ← parseNat? f
      let tbl ← Generated.romanTables[form]?
      pure (encodeStr (romanGo (tbl.map fun (v, s) => (v, s.toList)) k))
  | "arabic", [s] =>
      pure (match arabic (decodeStr s) with
        | some v => toString v
        | none => "#VALUE!")
  | _, _ => none

def answer (line : String) : String :=
  match (line.trimAscii.toString.splitOn " ").filter (· ≠ "") with
  | [] => "bad-request"
  | cmd :: args =>
    match ((answerRect cmd args).orElse (fun _ => answerRef cmd args)).orElse (fun _ => answerCal cmd args) with
    | some r => r
    | none => "bad-request"

end XL
