/-! Small general-purpose definitions shared by the model files. -/
namespace XL

instance instDecEqExcept {ε α} [DecidableEq ε] [DecidableEq α] : DecidableEq (Except ε α)
  | .ok a, .ok b => if h : a = b then isTrue (by rw [h]) else isFalse (by intro e; cases e; exact h rfl)
  | .error a, .error b => if h : a = b then isTrue (by rw [h]) else isFalse (by intro e; cases e; exact h rfl)
  | .ok _, .error _ => isFalse (by intro e; cases e)
  | .error _, .ok _ => isFalse (by intro e; cases e)

end XL
