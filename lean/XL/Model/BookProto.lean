import XL.Model.Book
import XL.Model.FloatNum
import XL.Model.Proto
/-!
# Line protocol for workbooks (prefix notation with explicit counts)

```
book  := item* 'q' (sheet row col)*
item  := 'c' sheet row col content | 'n' name expr | 'o' sheet row col val
content := 'v' val | 'f' expr | 'a' R C expr
expr  := 'L' val | 'E' | 'R' sheet r1 r2 c1 c2 | 'N' name | 'B' op expr expr | 'U' op expr
       | 'C' fname nargs expr* | 'A' nrows ncols val*
```
-/
namespace XL.BookProto
open XL XL.Proto

def decodeStr (s : String) : List Char :=
  match s.toList with
  | 'u' :: rest =>
    if rest.isEmpty then [] else
      ((String.ofList rest).splitOn ".").filterMap fun t => t.toNat?.map Char.ofNat
  | _ => []

def encodeStr (l : List Char) : String :=
  "u" ++ ".".intercalate (l.map fun c => toString c.toNat)

def hexVal (c : Char) : Option Nat :=
  if c.isDigit then some (c.toNat - 48)
  else if 'a' ≤ c ∧ c ≤ 'f' then some (c.toNat - 87)
  else if 'A' ≤ c ∧ c ≤ 'F' then some (c.toNat - 55) else none

def parseHex? (s : List Char) : Option Nat :=
  if s.isEmpty then none else s.foldlM (fun a c => (hexVal c).map (a * 16 + ·)) 0

def parseVal? (s : String) : Option (Val Float) :=
  match s.toList with
  | ['_'] => some .blank
  | 'n' :: h => (parseHex? h).map fun b => .num (Float.ofBits b.toUInt64)
  | 't' :: r => some (.text (String.ofList (decodeStr (String.ofList r))))
  | ['b', '1'] => some (.bool true)
  | ['b', '0'] => some (.bool false)
  | 'x' :: r => (Err.ofString? (String.ofList r)).map .err
  | _ => none

def showVal : Val Float → String
  | .blank => "_"
  | .num x => if x.isNaN then "nNaN" else "n" ++ String.ofList (Nat.toDigits 16 x.toBits.toNat)
  | .text s => "t" ++ encodeStr s.toList
  | .bool b => if b then "b1" else "b0"
  | .err e => "x" ++ e.toString

def parseBinOp? : String → Option BinOp
  | "add" => some (.arith .add) | "sub" => some (.arith .sub) | "mul" => some (.arith .mul)
  | "div" => some (.arith .div) | "pow" => some (.arith .pow) | "cat" => some .concat
  | "ge" => some (.cmp .ge) | "le" => some (.cmp .le) | "ne" => some (.cmp .ne)
  | "lt" => some (.cmp .lt) | "gt" => some (.cmp .gt) | "eq" => some (.cmp .eq) | _ => none

def parseUOp? : String → Option UOp
  | "plus" => some .plus | "minus" => some .minus | "percent" => some .percent | _ => none

def takeVals : Nat → List String → Option (List (Val Float) × List String)
  | 0, ts => some ([], ts)
  | n + 1, t :: ts => do
      let v ← parseVal? t
      let (vs, rest) ← takeVals n ts
      pure (v :: vs, rest)
  | _, [] => none

def chunk {α} (n : Nat) : Nat → List α → List (List α)
  | 0, _ => []
  | k + 1, l => l.take n :: chunk n k (l.drop n)

mutual
def parseExpr : Nat → List String → Option (Expr Float × List String)
  | 0, _ => none
  | fuel + 1, ts =>
    match ts with
    | "L" :: v :: rest => (parseVal? v).map fun x => (.lit x, rest)
    | "E" :: rest => some (.empty, rest)
    | "R" :: s :: r1 :: r2 :: c1 :: c2 :: rest => do
        let a ← s.toNat?; let b ← r1.toNat?; let c ← r2.toNat?; let d ← c1.toNat?; let e ← c2.toNat?
        pure (.ref ⟨a, b, c, d, e⟩, rest)
    | "N" :: n :: rest => some (.name (String.ofList (decodeStr n)), rest)
    | "B" :: o :: rest => do
        let op ← parseBinOp? o
        let (l, r1) ← parseExpr fuel rest
        let (r, r2) ← parseExpr fuel r1
        pure (.bin op l r, r2)
    | "U" :: o :: rest => do
        let op ← parseUOp? o
        let (x, r1) ← parseExpr fuel rest
        pure (.un op x, r1)
    | "C" :: f :: n :: rest => do
        let k ← n.toNat?
        let (args, r1) ← parseExprs fuel k rest
        pure (.call f args, r1)
    | "A" :: nr :: nc :: rest => do
        let R ← nr.toNat?; let C ← nc.toNat?
        let (vs, r1) ← takeVals (R * C) rest
        pure (.array (chunk C R vs), r1)
    | _ => none
def parseExprs : Nat → Nat → List String → Option (List (Expr Float) × List String)
  | 0, _, _ => none
  | _ + 1, 0, ts => some ([], ts)
  | fuel + 1, k + 1, ts => do
      let (e, r1) ← parseExpr fuel ts
      let (es, r2) ← parseExprs fuel k r1
      pure (e :: es, r2)
end

def parseQueries : List String → Option (List (Nat × Nat × Nat))
  | [] => some []
  | s :: r :: c :: rest => do
      let a ← s.toNat?; let b ← r.toNat?; let d ← c.toNat?
      let qs ← parseQueries rest
      pure ((a, b, d) :: qs)
  | _ => none

def parseItems : Nat → List String → Book Float → Option (Book Float × List (Nat × Nat × Nat))
  | 0, _, _ => none
  | fuel + 1, ts, b =>
    match ts with
    | "q" :: rest => (parseQueries rest).map fun qs => (b, qs)
    | "c" :: s :: r :: c :: "v" :: v :: rest => do
        let a ← s.toNat?; let x ← r.toNat?; let y ← c.toNat?; let w ← parseVal? v
        parseItems fuel rest { b with cells := b.cells ++ [⟨a, x, y, .const w⟩] }
    | "c" :: s :: r :: c :: "f" :: rest => do
        let a ← s.toNat?; let x ← r.toNat?; let y ← c.toNat?
        let (e, r1) ← parseExpr fuel rest
        parseItems fuel r1 { b with cells := b.cells ++ [⟨a, x, y, .formula e⟩] }
    | "c" :: s :: r :: c :: "a" :: nr :: nc :: rest => do
        let a ← s.toNat?; let x ← r.toNat?; let y ← c.toNat?; let R ← nr.toNat?; let C ← nc.toNat?
        let (e, r1) ← parseExpr fuel rest
        parseItems fuel r1 { b with cells := b.cells ++ [⟨a, x, y, .arrayFormula R C e⟩] }
    | "n" :: n :: rest => do
        let (e, r1) ← parseExpr fuel rest
        parseItems fuel r1 { b with names := b.names ++ [(String.ofList (decodeStr n), e)] }
    | "o" :: s :: r :: c :: v :: rest => do
        let a ← s.toNat?; let x ← r.toNat?; let y ← c.toNat?; let w ← parseVal? v
        parseItems fuel rest { b with overrides := b.overrides ++ [((a, x, y), w)] }
    | _ => none

/-- `book …` request: values of the queried cells -/
def answerBook (args : List String) : Option String := do
  let (b, qs) ← parseItems (args.length + 1) args ⟨[], [], []⟩
  pure (" ".intercalate (qs.map fun (s, r, c) => showVal (value b 64 s r c)))

end XL.BookProto
