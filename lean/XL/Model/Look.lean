import XL.Model.Eval
/-!
# XL.Model.Look — MATCH / INDEX / LOOKUP / VLOOKUP / HLOOKUP and the criteria functions

Model of `functions/look.py` (`xmatch`, `_index`, `xlookup`, `args_parser_hlookup`) and of
`functions/__init__.py` `_xfilter` (criterion parsing, typed comparison) with the accumulators of
`COUNTIF`, `SUMIF`, `AVERAGEIF`.

The scans are written over an arbitrary key type with its comparison functions, so that the
theorems about sorted data (`XL.Proofs.Look`) need only order laws, not floating point.
-/
namespace XL

/-! ### the three scans of `xmatch`, on `(original index, key)` pairs -/

/-- `match_type > 0`: remember the last key `≤ val`; stop at an equal key or at the first larger one —
but never at index 1 (`return … and j > 1`) -/
def scanAsc {α} (le eq : α → α → Bool) (val : α) : List (Nat × α) → Option Nat → Option Nat
  | [], r => r
  | (j, x) :: rest, r =>
    if le x val then
      (if eq x val && decide (j > 1) then some j else scanAsc le eq val rest (some j))
    else (if j > 1 then r else scanAsc le eq val rest r)

/-- `match_type < 0`: stop at the first key `< val`; otherwise remember it and stop when it is equal -/
def scanDesc {α} (lt eq : α → α → Bool) (val : α) : List (Nat × α) → Option Nat → Option Nat
  | [], r => r
  | (j, x) :: rest, r =>
    if lt x val then r
    else if eq x val then some j else scanDesc lt eq val rest (some j)

/-- `match_type = 0`: the first key that satisfies the test -/
def scanFirst {α} (test : α → Bool) : List (Nat × α) → Option Nat
  | [] => none
  | (j, x) :: rest => if test x then some j else scanFirst test rest

/-! ### wildcards -/

inductive Pat | any | one | lit (c : Char)
  deriving DecidableEq, Repr

/-- `~*` and `~?` are the literal characters, `*` any run, `?` one character -/
def parsePat : List Char → List Pat
  | '~' :: '*' :: r => .lit '*' :: parsePat r
  | '~' :: '?' :: r => .lit '?' :: parsePat r
  | '*' :: r => .any :: parsePat r
  | '?' :: r => .one :: parsePat r
  | c :: r => .lit c :: parsePat r
  | [] => []

/-- full match of a pattern against a text (both already in one case) -/
def wmatch : List Pat → List Char → Bool
  | [], s => s.isEmpty
  | .lit c :: p, x :: s => c == x && wmatch p s
  | .lit _ :: _, [] => false
  | .one :: p, _ :: s => wmatch p s
  | .one :: _, [] => false
  | .any :: p, [] => wmatch p []
  | .any :: p, x :: s => wmatch p (x :: s) || wmatch (.any :: p) s
termination_by p s => p.length + s.length

def hasWild (s : List Char) : Bool := s.any fun c => c == '*' || c == '~' || c == '?'

variable {F : Type} [Num F]

/-! ### typed comparison -/

/-- `_get_type_id`: logicals 2, text 1, everything else 0 -/
def typeId : Val F → Nat
  | .bool _ => 2
  | .text _ => 1
  | _ => 0

/-- `==` within one type (`ltSame` / `eqSame` of `XL.Model.Ops`), error values by identity -/
def eqLook (a b : Val F) : Bool :=
  eqSame a b || (match a, b with | .err x, .err y => x == y | _, _ => false)

def leSame (a b : Val F) : Bool := ltSame a b || eqLook a b

def upperVal : Val F → Val F
  | .text s => .text s.toUpper
  | v => v

def natToF : Nat → F
  | 0 => Num.zero
  | n + 1 => Num.add (natToF n) Num.one

def indexedFrom {α} (j : Nat) : List α → List (Nat × α)
  | [] => []
  | x :: xs => (j, x) :: indexedFrom (j + 1) xs

/-- the elements with their 1-based positions -/
def indexed {α} (l : List α) : List (Nat × α) := indexedFrom 1 l

/-! ### MATCH -/

/-- position found by `MATCH(val, keys, mode)` (`none` = `#N/A`).  Text is compared upper-cased,
only keys of the type of `val` take part, each keeps its position in the whole vector. -/
def matchPos (mode : Int) (val : Val F) (keys : List (Val F)) : Option Nat :=
  let v := upperVal (match val with | .blank => .num Num.zero | x => x)
  let cand := (indexed (keys.map upperVal)).filter fun p => typeId p.2 = typeId v
  if mode > 0 then scanAsc leSame eqLook v cand none
  else if mode < 0 then scanDesc ltSame eqLook v cand none
  else match v with
    | .text s =>
      if hasWild s.toList then
        scanFirst (fun x => match x with | .text t => wmatch (parsePat s.toList) t.toList | _ => false) cand
      else scanFirst (fun x => eqLook x v) cand
    | _ => scanFirst (fun x => eqLook x v) cand

/-- `MATCH`: an error key is returned, a position is a number, not found is `#N/A` -/
def xmatch (mode : Int) (val : Val F) (keys : List (Val F)) : Val F :=
  match val with
  | .err e => .err e
  | _ => match matchPos mode val keys with
    | some p => .num (natToF p)
    | none => .err .na

/-- `LOOKUP(val, keys, results)` : the result at the matched position -/
def xlookup (mode : Int) (val : Val F) (keys results : List (Val F)) : Val F :=
  match val with
  | .err e => .err e
  | _ => match matchPos mode val keys with
    | some p => results.getD (p - 1) (.err .na)
    | none => .err .na

/-- `VLOOKUP(val, table, col, mode)` (`transpose := true`) / `HLOOKUP` : keys are the first
column / row, results the `col`-th one (`#REF!` beyond the table; `col ≥ 1`), the mode is `bool(mode)` -/
def xvlookup (transpose : Bool) (val : Val F) (table : Arr (Val F)) (col : Nat) (approx : Bool) : Val F :=
  let t := if transpose then (List.range table.ncols).map (fun j => table.map fun row => row.getD j .blank) else table
  match t[col - 1]? with
  | none => .err .ref
  | some results => xlookup (if approx then 1 else 0) val (t.headD []) results

/-! ### INDEX on an array -/

/-- `INDEX(array, row, col)` with `row, col ≥ 1` given: the element there, `#REF!` outside; a blank
element reads `0` -/
def xindex (a : Arr (Val F)) (row col : Nat) : Val F :=
  match a[row - 1]? with
  | none => .err .ref
  | some r => match r[col - 1]? with
    | none => .err .ref
    | some .blank => .num Num.zero
    | some v => v

/-! ### criteria -/

inductive Crit (F : Type)
  | wild (p : List Pat)
  | cmp (op : COp) (v : Val F)

def stripOp (s : List Char) : COp × List Char :=
  match s with
  | '>' :: '=' :: r => if r.isEmpty then (.eq, s) else (.ge, r)
  | '<' :: '=' :: r => if r.isEmpty then (.eq, s) else (.le, r)
  | '<' :: '>' :: r => if r.isEmpty then (.eq, s) else (.ne, r)
  | '<' :: r => if r.isEmpty then (.eq, s) else (.lt, r)
  | '>' :: r => if r.isEmpty then (.eq, s) else (.gt, r)
  | '=' :: r => if r.isEmpty then (.eq, s) else (.eq, r)
  | _ => (.eq, s)

def hasUnescapedWild : List Char → Bool
  | '~' :: '*' :: r => hasUnescapedWild r
  | '~' :: '?' :: r => hasUnescapedWild r
  | '*' :: _ => true
  | '?' :: _ => true
  | _ :: r => hasUnescapedWild r
  | [] => false

def unescape : List Char → List Char
  | '~' :: '*' :: r => '*' :: unescape r
  | '~' :: '?' :: r => '?' :: unescape r
  | c :: r => c :: unescape r
  | [] => []

/-- the criterion as `_xfilter` reads it: operator prefix, wildcards, then a number / error / text operand -/
def parseCrit (c : Val F) : Crit F :=
  match c with
  | .text s =>
    let (op, rest) := stripOp s.toList
    if op == .eq && hasUnescapedWild rest then .wild (parsePat (String.ofList rest).toUpper.toList)
    else
      let body := String.ofList (if op == .eq then unescape rest else rest)
      match Err.ofString? body with
      | some e => .cmp op (.err e)
      | none =>
        -- the `Number` token also reads `TRUE` / `FALSE` (any case)
        if body.toUpper = "TRUE" then .cmp op (.bool true)
        else if body.toUpper = "FALSE" then .cmp op (.bool false)
        else match (Num.ofText body : Option F) with
        | some x => .cmp op (.num x)
        | none => .cmp op (.text body.toUpper)
  | .blank => .cmp .eq (.num Num.zero)
  | v => .cmp .eq v

def applyCOp (op : COp) (a b : Val F) : Bool :=
  match op with
  | .eq => eqLook a b
  | .ne => !eqLook a b
  | .lt => ltSame a b
  | .gt => ltSame b a
  | .le => leSame a b
  | .ge => leSame b a

/-- a blank cell of the tested range counts as empty text (`replace_empty(test_range, '')`) -/
def blankText (v : Val F) : Val F :=
  match v with
  | .blank => .text ""
  | x => x

/-- for a numeric operand numeric text counts as its number (`text2num` of the tested range) -/
def numView (c v : Val F) : Val F :=
  match c, v with
  | .num _, .text t => (match (Num.ofText t : Option F) with | some x => .num x | none => v)
  | _, _ => v

/-- does an element of the tested range satisfy the criterion?  The comparison is within one type only -/
def sat (k : Crit F) (v : Val F) : Bool :=
  match k with
  | .wild p => (match blankText v with | .text t => wmatch p t.toUpper.toList | _ => false)
  | .cmp op c =>
    typeId (numView c (blankText v)) == typeId c && applyCOp op (upperVal (numView c (blankText v))) c

def selected (k : Crit F) (test operate : List (Val F)) : List (Val F) :=
  (test.zip operate).filterMap fun (t, o) => if sat k t then some o else none

def countIf (crit : Val F) (test : List (Val F)) : Val F :=
  .num (natToF (test.filter (sat (parseCrit crit))).length)

def sumIf (crit : Val F) (test operate : List (Val F)) : Val F :=
  match evalSum [.arr [selected (parseCrit crit) test operate]] with
  | .arr [[v]] => v
  | _ => .err .value

def averageIf (crit : Val F) (test operate : List (Val F)) : Val F :=
  let sel := selected (parseCrit crit) test operate
  match firstErr sel with
  | some e => .err e
  | none =>
    let nums := sel.filterMap fun v => match v with | .num x => some x | _ => none
    if nums.isEmpty then .err .div0
    else .num (Num.div (nums.foldl Num.add Num.zero) (natToF nums.length))

end XL
