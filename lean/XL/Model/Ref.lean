import XL.Model.Rect
/-!
# XL.Model.Ref — column letters, canonical names of rectangles, reading them back

Model of `formulas/tokens/operand.py`: `_index2col`, `_col2index`, `_build_cel`, `_build_ref`,
`_build_id`, the resolution of relative `R[..]C[..]` offsets, and of `Ranges.get_range` on
canonical names.  Strings are `List Char` (the driver converts).

No imports outside the model: linked into `xldriver`.
-/
namespace XL

/-- `_index2col`: bijective base 26, most significant letter first -/
def colLetters : Nat → List Char
  | 0 => []
  | n + 1 => colLetters (n / 26) ++ [Char.ofNat (65 + n % 26)]
decreasing_by omega

/-- `ord(ch.upper()) - ord('A') + 1` -/
def letterVal (c : Char) : Nat := c.toUpper.toNat - 64

/-- `_col2index`: the code sums `letter * 26^k` from the right; this is the same number in
Horner form -/
def colIndex (s : List Char) : Nat := s.foldl (fun acc ch => acc * 26 + letterVal ch) 0

/-- `str(int(r))` -/
def rowChars (n : Nat) : List Char := Nat.toDigits 10 n

/-- `_build_cel(c, r)`: the last column and the last row (and row 0) are left out -/
def celCol (maxcol : Nat) (c : Nat) : List Char := if c = maxcol then [] else colLetters c
def celRow (maxrow : Nat) (r : Nat) : List Char := if r = 0 ∨ r = maxrow then [] else rowChars r

/-- `_build_ref(c1, r1, c2, r2)` on a rectangle given by numbers (the `fast_range2parts_v4` path) -/
def refName (maxrow maxcol : Nat) (r : Rect) : List Char :=
  if celCol maxcol r.c1 ++ celRow maxrow r.r1 = celCol maxcol r.c2 ++ celRow maxrow r.r2
      ∧ celCol maxcol r.c1 ≠ [] ∧ celRow maxrow r.r1 ≠ [] then
    celCol maxcol r.c1 ++ celRow maxrow r.r1
  else
    celCol maxcol r.c1 ++ celRow maxrow r.r1 ++ [':'] ++ (celCol maxcol r.c2 ++ celRow maxrow r.r2)

/-- the single-cell fast paths `fast_range2parts_v1/v3`: `'{}{}'.format(*_build_cel(c1, r1))` -/
def cellName (maxrow maxcol : Nat) (r c : Nat) : List Char := celCol maxcol c ++ celRow maxrow r

/-- `_build_id(ref, sheet_id)` -/
def buildId (ref sheetId : List Char) : List Char :=
  if sheetId = [] then ref else sheetId ++ ['!'] ++ ref

/-- `sheet.replace("''", "'")` -/
def undouble : List Char → List Char
  | '\'' :: '\'' :: cs => '\'' :: undouble cs
  | c :: cs => c :: undouble cs
  | [] => []

def allDigits (s : List Char) : Bool := s ≠ [] && s.all Char.isDigit

/-- `[^\W\d][\w\.]*` on ASCII: a letter or `_`, then letters, digits, `_`, `.` -/
def plainSheet (s : List Char) : Bool :=
  match s with
  | c :: r => (c.isAlpha || c == '_') && r.all (fun d => d.isAlphanum || d == '_' || d == '.')
  | [] => false

/-- `_build_sheet_id(sheet, directory, filename)` for ASCII names -/
def buildSheetId (sheet dir file : List Char) : List Char :=
  if file ≠ [] then
    if allDigits file then ['['] ++ file ++ [']'] ++ (undouble sheet).map Char.toUpper
    else ['\''] ++ (if dir ≠ [] ∧ dir.getLast? ≠ some '/' then dir ++ ['/'] else dir) ++ ['['] ++ file ++ [']']
          ++ (undouble sheet).map Char.toUpper ++ ['\'']
  else if (undouble sheet) ≠ [] ∧ !plainSheet ((undouble sheet).map Char.toUpper) then
    -- only a plain word (`[^\W\d][\w\.]*`, ASCII here) is read back unquoted (`fix:` commit)
    ['\''] ++ (undouble sheet).map Char.toUpper ++ ['\'']
  else (undouble sheet).map Char.toUpper

/-! ### reading a canonical A1-style name back (`Ranges.get_range` + `range2parts`) -/

def spanP (p : Char → Bool) : List Char → List Char × List Char
  | [] => ([], [])
  | c :: cs => if p c then ((spanP p cs).1.cons c, (spanP p cs).2) else ([], c :: cs)

def isUpperAZ (c : Char) : Bool := 65 ≤ c.toNat && c.toNat ≤ 90

def digitsVal (s : List Char) : Nat := Nat.ofDigitChars 10 s 0

/-- one corner: letters then digits; returns (letters, digits, rest) -/
def corner (s : List Char) : List Char × List Char × List Char :=
  ((spanP isUpperAZ s).1, (spanP Char.isDigit (spanP isUpperAZ s).2).1, (spanP Char.isDigit (spanP isUpperAZ s).2).2)

/-- the four shapes a canonical name can have: `A1`, `A1:B2`, `A:B`, `1:2`.
Result `(r1, r2, c1, c2)` with the defaults of `range2parts`
(`r1 = 0`, `r2 = maxrow` for whole columns, `n1 = 0`, `n2 = maxcol` for whole rows). -/
def readBack (maxrow maxcol : Nat) (s : List Char) : Option (Nat × Nat × Nat × Nat) :=
  match corner s with
  | (l1, d1, []) =>
    if l1 ≠ [] ∧ d1 ≠ [] then some (digitsVal d1, digitsVal d1, colIndex l1, colIndex l1) else none
  | (l1, d1, ':' :: rest) =>
    match corner rest with
    | (l2, d2, []) =>
      if l1 ≠ [] ∧ d1 ≠ [] ∧ l2 ≠ [] ∧ d2 ≠ [] then
        some (digitsVal d1, digitsVal d2, colIndex l1, colIndex l2)
      else if l1 ≠ [] ∧ d1 = [] ∧ l2 ≠ [] ∧ d2 = [] then some (0, maxrow, colIndex l1, colIndex l2)
      else if l1 = [] ∧ d1 ≠ [] ∧ l2 = [] ∧ d2 ≠ [] then some (digitsVal d1, digitsVal d2, 0, maxcol)
      else none
    | _ => none
  | _ => none

/-! ### relative references: `R[dr]C[dc]` against the host cell (`cr`, `cc`) -/

/-- `_sum(cr, rr1)` of `_range2parts`: host coordinate plus signed offset, as an integer -/
def relAbs (host : Nat) (off : Int) : Int := (host : Int) + off

end XL
