import XL.Model.Basic
/-!
# XL.Model.Eng — two's-complement base conversion (`formulas/functions/eng.py`) and
roman numerals (`formulas/functions/math.py`)

No imports: linked into `xldriver`.
-/
namespace XL

/-- digit `d < 16` as `bin/oct/hex(...)[2:].upper()` writes it -/
def digitOf (d : Nat) : Char := if d < 10 then Char.ofNat (48 + d) else Char.ofNat (55 + d)

/-- value of a digit character as `int(x, base)` reads it (`0-9`, `A-F`, `a-f`), 99 for anything else -/
def valOf (c : Char) : Nat :=
  if 48 ≤ c.toNat ∧ c.toNat ≤ 57 then c.toNat - 48
  else if 65 ≤ c.toNat ∧ c.toNat ≤ 70 then c.toNat - 55
  else if 97 ≤ c.toNat ∧ c.toNat ≤ 102 then c.toNat - 87
  else 99

/-- positional notation of `n` in base `b ≥ 2`, most significant digit first, `"0"` for zero -/
def toBase (b : Nat) (n : Nat) : List Char :=
  if h : 2 ≤ b ∧ b ≤ n then toBase b (n / b) ++ [digitOf (n % b)] else [digitOf n]
termination_by n
decreasing_by
  have : 0 < n := by omega
  exact Nat.div_lt_self this (by omega)

def ofBase (b : Nat) (s : List Char) : Nat := s.foldl (fun acc c => acc * b + valOf c) 0

def validDigits (b : Nat) (s : List Char) : Bool := !s.isEmpty && s.all (fun c => valOf c < b)

inductive EErr | num | value
  deriving DecidableEq, Repr

/-- `_dec2x(x, places=None, base)` on an integer `x` -/
def dec2x (mask b : Nat) (x : Int) : Except EErr (List Char) :=
  if -(mask : Int) ≤ x ∧ x < mask then
    .ok (toBase b (if x < 0 then x + 2 * mask else x).toNat)
  else .error .num

/-- zero padding of `_dec2x` when `places` is given (at most 10 places) -/
def withPlaces (places : Int) (s : List Char) : Except EErr (List Char) :=
  if places ≥ s.length ∧ places ≤ 10 then .ok (List.replicate (places.toNat - s.length) '0' ++ s) else .error .num

/-- `_dec2x(x, places, base)` with `places` given (an integer, after `_parseDEC`): `x.zfill(places)` when
`10 >= places >= (0 if x < 0 else len(digits))` — a negative number keeps its ten digits whatever `places` says -/
def dec2xP (mask b : Nat) (x places : Int) : Except EErr (List Char) :=
  match dec2x mask b x with
  | .error e => .error e
  | .ok s =>
    if places ≤ 10 ∧ (if x < 0 then 0 else (s.length : Int)) ≤ places then
      .ok (List.replicate (places.toNat - s.length) '0' ++ s)
    else .error .num

/-- `_x2dec(x, base)` on a digit string of at most 10 characters (the filter `_parseX`):
`(v & ~mask) - (mask & v)`; `mask` is a power of two and `v < 2 * mask`, so the bit test is
a quotient parity test -/
def x2dec (mask b : Nat) (s : List Char) : Except EErr Int :=
  if s.length > 10 then .error .num
  else if validDigits b s then
    .ok (if ofBase b s / mask % 2 = 1 then (ofBase b s : Int) - 2 * mask else ofBase b s)
  else .error .num

/-! ### roman numerals -/

/-- `xroman`: greedy over the `(value, numeral)` table of the form -/
def romanGo : List (Nat × List Char) → Nat → List Char
  | [], _ => []
  | (i, s) :: rest, n => (List.replicate (n / i) s).flatten ++ romanGo rest (n - i * (n / i))

def romanVal (c : Char) : Option Nat :=
  match c.toUpper with
  | 'M' => some 1000 | 'D' => some 500 | 'C' => some 100 | 'L' => some 50
  | 'X' => some 10 | 'V' => some 5 | 'I' => some 1 | _ => none

/-- the loop of `xarabic` over the reversed numeral: state `(res, add, p)` -/
def arabicGo : List Nat → Int → Bool → Int → Int
  | [], res, _, _ => res
  | v :: vs, res, add, p =>
    if (if p ≠ (v : Int) then decide (p < (v : Int)) else add) then
      arabicGo vs (res + v) (if p ≠ (v : Int) then decide (p < (v : Int)) else add) v
    else arabicGo vs (res - v) (if p ≠ (v : Int) then decide (p < (v : Int)) else add) v

/-- `xarabic(text)`; `none` is the `ValueError` of `'MDCLXVI'.index` (→ `#VALUE!`) -/
def arabic (s : List Char) : Option Int :=
  match s.reverse.mapM romanVal with
  | none => none
  | some vs => some (arabicGo vs 0 true (-1))

end XL
