import XL.Model.Basic
/-!
# XL.Model.Cal — calendar arithmetic of `formulas/functions/date.py`

`datetime` and `calendar` are external to the repository.  What the code uses of them is
(1) the proleptic Gregorian day count (`DATE_ZERO + timedelta(days=n)`, `(date - DATE_ZERO).days`)
and (2) `calendar.monthrange(y, m)[1]`.  Both are given here concretely (days-from-civil /
civil-from-days in the March-based 400-year-era form, divisions by literals only) so that the
theorems carry no hypothesis about them; the correspondence check compares them with the
real `datetime` through `DATE`, `YEAR`, `MONTH`, `DAY`.

No imports: linked into `xldriver`.
-/
namespace XL

/-! ### day number `z` = days since 0000-03-01 (proleptic Gregorian) -/

def era (z : Nat) : Nat := z / 146097
def doe (z : Nat) : Nat := z % 146097
def yoe (z : Nat) : Nat := (doe z - doe z / 1460 + doe z / 36524 - doe z / 146096) / 365
def doy (z : Nat) : Nat := doe z - (365 * yoe z + yoe z / 4 - yoe z / 100)
def mp (z : Nat) : Nat := (5 * doy z + 2) / 153
def dom (z : Nat) : Nat := doy z - (153 * mp z + 2) / 5 + 1
/-- March-based year -/
def yy (z : Nat) : Nat := yoe z + era z * 400

/-- civil year / month / day of a day number -/
def civilY (z : Nat) : Nat := if mp z < 10 then yy z else yy z + 1
def civilM (z : Nat) : Nat := if mp z < 10 then mp z + 3 else mp z - 9
def civilD (z : Nat) : Nat := dom z

/-- days from March-based year `y`, month index `mp` (0 = March) and day `d ≥ 1` -/
def daysFrom (y mp d : Nat) : Nat :=
  (y / 400) * 146097 + ((y % 400) * 365 + (y % 400) / 4 - (y % 400) / 100 + ((153 * mp + 2) / 5 + d - 1))

/-- day number of the civil date `y-m-d` (`y ≥ 1`, `1 ≤ m ≤ 12`) -/
def daysFromCivil (y m d : Nat) : Nat :=
  if m ≤ 2 then daysFrom (y - 1) (m + 9) d else daysFrom y (m - 3) d

def isLeap (y : Int) : Bool := y % 4 == 0 && (y % 100 != 0 || y % 400 == 0)

/-- `calendar.monthrange(y, m)[1]` (any integer year: `calendar` maps years outside 1..9999 to
`2000 + y % 400` for the weekday and uses `isleap` directly for the length) -/
def daysInMonth (y : Int) (m : Int) : Int :=
  if m = 2 then (if isLeap y then 29 else 28)
  else if m = 4 ∨ m = 6 ∨ m = 9 ∨ m = 11 then 30 else 31

/-- `DATE_ZERO = datetime(1899, 12, 31)` as a day number -/
def dateZero : Nat := daysFromCivil 1899 12 31

/-! ### Excel serial numbers -/

inductive DErr | num | value
  deriving DecidableEq, Repr

/-- `_int2date(serial_number)` -/
def int2date (maxSerial : Nat) (n : Int) : Except DErr (Nat × Nat × Nat) :=
  if 60 < n ∧ n ≤ maxSerial then
    .ok (civilY (dateZero + (n.toNat - 1)), civilM (dateZero + (n.toNat - 1)), civilD (dateZero + (n.toNat - 1)))
  else if n = 60 then .ok (1900, 2, 29)
  else if n = 0 then .ok (1900, 1, 0)
  else if 0 < n ∧ n < 60 then
    .ok (civilY (dateZero + n.toNat), civilM (dateZero + n.toNat), civilD (dateZero + n.toNat))
  else .error .num

/-- the final test of `_date`: `1899 < y <= 9999 or (y, m, d) == (1899, 12, 31)` -/
def dateInRange (y m d : Int) : Bool := (1899 < y && y ≤ 9999) || (y == 1899 && m == 12 && d == 31)

/-- `_date(y, m, d)`: month overflow by floor division, day underflow/overflow month by month.
`fuel` bounds the Python recursion (one level per month); running out of it is the
`RecursionError` of the real code, which the outer wrapper turns into `#VALUE!`. -/
def dateNorm : Nat → Int → Int → Int → Except DErr (Int × Int × Int)
  | 0, _, _, _ => .error .value
  | fuel + 1, y0, m0, d =>
    if d ≤ 0 then
      match dateNorm fuel (y0 + (m0 - 1) / 12) (m0 - (m0 - 1) / 12 * 12 - 1)
          (d + daysInMonth (y0 + (m0 - 1) / 12)
                (if m0 - (m0 - 1) / 12 * 12 - 1 = 0 then 12 else m0 - (m0 - 1) / 12 * 12 - 1)
             + (if y0 + (m0 - 1) / 12 = 1900 ∧ m0 - (m0 - 1) / 12 * 12 - 1 = 2 then 1 else 0)) with
      | .error e => .error e
      | .ok (y, m, d') => if dateInRange y m d' then .ok (y, m, d') else .error .num
    else if (y0 + (m0 - 1) / 12) ≤ 9999 then
      if d > daysInMonth (y0 + (m0 - 1) / 12) (m0 - (m0 - 1) / 12 * 12) then
        match dateNorm fuel (y0 + (m0 - 1) / 12) (m0 - (m0 - 1) / 12 * 12 + 1)
            (d - daysInMonth (y0 + (m0 - 1) / 12) (m0 - (m0 - 1) / 12 * 12)) with
        | .error e => .error e
        | .ok (y, m, d') => if dateInRange y m d' then .ok (y, m, d') else .error .num
      else if dateInRange (y0 + (m0 - 1) / 12) (m0 - (m0 - 1) / 12 * 12) d then
        .ok (y0 + (m0 - 1) / 12, m0 - (m0 - 1) / 12 * 12, d)
      else .error .num
    else .error .num

/-- `xdate(year, month, day)` -/
def xdate (fuel : Nat) (year month day : Int) : Except DErr Int :=
  if year = 1900 ∧ ((month = 2 ∧ day = 29) ∨ (month = 3 ∧ day = 0)) then .ok 60
  else
    match dateNorm fuel (if year < 1900 then year + 1900 else year) month day with
    | .error e => .error e
    | .ok (y, m, d) =>
      .ok ((daysFromCivil y.toNat m.toNat d.toNat : Int) - dateZero
            + (if (y > 1900) ∨ (y = 1900 ∧ m ≥ 3) then 1 else 0))

/-- depth the Python recursion of `_date` can reach before `RecursionError` (≈ 1000 frames, some
of them used by the callers); only the order of magnitude matters -/
def pyFuel : Nat := 900

/-- the round trip as a decidable check: `DATE(YEAR(n), MONTH(n), DAY(n)) = n` -/
def dateRoundTripOK (maxSerial : Nat) (n : Int) : Bool :=
  match int2date maxSerial n with
  | .ok (y, m, d) =>
    match xdate pyFuel y m d with
    | .ok v => v == n
    | .error _ => false
  | .error _ => false

/-- `xweekday(serial_number, n)` -/
def xweekday (maxSerial : Nat) (serial : Int) (n : Int) : Except DErr Int :=
  if ¬ (0 ≤ serial ∧ serial ≤ maxSerial) then .error .num
  else if 1 ≤ n ∧ n ≤ 2 then
    .ok (if (serial + 7 - (n - 1)) % 7 = 0 then 7 else (serial + 7 - (n - 1)) % 7)
  else if n = 3 then .ok ((serial + 7 - 2) % 7)
  else if 11 ≤ n ∧ n ≤ 17 then
    .ok (if (serial + 7 - (n - 10)) % 7 = 0 then 7 else (serial + 7 - (n - 10)) % 7)
  else .error .num

/-! ### TIME / HOUR / MINUTE / SECOND over exact rationals

`xtime` and `_n2time` of `functions/date.py` compute in IEEE doubles; the definitions below are the same
steps over exact rationals with the common denominator `864e8` (the nudge `1 / 864e8` of `_n2time`),
for serials that are a whole number of seconds.  The floating-point instance is enumerated on the
implementation and compared with these definitions by the check (command `hms`). -/

/-- `TIME(h, m, s)` as a whole number of seconds: `(h/24 + m/1440 + s/86400) % 1` times 86 400 -/
def timeSecs (h m s : Int) : Int := (3600 * h + 60 * m + s) % 86400

/-- the denominator `864e8` -/
def timeDen : Int := 86400000000

/-- `_n2time` for a serial of `T` whole seconds (`serial = T / 86400 = T·10⁶ / timeDen`): hours (before
`% 24`), minutes, and the numerator over `timeDen` of the seconds before rounding -/
def n2time (T : Int) : Int × Int × Int :=
  let ah := (T * 1000000 + 1) * 24                      -- at_hours · timeDen
  let hours := ah / timeDen
  let am := (ah - hours * timeDen) * 60                 -- at_mins · timeDen
  let mins := am / timeDen
  (hours, mins, (am - mins * timeDen) * 60)             -- secs · timeDen

/-- `round(secs - 1.1e-6)` to the nearest integer: `floor(x + 1/2)` with `x = num/timeDen - 11/10⁷` -/
def roundSecs (num : Int) : Int :=
  (num * 20000000 - 22 * timeDen + timeDen * 10000000) / (2 * timeDen * 10000000)

/-- `(HOUR, MINUTE, SECOND)` of `TIME(h, m, s)` -/
def hmsOfTime (h m s : Int) : Int × Int × Int :=
  let r := n2time (timeSecs h m s)
  (r.1 % 24, r.2.1, roundSecs r.2.2)

end XL
