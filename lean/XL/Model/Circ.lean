import XL.Model.Book
import XL.Model.BookProto
import XL.Model.Cycle
/-!
# XL.Model.Circ — a workbook after `solve_circular`

`ExcelModel.solve_circular` (`excel/__init__.py`) decides, cycle by cycle and without looking at any
value, either to *cut* the cycle at a formula whose back edge enters only through a lazy branch of
`IF / IFS / IFERROR / IFNA` (the cut input of that formula is replaced by the constant `#CIRC!`), or to
*mark* every data node of the cycle with the default value `#CIRC!`.  After that the workbook is
an ordinary acyclic one.

Modelled: the workbook that results from given cuts and marks (`solved`) and its evaluation.
**Not** modelled: the decision procedure itself (which cycles are cut where, the treatment of
ranges shared between cycles, the order `sorted(map(set, cycles))`); the check reads the cuts and marks
the implementation chose off its dispatcher and constrains them by graph-theoretic oracles
(`harness/checks/c10.py`).
-/
namespace XL
variable {F : Type} [Num F]

/-- what a formula reads from a *marked* range node: the default value `#CIRC!` passes the node's
filter and fills the rectangle -/
def circArray (r : RRef) : Expr F :=
  .array (tabulate (r.r2 + 1 - r.r1) (r.c2 + 1 - r.c1) fun _ _ => .err .circ)

mutual
/-- replace the listed references and names by the constant `#CIRC!` (`CIRCULAR` data node), and the
references in `full` (marked range nodes) by a rectangle of `#CIRC!` -/
def cutExpr (refs : List RRef) (names : List String) (full : List RRef) : Expr F → Expr F
  | .ref r => if r ∈ refs then .lit (.err .circ) else if r ∈ full then circArray r else .ref r
  | .name n => if n ∈ names then .lit (.err .circ) else .name n
  | .bin o l r => .bin o (cutExpr refs names full l) (cutExpr refs names full r)
  | .un o x => .un o (cutExpr refs names full x)
  | .call f args => .call f (cutArgs refs names full args)
  | .lit v => .lit v
  | .empty => .empty
  | .array rows => .array rows
def cutArgs (refs : List RRef) (names : List String) (full : List RRef) : List (Expr F) → List (Expr F)
  | [] => []
  | a :: as => cutExpr refs names full a :: cutArgs refs names full as
end

/-- the inputs of the formula at one address that are cut -/
structure Cut where
  sheet : Nat
  row : Nat
  col : Nat
  refs : List RRef
  names : List String
  deriving Repr, Inhabited

def refsAt (cuts : List Cut) (s r c : Nat) : List RRef :=
  cuts.flatMap fun k => if k.sheet = s ∧ k.row = r ∧ k.col = c then k.refs else []

def namesAt (cuts : List Cut) (s r c : Nat) : List String :=
  cuts.flatMap fun k => if k.sheet = s ∧ k.row = r ∧ k.col = c then k.names else []

def cutContent (refs : List RRef) (names : List String) (full : List RRef) : Content F → Content F
  | .const v => .const v
  | .formula e => .formula (cutExpr refs names full e)
  | .arrayFormula R C e => .arrayFormula R C (cutExpr refs names full e)

/-- `nmarks` / `rmarks`: marked name and range nodes — every formula reading them sees `#CIRC!` -/
def applyCuts (cuts : List Cut) (nmarks : List String) (rmarks : List RRef) (d : CellDef F) : CellDef F :=
  { d with content := cutContent (refsAt cuts d.sheet d.row d.col) (namesAt cuts d.sheet d.row d.col ++ nmarks) rmarks d.content }

/-- the workbook `solve_circular` leaves behind: cut formulas, marked addresses read `#CIRC!` -/
def solved (b : Book F) (cuts : List Cut) (marks : List (Nat × Nat × Nat)) (nmarks : List String := [])
    (rmarks : List RRef := []) : Book F :=
  { cells := b.cells.map (applyCuts cuts nmarks rmarks), names := b.names,
    overrides := marks.map (fun a => (a, (.err .circ : Val F))) ++ b.overrides }

namespace CircProto
open XL.BookProto

def takeNats : Nat → List String → Option (List Nat × List String)
  | 0, ts => some ([], ts)
  | n + 1, t :: ts => do
      let v ← t.toNat?
      let (vs, rest) ← takeNats n ts
      pure (v :: vs, rest)
  | _, [] => none

def takeRefs : Nat → List String → Option (List RRef × List String)
  | 0, ts => some ([], ts)
  | n + 1, ts => do
      let (l, rest) ← takeNats 5 ts
      match l with
      | [a, b, c, d, e] =>
        let (rs, rest') ← takeRefs n rest
        pure (⟨a, b, c, d, e⟩ :: rs, rest')
      | _ => none

def takeStrs : Nat → List String → Option (List String × List String)
  | 0, ts => some ([], ts)
  | n + 1, t :: ts => do
      let (vs, rest) ← takeStrs n ts
      pure (String.ofList (decodeStr t) :: vs, rest)
  | _, [] => none

def takeCuts : Nat → List String → Option (List Cut × List String)
  | 0, ts => some ([], ts)
  | n + 1, s :: r :: c :: nr :: rest => do
      let a ← s.toNat?; let x ← r.toNat?; let y ← c.toNat?; let k ← nr.toNat?
      let (refs, r1) ← takeRefs k rest
      match r1 with
      | nn :: r2 => do
        let m ← nn.toNat?
        let (names, r3) ← takeStrs m r2
        let (cs, r4) ← takeCuts n r3
        pure (⟨a, x, y, refs, names⟩ :: cs, r4)
      | [] => none
  | _, _ => none

def takeMarks : Nat → List String → Option (List (Nat × Nat × Nat) × List String)
  | 0, ts => some ([], ts)
  | n + 1, s :: r :: c :: rest => do
      let a ← s.toNat?; let x ← r.toNat?; let y ← c.toNat?
      let (ms, r1) ← takeMarks n rest
      pure ((a, x, y) :: ms, r1)
  | _, _ => none

/-- `cbook <ncuts> (s r c nrefs (s r1 r2 c1 c2)* nnames name*)* <nmarks> (s r c)* <nnamemarks> name*
<nrangemarks> (s r1 r2 c1 c2)* <book items> q …` -/
def answerCBook (args : List String) : Option String :=
  match args with
  | nc :: rest => do
      let k ← nc.toNat?
      let (cuts, r1) ← takeCuts k rest
      match r1 with
      | nm :: r2 => do
        let m ← nm.toNat?
        let (marks, r3) ← takeMarks m r2
        match r3 with
        | nn :: r4 => do
          let j ← nn.toNat?
          let (nmarks, r5) ← takeStrs j r4
          match r5 with
          | nr :: r6 => do
            let i ← nr.toNat?
            let (rmarks, r7) ← takeRefs i r6
            let (b, qs) ← parseItems (r7.length + 1) r7 ⟨[], [], []⟩
            pure (" ".intercalate (qs.map fun (s, r, c) => showVal (value (solved b cuts marks nmarks rmarks) 64 s r c)))
          | [] => none
        | [] => none
      | [] => none
  | [] => none

/-- `cycles n u v u v …` : the elementary cycles of the digraph on `0..n-1` with the listed edges,
each written from its least vertex, `;`-separated -/
def answerCycles (args : List String) : Option String :=
  match args with
  | n :: rest => do
      let k ← n.toNat?
      let (l, _) ← takeNats rest.length rest
      let rec pairs : List Nat → List (Nat × Nat)
        | a :: b :: t => (a, b) :: pairs t
        | _ => []
      let es := pairs l
      let adj := fun v => ((List.range k).filter fun w => es.contains (v, w))
      let cs := cycles adj k
      pure (if cs.isEmpty then "-" else ";".intercalate (cs.map fun c => ".".intercalate (c.map toString)))
  | [] => none

end CircProto
end XL
