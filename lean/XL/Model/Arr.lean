import XL.Model.Basic
/-!
# XL.Model.Arr — 2-D arrays, Excel broadcasting and fitting a value to a destination rectangle

Model of the element-wise path of `wrap_ufunc` (`np.vectorize(safe_eval)(*args)` for fewer than 32
arguments) and of `_reshape_array_as_excel` / `Array.reshape` (`functions/__init__.py`, `ranges.py`).
An array is its list of rows; a scalar argument is a 1×1 array.
-/
namespace XL

abbrev Arr (α : Type) := List (List α)

def Arr.nrows {α} (a : Arr α) : Nat := a.length
def Arr.ncols {α} (a : Arr α) : Nat := (a.headD []).length

/-- rectangular and non-empty: every row has the length of the first -/
def Arr.WF {α} (a : Arr α) : Prop := 0 < a.nrows ∧ 0 < a.ncols ∧ ∀ r ∈ a, r.length = a.ncols

/-- element picked for result position `(i, j)`: a single row / column / cell stretches -/
def Arr.bget {α} (a : Arr α) (d : α) (i j : Nat) : α :=
  (a.getD (if a.nrows = 1 then 0 else i) []).getD (if a.ncols = 1 then 0 else j) d

/-- numpy broadcasting of one dimension: equal, or one of them is 1 -/
def bdim (m n : Nat) : Option Nat :=
  if m = n then some m else if m = 1 then some n else if n = 1 then some m else none

/-- result shape of broadcasting a list of shapes; `none` is numpy's `ValueError`
(re-raised by `wrap_ufunc` as `BroadcastError`) -/
def bshape : List (Nat × Nat) → Option (Nat × Nat)
  | [] => some (1, 1)
  | (r, c) :: rest =>
    match bshape rest with
    | none => none
    | some (r', c') =>
      match bdim r r', bdim c c' with
      | some R, some C => some (R, C)
      | _, _ => none

def tabulate {α} (R C : Nat) (f : Nat → Nat → α) : Arr α :=
  (List.range R).map fun i => (List.range C).map fun j => f i j

/-- `np.vectorize(f)(a, b)` -/
def map2 {α β γ} (f : α → β → γ) (da : α) (db : β) (a : Arr α) (b : Arr β) : Option (Arr γ) :=
  match bshape [(a.nrows, a.ncols), (b.nrows, b.ncols)] with
  | none => none
  | some (R, C) => some (tabulate R C fun i j => f (a.bget da i j) (b.bget db i j))

/-- `np.vectorize(f)(a)` -/
def map1 {α γ} (f : α → γ) (a : Arr α) : Arr γ := a.map (·.map f)

/-- `np.vectorize(f)(*args)` for any number of arguments of one type -/
def mapN {α γ} (f : List α → γ) (d : α) (args : List (Arr α)) : Option (Arr γ) :=
  match bshape (args.map fun a => (a.nrows, a.ncols)) with
  | none => none
  | some (R, C) => some (tabulate R C fun i j => f (args.map fun a => a.bget d i j))

/-! ### fitting a value to a destination of `R × C` cells -/

/-- row-major refill (`np.reshape`) of a flat list -/
def chunks {α} (C : Nat) : Nat → List α → Arr α
  | 0, _ => []
  | R + 1, l => l.take C :: chunks C R (l.drop C)

/-- `_reshape_array_as_excel(value, (R, C))` / `Array.reshape((R, C))` for a 2-D value:
equal element counts → row-major refill; otherwise broadcast-assign the clipped value into a
grid filled with `na` (`#N/A`) -/
def fit {α} (na : α) (R C : Nat) (v : Arr α) : Arr α :=
  if v.nrows * v.ncols = R * C then chunks C R v.flatten
  else tabulate R C fun i j =>
    if (v.nrows = 1 ∨ i < v.nrows) ∧ (v.ncols = 1 ∨ j < v.ncols) then v.bget na i j else na

/-- what the property prescribes: a scalar fills, a single row/column repeats along the other
dimension, surplus is dropped, unreached cells get `na` -/
def fitSpec {α} (na : α) (v : Arr α) (i j : Nat) : α :=
  if (v.nrows = 1 ∨ i < v.nrows) ∧ (v.ncols = 1 ∨ j < v.ncols) then v.bget na i j else na

end XL
