import XL.Generated.Tables
/-!
# XL.Model.FnClass — every name of the function table is classified

Hand-written (not generated): a function added to `formulas/functions` appears in
`XL.Generated.Tables.functionNames` at the next run and makes `table_classified` (XL.Props.C11) fail until it
is put into one of the three classes.

* `modelled` — the function has a reference definition in the Lean model (`XL.Model.Fn`, `XL.Model.Look`,
  `XL.Model.Cal`, `XL.Model.Eng`, `XL.Model.Eval`), `_XLFN.` aliases included;
* `structural` — constants, volatile sources, reference inspection and the internal builders of array
  literals: no value argument is consumed;
* `swept` — everything else (financial, statistical distributions, date parts, TEXT formats, matrices…):
  totality and error propagation are established by enumeration on the implementation only (C11 check).
-/
namespace XL

def modelledFunctions : List String := ["ABS", "ACOS", "ACOSH", "AND", "ARABIC", "ASIN", "ASINH", "ATAN", "ATAN2", "ATANH", "AVERAGE", "AVERAGEIF", "BIN2DEC", "BIN2HEX", "BIN2OCT", "CEILING", "CONCAT", "CONCATENATE", "COS", "COSH", "COUNT", "COUNTA", "COUNTBLANK", "COUNTIF", "DATE", "DAY", "DEC2BIN", "DEC2HEX", "DEC2OCT", "EVEN", "EXP", "FIND", "FLOOR", "HEX2BIN", "HEX2DEC", "HEX2OCT", "HLOOKUP", "IF", "IFERROR", "IFNA", "IFS", "INDEX", "INT", "ISBLANK", "ISERR", "ISERROR", "ISEVEN", "ISLOGICAL", "ISNA", "ISNONTEXT", "ISNUMBER", "ISODD", "ISTEXT", "LARGE", "LEFT", "LEN", "LN", "LOG", "LOG10", "LOOKUP", "LOWER", "MATCH", "MAX", "MEDIAN", "MID", "MIN", "MOD", "MONTH", "NOT", "OCT2BIN", "OCT2DEC", "OCT2HEX", "ODD", "OR", "POWER", "PRODUCT", "RANDBETWEEN", "REPLACE", "RIGHT", "ROMAN", "ROUND", "ROUNDDOWN", "ROUNDUP", "SEARCH", "SIGN", "SIN", "SINH", "SMALL", "SQRT", "STDEV", "STDEV.P", "STDEV.S", "STDEVP", "SUBSTITUTE", "SUM", "SUMIF", "SUMPRODUCT", "SUMSQ", "SWITCH", "TAN", "TANH", "TEXTJOIN", "TRIM", "TRUNC", "UPPER", "VALUE", "VAR", "VAR.P", "VAR.S", "VARP", "VLOOKUP", "WEEKDAY", "XOR", "YEAR", "_XLFN.ARABIC", "_XLFN.CONCAT", "_XLFN.CONCATENATE", "_XLFN.IFNA", "_XLFN.IFS", "_XLFN.STDEV.P", "_XLFN.STDEV.S", "_XLFN.SWITCH", "_XLFN.TEXTJOIN", "_XLFN.VAR.P", "_XLFN.VAR.S", "_XLFN.XOR"]

def structuralFunctions : List String := ["ARRAY", "ARRAYROW", "COLUMN", "DUMMYFUNCTION", "FALSE", "FILTER", "NA", "NOW", "PI", "RAND", "ROW", "SINGLE", "T", "TODAY", "TRANSPOSE", "TRUE", "_XLFN.SINGLE", "_XLFN._XLWS.FILTER", "__XLUDF.DUMMYFUNCTION"]

def sweptFunctions : List String := ["ACOT", "ACOTH", "ADDRESS", "AVERAGEA", "CEILING.MATH", "CEILING.PRECISE", "CHAR", "CODE", "CORREL", "COT", "COTH", "CSC", "CSCH", "CUMIPMT", "DATEDIF", "DATEVALUE", "DECIMAL", "DEGREES", "EDATE", "FACT", "FACTDOUBLE", "FLOOR.MATH", "FLOOR.PRECISE", "FORECAST", "FORECAST.LINEAR", "FV", "GCD", "HOUR", "IPMT", "IRR", "ISO.CEILING", "ISOWEEKNUM", "LCM", "MAXA", "MDETERM", "MINA", "MINUTE", "MINVERSE", "MMULT", "MROUND", "MUNIT", "NORM.DIST", "NORM.INV", "NORM.S.DIST", "NORM.S.INV", "NORMDIST", "NORMINV", "NORMSDIST", "NORMSINV", "NPER", "NPV", "PERCENTILE", "PERCENTILE.EXC", "PERCENTILE.INC", "PMT", "PPMT", "PV", "QUARTILE", "QUARTILE.EXC", "QUARTILE.INC", "RADIANS", "RATE", "SEC", "SECH", "SECOND", "SLOPE", "SQRTPI", "STDEVA", "STDEVPA", "TEXT", "TIME", "TIMEVALUE", "VARA", "VARPA", "WEEKNUM", "XIRR", "XNPV", "YEARFRAC", "_XLFN.ACOT", "_XLFN.ACOTH", "_XLFN.CEILING.MATH", "_XLFN.CEILING.PRECISE", "_XLFN.COT", "_XLFN.COTH", "_XLFN.CSC", "_XLFN.CSCH", "_XLFN.DECIMAL", "_XLFN.FLOOR.MATH", "_XLFN.FLOOR.PRECISE", "_XLFN.FORECAST.LINEAR", "_XLFN.ISOWEEKNUM", "_XLFN.MUNIT", "_XLFN.NORM.DIST", "_XLFN.NORM.INV", "_XLFN.NORM.S.DIST", "_XLFN.NORM.S.INV", "_XLFN.PERCENTILE.EXC", "_XLFN.PERCENTILE.INC", "_XLFN.QUARTILE.EXC", "_XLFN.QUARTILE.INC", "_XLFN.SEC", "_XLFN.SECH"]

end XL
