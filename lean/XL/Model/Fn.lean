import XL.Model.Eval
import XL.Model.Look
/-!
# XL.Model.Fn — the core function library as its Excel definitions

Reference definitions of the functions property C12 lists, written from the Excel documentation
(`spec`, not the code): logical, information, aggregation, element-wise mathematics, text.
`libFn name args` is the table; `harness/checks/c12.py` calls the implementation and this model on the
same arguments.  Where the code deviates the check reports it; what was repaired and what is a
known finding is listed in DESIGN.md §9.

Conventions
* an argument is `Res.scalar v` (typed directly into the formula) or `Res.arr a` (a range or array);
* aggregations take numbers, logicals and numeric text typed directly (other text is `#VALUE!`),
  and inside ranges numbers and numeric text only (logicals, other text and blanks are skipped);
* decimal rounding (`ROUND`, `ROUNDUP`, `ROUNDDOWN`, `TRUNC`, `CEILING`, `FLOOR`, `EVEN`, `ODD`, `INT`)
  works on the exact decimal of the number's shortest text (`Num.toDec`) — 1.005 is 1005·10⁻³;
* transcendental kernels are parameters (`Num.kernel1`); the model decides domains and errors.
-/
namespace XL
variable {F : Type} [Num F]

/-! ### exact decimals -/

def pow10 (n : Int) : Nat := 10 ^ n.toNat

/-- how to round the quotient `q` with remainder `r` of a division by `p` (all non-negative) -/
inductive RMode | halfUp | away | toward
  deriving DecidableEq, Repr

def roundQ (mode : RMode) (q r p : Nat) : Nat :=
  match mode with
  | .halfUp => if 2 * r ≥ p then q + 1 else q
  | .away => if r > 0 then q + 1 else q
  | .toward => q

/-- round `m·10^e` to `d` decimal places (`d` may be negative): the result is `m'·10^(-d)` -/
def roundDec (mode : RMode) (m e d : Int) : Int × Int :=
  if e ≥ -d then (m, e)
  else
    let p := pow10 (-d - e)
    let q' := roundQ mode (m.natAbs / p) (m.natAbs % p) p
    ((if m < 0 then -(q' : Int) else (q' : Int)), -d)

/-- two decimals on a common exponent -/
def alignDec (a b : Int × Int) : Int × Int × Int :=
  let e := min a.2 b.2
  (a.1 * pow10 (a.2 - e), b.1 * pow10 (b.2 - e), e)

def decToF (p : Int × Int) : F := Num.ofDec p.1 p.2

/-- integer part toward zero of a finite number -/
def truncInt (x : F) : Int :=
  let (m, e) := Num.toDec x
  if e ≥ 0 then m * pow10 e else (if m < 0 then -((m.natAbs / pow10 (-e) : Nat) : Int) else ((m.natAbs / pow10 (-e) : Nat) : Int))

/-- floor of a finite number -/
def floorInt (x : F) : Int :=
  let (m, e) := Num.toDec x
  if e ≥ 0 then m * pow10 e else m / (pow10 (-e) : Int)

def ceilInt (x : F) : Int :=
  let (m, e) := Num.toDec x
  if e ≥ 0 then m * pow10 e else -((-m) / (pow10 (-e) : Int))

def ofInt (n : Int) : F := Num.ofDec n 0

/-! ### element-wise mathematics -/

/-- coerce one element to a number (`TRUE` is 1, numeric text its number, blank 0) and apply `f` -/
def num1 (f : F → Val F) (v : Val F) : Val F :=
  match toNum v with
  | .ok x => f x
  | .error e => .err e

def num2 (f : F → F → Val F) (a b : Val F) : Val F :=
  match firstErr [a, b] with
  | some e => .err e
  | none =>
    match toNum a, toNum b with
    | .ok x, .ok y => f x y
    | .error e, _ => .err e
    | _, .error e => .err e

def fin (x : F) : Val F := convertNan x

def roundFn (mode : RMode) (x d : F) : Val F :=
  let (m, e) := Num.toDec x
  fin (decToF (roundDec mode m e (truncInt d)))

/-- `CEILING(x, s)` / `FLOOR(x, s)` : the multiple of `s` next to `x` (up / down in value for `s > 0`,
away / toward zero for both negative); a negative `s` with positive `x` is `#NUM!` -/
def ceilingFn (up : Bool) (x s : F) : Val F :=
  if Num.isZero s then (if up then .num Num.zero else .err .div0)
  else if Num.isNeg s && !Num.isNeg x && !Num.isZero x then .err .num
  else
    let (X, S, e) := alignDec (Num.toDec x) (Num.toDec s)
    -- quotient X / S rounded up or down (Euclidean division has a non-negative remainder)
    let q := X / S
    let r := X % S
    -- Euclidean division: for S > 0 the quotient is the floor, for S < 0 the ceiling
    let q' := if r = 0 then q else if up then (if S > 0 then q + 1 else q) else (if S > 0 then q else q - 1)
    fin (decToF (q' * S, e))

def evenFn (x : F) : Val F :=
  let a := ceilInt (if Num.isNeg x then Num.neg x else x)
  let v := if a % 2 = 0 then a else a + 1
  fin (ofInt (if Num.isNeg x then -v else v))

def oddFn (x : F) : Val F :=
  let a := ceilInt (if Num.isNeg x then Num.neg x else x)
  let v := if a % 2 = 1 then a else a + 1
  fin (ofInt (if Num.isNeg x then -v else v))

/-- `MOD(n, d) = n - d·INT(n/d)` (the documented formula, in the number type's own arithmetic): the
sign of the divisor -/
def modFn (n d : F) : Val F :=
  if Num.isZero d then .err .div0
  else fin (Num.sub n (Num.mul d (ofInt (floorInt (Num.div n d)))))

def signFn (x : F) : Val F :=
  .num (if Num.isZero x then Num.zero else if Num.isNeg x then Num.neg Num.one else Num.one)

def k1 (n : String) (x : F) : Val F := fin (Num.kernel1 n x)

def gt1 (x : F) : Bool := Num.lt Num.one x
def ltm1 (x : F) : Bool := Num.lt x (Num.neg Num.one)

def math1 (name : String) (x : F) : Option (Val F) :=
  match name with
  | "ABS" => some (fin (if Num.isNeg x then Num.neg x else if Num.isZero x then Num.zero else x))
  | "INT" => some (fin (ofInt (floorInt x)))
  | "SIGN" => some (signFn x)
  | "SQRT" => some (if Num.isNeg x then .err .num else k1 "SQRT" x)
  | "EXP" => some (k1 "EXP" x)
  | "LN" => some (if Num.isNeg x || Num.isZero x then .err .num else k1 "LN" x)
  | "LOG10" => some (if Num.isNeg x || Num.isZero x then .err .num else k1 "LOG10" x)
  | "EVEN" => some (evenFn x)
  | "ODD" => some (oddFn x)
  | "SIN" => some (k1 "SIN" x) | "COS" => some (k1 "COS" x) | "TAN" => some (k1 "TAN" x)
  | "ASIN" => some (if gt1 x || ltm1 x then .err .num else k1 "ASIN" x)
  | "ACOS" => some (if gt1 x || ltm1 x then .err .num else k1 "ACOS" x)
  | "ATAN" => some (k1 "ATAN" x)
  | "SINH" => some (k1 "SINH" x) | "COSH" => some (k1 "COSH" x) | "TANH" => some (k1 "TANH" x)
  | "ASINH" => some (k1 "ASINH" x)
  | "ACOSH" => some (if Num.lt x Num.one then .err .num else k1 "ACOSH" x)
  | "ATANH" => some (if !(Num.lt x Num.one) || !(Num.lt (Num.neg Num.one) x) then .err .num else k1 "ATANH" x)
  | _ => none

def math2 (name : String) (x y : F) : Option (Val F) :=
  match name with
  | "POWER" => some (power x y)
  | "MOD" => some (modFn x y)
  | "ROUND" => some (roundFn .halfUp x y)
  | "ROUNDUP" => some (roundFn .away x y)
  | "ROUNDDOWN" => some (roundFn .toward x y)
  | "TRUNC" => some (roundFn .toward x y)
  | "CEILING" => some (ceilingFn true x y)
  | "FLOOR" => some (ceilingFn false x y)
  | "ATAN2" => some (if Num.isZero x && Num.isZero y then .err .div0 else fin (Num.kernel2 "ATAN2" y x))
  | "LOG" =>
    some (if Num.isNeg x || Num.isZero x || Num.isNeg y || Num.isZero y then .err .num
          else fin (Num.div (Num.kernel1 "LN" x) (Num.kernel1 "LN" y)))
  | _ => none

/-! ### aggregation -/

/-- the numbers an aggregation sees, in argument order; the first error anywhere wins -/
def aggNums (args : List (Res F)) : Except Err (List F) :=
  match firstErr (flatVals args) with
  | some e => .error e
  | none =>
    args.foldlM (fun acc r =>
      match r with
      | .scalar (.num x) => .ok (acc ++ [x])
      | .scalar (.bool b) => .ok (acc ++ [if b then Num.one else Num.zero])
      | .scalar (.text s) => (match (Num.ofText s : Option F) with | some x => .ok (acc ++ [x]) | none => .error .value)
      | .scalar .blank => .ok acc
      | .scalar (.err e) => .error e
      -- inside an array or a reference only numbers count: logicals, blanks and every text — also text that
      -- looks like a number — are ignored
      | .arr a => .ok (acc ++ a.flatten.filterMap fun v =>
          match v with
          | .num x => some x
          | _ => none)) []

def fsum (l : List F) : F := l.foldl Num.add Num.zero
def fprod (l : List F) : F := l.foldl Num.mul Num.one

/-- insertion sort (ascending) with the number order -/
def insertF (x : F) : List F → List F
  | [] => [x]
  | y :: ys => if Num.lt y x then y :: insertF x ys else x :: y :: ys
def sortF (l : List F) : List F := l.foldr insertF []

def two : F := Num.add Num.one Num.one

def medianF (l : List F) : Val F :=
  let s := sortF l
  let n := s.length
  if n = 0 then .err .num
  else if n % 2 = 1 then fin (s.getD (n / 2) Num.zero)
  else fin (Num.div (Num.add (s.getD (n / 2 - 1) Num.zero) (s.getD (n / 2) Num.zero)) two)

/-- sum of squared deviations from the mean -/
def devSq (l : List F) : F :=
  let mean := Num.div (fsum l) (natToF l.length)
  fsum (l.map fun x => Num.mul (Num.sub x mean) (Num.sub x mean))

def varF (sample : Bool) (l : List F) : Val F :=
  let n := l.length
  if sample then (if n < 2 then .err .div0 else fin (Num.div (devSq l) (natToF (n - 1))))
  else (if n < 1 then .err .div0 else fin (Num.div (devSq l) (natToF n)))

def sqrtVal (v : Val F) : Val F :=
  match v with
  | .num x => k1 "SQRT" x
  | v => v

def aggFn (name : String) (args : List (Res F)) : Option (Val F) :=
  let on (f : List F → Val F) : Option (Val F) :=
    some (match aggNums args with | .ok l => f l | .error e => .err e)
  match name with
  | "SUM" => on fun l => fin (fsum l)
  | "PRODUCT" => on fun l => if l.isEmpty then .num Num.zero else fin (fprod l)
  | "SUMSQ" => on fun l => fin (fsum (l.map fun x => Num.mul x x))
  | "AVERAGE" => on fun l => if l.isEmpty then .err .div0 else fin (Num.div (fsum l) (natToF l.length))
  | "MIN" => on fun l => match sortF l with | [] => .num Num.zero | x :: _ => fin x
  | "MAX" => on fun l => match (sortF l).reverse with | [] => .num Num.zero | x :: _ => fin x
  | "MEDIAN" => on medianF
  | "VAR" => on (varF true) | "VAR.S" => on (varF true)
  | "VARP" => on (varF false) | "VAR.P" => on (varF false)
  | "STDEV" => on fun l => sqrtVal (varF true l) | "STDEV.S" => on fun l => sqrtVal (varF true l)
  | "STDEVP" => on fun l => sqrtVal (varF false l) | "STDEV.P" => on fun l => sqrtVal (varF false l)
  | _ => none

/-- `COUNT`: numbers, and typed directly also logicals and numeric text; `COUNTA`: everything that is
not blank; `COUNTBLANK`: blanks and empty text of a range -/
def countFn (name : String) (args : List (Res F)) : Option (Val F) :=
  match name with
  | "COUNT" => some (.num (natToF ((args.flatMap fun r =>
      match r with
      | .scalar (.num _) => [()]
      | .scalar (.bool _) => [()]
      | .scalar (.text s) => if (Num.ofText s : Option F).isSome then [()] else []
      | .scalar _ => []
      | .arr a => a.flatten.filterMap fun v => match v with
          | .num _ => some ()
          | _ => none).length)))
  | "COUNTA" => some (.num (natToF ((flatVals args).filter fun v => match v with | .blank => false | _ => true).length))
  | "COUNTBLANK" => some (.num (natToF ((flatVals args).filter fun v => match v with | .blank => true | .text "" => true | _ => false).length))
  | _ => none

/-- `LARGE(array, k)` / `SMALL(array, k)`, `k` an integer ≥ 1: the k-th largest / smallest number -/
def kthFn (large : Bool) (a : Res F) (k : Val F) : Val F :=
  match firstErr (flatVals [a]) with
  | some e => .err e
  | none =>
    match toNum k with
    | .error e => .err e
    | .ok kx =>
      let s := sortF (a.toArr.flatten.filterMap fun v => match v with | .num x => some x | _ => none)
      let ki := truncInt kx
      if ki < 1 ∨ ki > s.length then .err .num
      else fin ((if large then s.reverse else s).getD (ki.toNat - 1) Num.zero)

/-! ### information -/

def isFn (name : String) (v : Val F) : Option (Val F) :=
  match name with
  | "ISNUMBER" => some (.bool (match v with | .num _ => true | _ => false))
  | "ISTEXT" => some (.bool (match v with | .text _ => true | _ => false))
  | "ISNONTEXT" => some (.bool (match v with | .text _ => false | _ => true))
  | "ISLOGICAL" => some (.bool (match v with | .bool _ => true | _ => false))
  | "ISBLANK" => some (.bool (match v with | .blank => true | _ => false))
  | "ISERROR" => some (.bool (match v with | .err _ => true | _ => false))
  | "ISERR" => some (.bool (match v with | .err .na => false | .err _ => true | _ => false))
  | "ISNA" => some (.bool (match v with | .err .na => true | _ => false))
  | _ => none

/-- `ISODD` / `ISEVEN` of one value: the integer part decides; a logical is `#VALUE!` -/
def parityFn (odd : Bool) (v : Val F) : Val F :=
  match v with
  | .err e => .err e
  | .bool _ => .err .value
  | v => match toNum v with
    | .error e => .err e
    | .ok x => .bool ((truncInt x % 2 ≠ 0) == odd)

/-! ### logical -/

/-- the logical values `AND` / `OR` / `XOR` look at: numbers and logicals, text and blanks are skipped -/
def logicals (args : List (Res F)) : List Bool :=
  (flatVals args).filterMap fun v => match v with
    | .num x => some (!Num.isZero x) | .bool b => some b | _ => none

/-- what one entry contributes to `SUMPRODUCT`: a number itself, anything else (text — also text that
looks like a number —, a logical, a blank) zero -/
def spTerm (v : Val F) : F :=
  match v with
  | .num x => x
  | _ => Num.zero

/-- `SUMPRODUCT(array1, array2, …)`: the arrays must have one shape (else `#VALUE!`); the products of
corresponding entries are added, row by row; an error value anywhere is returned (the first in
argument order) -/
def sumproductFn (args : List (Res F)) : Val F :=
  match firstErr (flatVals args) with
  | some e => .err e
  | none =>
    match args.map Res.toArr with
    | [] => .err .value
    | a :: rest =>
      if rest.all (fun b => b.length == a.length && (b.map List.length) == (a.map List.length)) then
        fin (fsum ((List.range a.flatten.length).map fun i =>
          fprod ((a :: rest).map fun b => spTerm (b.flatten.getD i .blank))))
      else .err .value

def xorFn (args : List (Res F)) : Val F :=
  match firstErr (flatVals args) with
  | some e => .err e
  | none =>
    match logicals args with
    | [] => .err .value
    | l => .bool ((l.filter id).length % 2 = 1)

/-- `SWITCH(expr, case1, value1, …, [default])` on single values: the value of the first case equal to
the expression (text without regard to case, a logical only equals a logical), an error case met on
the way is returned, no match gives the default or `#N/A` -/
def switchEq (a b : Val F) : Bool :=
  match a, b with
  | .num x, .num y => Num.eq x y
  | .text s, .text t => s.toUpper == t.toUpper
  | .bool x, .bool y => x == y
  | .blank, .blank => true
  | _, _ => false

def switchFn (expr : Val F) : List (Val F) → Val F
  | [] => .err .na
  | [d] => d
  | c :: v :: rest =>
    match c with
    | .err e => .err e
    | c => if switchEq expr c then v else switchFn expr rest

/-! ### text -/

def textOf (v : Val F) : Except Err String :=
  match v with
  | .err e => .error e
  | v => .ok (displayVal v)

def asciiUpper (s : String) : String := s.toUpper
def asciiLower (s : String) : String := s.toLower

/-- `TRIM`: words separated by single spaces, none at the ends (only the space character) -/
def trimSpaces (s : List Char) : List Char :=
  let words := (String.ofList s).splitOn " " |>.filter (· ≠ "")
  (" ".intercalate words).toList

/-- position (0-based) of the first occurrence of `pat` in `s` at or after `from` -/
def findFrom (pat s : List Char) (start : Nat) : Option Nat :=
  (List.range (s.length + 1 - start)).map (· + start) |>.find? fun i => pat.isPrefixOf (s.drop i)

/-- the same with a wildcard pattern (already upper-cased together with `s`) -/
def searchFrom (pat : List Pat) (s : List Char) (start : Nat) : Option Nat :=
  (List.range (s.length + 1 - start)).map (· + start) |>.find? fun i => wmatch (pat ++ [.any]) (s.drop i)

/-- replace all (`inst = none`) or the `n`-th (`inst = some n`, `n ≥ 1`) occurrence, left to right
without overlap; an empty `old` changes nothing -/
def substitute (old new : List Char) (inst : Option Nat) : Nat → Nat → List Char → List Char
  | 0, _, s => s
  | _, _, [] => []
  | fuel + 1, seen, c :: s =>
    if old.isEmpty then c :: s
    else if old.isPrefixOf (c :: s) then
      (match inst with
       | none => new ++ substitute old new inst fuel (seen + 1) ((c :: s).drop old.length)
       | some n =>
         if seen + 1 = n then new ++ (c :: s).drop old.length
         else old ++ substitute old new inst fuel (seen + 1) ((c :: s).drop old.length))
    else c :: substitute old new inst fuel seen s

def intArg (v : Val F) : Except Err Int :=
  match toNum v with
  | .ok x => .ok (truncInt x)
  | .error e => .error e

def textFn (name : String) (args : List (Val F)) : Option (Val F) :=
  let err? := firstErr args
  match err? with
  | some e => if name ∈ ["LEN", "LEFT", "RIGHT", "MID", "UPPER", "LOWER", "TRIM", "FIND", "SEARCH", "REPLACE", "SUBSTITUTE", "VALUE", "CONCATENATE"]
      then some (.err e) else none
  | none =>
  let txt (v : Val F) : String := displayVal v
  match name, args with
  | "LEN", [t] => some (.num (natToF (txt t).length))
  | "UPPER", [t] => some (.text (asciiUpper (txt t)))
  | "LOWER", [t] => some (.text (asciiLower (txt t)))
  | "TRIM", [t] => some (.text (String.ofList (trimSpaces (txt t).toList)))
  | "LEFT", [t] => some (.text (String.ofList ((txt t).toList.take 1)))
  | "LEFT", [t, n] => some (match intArg n with
      | .error e => .err e
      | .ok k => if k < 0 then .err .value else .text (String.ofList ((txt t).toList.take k.toNat)))
  | "RIGHT", [t] => some (.text (String.ofList ((txt t).toList.reverse.take 1).reverse))
  | "RIGHT", [t, n] => some (match intArg n with
      | .error e => .err e
      | .ok k => if k < 0 then .err .value else .text (String.ofList ((txt t).toList.reverse.take k.toNat).reverse))
  | "MID", [t, s, n] => some (match intArg s, intArg n with
      | .ok a, .ok k => if a < 1 ∨ k < 0 then .err .value
          else .text (String.ofList (((txt t).toList.drop (a.toNat - 1)).take k.toNat))
      | .error e, _ => .err e
      | _, .error e => .err e)
  | "CONCATENATE", l => some (.text (String.join (l.map txt)))
  | "FIND", f :: w :: rest => some (
      match ((match rest with | [] => Except.ok 1 | [s] => intArg s | _ => Except.error Err.value) : Except Err Int) with
      | .error e => .err e
      | .ok a =>
        if a < 1 ∨ a > (txt w).length + 1 then .err .value
        else match findFrom (txt f).toList (txt w).toList (a.toNat - 1) with
          | some i => .num (natToF (i + 1))
          | none => .err .value)
  | "SEARCH", f :: w :: rest => some (
      match ((match rest with | [] => Except.ok 1 | [s] => intArg s | _ => Except.error Err.value) : Except Err Int) with
      | .error e => .err e
      | .ok a =>
        if a < 1 ∨ a > (txt w).length + 1 then .err .value
        else match searchFrom (parsePat (asciiUpper (txt f)).toList) (asciiUpper (txt w)).toList (a.toNat - 1) with
          | some i => .num (natToF (i + 1))
          | none => .err .value)
  | "REPLACE", [o, s, n, nw] => some (match intArg s, intArg n with
      | .ok a, .ok k => if a < 1 ∨ k < 0 then .err .value
          else .text (String.ofList ((txt o).toList.take (a.toNat - 1) ++ (txt nw).toList ++ (txt o).toList.drop (a.toNat - 1 + k.toNat)))
      | .error e, _ => .err e
      | _, .error e => .err e)
  | "SUBSTITUTE", [t, o, nw] =>
      some (.text (String.ofList (substitute (txt o).toList (txt nw).toList none ((txt t).length + 1) 0 (txt t).toList)))
  | "SUBSTITUTE", [t, o, nw, i] => some (match intArg i with
      | .error e => .err e
      | .ok k => if k < 1 then .err .value
          else .text (String.ofList (substitute (txt o).toList (txt nw).toList (some k.toNat) ((txt t).length + 1) 0 (txt t).toList)))
  | "VALUE", [t] => some (match t with
      | .num x => .num x
      | .text s => (match (Num.ofText s : Option F) with | some x => fin x | none => .err .value)
      | .blank => .num Num.zero
      | _ => .err .value)
  | _, _ => none

/-- `CONCAT`: every element of every argument, in order -/
def concatFn (args : List (Res F)) : Val F :=
  match firstErr (flatVals args) with
  | some e => .err e
  | none => .text (String.join ((flatVals args).map displayVal))

/-- `TEXTJOIN(delimiter, ignore_empty, text…)` with a single delimiter -/
def textjoinFn (delim ignore : Val F) (args : List (Res F)) : Val F :=
  match firstErr (delim :: ignore :: flatVals args) with
  | some e => .err e
  | none =>
    match truthy ignore with
    | none => .err .value
    | some ig =>
      if args.isEmpty then .err .value
      else
        let parts := (flatVals args).map displayVal
        let parts := if ig then parts.filter (· ≠ "") else parts
        .text ((displayVal delim).intercalate parts)

/-! ### the table -/

def blank0 (v : Val F) : Val F := match v with | .blank => .num Num.zero | v => v

def lift1 (f : Val F → Val F) (a : Res F) : Res F := .arr (map1 f a.toArr)

def liftN (f : List (Val F) → Val F) (args : List (Res F)) : Except EvalErr (Res F) :=
  match mapN f .blank (args.map Res.toArr) with
  | some r => .ok (.arr r)
  | none => .error .broadcast

def one1 (v : Val F) : Res F := .arr [[v]]

/-- the library: `none` = not a function of this model -/
def libFn (name : String) (args : List (Res F)) : Option (Except EvalErr (Res F)) :=
  -- aggregations and other whole-argument functions
  match aggFn name args with
  | some v => some (.ok (one1 v))
  | none =>
  match countFn name args with
  | some v => some (.ok (one1 v))
  | none =>
  if name = "XOR" then some (.ok (one1 (xorFn args)))
  else if name = "SUMPRODUCT" then some (.ok (one1 (sumproductFn args)))
  else if name = "AND" then some (.ok (evalAndOr true args))
  else if name = "OR" then some (.ok (evalAndOr false args))
  else if name = "CONCAT" then some (.ok (one1 (concatFn args)))
  else if name = "TEXTJOIN" then
    (match args with
     | d :: i :: rest => (match d.toArr, i.toArr with
        | [[dv]], [[iv]] => some (.ok (one1 (textjoinFn dv iv rest)))
        | _, _ => none)
     | _ => some (.ok (one1 (.err .value))))
  else if name = "LARGE" ∨ name = "SMALL" then
    (match args with
     | [a, k] => some (liftN (fun l => match l with | [kv] => kthFn (name = "LARGE") a (blank0 kv) | _ => .err .value) [k])
     | _ => none)
  else if name = "ISODD" ∨ name = "ISEVEN" then
    (match args with
     | [a] => (match a.toArr with
        | [[v]] => some (.ok (one1 (parityFn (name = "ISODD") v)))
        | _ => some (.ok (one1 (.err .value))))
     | _ => none)
  else if name = "NOT" then
    (match args with | [a] => some (.ok (lift1 notElem (.arr (blankTo (.num Num.zero) a.toArr)))) | _ => none)
  else if name = "IF" then (match evalIf args with | some v => some (.ok v) | none => some (.error .broadcast))
  else if name = "IFS" then (match evalIfs args with | some v => some (.ok v) | none => some (.error .broadcast))
  else if name = "IFERROR" then (match evalIferror args with | some v => some (.ok v) | none => some (.error .broadcast))
  else if name = "IFNA" then (match evalIfna args with | some v => some (.ok v) | none => some (.error .broadcast))
  else if name = "SWITCH" then
    (match args with
     | e :: rest => some (liftN (fun l => match l with
        | ev :: cs => (match ev with | .err x => .err x | ev => switchFn ev cs)
        | [] => .err .value) (e :: rest))
     | [] => none)
  else
  -- element-wise families
  match args with
  | [a] =>
    (match isFn name (.num Num.zero : Val F) with
     | some _ => some (.ok (lift1 (fun v => (isFn name v).getD (.err .value)) a))
     | none =>
       match math1 name (Num.zero : F) with
       | some _ => some (.ok (lift1 (fun v => match v with
            | .err e => .err e
            | v => num1 (fun x => (math1 name x).getD (.err .value)) v) (.arr (blankTo (.num Num.zero) a.toArr))))
       | none =>
         (match textFn name [(.num Num.zero : Val F)] with
          | some _ => some (.ok (lift1 (fun v => (textFn name [v]).getD (.err .value)) a))
          | none => none))
  | _ =>
    (match args with
     | [a, b] =>
       (match math2 name (Num.one : F) Num.one with
        | some _ => some (liftN (fun l => match l with
            | [x, y] => num2 (fun p q => (math2 name p q).getD (.err .value)) x y
            | _ => .err .value) [.arr (blankTo (.num Num.zero) a.toArr), .arr (blankTo (.num Num.zero) b.toArr)])
        | none => (match textFn name (args.map fun _ => (.text "" : Val F)) with
            | some _ => some (liftN (fun l => (textFn name l).getD (.err .value)) args)
            | none => none))
     | _ => (match textFn name (args.map fun _ => (.text "" : Val F)) with
        | some _ => some (liftN (fun l => (textFn name l).getD (.err .value)) args)
        | none => none))

end XL
